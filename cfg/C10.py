"""Configuration of ./check C10 (see cfg/README)."""

PROP = {'drive': ['Subset'], 'modules': ['SfntV.Props.C10'],
 'required_theorems': ['C10_positions',
                       'C10_positions_requested',
                       'C10_closure',
                       'C10_components',
                       'C10_cmap',
                       'C10_cff_cid_encoding',
                       'C10_cff_private',
                       'C10_layout_gpos',
                       'C10_layout_gsub_indices',
                       'C10_closure_rules_partial',
                       'C10_closure_rules_full_false',
                       'C10_nonvacuous'],
 'areas': [('subset', 400, 6000)],
 'rule': 'distinct case lines (abstract font: kind ttf/cff/cid, composite graph, widths, names, cmap subtables, '
         'private dicts/FDSelect/encoding/CIDs, GSUB 1.1/4.1, GPOS 2.1, features; requested glyph list; for '
         'subset.run the glyph order Go produced as oracle); non-trivial = at least 2 requested glyphs',
 'partial': ['C10_closure_rules_full (every GSUB rule whose inputs are all in the FINAL subset has its outputs in '
             'the subset) is false for the code: glyphs that enter only as composite components, after '
             'SubsetGsub has run, can complete a rule (Lean witness C10_closure_rules_full_false; known finding '
             'C10-gsub-over-components). Proved instead: C10_closure_rules_partial (closure of the glyph list '
             'reached at the end of SubsetGsub step 2, for every rule order).',
             'meaning of the rebuilt GSUB subtables (rule list of each lookup = original rule list restricted to '
             'retained rules, renumbered) is '
             'modelled and checked by correspondence (V subset.run) and by the direct predicate on the Go output '
             '(D subset.check clause gsub) but is not yet a Lean theorem; proved: feature lists and '
             'lookup indices unchanged (C10_layout_gsub_indices), CIDs and built-in encoding (C10_cff_cid_encoding), private dicts and font matrices (C10_cff_private)',
             'C10_any_order: every theorem is stated for an arbitrary order (rule permutation, pop sequence), but '
             'that two orders give the same glyph SET, and that a legal pop sequence always exists / the step-2 '
             'fuel suffices (termination), are not proved; the model answers err:order for an illegal oracle',
             'C10_writable: not a theorem (no model of the whole writer here; see C01). V stream subset.writable '
             'compares Write+Read of the real subset with the prediction "ok unless the CFF encoding is '
             'non-contiguous" (known finding C10-cff-encoding-order, DESIGN #38)',
             'cmap subtables of the Macintosh platform (PlatformID 1) are outside the generated domain: Subset '
             're-encodes the decoded (Unicode) codes under the Mac key, so codes >= 128 are translated twice '
             '(finding reported, Go demonstration in the report)'],
 'modelled_not_verified': ['cff.Outlines.Subset (cff/subset.go) has the same body as subsetter.SubsetCFF; only '
                           'the latter (the one Font.Subset calls) is driven by the harness',
                           'coverage-index assignment of the rebuilt GSUB subtables (index = rank of the new glyph '
                           'id, repaired) is abstracted: the model keeps from->to / first->ligatures association '
                           'lists; validity of the tables is exercised by subset.writable',
                           'cmap Encode/Get round trip, Clone, LookupMetaInfo and ScriptList are copied verbatim and '
                           'not modelled; glyph.ID is uint16: fonts with < 65536 glyphs'],
 'assumptions': ['Dom: glyph list duplicate-free (theorems need only that; "starts with 0" is not used), all glyph '
                 'ids and component ids < number of glyphs (otherwise the code panics; the model says panic and '
                 'the harness checks it), Widths/Names/FDSelect/GIDToCID cover all glyphs, FDSelect < number of '
                 'private dicts, only GSUB 1.1/4.1 and GPOS 2.1 subtables, no GDEF, no Mac-platform cmap subtable',
                 'o.rules is a permutation of the rule list (Go ranges over coverage maps); o.pops is the sequence '
                 'of keys pop(todo) returned']}

LEVEL = {'text': 'Proof (partial): for every abstract font, every duplicate-free glyph list and every iteration order '
         'of the Go maps, the Lean model of the repaired (*Font).Subset puts original glyph glyphs[i] at position '
         'i with its outline payload, width and name, appends extras after them without repetition, is closed '
         'under composite components, re-points every component reference to the index that holds the same '
         'original glyph, maps code -> n in every cmap subtable iff the original maps code to the glyph now at n '
         '(no other character mapped), transfers CIDs, the built-in encoding, private dictionaries and font matrices, keeps GPOS pairs exactly among '
         'retained glyphs under the new numbering, keeps feature lists and lookup indices of GSUB/GPOS, and '
         'reaches a GSUB-rule-closed glyph list at the end of SubsetGsub. The model is tied to subset.go by '
         'output-exact correspondence of Subset results on generated TrueType (nested/shared composites), CFF and '
         'CID-keyed fonts with format 4/12 cmaps, GSUB 1.1/4.1 and GPOS 2.1, using the glyph order Go produced as '
         'order oracle, and every clause (also the unproved GSUB-rule clause) is evaluated '
         'directly on the Go output. Six defects of subset.go were found and repaired on the way; two more are '
         'recorded as open findings.',
 'note': 'Trusted: Lean kernel + 3 standard axioms; hand-written model of subset.go checked by sampled '
         'correspondence; the harness reconstruction of abstract fonts as real sfnt.Font values; outline payloads '
         'are opaque ids (pointer identity / unique bounding boxes in the harness).',
 'technique': 'Lean 4 proofs about an executable model with explicit map-iteration order + differential '
              'correspondence with order oracle + direct evaluation of the property clauses on Go results'}
