"""Configuration of ./check C10 (see cfg/README)."""

PROP = {'drive': ['Subset'], 'modules': ['SfntV.Props.C10'],
 'required_theorems': ['C10_positions',
                       'C10_positions_requested',
                       'C10_closure',
                       'C10_components',
                       'C10_cmap',
                       'C10_cff_cid_encoding',
                       'C10_cff_private',
                       'C10_layout_gpos',
                       'C10_layout_gsub_indices',
                       'C10_closure_rules',
                       'C10_closure_total',
                       'C10_panic_iff',
                       'C10_total_ok',
                       'C10_any_order',
                       'C10_layout_gsub',
                       'C10_writable_glyphs',
                       'C10_writable_coverage',
                       'C10_writable_encoding',
                       'C10_writable_encoding_witness',
                       'C10_writable',
                       'C10_writable_gsub12_roundtrip',
                       'C10_writable_nonvacuous',
                       'C10_nonvacuous'],
 'areas': [('subset', 400, 6000)],
 'rule': 'distinct case lines (abstract font; CFF built-in encodings may give several codes to one glyph;  kind ttf/cff/cid, composite graph, widths, names, cmap subtables, '
         'private dicts/FDSelect/encoding/CIDs, GSUB 1.1/4.1, GPOS 2.1, features; requested glyph list; for '
         'subset.run the glyph order Go produced as oracle); non-trivial = at least 2 requested glyphs',
 'partial': ['C10_writable places every table Subset REBUILDS (GSUB 1.2/4.1, GPOS 2.1, cmap subtables, CFF built-in '
             'encoding) in the domain of the codec theorems of C08 / C09b / C13 (WritableByCodecs), under Dom and - '
             'for simple CFF fonts with an encoding - EncodedFirst; it is not a model of sfnt.Write: tables copied '
             'verbatim (ScriptList, feature lists, lookup flags, value records, outlines/charstrings, private dicts, '
             'glyph names/SIDs, hinting, maxp/head/OS2/name/post) are in their codec domains iff the original\'s are, '
             'and the assembly into a file is C01/C03. A rebuilt GSUB/GPOS subtable whose size exceeds the 16-bit '
             'offsets (e.g. a 1.1 coverage of more than 32764 retained glyphs rebuilt as 1.2) is refused by the '
             'encoder with the panic that exists in the code (C08 refusal theorems) - not excluded by Dom. Outside '
             'EncodedFirst the CFF encoding cannot be written: known finding C10-cff-encoding-order (DESIGN #38), '
             'Lean witness C10_writable_encoding_witness. Tie: V stream subset.writable, D stream subset.encrt'],
 'modelled_not_verified': ['cff.Outlines.Subset (cff/subset.go) is driven separately (V stream subset.cffrun) against the same '
                           'SubsetCFF model with cmap and layout tables removed',
                           'coverage-index assignment of the rebuilt GSUB subtables (index = rank of the new glyph '
                           'id, repaired) is abstracted: the model keeps from->to / first->ligatures association '
                           'lists; validity of the tables is exercised by subset.writable',
                           'cmap Encode/Get round trip, Clone, LookupMetaInfo and ScriptList are copied verbatim and '
                           'not modelled; glyph.ID is uint16: fonts with < 65536 glyphs'],
 'assumptions': ['Model of subset.go at /repo HEAD (all C10 repairs, including the joint closure of GSUB outputs and '
                 'composite components, are committed). Dom: glyph list duplicate-free (theorems need only that; "starts with 0" is not used), all glyph '
                 'ids REACHABLE from the list (GSUB rules, components) < number of glyphs (otherwise the code panics: '
                 'theorem C10_panic_iff, also checked by the malformed stream), Widths/Names/FDSelect/GIDToCID cover all glyphs, FDSelect < number of '
                 'private dicts, only GSUB 1.1/4.1 and GPOS 2.1 subtables, no GDEF; cmap subtables in the decoded (Unicode) view '
                 'cmap.Table.Get gives, Macintosh-platform subtables included (after repair patches/C10/01)',
                 'o.rules k is a permutation of the rule list in round k of the outer loop (Go ranges over coverage '
                 'maps); o.pops[k] is the sequence of keys pop(todo) returned in round k']}

LEVEL = {'text': 'Proof (partial): for every abstract font, every duplicate-free glyph list and every iteration order '
         'of the Go maps, the Lean model of the repaired (*Font).Subset puts original glyph glyphs[i] at position '
         'i with its outline payload, width and name, appends extras after them without repetition, is closed '
         'under composite components, re-points every component reference to the index that holds the same '
         'original glyph, maps code -> n in every cmap subtable iff the original maps code to the glyph now at n '
         '(no other character mapped), transfers CIDs, the built-in encoding, private dictionaries and font matrices, keeps GPOS pairs exactly among '
         'retained glyphs under the new numbering, keeps feature lists and lookup indices of GSUB/GPOS, keeps exactly the GSUB rules whose '
         'glyphs are all retained (same order, renumbered), is closed under every GSUB rule, terminates for every '
         'iteration order, and retains the same glyph set for every order. The model is tied to subset.go by '
         'output-exact correspondence of Subset results on generated TrueType (nested/shared composites), CFF and '
         'CID-keyed fonts with format 4/12 cmaps, GSUB 1.1/4.1 and GPOS 2.1, using the glyph order Go produced as '
         'order oracle, and every clause  is evaluated '
         'directly on the Go output. Six defects of subset.go were found and repaired on the way; two more are '
         'recorded as open findings.',
 'note': 'Trusted: Lean kernel + 3 standard axioms; hand-written model of subset.go checked by sampled '
         'correspondence; the harness reconstruction of abstract fonts as real sfnt.Font values; outline payloads '
         'are opaque ids (pointer identity / unique bounding boxes in the harness).',
 'technique': 'Lean 4 proofs about an executable model with explicit map-iteration order + differential '
              'correspondence with order oracle + direct evaluation of the property clauses on Go results'}
