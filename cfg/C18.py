"""Configuration of ./check C18 (see cfg/README)."""

PROP = {'drive': ['Faults'],
 'harness_files': ['area_faults.go'],
 'modules': ['SfntV.Props.C18'],
 'required_theorems': ['C18_write',
                       'C18_write_refused',
                       'C18_write_honest',
                       'C18_write_atomic',
                       'C18_write_late',
                       'C18_counts',
                       'C18_cff_sections',
                       'C18_destinations',
                       'C18_truncated',
                       'C18_reader_fault',
                       'C18_limited',
                       'C18_sources',
                       'C18_loop_shape',
                       'C18_scalers',
                       'C18_parser_fault',
                       'C18_parser_unaffected',
                       'C18_parser_error',
                       'C18_model_agrees',
                       'C18_accepts_complete',
                       'C18_dichotomy',
                       'C18_type_asserts'],
 # budget = number of corpus fonts / table sets; every fault point k of each is enumerated
 'areas': [('faults', 8, 20)],
 'thorough_seeds': 1,
 'rule': 'one case line = one block of up to 256 consecutive fault points k of one font/table set, one destination or '
         'source kind (distribution groups count single fault points); non-trivial = at least two tables',
 'partial': ['the table decoders behind header.Read are a parameter (`decode`) of the model of sfnt.Read: the theorems '
             'say header.Read already rejects every cut before the end of the last table, which makes the decoders '
             'irrelevant for the property; what sfnt.Read does for k in the padding after the last table (accepts) is '
             'observed as a diagnostic stream only',
             'C18_truncated / C18_reader_fault / C18_dichotomy are stated for files produced by header.Write (domain of '
             'C03; acceptance additionally needs a supported scaler type, printable names and <= 280 tables, as '
             'C03_read_write) and, as C18_limited, for any file whose directory entries do not wrap around 2^32; '
             'for k in the padding between the end of the last allocation and the end of the file nothing is '
             'claimed (the code accepts; diagnostic stream)',
             '(*cff.Font).Write: the section loop is modelled over the observed section lengths; the section contents '
             'are C13',
             'cff.Read on truncated / failing sources is checked by direct predicate on the real code for every k '
             '(no Lean model of the CFF reader here: C13); the parser-level theorems cover the primitive it relies on',
             'which tail offsets are needed: a ReaderAt is only accessed below the end of the last allocation, so a '
             'ReaderAt failing at k >= that end is (rightly) accepted; a plain Reader is read to its end, so a stream '
             'reporting any non-EOF error (generic, io.ErrUnexpectedEOF, alone or together with its last chunk) '
             'after k < len(file) bytes must be rejected (D); a stream ending with EOF at k is the file cut at k and '
             'must be rejected for k before the end of the last data-carrying table (D); cuts inside the padding after '
             'it are observed only (G faults.tail, predicted exactly by the model)',
             'table level: every decoder with a reader argument (head, maxp, OS/2 on io.Reader; post, kern, cff, GDEF, '
             'GSUB, GPOS on parser.ReadSeekSizer) is called directly on sources failing with a non-EOF error at every '
             'k < len(table), in three variants ((0, err) on the next call; (n > 0, err); a whole access refused): D '
             'predicate "never a value after a failed read" (faults.decoder). The parser-based decoders rest on '
             'C18_parser_fault/_error; os2/head/maxp use encoding/binary on an io.Reader and are D-only (no Lean model '
             'of their read sequence). A ReaderAt with an unreadable REGION [a,b) goes beyond the property (sources '
             'failing from an offset on) and is a diagnostic stream (faults.region)',
             'parser model: the source delivers f[0,k) and then ends; a source that returns n > 0 bytes together '
             'with a non-EOF error, or fails a read-ahead that merely touches k, makes operations fail earlier than '
             'needed (allowed by the property) and is not modelled'],
 'modelled_not_verified': ['the destination takes p[:n] of each Write(p) (io.Writer contract); bytes.Reader.ReadAt, '
                           'io.SectionReader and io.ReadAll semantics (standard library) are re-stated in the model '
                           '(memReader, readAll) and compared by correspondence',
                           'table map construction in (*Font).Write / WriteTrueTypePDF / WriteOpenTypeCFFPDF is not '
                           'modelled: the model is given the table names and lengths of the complete output and '
                           'predicts (n, err) for every k; makeCFF writes to a bytes.Buffer, which cannot fail'],
 'assumptions': ['Dom (reading half only): map keys distinct (Go map), file size < 2^32, fewer than 4096 tables',
                 'a failing source reports its failure as an error from ReadAt/Read (not by returning wrong bytes)']}

LEVEL = {'text': 'Proof: for every table set and every fault point k, the model of header.Write\'s write loop against a '
         'destination that accepts exactly k bytes (short writes) returns err != nil iff k < file length and '
         'n = min(k, length) = number of bytes the destination took = a prefix of the file, and on success the '
         'whole file; the same count/prefix facts for every destination that keeps the io.Writer contract '
         '(wherever and however often it fails), and error-iff-does-not-fit for destinations failing without a short '
         'write or reporting n > 0 with the error; same for the CFF section loop. For every file written in the '
         'domain of C03 and every k before the end of some table, the model of header.Read on the k-byte prefix, '
         'and on a ReaderAt that fails for accesses touching offsets >= k, returns an error (it reads the last '
         'byte of the last table), so sfnt.Read fails for seekable and streaming sources. Tied to the Go code by '
         'exhaustive enumeration of k over a corpus of fonts (CFF and glyf outlines, all three sfnt writers, '
         'cff.Write, header.Write on synthetic table sets): Go (n, err) = model for every k, header.Read outcome '
         'class = model for every k, and sfnt.Read rejects every k inside table data. At the level of '
         'parser.Parser: for every input, every short-read behaviour and every history of operations, the parser on a '
         'source ending at k (EOF or error) returns what a cursor over the k-byte view returns; operations whose '
         'bytes lie below k are unaffected, operations reaching k return an error, and a bulk Read never reports '
         'a short count without the error (C18_parser_*). Direct predicates on the real code for every k: '
         'count = bytes taken / error iff k < total / success = whole file for all five writers, histories on '
         'parser.Parser over sources ending at every k, cff.Read on CFF data cut or failing at every k, including '
         'layouts whose last section is a multi-chunk INDEX.',
 'note': 'Trusted: Lean kernel + 3 standard axioms; hand-written models of the write loops and of header.Read '
         'against an abstract io.ReaderAt, checked against the code for every fault point of the corpus; the '
         'standard library io contracts as restated in the model.',
 'technique': 'Lean 4 proof about the I/O loop models + exhaustive fault-point correspondence on a font corpus'}
