"""Configuration of ./check C13 (see cfg/README)."""

PROP = {'drive': ['Cff'], 'modules': ['SfntV.Props.C13'],
 'required_theorems': ['C13_index_roundtrip',
                       'C13_index_encode_ok_iff',
                       'C13_index_offsize',
                       'C13_dictint_roundtrip',
                       'C13_dictint_sizes',
                       'C13_dictreal_nibbles',
                       'C13_dictreal_decimal',
                       'C13_dictreal_roundtrip_partial',
                       'C13_dictreal_roundtrip',
                       'C13_dict_roundtrip',
                       'C13_charset_roundtrip',
                       'C13_fdselect_roundtrip',
                       'C13_encoding_roundtrip',
                       'C13_strings_roundtrip',
                       'C13_layout_consistent',
                       'C13_privatedict_roundtrip',
                       'C13_topdict_roundtrip',
                       'C13_font_roundtrip_simple',
                       'C13_font_roundtrip_cid',
                       'C13_font_roundtrip',
                       'C13_write_converges',
                       'C13_blue_deltas_roundtrip',
                       'C13_blue_deltas_unrepaired_wrap',
                       'C13_font_roundtrip_total',
                       'C13_width_recovered',
                       'C13_predefined_charset',
                       'C13_predefined_encoding',
                       'C13_predefined_tables',
                       'C13_widths_integral',
                       'C13_width_stored_exactly',
                       'C13_facts'],
 'areas': [('cff', 2000, 15000)],
 'rule': 'distinct case lines (section encoder inputs / section bytes / font descriptions); non-trivial = at least one '
         'object, glyph or operand beyond the empty structure',
 'partial': ['C13_font_roundtrip (InDomain f -> readFont (writeFont f) = ok (nf f), files shorter than 2 GiB) is proved for both '
             'classes: simple fonts with the Standard, the Expert or a custom encoding (SimpleDom, normal form nfSimple) and '
             'CID-keyed fonts with 1-256 private DICTs (CidDom, normal form nfCid: ROS, GIDToCID, FDSelect, one font matrix and '
             'private DICT per FD). Restrictions of the domain: simple fonts have exactly one private DICT; private DICTs have no '
             'local subroutines and there are no global subroutines (Write emits empty INDEXes); all private DICTs carry the '
             'same default/nominal width (as in Write: one selectWidths call per font); charstrings are opaque. '
             'Non-vacuity: three written files (simple, custom encoding, CID with two FDs) are read back inside Lean.',
             'C13_dictreal_roundtrip is proved from the nine-digit integer and decimal-point position onwards (|l| <= 280); '
             'the float64 step of encodeFloat (Log10/Pow10/Round producing the nine digits, i.e. "to nine significant digits") '
             'is not modelled; it is compared by correspondence on decimals of 1-12 digits, including a fixed boundary family: mantissas '
             '999999999, 999999998, 100000000, 100000001 and shorter all-nines at every exponent -40..40 and +-100/200/290, both signs '
             '(V cff.real.enc/dec: the model is exact on at most nine digits; D cff.dict.specdec), 10-12 digit values that round to 10^9 or '
             'just below it / to 10^8 or just above it (no exact ties), and whole fonts with all-nines ItalicAngle, StdHW/StdVW, BlueScale and '
             'FontMatrix entries through cff.file.rt / cff.file.model.',
             'C13_encoding_roundtrip carries the hypothesis "encodeEncoding returned bytes": inside the contiguity domain the '
             'encoder refuses (error "too many segments") when the primary codes form more than 255 ranges (256 encoded glyphs '
             'with scattered codes); the real code returns that error there, it does not write a wrong table.',
             'C13_width_recovered: the link "the interpreter reads the written number as the reported value" is C04_number_partial / '
             'C05_number_roundtrip; here the T2 encoder model of C04 (Model/T2Encode) is shown exact on 16.16 values below 32768.',
             'Charstrings are opaque in readFont: cff.Read interprets them (property C05); the stream cff.file.read skips damaged '
             'files whose outcome is a charstring error, reals of more than 15 digits, strings that getString would sanitise, and '
             'compares ItalicAngle (float arithmetic in normaliseAngle) and widths only on undamaged files.',
             'Spec readers (specIndex, specCharset, specFDSelect, specEncoding, Spec.readFont) are evaluated on the Go bytes (D '
             'streams); round-trip theorems are stated for the models of the Go readers, not for the spec readers. The predefined '
             'tables used by the spec reader are the regenerated ones (not an independent copy of TN5176 Appendix B/C).',
             'type1.PrivateDict has no StemSnapH/V and FamilyBlues fields; nothing to round-trip there.'],
 'modelled_not_verified': ['strconv.ParseFloat: grammar and exact decimal value modelled (parseDec), float64 rounding '
                           'compared through the shortest decimal for inputs of at most 15 significant digits',
                           'math.Log10/Pow10/Round in encodeFloat and the float sum/division in selectWidths (exact on '
                           '16.16 inputs away from rounding ties)',
                           'parser.Parser used as a plain byte view (property C17)',
                           'sort.Search re-implemented (searchLoop) and proved to return the least index of a monotone '
                           'predicate'],
 'assumptions': ['INDEX: fewer than 65 536 objects, body shorter than 2^32-1 bytes (exactly the inputs on which encode '
                 'does not panic, C13_index_encode_ok_iff)',
                 'charset: names[0] = 0, all SIDs/CIDs in 0..65535, at most 65 535 glyphs (values outside 0..0xFFFF '
                 'are refused by the repaired encodeCharset; the unrepaired code truncated them silently)',
                 'FDSelect: 1..65 535 glyphs, FD indices < number of private dicts <= 256',
                 'DICT integers: int32; reals: nine-digit mantissa chosen by the float computation',
                 'widths are 16.16 fixed-point numbers, |w| <= 32767',
                 'offset fixed point of Write: the Go loop has no bound; the model loop runs with fuel writeFuel = 40 + 15 x (number of '
                 'private DICTs) and C13_write_converges proves, for every font whose pre-loop part succeeds, that the loop settles '
                 'within 39 + 15 x (number of private DICTs) passes (monotone section sizes; each non-final pass moves the last '
                 'section; it can move at most 37 + 15 bytes per private DICT). Remaining hypotheses of C13_font_roundtrip_total: a '
                 'custom encoding vector is accepted by encodeEncoding (it refuses more than 255 ranges) and writeFits (Top DICT, '
                 'string INDEX and FDArray stay below the 4 GiB / 65535-item limits of an INDEX with five-byte operands - otherwise '
                 'cffIndex.encode panics in the Go code); the model works on unbounded integers, the int32 offsets of the Go code '
                 'wrap above 2 GiB (the read-back clause is stated for files < 2 GiB). The sweep family (D cff.file.rt, V '
                 'cff.file.model) still exercises the real loop: up to 6 passes observed',
                 'fixed families on the real code (D cff.file.rt, V cff.file.model, spec and read models): built-in encodings that are a proper '
                 'part of the Standard / Expert encoding (glyph names predefined, only glyphs 1..k encoded), the whole predefined encoding, '
                 'and a part plus one foreign code; cross-defaults: every numeric Top DICT / Private DICT field (UnderlinePosition/Thickness, '
                 'ItalicAngle, BlueShift, BlueFuzz, BlueScale, StdHW, StdVW, FontMatrix, widths) takes the default value of each other field '
                 'and its own default +-1, one field at a time and all together (values inside the documented omission windows - BlueScale '
                 'within 1e-6, FontMatrix within 1e-5 of the default - are excluded from the D predicate)',
                 'blue arrays: every int16 array round-trips (C13_blue_deltas_roundtrip: library reader and TN5176 reader), also with neighbouring '
                 'values more than 32767 apart and descending arrays (fixed family, gaps 32766..65535, through cff.file.rt/model/spec/read); '
                 'the unrepaired writer wrapped such deltas into int16 (repaired in e13ef76, witness C13_blue_deltas_unrepaired_wrap). '
                 'Widths: all-large multisets (65534..2*10^6, negative too, spread '
                 'within 32767 of the nominal width) round-trip through cff.file.rt although C13_width_recovered is stated for |w| <= 32767',
                 'round-7 fixed family: integral UnderlinePosition/Thickness at and beyond the int32 range (+-2^31, 3e9, -5e9, 1e10, 1e15; '
                 'values of at most nine digits, written as reals), CID fonts and FDSelect tables with 1023..1026 (3000 in the section '
                 'streams and in thorough) glyphs in format 0 and format 3, INDEX data of exactly 254/255/256 and 65534/65535/65536 bytes '
                 'in one and two objects, font names of 254/255/256 bytes (Name INDEX data exactly 255)',
                 'ItalicAngle far outside [-180,180) (+-540, +-541, +-720, 1000, 1e4, 1e6, fractional): Read normalises it; the model of Read reduces '
                 'the exact decimal modulo 360 (V cff.file.read on the written file) and the D predicate cff.file.rt2 evaluates the '
                 'convergence clause on the real code (Write, Read, Write, Read: the second round trip reproduces the first and the angle lies '
                 'in [-180,180))',
                 'zero-length INDEX elements: D cff.index.rt on the real code (readIndex(encode x) = x; empty elements first, middle, last, all) and '
                 'D cff.file.rtself (Write refuses or Read gives the font back) on fonts with an empty glyph name, an empty ROS registry / '
                 'ordering and an empty FontName - the unchanged Write accepts all of them and Read returns them',
                 'font matrices equal to the applicable default in the linear part only (translation 0.25, -0.125, 0.5, 0.0625, 1e-4, 100, ...) or in '
                 'all but one linear entry, in the simple top DICT, the CID-keyed top DICT and the Font DICTs (D cff.file.rt, V cff.file.model; the '
                 'model of the omission test fontMatrixNeeded compares all six entries)',
                 'encodings with 250..256 codes (contiguous, scrambled, partly ranged, range counts 1..256 around 127/128/129 and 255, '
                 'supplements) are a fixed boundary family: D cff.encoding.rt on the real code, V against the model, whole fonts with 255/256 '
                 'encoded glyphs; 256 glyphs in 256 ranges are refused by encodeEncoding (neither format can hold them), verdict only',
                 'SimpleDom (Proofs/CffFontRt.lean): one private DICT; a custom encoding vector has 256 entries, glyph ids '
                 'inside the font and contiguous, distinct glyph names (the domain of C13_encoding_roundtrip); Latin-1 byte strings, '
                 'first glyph .notdef with SID 0, SIDs below 65536, operands in the domains of the section theorems',
                 'CidDom (Proofs/CffFontRtCid.lean): ROS present, 1..256 private DICTs, one CID (0..65535, first 0) and one FD '
                 'index (< number of private DICTs) per glyph, fewer than 65536 glyphs, Latin-1 registry/ordering, six-entry font '
                 'matrices, operands in the domains of the section theorems']}

LEVEL = {'text': 'Proof (partial): INDEX write/read round trip for every list of byte strings with minimal sufficient '
         'offSize; DICT integers of all five size classes over the whole int32 range; nibble-coded reals up to the exact '
         'decimal; charset formats 0/1/2 and FDSelect formats 0/3 (with the binary search of the returned function) for '
         'all inputs in the documented domain; encodings formats 0/1 with supplements (multiply-encoded glyphs) under the '
         'contiguity rule; whole DICTs; SID<->string; the exit state of the offset fixed-point loop of Write (every stored '
         'offset is the position of its target); integrality of the stored default/nominal widths (after the repair of the '
         'int32 truncation). Each model is tied to the Go function byte-exactly through hooks, readers also '
         'on mutated bytes; independent TN5176 readers written in Lean are evaluated on whole fonts written by the real '
         '(*cff.Font).Write (simple and CID-keyed, 1-256 private dicts, custom encodings with multiply-encoded glyphs, '
         'fractional widths), and the real Write->Read is compared field by field.',
 'note': 'Trusted: Lean kernel + 3 standard axioms; hand-written models mirror cff/index.go, dict.go, charset.go, '
         'fdselect.go, encoding.go, strings.go, write.go:selectWidths as checked by sampled byte-exact correspondence; '
         'the spec readers are my reading of TN5176/5177. The composition of the section theorems through cff.Read '
         '(C13_font_roundtrip) is evaluated (streams cff.file.rt, cff.file.spec), not proved.',
 'technique': 'Lean 4 proofs about section encoder/decoder models + byte-exact differential correspondence + '
              'Lean spec CFF reader applied to real output'}
