"""Configuration of ./check C13 (see cfg/README)."""

PROP = {'modules': ['SfntV.Props.C13'],
 'required_theorems': ['C13_index_roundtrip',
                       'C13_index_offsize',
                       'C13_dictint_roundtrip',
                       'C13_dictint_sizes'],
 'areas': [('cff', 600, 12000)],
 'rule': 'distinct case lines (section encoder inputs / section bytes); non-trivial = at least one object, '
         'glyph or operand beyond the empty structure',
 'partial': [],
 'modelled_not_verified': [],
 'assumptions': []}

LEVEL = {'text': 'Proof (partial).',
 'note': '',
 'technique': 'Lean 4 proof about section encoder/decoder models + byte-exact differential correspondence'}
