"""Configuration of ./check C08 (see cfg/README)."""

PROP = {'drive': ['Otl'], 'modules': ['SfntV.Props.C08'],
 'required_theorems': ['C08_cov_roundtrip', 'C08_cov_len', 'C08_cov_indices', 'C08_cov_minimal', 'C08_cov_order_independent',
                       'C08_classdef_roundtrip', 'C08_classdef_len', 'C08_classdef_refusal',
                       'C08_st_roundtrip_gsub1_1', 'C08_st_len_gsub1_1', 'C08_st_roundtrip_gsub1_2',
                       'C08_st_len_gsub1_2', 'C08_st_roundtrip_gsub2_1_3_1', 'C08_st_len_gsub2_1_3_1', 'C08_st_roundtrip_gsub4_1', 'C08_st_roundtrip_gsub8_1',
                       'C08_lookuplist_layout', 'C08_valuerecord_roundtrip', 'C08_st_roundtrip_gpos1_1',
                       'C08_st_roundtrip_gpos1_2', 'C08_gpos1_2_normal_form', 'C08_st_roundtrip_gpos2_1',
                       'C08_anchor_roundtrip', 'C08_st_roundtrip_gpos3_1', 'C08_markarray_roundtrip',
                       'C08_st_roundtrip_gpos4_1_6_1', 'C08_gpos2_2_classpart', 'C08_st_roundtrip_gpos2_2',
                       'C08_st_roundtrip_seqcontext1', 'C08_st_roundtrip_seqcontext3',
                       'C08_st_roundtrip_chainedseqcontext1', 'C08_st_roundtrip_chainedseqcontext3',
                       'C08_ctx_classpart', 'C08_st_roundtrip_seqcontext2', 'C08_st_roundtrip_chainedseqcontext2',
                       'C08_gtab_roundtrip_full', 'C08_gtab_header_v11', 'C08_readlookuplist_sound',
                       'C08_info_roundtrip', 'C08_info_roundtrip_nonvacuous', 'C08_gdef_roundtrip_value', 'C08_gdef_roundtrip_eq',
                       'C08_reader_prefix_only_gsub', 'C08_reader_prefix_only_gpos', 'C08_codec_law',
                       'C08_gsub_info_roundtrip', 'C08_gpos_info_roundtrip', 'C08_gsub_info_roundtrip_nonvacuous',
                       'C08_readlookuplist_accepts', 'C08_tryreorder_complete', 'C08_info_roundtrip_go', 'C08_gsub_info_roundtrip_go',
                       'C08_gpos_info_roundtrip_go',
                       'C08_reader_cov_in_range_coverage', 'C08_reader_cov_in_range_gsub1_2',
                       'C08_reader_cov_in_range_gsub2_1_3_1', 'C08_reader_cov_in_range_gsub4_1',
                       'C08_reader_cov_in_range_gsub8_1', 'C08_reader_cov_in_range_gpos1_2',
                       'C08_reader_cov_in_range_gpos3_1', 'C08_reader_cov_in_range_gpos4_1_6_1',
                       'C08_reader_cov_in_range_seqcontext1', 'C08_reader_cov_in_range_chainedseqcontext1',
                       'C08_featurelist_roundtrip', 'C08_gdef_roundtrip', 'C08_gtab_roundtrip',
                       'C08_gtab_nil_normal_form', 'C08_scriptlist_roundtrip', 'C08_scriptlist_encode_total',
                       'C08_gtab_scriptlist_roundtrip'],
 'areas': [('otl', 900, 12000)],
 'rule': 'distinct case lines; non-trivial = coverage/class tables with at least two glyphs/runs, every '
         'subtable, every lookup-list and every mutated-bytes case',
 'partial': ['codecs proved: GSUB 1.1, 1.2, 2.1, 3.1, 4.1, 8.1, GPOS value records, GPOS 1.1, 1.2, 2.1, 2.2, anchors, mark arrays, GPOS 3.1, 4.1, 6.1, SeqContext1/2/3, ChainedSeqContext1/2/3, feature list, '
             'script list, GSUB/GPOS header, GDEF',
             'every codec with an encoder in the library has a round-trip theorem; additionally all are tied by '
             'byte-exact encode / value-exact decode correspondence (incl. the 16-bit boundary of every offset, '
             'nil vs empty rule sets, mutated bytes), by D otl.ctx.len (|encode| = encodeLen on the real code) and '
             'by D otl.ll.prop on lookup lists of real context subtables. Not modelled: GPOS 5.1 (the library has '
             'no encoder for it: encode/encodeLen panic "not implemented")',
             'context lookups: hypotheses that are restrictions of the code, not of the data: SeqContext3 / '
             'ChainedSeqContext3 need at least one (input) coverage table (the readers reject 0, the encoders write '
             'it); class-based formats keep only NumClasses rule sets on reading (hcls); ChainedSeqContext1/2 '
             'check header offsets only when they meet a non-nil rule set (hn: > 32764 rule sets, all nil, wrap the '
             'coverage offset silently - degenerate, not repaired); ChainedSeqContext2.read recomputes the '
             'encoder positions from the decoded class tables (hal)',
             'script list: ScriptListInfo.encode / readScriptList are modelled and proved on the OpenType side of '
             'the tag conversion (C08_scriptlist_roundtrip: every (script, language system, required, optional) '
             'entry written is read back and nothing else, wherever the list lies in a table; entries compared as '
             'a Go map). bcp47ToOtf/otfToBCP47 mutually inverse on the library tables is property C14 '
             '(C14_tag_roundtrip_partial), an assumption here; the accepted tag sets are regenerated from '
             'locale.go. Normal form: an optional feature index 0xFFFF is outside the domain (the reader turns '
             'it into 0). Tied by byte-exact encode / value-exact decode correspondence incl. the 16-bit '
             'boundaries and mutated bytes (streams otl.sl.*). Not repaired: the default-LangSys offset of a '
             'script with more than 10921 named language systems is written unchecked (the library knows far '
             'fewer language tags)',
             'GSUB/GPOS table: C08_gtab_roundtrip_full composes header, script list, feature list and lookup list '
             '(C08_gtab_header_v11: version 1.1 headers with a feature variations offset are read the same way); the whole decoder gtab.Read (header, script list, feature list, lookup list with the real '
             'GSUB reader for lookup types 1-4) is additionally tied by value-exact correspondence (otl.gtab.read). '
             'Normal form: a nil ScriptList/FeatureList/LookupList is written and read back as the empty list '
             '(C08_gtab_nil_normal_form, repair 10)',
             'readLookupList (the Go reader of lookup lists, with its 6000-entry budget and its two-pass '
             'extension resolution) is modelled, tied by value-exact correspondence on encoder output, hand-built '
             'extension lookups and mutated bytes (stream otl.ll.read), and proved sound against the specification '
             'reader on every accepted byte string (C08_readlookuplist_sound; subtables as positions), and to accept '
             'whatever the specification reader finds within its budget of 6000 lookups + subtables '
             '(C08_readlookuplist_accepts); beyond the budget it refuses lists the encoder writes (loud)',
             'Info as one value (adapter for C01): C08_gsub_info_roundtrip(_go) / C08_gpos_info_roundtrip(_go) over '
             'arbitrary mixes of subtables (sum-type codecs gsubCodec / gposCodec behind the real dispatchers). '
             'Info.readGo is the model of gtab.Read itself (Go lookup-list reader with its 6000-entry budget, the '
             'codec as subtable reader): C08_readlookuplist_accepts is the converse of C08_readlookuplist_sound, and on '
             'encoder output within the budget (BudgetOk) Info.readGo = Info.read = nf. Class tables: any table with '
             '16-bit glyph ids and classes; the normal form ClassDef.nfTab is what Read makes of what Append writes '
             '(a decoded class LIST is not a fixed point of re-encoding: the reader of format 2 stores later ranges '
             'first, format 1 ascending, and re-encoding may change the format - as Go maps they are equal). GDEF: '
             'C08_gdef_roundtrip_eq. Remaining hypothesis of the ChainedSeqContext2 membership (hal): re-encoding '
             'the decoded class tables needs no more room than the tables written. No kernel-checked example with '
             'an extension lookup (needs > 64 KiB of subtables); the extension path is covered by the theorems and '
             'exercised by the streams',
             'reader post-condition (the shape C07 assumes): C08_reader_cov_in_range_*: on every accepted byte string '
             'every coverage index is an index of the array delivered next to it (GSUB 1.2/2.1/3.1/4.1/8.1, GPOS '
             '1.2/3.1/4.1/6.1 mark+base, SeqContext1, ChainedSeqContext1); evaluated on the real readers by D '
             'otl.sub.inrange on count/coverage inconsistency families. GPOS 2.1 is a map (no index); the class-based '
             'and coverage-based context formats have no array indexed by a coverage table',
             'feature list: the Go reader result is checked against an independent specification reader on every '
             'accepted byte string generated (D otl.fl.spec: record i carries tag i and the indices of the table at '
             'its own offset; hand-assembled lists with shared tables, repeated and unsorted tags); model = '
             'specification is not proved as a theorem',
             'encoder/reader disagreements (loud: the written table is rejected by the library reader): GPOS 4.1/6.1 '
             'base arrays with more than 32764 anchor offsets and GPOS 2.2 with class1Count*class2Count >= 65536 '
             '(all records nil) are now refused by the encoders (repairs 19, 18). Open: SeqContext3 / '
             'ChainedSeqContext3 without (input) coverage are written by the encoders and rejected by the readers '
             '(hypothesis hne; known finding C08-context3-no-input, D otl.ctx.rt): an encoder refusal would break two '
             'fuzz seeds of the library test suite, and the reader cannot accept the shape because apply() indexes '
             'Input[0]',
             'GPOS 1.2: a nil record next to non-nil ones reads back as a zero record (explicit normal '
             'form, C08_gpos1_2_normal_form); 65536 records (possible only if all are nil) are outside '
             'the theorem: valueCount is then written as 0 (not repaired, no practical input)',
             'lookup lists: a lookup whose subtables before the last one exceed 64 KiB, and an '
             'extension-needing list made only of contextual subtables, are now refused (panic) rather '
             'than written through extension records: loud, but representable data is not written'],
 'modelled_not_verified': ['Go map iteration, maps.Keys + sort in Table.Glyphs/Set.ToTable/CovAndAdjust: '
                           'the models take the sorted lists these produce',
                           'sort.SliceStable in tryReorder = List.mergeSort (stable) in the model, tied by '
                           'byte-exact correspondence on lists with equal-sized lookups',
                           'uint32 arithmetic of chunk sizes/positions (total size < 4 GiB is a hypothesis)',
                           'parser.Parser window/seek logic (property C17): readers are modelled on the bytes '
                           'from the table position on; every short read is the same error class'],
 'assumptions': ['glyph ids, classes, value-record fields, lookup type/flags/mark filtering set are 16-bit '
                 'values (Go types)',
                 'coverage tables are valid (indices 0..n-1 strictly monotonic), one substitute/sequence/'
                 'record per covered glyph; lookup type of a lookup is not the extension type of its table',
                 'lookup list smaller than 4 GiB; subtables are opaque byte strings whose encodeLen equals '
                 'their encoded length (proved per subtable type where a st_len theorem exists)']}

LEVEL = {'text': 'Proof (partial over subtable types): Lean models of coverage.Table/Set Encode/EncodeLen/Read, '
         'classdef.Table Append/AppendLen/Read, LookupList.encode with tryReorder and extension records '
         '(subtables as opaque blobs), GSUB 1.1/1.2/2.1/3.1/4.1/8.1, GPOS value records and 1.1/1.2/2.1/2.2/3.1/4.1/6.1 with anchors and mark arrays, the '
         'feature list, the script list, the GSUB/GPOS header and GDEF; theorems: decode(encode x) = x, declared size = emitted size, coverage '
         'indices 0..n-1 in glyph order, the smaller format is chosen, independence of map iteration order, '
         'and for every lookup list either the specification reader recovers every (type, flags, mark '
         'filtering set, subtable bytes) through the written 16-bit offsets and 32-bit extension offsets, or '
         'the encoder panics - never a wrapped offset. Tied to the code by byte-exact encoder and '
         'value-exact decoder correspondence (generated, boundary and mutated inputs) and by evaluating '
         'independent specification readers on the bytes of the real encoders. Twenty-three silent 16-bit '
         'truncations found on the way were repaired as loud refusals (one, classdef format 1, as a '
         'correct choice of format 2).',
 'note': 'Trusted: Lean kernel + 3 standard axioms; hand-written models mirror the (repaired) Go code as checked '
         'by sampled correspondence; the specification readers are my reading of OpenType chapter 2 / GSUB / '
         'GPOS. Every codec of the property is modelled except GPOS 5.1 (no encoder in the library); theorems cover '
         'the parts listed under partial.',
 'technique': 'Lean 4 proofs about encoder/decoder models against executable specification readers + byte-exact '
              'differential correspondence'}
