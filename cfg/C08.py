"""Configuration of ./check C08 (see cfg/README)."""

PROP = {'modules': ['SfntV.Props.C08'],
 'required_theorems': ['C08_cov_roundtrip', 'C08_cov_len', 'C08_cov_indices', 'C08_cov_minimal',
                       'C08_classdef_roundtrip', 'C08_classdef_len', 'C08_classdef_refusal',
                       'C08_st_roundtrip_gsub1_1', 'C08_st_len_gsub1_1', 'C08_st_roundtrip_gsub1_2',
                       'C08_st_len_gsub1_2', 'C08_st_roundtrip_gsub2_1_3_1', 'C08_st_len_gsub2_1_3_1',
                       'C08_lookuplist_layout'],
 'areas': [('otl', 900, 12000)],
 'rule': 'distinct case lines; non-trivial = coverage/class tables with at least two glyphs/runs, every '
         'lookup-list and every mutated-bytes case',
 'partial': [],
 'modelled_not_verified': [],
 'assumptions': []}

LEVEL = {'text': 'in progress',
 'note': '',
 'technique': 'Lean 4 proof about encoder/decoder models + byte-exact differential correspondence'}
