"""Configuration of ./check C09 (format 4 part by the lead; format 12/0/6, Table, GetBest in cfg/C09b.py are merged below when present)."""

PROP = {
    'drive': ['Cmap'],
    'harness_files': ['area_cmap.go'],
    'modules': ['SfntV.Props.C09'],
    'required_theorems': ['C09_edge_sound', 'C09_path_chain', 'C09_last_segment', 'C09_fmt4_arrays', 'C09_fmt4', 'C09_fmt4_64k',
                          'C09_fmt4_header', 'C09_impl_eq_spec_4'],
    'areas': [('cmap4', 250, 6000)],
    'rule': 'distinct case lines (map / vertex / bytes / probe codes); non-trivial = map with at least two entries or a mutated subtable',
    'partial': ['C09_fmt4_64k is the full statement on the property domain (subtable shorter than 64 KiB, which forces fewer than 8190 segments); C09_fmt4 is kept with the weaker hypothesis path.length < 32768 (segCountX2 is a 16-bit field: with 32768 or more segments the header wraps silently)',
                'Format4.Encode beyond the 64 KiB subtable limit (uint16 Length wraps) is outside the stated domain and not covered'],
    'modelled_not_verified': ['seehuhn.de/go/dijkstra is an untrusted oracle: theorems quantify over every path of proposed edges; the harness checks that the Go-chosen path is such a path',
                              'encoding/binary packing re-implemented (be16) and compared byte-exactly'],
    'assumptions': ['glyph ids are compared modulo 65536 (glyph.ID is uint16)'],
}

LEVEL = {
    'text': 'Proof: every segment proposed by AppendEdges is sound for the map, every path of proposed edges from 0 to 0x10000 is a chain covering all codes and ends with the 0xFFFF segment, and for every such path the OpenType format-4 lookup rules applied to the emitted bytes return the map\'s glyph for every code 0..0xFFFF (0 for unmapped), with header/search fields per the formulae; the model of the library decoder equals the specification decoder on every subtable it accepts. Tied to cmap/format4.go by exact correspondence of edge proposals at the vertices of the chosen path, of emitted bytes, of decoder results on written and mutated subtables, and by evaluating the Lean spec lookup on Go-written bytes.',
    'note': 'Trusted: Lean kernel + 3 standard axioms; hand-written model of AppendEdges/Encode/decodeFormat4 (after repair 823b071) checked by sampled correspondence; the spec lookup is my reading of the OpenType cmap format 4 text; Dijkstra untrusted (any path).',
    'technique': 'Lean 4 proofs ("any path of sound edges" + decoder = spec) + differential correspondence via verif hooks',
}

try:
    import importlib.util, os
    _f = os.path.join(os.path.dirname(os.path.abspath(__file__)), 'C09b.py')
    if os.path.exists(_f) and os.environ.get('VERIF_C09B', '1') == '1':
        _s = importlib.util.spec_from_file_location('cfg_C09b', _f)
        _m = importlib.util.module_from_spec(_s)
        _s.loader.exec_module(_m)
        if getattr(_m, 'READY', False):
            for k in ('modules', 'required_theorems', 'areas', 'partial', 'modelled_not_verified', 'assumptions'):
                PROP[k] = PROP[k] + [x for x in _m.PROP.get(k, []) if x not in PROP[k]]
            PROP['drive'] = PROP['drive'] + _m.PROP.get('drive', ['Cmapx'])
            PROP['harness_files'] = PROP['harness_files'] + _m.PROP.get('harness_files', ['area_cmapx.go'])
            LEVEL['text'] += ' ' + _m.LEVEL['text']
            LEVEL['note'] += ' ' + _m.LEVEL['note']
except Exception as _e:  # noqa
    pass
