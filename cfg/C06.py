"""Configuration of ./check C06 (see cfg/README)."""

PROP = {'drive': ['ShapeSpec'],
 'modules': ['SfntV.Props.C06'],
 'required_theorems': ['C06_keep_spec',
                       'C06_lookup_order',
                       'C06_first_matching_subtable',
                       'C06_skipped_untouched',
                       'C06_ligature_consumes',
                       'C06_ligature_moves_skipped',
                       'C06_valuerecord_exact',
                       'C06_anchor_exact',
                       'C06_engine_eq_spec_simple',
                       'C06_engine_eq_spec_ctx_partial',
                       'C06_engine_eq_spec',
                       'C06_engine_eq_spec_ctx_full_holds'],
 'areas': [('shapespec', 30000, 150000)],
 'harness_files': ['area_shape.go', 'area_shapespec.go'],
 'rule': 'distinct case lines (lookup list, GDEF, lookup indices, one glyph sequence; or lookup list, alphabet, '
         'maximal length for an exhaustive line); non-trivial = non-empty sequence; every case is run on two '
         'streams: D shapespec.apply (Go Apply on a fresh context = reference shaper wherever the reference is '
         'defined; outside Defined the driver prints the engine model result, so such a line only repeats the '
         'correspondence of C07) and G shapespec.region (driver prints defined / undef:<reason>, the Go side '
         'prints defined: model_drift_lines = number of cases OUTSIDE Defined, by construction, not a drift). '
         'Exhaustive lines (D shapespec.exhaust, G shapespec.exregion) enumerate all sequences over an '
         'alphabet of 3 (quick, length <= 4: 121 sequences) or 4 (thorough, length <= 6: 5461 sequences) '
         'glyphs for one generated lookup list and compare a 16-bit digest per sequence',
 'partial': ['PROVED for all inputs (Lean): the lookup-flag filter equals the OpenType rule (C06_keep_spec); the '
             'clause lemmas of the reference (lookup order, first matching subtable, skipped glyphs untouched, '
             'ligature consumes components / moves skipped glyphs behind, value record and anchor arithmetic '
             'exact); engine model = reference for every lookup list WITHOUT contextual subtables '
             '(C06_engine_eq_spec_simple: GSUB 1.1 1.2 2.1 3.1 4.1 8.1, GPOS 1.1 1.2 2.1 2.2 4.1 6.1, all '
             'flags, all GDEF data, all lookup orders, all sequences, wherever the reference is defined)',
             'PROVED for all inputs (C06_engine_eq_spec, also stated as C06_engine_eq_spec_ctx_full_holds): engine '
             'model = reference for EVERY lookup list - contextual and chained contextual lookups of all six formats '
             'nested to any depth (self-referential lookups included), nested insertions (fixStackInsert <-> tag '
             'inheritance), nested ligatures (fixStackMerge <-> the ligature takes the tags of its first component), '
             'nested adjustments - wherever the reference is defined; C06_engine_eq_spec_simple and '
             'C06_engine_eq_spec_ctx_partial (one level of nesting) are special cases kept as milestones.  The proof '
             'is the simulation planned in DESIGN 8: stack entries (positions, actions, end position) <-> tags',
             'bounded checking is no longer needed for the engine/reference equality; it remains as the DIRECT tie '
             'Go code = reference: generated cases (repository test cases of sections 1-5, scenario generators, '
             'random tables) and, in the thorough tier, exhaustive enumeration of all sequences of length <= 6 over '
             '4-glyph alphabets for about one generated lookup list in twelve',
             'Defined (= the reference returns a value) excludes: malformed tables (coverage index outside its '
             'array, empty multiple-substitution sequence, context format 3 without input coverage, glyph sets '
             'with non-member entries, lookups mixing type 8 with other types, lookup or sequence index out of '
             'range), a nested ligature whose first component is not in an input sequence that a later '
             'component is in (testcases section 4), more than B-1 = 63 nested lookups per position, GPOS 3 '
             '(cursive; not in the property), value-record fields the library does not implement, int16 '
             'overflow of an offset or advance, GPOS 4.1 subtables whose copy of the GDEF glyph classes (a modelling '
             'device: Gpos4_1.apply reads ctx.gdef, the model carries that map in the subtable, the driver fills it '
             'from the GDEF of the case) differs from the GDEF table.  Mark attachment across an uncovered base / '
             'mark2 candidate is now INSIDE Defined: the reference says no attachment, and the code was repaired '
             '(C06-base)',
             'GPOS 5.1 (mark-to-ligature) has a stub apply in the repository and is not modelled; GPOS 7/8 are '
             'the contextual formats above'],
 'modelled_not_verified': ['the reference Spec.Shape is my reading of the OpenType chapters (lookup flags, GSUB, GPOS) '
                           'and of opentype/gtab/testcases sections 1-3; all 43 repository test cases of sections 1-3 '
                           'are inside Defined and agree (they are replayed on every run)',
                           'Go = engine model is the correspondence stream of C07 (area shape); this property adds '
                           'Go = reference directly'],
 'assumptions': ['the code is compared as repaired (uncommitted patches reported with C06): #32 GSUB type 8 applied '
                 'from the end of the string; C06-ch3 ChainedSeqContext3.apply recorded the first input position '
                 'twice; C06-ch3skip its skip loops stopped one glyph early (an ignored glyph was matched) and the '
                 'lookahead of a nested application did not skip ignored glyphs at the window end; C06-attach GPOS '
                 '4.1/6.1 offsets relative to the glyph attached to; C06-base (uncommitted, patches/C06): the '
                 'backward search for the base glyph / mark2 stops at the first non-mark / non-skipped glyph; '
                 'corpus/C06/defects.case keeps the inputs that failed before the repairs',
                 'maps are association lists with distinct keys (the harness sends them sorted)']}

LEVEL = {'text': 'Proof + bounded checking: an executable reference semantics of OpenType lookup application (tag-based, '
         'no positions to repair) is written in Lean from the specification text; its clauses are theorems; the '
         'engine model of C07 is proved equal to it, for ALL tables, GDEF data, flags, lookup orders and sequences, '
         'on EVERY lookup list (contextual lookups of all six formats nested to any depth, nested insertions and '
         'ligatures included) wherever the reference is defined; the lookup-flag filter is proved equal to the '
         'OpenType rule. In addition the real Go code is compared with the reference on generated cases and by '
         'exhaustive enumeration of short sequences (bounded, reported as such).',
 'note': 'Trusted: Lean kernel + 3 standard axioms; the reference is a hand-written reading of the OpenType text; '
         'Go = engine model by the sampled correspondence of C07.',
 'technique': 'Lean 4 refinement proof (engine state machine vs list-zipper reference) + direct differential '
              'comparison Go vs reference + bounded exhaustive enumeration'}
