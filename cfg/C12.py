"""Configuration of ./check C12 (see cfg/README)."""

PROP = {'drive': ['Metrics'], 'harness_files': ['area_metrics.go', 'area_metrics_os2.go', 'area_metrics_q.go', 'area_metrics_alias.go', 'area_metrics_cid.go'], 'modules': ['SfntV.Props.C12'],
 'required_theorems': ['C12_hmtx_roundtrip',
                       'C12_hmtx_encode_ok',
                       'C12_hmtx_roundtrip_any_k',
                       'C12_numberOfHMetrics_choice',
                       'C12_hhea_derived',
                       'C12_hhea_derived_needs_lsb_eq_xMin',
                       'C12_time_roundtrip',
                       'C12_time_epoch_lost',
                       'C12_head_roundtrip',
                       'C12_maxp_roundtrip',
                       'C12_post_header_roundtrip',
                       'C12_caret_partial',
                       'C12_os2_roundtrip',
                       'C12_os2_domain_forced',
                       'C12_os2_fstype_roundtrip',
                       'C12_fontbbox_union',
                       'C12_fontbbox_needs_wellformed',
                       'C12_avgwidth_def',
                       'C12_charrange_def',
                       'C12_fixedpitch_def',
                       'C12_winmetrics_def',
                       'C12_caret_full',
                       'C12_caret_clamp',
                       'C12_bestRat_lowest_terms',
                       'C12_hmtx_widths_roundtrip',
                       'C12_widthpdf_def',
                       'C12_fontbboxpdf_image',
                       'C12_extent_encloses',
                       'C12_glyphbboxpdf_image',
                       'C12_glyphbboxpdf_cid',
                       'C12_cff_fractional_extends',
                       'C12_fixedpitch_written'],
 'areas': [('metrics', 400, 6000)],
 'rule': 'distinct case lines (table field values / table bytes / whole-font glyph lists); non-trivial = at '
         'least two glyphs, or any header-table case',
 'partial': ['caret slope: C12_caret_full is proved for the EXACT-arithmetic model of toAngle/fromAngle/'
             'bestRationalApproximation (every pair in lowest terms is returned unchanged, every reducible pair '
             'is reduced); the float64 evaluation of the same expressions in Go (Atan2, Sin, Cos, division) is '
             'not proved - it is compared with the model on integer slope pairs incl. all extremes (V metrics.caret, '
             'D metrics.caretrt); the tie class rise=0, run<0 (sign of a float -0 decides) is excluded',
             'metric queries in PDF units are modelled over exact rationals; theorems cover uniform positive '
             'font matrices [s 0 0 s 0 0] (FontBBoxPDF image) and matrices without shear product (widths); the '
             'per-glyph GlyphBBoxPDF is proved for every matrix (C12_glyphbboxpdf_image) and judged on the real '
             'code by D metrics.dbboxpdf; the FontBBoxPDF = image-of-FontBBox theorem needs a uniform matrix; CID-keyed CFF fonts: per-glyph GlyphBBoxPDF / GlyphWidthPDF under FD.Mul(fm) are proved (C12_glyphbboxpdf_cid) and, with FontBBoxPDF, WidthsPDF, GlyphWidth and WidthsMapPDF (nil), judged on the real code by D metrics.dcid; WidthsPDF of a CID font ignores the FD matrix (w*fm[0]) - mirrored, not judged against a definition',
             'float evaluation of the queries is compared after rounding to 2^-20; near-ties are detected with '
             'exact arithmetic in the harness and sent as diagnostics only',
             'fractional CFF widths: the writer model (int(w), funit.Int16(w), |width-w| >= 0.5) is V-streamed '
             '(metrics.wcffq) and proved to extend the integral model; there is no separate spec fold for the '
             'fractional IsFixedPitch (the code IS the definition: within 0.5 of the first non-zero width)',
             'the decoding of the installed cmap (so that CodeRange ranges over exactly the mapped codes) is '
             "C09's business; codes mapped to glyph 0 are avoided by the generators",
             'post version 2.0 (glyph names) belongs to C14; the model covers versions 1.0/3.0/4.0'],
 'modelled_not_verified': ['Proofs/MetricsQueries.lean imports Mathlib tactic modules (ring, linarith, field_simp) '
                           'for the Rat reasoning; axioms stay within the three standard ones',
                           'encoding/binary.Read/Write of fixed-size structs re-implemented in Lean '
                           '(big-endian field packing) and compared by byte-exact correspondence',
                           'time.Time reduced to (Unix seconds, nanoseconds); time.Unix/IsZero semantics '
                           'as documented by package time',
                           'int32(math.Round(angle*65536)) in post.Encode is evaluated outside the model; '
                           'inputs are exactly representable 16.16 values'],
 'assumptions': ['Dom hmtx: 1..65535 glyphs, all funit.Int16 fields in range, len(LSB)=len(Widths) when '
                 'LSB is given, len(GlyphExtents)=len(Widths)',
                 'Dom hhea_derived: lsb = xMin on glyphs with contours (always true when Info.LSB is nil, '
                 'as in (*sfnt.Font).Write); outside it the code ignores lsb in minRightSideBearing / '
                 'xMaxExtent (known finding C12-rsb-ignores-lsb)',
                 'Dom time: |Unix seconds| <= 2^62',
                 'Dom OS/2 (Os2Dom): IsRegular excludes bold/italic; vendor id of length 4; xHeight, capHeight >= 0; '
                 'Unicode-range bit 57 equals (last char index = 0xFFFF); permission in {install, edit, view, '
                 'restricted}; each is proved to be forced by the codec (C12_os2_domain_forced)',
                 'Dom FontBBox: glyph boxes are boxes (xMin <= xMax, yMin <= yMax); with inverted boxes '
                 'Rect16.Extend can restart the union (C12_fontbbox_needs_wellformed)',
                 'Dom win metrics: yMin > -32768']}

LEVEL = {'text': 'Proof: for every width vector and bearing vector (every length of constant tail, every '
         'admissible numberOfHMetrics) the model of hmtx.Decode inverts the model of (*hmtx.Info).Encode; '
         'the derived hhea fields (advanceWidthMax, min side bearings, xMaxExtent, numberOfHMetrics) equal '
         'their definitions as folds over the glyphs with contours (minRightSideBearing saturating, after '
         'the repair of an int16 overflow found here); maxp round-trips; '
         'head.Read inverts head.Encode on the whole field domain with timestamps to the second (the '
         '1904 epoch itself is proved to be lost: it reads back as the zero time); post header fields '
         'round-trip; os2.Read inverts os2.Encode on its explicit domain (each side condition proved '
         'forced); the writer-side derivations (FontBBox, average width, first/last char index, win '
         'ascent/descent, IsFixedPitch) are proved equal to spec folds. Tied to the Go code by byte-exact correspondence of encoders, value/error-class '
         'correspondence of decoders on generated and mutated bytes, and by recomputing every derived '
         'field of tables written by the real (*sfnt.Font).Write with independent spec folds.',
 'note': 'Trusted: Lean kernel + 3 standard axioms; hand-written models mirror the Go code as checked by sampled '
         'correspondence; float paths (caret angle, PDF units) are outside the proof.',
 'technique': 'Lean 4 proofs about codec models + byte-exact differential correspondence + spec folds on '
              'real writer output'}
