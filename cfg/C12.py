"""Configuration of ./check C12 (see cfg/README)."""

PROP = {'drive': ['Metrics'], 'modules': ['SfntV.Props.C12'],
 'required_theorems': ['C12_hmtx_roundtrip',
                       'C12_hmtx_encode_ok',
                       'C12_hmtx_roundtrip_any_k',
                       'C12_numberOfHMetrics_choice',
                       'C12_hhea_derived',
                       'C12_hhea_derived_needs_lsb_eq_xMin',
                       'C12_time_roundtrip',
                       'C12_time_epoch_lost',
                       'C12_head_roundtrip',
                       'C12_maxp_roundtrip',
                       'C12_post_header_roundtrip',
                       'C12_caret_partial'],
 'areas': [('metrics', 400, 6000)],
 'rule': 'distinct case lines (table field values / table bytes / whole-font glyph lists); non-trivial = at '
         'least two glyphs, or any header-table case',
 'partial': ['caret slope (float64 in Go): fromAngle/toAngle/bestRationalApproximation are modelled in exact '
             'rational arithmetic (Model/Caret.lean) and compared with the Go code on integer slope pairs '
             '(stream metrics.caret); the statement C12_caret_full (result = pair in lowest terms, same '
             'direction) is a Lean definition, not yet a theorem; the float evaluation itself is not '
             'proved; the tie class rise=0, run<0 (sign of a float -0 decides) is excluded from the comparison',
             'OS/2 codec round trip (C12_os2_roundtrip) not yet modelled; OS/2 derived fields '
             '(xAvgCharWidth, usFirst/LastCharIndex, usWinAscent/Descent) are checked only by the D stream '
             'metrics.dfont on fonts written by (*sfnt.Font).Write',
             'FontBBox union, average width, char range, isFixedPitch: definitions in Spec/Metrics.lean are '
             'evaluated on real Write output (D stream); the writer-side Go functions '
             '(font.go FontBBox/IsFixedPitch, write.go makeOS2) have no Lean model yet, so there are no '
             'theorems fontbbox_union / avgwidth_def / charrange_def / fixedpitch_def',
             'PDF-unit queries (WidthsPDF, GlyphBBoxPDF, FontBBoxPDF) use floats and are not covered',
             'post version 2.0 (glyph names) belongs to C14; the model covers versions 1.0/3.0/4.0'],
 'modelled_not_verified': ['encoding/binary.Read/Write of fixed-size structs re-implemented in Lean '
                           '(big-endian field packing) and compared by byte-exact correspondence',
                           'time.Time reduced to (Unix seconds, nanoseconds); time.Unix/IsZero semantics '
                           'as documented by package time',
                           'int32(math.Round(angle*65536)) in post.Encode is evaluated outside the model; '
                           'inputs are exactly representable 16.16 values'],
 'assumptions': ['Dom hmtx: 1..65535 glyphs, all funit.Int16 fields in range, len(LSB)=len(Widths) when '
                 'LSB is given, len(GlyphExtents)=len(Widths)',
                 'Dom hhea_derived: lsb = xMin on glyphs with contours (always true when Info.LSB is nil, '
                 'as in (*sfnt.Font).Write); outside it the code ignores lsb in minRightSideBearing / '
                 'xMaxExtent (known finding C12-rsb-ignores-lsb)',
                 'Dom time: |Unix seconds| <= 2^62']}

LEVEL = {'text': 'Proof: for every width vector and bearing vector (every length of constant tail, every '
         'admissible numberOfHMetrics) the model of hmtx.Decode inverts the model of (*hmtx.Info).Encode; '
         'the derived hhea fields (advanceWidthMax, min side bearings, xMaxExtent, numberOfHMetrics) equal '
         'their definitions as folds over the glyphs with contours (minRightSideBearing saturating, after '
         'the repair of an int16 overflow found here); maxp round-trips; '
         'head.Read inverts head.Encode on the whole field domain with timestamps to the second (the '
         '1904 epoch itself is proved to be lost: it reads back as the zero time); post header fields '
         'round-trip. Tied to the Go code by byte-exact correspondence of encoders, value/error-class '
         'correspondence of decoders on generated and mutated bytes, and by recomputing every derived '
         'field of tables written by the real (*sfnt.Font).Write with independent spec folds.',
 'note': 'Trusted: Lean kernel + 3 standard axioms; hand-written models mirror the Go code as checked by sampled '
         'correspondence; float paths (caret angle, PDF units) are outside the proof.',
 'technique': 'Lean 4 proofs about codec models + byte-exact differential correspondence + spec folds on '
              'real writer output'}
