"""Configuration of ./check C20 (see cfg/README)."""

PROP = {'drive': ['GNames'],
 'modules': ['SfntV.Props.C20'],
 'required_theorems': ['C20_total',
                       'C20_complete',
                       'C20_unique',
                       'C20_unique_nodup',
                       'C20_notdef',
                       'C20_keeps_existing',
                       'C20_sources',
                       'C20_gsub_shape',
                       'C20_stable_order',
                       'C20_stable_again',
                       'C20_install',
                       'C20_makesimple',
                       'C20_makesimple_kept',
                       'C20_makesimple_rule',
                       'C20_makesimple_valid',
                       'C20_psname',
                       'C20_old_order_dependent',
                       'C20_old_overwrites',
                       'C20_old_panics'],
 'areas': [('gnames', 1500, 40000)],
 'rule': 'distinct case lines (outlines kind, existing names, cmap, GSUB subtables / names + glyph text / '
         'family + style); non-trivial = at least two glyphs and a cmap or a GSUB subtable',
 'partial': ['MakeSimple: C20_makesimple_rule states which names a glyph can get (kept / base or base.altN, valid '
             'only / placeholder) but not that the .altN number is the least free one: that is in the model and '
             'checked by correspondence (gnames.cffmake); the Encoding/ROS/FontMatrices side effects of '
             'MakeSimple are not modelled',
             'the direct predicate gnames.inferred (a glyph derived by a GSUB rule from glyphs named before the '
             'GSUB pass never ends with a placeholder) is an executable predicate on the real output, not a '
             'theorem about the model',
             'Subfamily() is not modelled: gnames.psname gives the model the real Subfamily() string; the direct '
             'stream gnames.pschars checks the characters of the real PostScriptName() for Width 0..12, '
             'Weight 0..1100 and all style flags'],
 'modelled_not_verified': ['names.FromUnicode and names.IsValid (module seehuhn.de/go/postscript) are abstract '
                           'parameters: the theorems hold for every function in their place; the harness passes '
                           'the real answers in the case line and re-checks them against the real functions',
                           'fmt.Sprintf("%d"/"%03d") = Nat.toDigits 10 with zero padding; Go map[string]bool = '
                           'list of keys; coverage.Set/Table.Glyphs() = sorted keys (insertion sort in the model)',
                           'makeGlyphNamesOld (the code before the repair) can no longer be tied to the code by '
                           'correspondence; its three witnesses were observed on the unrepaired code by a '
                           'standalone Go program (60-100 calls each)'],
 'assumptions': ['Dom: at least one glyph (MakeGlyphNames / makeNames index glyph 0 and panic otherwise: '
                 'C20_total); no nil *cff.Glyph entries; coverage indices are non-negative; rune range of the '
                 'cmap below 2^31',
                 'C20_makesimple_kept (.notdef stays the name of glyph 0) needs IsValid(".notdef") = true: '
                 'true of the real function (it is its first line; every cffmake case re-checks it); C20_makesimple_valid needs IsValid(ornNNN) = true: direct streams gnames.safe / gnames.cffstable check every real output name']}

LEVEL = {'text': 'Proof: for every font with at least one glyph, every pattern of existing names (missing, '
         'duplicate, invalid, none, short list, CID-keyed), every cmap, every list of GSUB 1.1/1.2/3.1/4.1 '
         'subtables with arbitrary (also out-of-range) glyph IDs and coverage indices, and every function in '
         'place of names.FromUnicode, the model of the REPAIRED MakeGlyphNames returns exactly one non-empty '
         'name per glyph, pairwise distinct, .notdef for glyph 0, keeps every existing first-occurrence name, '
         'ranks cmap names before GSUB names before orn%03d placeholders, does not depend on the order in which '
         'any coverage map is enumerated, and returns the same list again after EnsureGlyphNames; the model of '
         'cff makeNames/MakeSimple is complete, unique and keeps valid names; every character kept by '
         'PostScriptName (class regenerated from the regexp in font.go, decided over all 128 ASCII codes, '
         'generator checks that everything >= 128 is deleted) is printable ASCII other than space and '
         '[](){}<>/%. Three defects of the unrepaired code (map-order dependence, ligature output renamed, '
         'index panic for glyph IDs outside the font) are proved on a model of the old code and were observed '
         'on the real code; the repair is in names.go. Tied to the code by exact correspondence (model output = '
         'the single result of 60 repeated Go calls per case) and by evaluating the property predicates on the '
         'Go output.',
 'note': 'Trusted: Lean kernel + 3 standard axioms; hand-written model of names.go / cff/convert.go mirrors the '
         'code as checked by sampled exact correspondence; FromUnicode/IsValid abstract.',
 'technique': 'Lean 4 proof (state invariant "used covers all non-empty names, non-empty names pairwise '
              'distinct" preserved by every filling step; pigeonhole argument for the fresh-name searches) + '
              'exact differential correspondence with repeated calls'}
