"""Configuration of ./check C11 (see cfg/README)."""

PROP = {'drive': ['Glyf'], 'modules': ['SfntV.Props.C11'],
 'required_theorems': ['C11_facts',
                       'C11_wf_iff',
                       'C11_loca',
                       'C11_roundtrip',
                       'C11_bytes_fixed',
                       'C11_simple_eq_spec',
                       'C11_simple_exact',
                       'C11_components'],
 'areas': [('glyf', 1500, 12000)],
 'rule': 'distinct case lines (glyph list / glyf+loca tables / simple-glyph bytes); non-trivial = at least two '
         'glyphs, a decodable mutated table, a composite glyph, or a simple glyph with at least one contour',
 'partial': ['loca format choice: the code switches to the long format above 0xFFFF bytes (the short format would '
             'reach 2*0xFFFF = 131070); C11_loca states the rule the code implements and proves that the announced '
             'format always represents the offsets — the 128 KiB figure of the property text is not what the code does'],
 'modelled_not_verified': ['Go int16/uint16 header fields are carried as 16-bit patterns (bijection); slices are '
                           'lists, nil vs empty Instructions is Option; `for len(buf)%glyfAlign != 0` is modelled '
                           'arithmetically (alignUp/padBuf) — all tied by byte-exact correspondence',
                           'SimpleGlyph.Decode error class: only errInvalidGlyphData exists, modelled as Option'],
 'assumptions': ['WFGlyphs (decidable, Props/C11.lean): non-empty list; 16-bit header fields; a simple glyph has '
                 '0 <= NumContours and Encoded is exactly one glyph description (no trailing bytes); a composite '
                 'glyph has >= 1 component, MORE_COMPONENTS exactly on the non-last ones, argument bytes of the '
                 'size the flags announce, instructions (< 65536 bytes) only if a component has '
                 'WE_HAVE_INSTRUCTIONS; glyf size < 2^32 (32-bit loca offsets; not executable at the boundary)',
                 'C11_simple_eq_spec: the Go Point type holds int16, so equality with the specification (exact '
                 'integers) is up to reduction mod 2^16; C11_simple_exact gives plain equality when the '
                 "specification's coordinates fit int16",
                 'specification reading: equal consecutive endPtsOfContours give an empty contour, a decrease is '
                 'refused; a repeat count running past the last point is truncated (glyf.Decode itself refuses such '
                 'glyphs in removePadding)']}

LEVEL = {'text': 'Proof: for every well-formed glyph list (nil, simple and composite glyphs, any size below 2^32) the '
         'model of Glyphs.Encode followed by glyf.Decode returns the same list bit for bit; for every glyph list the '
         'written loca table satisfies the executable loca facts (count, non-decreasing, even, inside glyf, first 0, '
         'last = glyf length, format representable, short iff last offset <= 0xFFFF) and decodeLoca returns the '
         'offsets written; everything glyf.Decode accepts is well-formed and re-encodes to a byte fixed point; for '
         'every contour count and byte string the model of the repaired SimpleGlyph.Decode equals an independent '
         'specification decoder written from the TrueType glyf description (mod 2^16 on coordinates, exactly when '
         'they fit int16), in particular no panic and zero-contour glyphs decode to no points; Components / '
         'FixComponents report and rewrite exactly the glyph indices and keep well-formedness. Tied to /repo/glyf '
         'by byte-exact correspondence of Encode, Decode (generated, mutated and the Go Regular font), '
         'SimpleGlyph.Decode (incl. panic outcome), Components/FixComponents, by direct evaluation of the '
         'specification decoder, the loca facts, the round trip and the fixed point on the real code\'s output, and '
         'by regenerated constants (glyfAlign, flag bits, short-loca threshold). Extra oracle: for simple glyphs of the '
         'twelve Go fonts (6 per font in quick runs, all in thorough runs) the Bezier segments derived from the '
         'specification outline equal those of golang.org/x/image/font/sfnt LoadGlyph; glyphs with 255..65536 points '
         '(last endPtsOfContours 0xFFFE / 0xFFFF) are in every run (generated and corpus/C11/boundary.case).',
 'note': 'Trusted: Lean kernel + 3 standard axioms; hand-written model mirrors glyf.go/loca.go/composite.go/simple.go '
         '(simple.go as repaired for DESIGN §9 #6) as checked by sampled correspondence; GlyfSpec is my reading of '
         'the OpenType glyf/loca chapters.',
 'technique': 'Lean 4 proofs about the codec model against an executable specification + byte-exact differential '
              'correspondence'}
