"""Configuration of ./check C07 (see cfg/README)."""

PROP = {'drive': ['Shape'],
 'modules': ['SfntV.Props.C07'],
 'required_theorems': ['C07_terminates',
                       'C07_text_conserved',
                       'C07_len_bound',
                       'C07_len_nonincreasing',
                       'C07_stack_empty',
                       'C07_history_independent',
                       'C07_no_panic_partial',
                       'C07_no_panic_nested_mergefree',
                       'C07_no_panic',
                       'C07_no_panic_history',
                       'C07_reader_delivers_shape',
                       'C07_no_panic_reader',
                       'C07_unguarded_panics'],
 'areas': [('shape', 70000, 1750000)],
 'rule': 'distinct case lines (lookup list, GDEF, lookup indices, history of 1-5 glyph sequences); '
         'non-trivial = history with at least one non-empty sequence; every case is run on eight streams '
         '(V apply, D text, D hist, D safe, D len, D input, G stack, G guarded); the inputs of apply/text/hist/safe '
         'are built the way a caller may build them from one string: all Text slices cut from ONE rune array with '
         'capacity up to its end (len/stack use separately allocated Text as sfnt.Layouter does), and D shape.input '
         'checks that this array is unchanged after every call; tables that went through gtab.Read are '
         'also judged from their BYTES (D shape.readsafe: whatever the reader accepts consists of documented '
         'subtable types and is applied twice without a panic). Fixed families run in full on every run: '
         'trailing skipped glyphs (324), contextual nested in contextual (6 parent x 6 child formats x 3 action '
         'orders x match/no-match x marks, context repeated in one sequence and over a 3-call history: 432), '
         'nested lookup with the flags word of the parent and another mark filtering set (72), hand-built bytes '
         'with extension lookups for every target type incl. extension->extension and mixed (100), two nested lookups '
         'with one flags word and different mark filtering sets over 3-call histories in both orders (48), '
         'subtables whose count field is smaller / larger than the coverage table next to it for GSUB 1.2 2.1 3.1 '
         '4.1, GPOS 1.2 2.1 3.1 4.1 (mark, base) 6.1 (mark1, mark2), contexts 1/2 and chained 1/2, read from bytes '
         'and applied to all ordered pairs of the covered glyphs, last covered first (128), over-budget rules (63..130 actions, self-referential) whose nested GSUB 2.1 '
         'insertions produce glyphs that start the same match again, run last (10; a non-terminating engine shows '
         'as the time-out outcome on D shape.text), sfnt.Layouter.Layout on CFF and glyf fonts (internal/debug maker) '
         'whose cmap or a GSUB 1.1 substitution delivers glyph IDs 1, NumGlyphs/2, NumGlyphs-1, NumGlyphs, +1, +2, '
         '0xFFFF (28; D shape.layout: no panic, text kept, advance = width inside the font and 0 beyond it), histories of 2-4 texts on ONE sfnt.Layouter whose GPOS '
         'writes placement offsets (GPOS 1.1 / 1.2 with XPlacement/YPlacement/XAdvance, GPOS 4.1 mark attachment; CFF '
         'and glyf fonts: 36; D shape.layoutseq: every result, all fields, equals that of a fresh Layouter), contextual rules without ignore flags whose '
         'input contains marks, first nested action a ligature WITH IgnoreMarks of 3-4 components so that stored input '
         'positions lie between merged components, second action at every index of the post-merge match and beyond, '
         'texts with and without trailing glyphs and repeated (6 formats x 4 patterns x 4-5 indices)',
 'partial': ['C07_no_panic is proved in full for every lookup list in the shape the reader delivers, and that shape is '
             'proved for the images of the modelled subtable readers (C07_reader_delivers_shape, C07_no_panic_reader) '
             '(readerShapedLL = coverage indices inside the indexed arrays, context format 3 and chained context '
             'format 3 with at least one input coverage, no nil pair-adjustment pointer, no unimplemented value '
             'field): all six contextual formats, nested and self-referential, nested insertions and nested '
             'ligature merges, any lookup/sequence/class/mark-class/filtering-set indices. Left open '
             '(C07_no_panic_guarded_only, a Prop definition): API-built lists outside that shape which contain a '
             'chained context format 3 with an EMPTY input sequence together with a nested ligature substitution; '
             'C07_no_panic_partial / C07_no_panic_nested_mergefree cover the other API-built guarded lists; the '
             'direct stream shape.safe expects "ok" on every guarded list, including the open class',
             'all subtable types with an apply method are modelled (GSUB 1.1 1.2 2.1 3.1 4.1 8.1, '
             'SeqContext1/2/3, ChainedSeqContext1/2/3, GPOS 1.1 1.2 2.1 2.2 3.1 4.1 6.1) except GPOS 5.1, whose '
             'apply is a stub returning -1 in the repository (declared unimplemented; cases containing it are '
             'skipped and counted)',
             'Layouter (layout.go in the repository root) is modelled in C15: C15_pipeline composes this engine '
             'model, and histories of several strings on one Layouter are in the stream layout.pipeline; history '
             'independence is proved here for gtab.Context',
             'independence of map iteration order: Context.Apply ranges over no map (coverage, class and set '
             'maps are only looked up); FindLookups is C15'],
 'modelled_not_verified': ['Go maps as association lists (first entry wins; the harness sends distinct sorted '
                           'keys); nil pointers inside lookup lists (LookupTable, Meta, rules) are outside the '
                           'model: the reader never delivers them',
                           'slices.BinarySearch / slices.Insert / slices.Delete re-implemented in Lean '
                           '(bsearch mirrors the library loop exactly) and compared by correspondence',
                           'the scratch-slice reuse (ctx.scratch) and in-place slice updates are modelled as '
                           'fresh lists; after repair #11 no two live slices share a backing array'],
 'assumptions': ['the model mirrors the code as repaired for DESIGN 9 #11 #12 #13 #14(a,b) #15 #33; '
                 'corpus/C07/defects.case keeps the inputs that failed before the repairs',
                 'TIE OF THE HYPOTHESIS TO THE READER: readerShapedLL is DISCHARGED, not assumed, for subtables that come out '
                 'of the modelled readers: C07_reader_delivers_shape proves guarded and chain3Ok for the image of every '
                 'value the C08 reader models return on ANY accepted byte string, for EVERY subtable kind with an apply '
                 'method (readGsub1_1 1_2 2_1 3_1 4_1 8_1, readSeqContext1/2/3, readChainedSeqContext1/2/3, readGpos1_1 '
                 '1_2 2_1 2_2 3_1 4_1 6_1), from the C08 post-conditions C08_reader_cov_in_range_* (Proofs/OtlCovRange) '
                 'plus lemmas proved here (read3/readC3 reject an empty input; the pair map of 2.1 and the class matrix '
                 'of 2.2 consist of non-nil pair adjustments); C07_no_panic_reader composes it with '
                 'C07_no_panic_history. The translation C08 value -> engine Subtable (Proofs/ShapeReader.lean) is '
                 'cross-checked for GPOS 2.1 by kernel-evaluated examples in Props/C07: C08 reader on 24 bytes -> '
                 'translation = what the driver parses from the harness serialisation of the Go reader result for the '
                 'same bytes -> engine result (advance 500 -> 450). REMAINING: (i) GPOS 5.1 has a stub apply (returns -1) '
                 'and is not modelled; (ii) value records are assumed to use implemented fields only (vrImpl, the '
                 'exclusion in the property text: YAdvance and device offsets make Apply panic with "not implemented"); '
                 '(iii) the C08 reader models are tied to the Go readers by C08 correspondence streams; the other '
                 'translations (all but GPOS 2.1) are field-by-field re-packings without an end-to-end example; the '
                 'direct stream shape.readsafe (bytes -> gtab.Read -> Apply twice, no panic) stays as the check of the '
                 'real reader incl. extension lookups and count-vs-coverage mismatches',
                 'readerShapedLL (hypothesis of C07_no_panic): coverage indices inside the indexed arrays '
                 '(established by the reader through cov.Prune), context format 3 and chained context format 3 with '
                 'at least one input coverage (reader rejects 0), no nil *PairAdjust, no value record with an '
                 'unimplemented field (excluded by the property text). Run on the real code at the excluded '
                 'points: a coverage index outside its array, an empty context-3 input, a nil *PairAdjust and an '
                 'unimplemented value field do panic (model and code agree, stream shape.apply on the '
                 '"indices unconstrained" cases); a chained context 3 with empty input did not panic in any '
                 'generated case - that exclusion is forced by the proof only (C07_no_panic_guarded_only)']}

LEVEL = {'text': 'Proof: the engine model (Context.Apply, applyAtRecursively with the regenerated budget 64, '
         'applyAt, fixStackInsert, fixStackMerge, the lookup-flag filter, apply of GSUB 1.1-4.1/8.1, contexts '
         '1-3, chained contexts 1-3, GPOS 1-4 and 6) is proved in Lean, for ALL tables (indices unconstrained), GDEF '
         'data, sequences, left-over stacks and call histories, to terminate within explicit fuel (len outer '
         'steps per lookup, 2*B+|stack| inner iterations), to permute the attached runes (List.Perm), to '
         'respect an explicit length bound, to leave the stack empty and hence to be history independent; '
         'absence of panics is proved for every lookup list in the shape the reader delivers, through an invariant on the stack of nested actions preserved by fixStackInsert and fixStackMerge. Tied to the Go code by '
         'outcome-exact correspondence of call histories (API-built, reader-delivered and mutated tables) and '
         'by direct predicates evaluated on the real code: text multiset, fresh-context equality, no panic, '
         'time-out.',
 'note': 'Trusted: Lean kernel + 3 standard axioms; hand-written model mirrors the repaired Go code as checked '
         'by sampled correspondence.',
 'technique': 'Lean 4 proof over a functional state-machine model of the shaping engine (Hoare-style '
              'invariants through the fuelled loops) + differential correspondence of call histories'}
