"""Configuration of ./check C16 (see cfg/README)."""

_EXPLANATION = (
    "Level 'other': what Lean carries for this property is PURITY AND CONFINEMENT, not the Go memory model. "
    "PROVED (Lean, all schedules, any number of threads, no bound on lengths): on the footprint/interleaving "
    "model of Model/Conc.lean, if every atomic step of every operation writes only outside the shared set and "
    "its local result depends only on the shared values it reads, then for EVERY schedule the shared store is "
    "unchanged and every thread is in the state it reaches running alone on the initial store (C16_commute); "
    "for every complete schedule each operation returns exactly resultAlone(initial store) (C16_results); any "
    "two complete schedules - in particular any interleaving and any serial order - agree (C16_serial_equiv); "
    "confined operations are pure on the shared state and closed under sequencing (C16_confined, "
    "C16_confined_compose/_append); the hypothesis is necessary (C16_hypothesis_needed: a load/store of a "
    "shared location loses an update under an interleaving). CHECKED AGAINST THE SOURCE on every run "
    "(go/ast inventory, `decide`): no function reachable from the listed operations writes a package-level "
    "variable or writes through the receiver of a type of the font graph; the only goroutine/channel is the "
    "builder's lexer; package sync is unused (C16_no_shared_writes_inventory, C16_mutators_inventory). "
    "OBSERVED on the real code (sampling, not proof): each listed operation leaves a deep structural hash of "
    "the whole *sfnt.Font graph (incl. spare slice capacity) and of the exported package-level tables "
    "unchanged (conc.pure), 2-16 goroutines on one shared font return exactly the sequential results "
    "(conc.parallel), and in the thorough tier the same cases run in a -race build of the harness without a "
    "race report (conc.race). Absence of data races in the Go-memory-model sense rests on those race-detector "
    "runs only."
)

PROP = {'drive': ['Conc'], 
    'level': 'other',
    'explanation': _EXPLANATION,
    'modules': ['SfntV.Props.C16'],
    'required_theorems': ['C16_commute',
                          'C16_results',
                          'C16_serial_equiv',
                          'C16_complete_of_counts',
                          'C16_confined',
                          'C16_confined_compose',
                          'C16_confined_append',
                          'C16_digest_confined',
                          'C16_hypothesis_needed',
                          'C16_listed_confined',
                          'C16_no_shared_writes_inventory',
                          'C16_mutators_inventory',
                          'C16_alias_writes_inventory'],
    'areas': [('conc', 300, 1200)],
    'thorough_seeds': 2,
    'rule': 'distinct case lines (operation or operation list, font id, goroutine count, seed); every case is '
            'non-trivial: it runs the real operation(s) on a freshly built font with a deep graph hash before and '
            'after. ' + _EXPLANATION,
    'partial': [
        'race-freedom in the sense of the Go memory model is OBSERVED (race-detector build of the harness, thorough '
        'tier, stream conc.race; positive control conc.racecontrol shows the detector reports a hash-invisible '
        'write) - it is not and cannot be a Lean theorem here',
        'the link "each listed Go operation is a confined operation of the model" is established by observation '
        '(deep hash before/after, stream conc.pure, 23 operations x ~50 fonts incl. synthetic layout tables with every subtable type, irregular name lists, raw tables sharing one image) and by the syntactic inventories, '
        'not by a proof about the Go code; writes through local aliases of shared objects (x := f.Glyphs[i]; '
        'x.Name = ...) are invisible to the syntactic inventory and are covered by the hash/race streams only',
        'unexported package-level tables (post.macRoman, cff standard strings, mac encoding, header.ttTableOrder) '
        'are covered by the write inventory (no write anywhere outside init) but not by the run-time hash (no '
        'hooks); exported ones (gtab default feature maps, testcases.Gsub, embedded Go fonts) are hashed',
        'WriteTrueTypePDF(w, "head", data): a caller-supplied head table is patched in place by header.Write '
        '(documented there); this is caller-owned input, not font state, and is outside the property',
    ],
    'modelled_not_verified': [
        'completeness of the snapshot is itself checked on every run (V stream conc.selftest: a planted write into '
        'the first/last/first-spare-capacity element of every slice and into every map of the font graph must '
        'change the hash; ~1100 sites on the synthetic all-subtable fonts); Subset is implemented by the library '
        'only for GSUB 1.1/4.1 and GPOS 2.1 (fonts cffsub/sttfsub), Explain* not for GSUB 8.1/GPOS 5/6, Write not '
        'for GPOS 5.1: on the other synthetic fonts these operations panic "not implemented" (same outcome '
        'sequentially and in parallel, font unchanged)',
        'slice aliasing and capacity: the Lean models of header.Write (C03) and of the listed operations treat '
        'byte slices as lists, so a write into the spare capacity of a shared slice (append(body, pad...)) is '
        'outside what the theorems speak about; it is covered by the D predicate "capacity snapshot unchanged": '
        'the deep hash covers s[:cap(s)] of every slice reachable from the font, spare capacity is poisoned '
        'with 0xEE first (io.ReadAll leaves it zero, so zero padding would be invisible), font variants '
        '+img/+imgj/+odd give the raw TrueType tables lengths not divisible by 4 as adjacent sub-slices of one '
        'image, and stream conc.hdrwrite checks header.Write itself on such a table map (successive and '
        'concurrent calls: image unchanged except head[8:12], identical bytes)',
        'atomic steps, sequential consistency and a total store are modelling choices: weak-memory behaviour of '
        'racy programs is outside the model (for confined operations there is nothing to reorder: no shared '
        'location is written)',
        'the footprint table Conc.listedOps (fresh allocations per operation) is hand-written from the source; its '
        'only checked content is sharedWrites = [] against the hash stream',
        'call-graph reachability in the extractor is name-based (over-approximating method resolution, '
        'function-typed fields not followed); shared-type closure is syntactic (interfaces closed over types with '
        'all method names)',
    ],
    'assumptions': [
        'Dom: no goroutine modifies the font (no EnsureGlyphNames/InstallCMap/field assignment concurrently); each '
        'goroutine uses its own Layouter / gtab.Context / glyph list / io.Writer',
        'io.Writer passed to Write does not modify the slices it is given (io.Writer contract)',
        'race detector reports are complete only for the executed schedules (dynamic analysis)',
    ],
}

LEVEL = {
    'text': 'Other (Lean proof of confinement => commutation on a footprint/interleaving model + source inventories '
            'checked by decide + observed purity/parallel equality/race-detector runs on the real code). Proved for '
            'all schedules and any number of threads: operations that write only memory they allocate and whose '
            'results depend only on the shared font state leave that state unchanged under every interleaving and '
            'return exactly their stand-alone results; every interleaving is equivalent to every serial order; the '
            'confinement hypothesis is necessary. Tied to /repo by regenerated inventories (no reachable write to '
            'package-level state, no receiver-field write on font-graph types, no sync/goroutine in reach) and by '
            'deep-hash purity and N-goroutine equality streams over 22 operations and 19 fonts; data-race freedom '
            'in the Go sense is observed with the race detector, not proved.',
    'note': 'Trusted: Lean kernel + standard axioms; the footprint model as an abstraction of Go execution '
            '(sequentially consistent atomic steps); go/ast extractor; reflection-based deep hash; Go race detector.',
    'technique': 'Lean 4 proof over an interleaving semantics (induction over arbitrary schedules) + go/ast '
                 'write/sync inventories pinned by decide + deep-hash purity, parallel-vs-sequential differential '
                 'and -race runs of the real code',
}
