"""Configuration of ./check C19 (see cfg/README)."""

PROP = {'drive': ['Dsl'],
 'harness_files': ['area_dsl.go', 'area_dsl2.go'],
 'modules': ['SfntV.Props.C19'],
 'required_theorems': ['C19_token_table',
                       'C19_flags_same_spelling',
                       'C19_flags',
                       'C19_lex_total',
                       'C19_confluent',
                       'C19_terminates',
                       'C19_no_leak',
                       'C19_no_leak_general',
                       'C19_leak_before_repair',
                       'C19_roundtrip_gsub1',
                       'C19_roundtrip_gsub2',
                       'C19_roundtrip_gsub3',
                       'C19_roundtrip_gsub4',
                       'C19_roundtrip_lists',
                       'C19_roundtrip_gpos1',
                       'C19_roundtrip_gpos_lists',
                       'C19_roundtrip_gpos2',
                       'C19_roundtrip_gpos3',
                       'C19_roundtrip_gpos4',
                       'C19_glyphlist_roundtrip',
                       'C19_total_partial',
                       'C19_total',
                       'C19_total_full_holds',
                       'C19_roundtrip_gsub5',
                       'C19_roundtrip_gsub6',
                       'C19_roundtrip_gpos7',
                       'C19_roundtrip_gpos8',
                       'C19_roundtrip_all_lists'],
 'areas': [('dsl', 6000, 60000)],
 'rule': 'distinct case lines (font = glyph count, names, cmap; text or lookup list; GOMAXPROCS); non-trivial = '
         'text of at least two bytes / at least one lookup / a non-zero flag set',
 'partial': ['round trips proved for ALL fonts of the domain FontOk and ALL lookups of the domain (any of the 16 flag '
             'sets, any number of subtables and of lookups): glyph lists (C19_glyphlist_roundtrip), GSUB 1 with ranges '
             'and the 1.1/1.2 identification, GSUB 2, 3, 4, mixed GSUB descriptions (C19_roundtrip_gsub1..4, '
             'C19_roundtrip_lists), GPOS 1 (formats 1.1, 1.2), GPOS 2 (format 2.1 glyph pairs and format 2.2 class matrix, '
             'in any order; readGpos2 taking the line break after the last matrix row is part of the proof), '
             'GPOS 3 (cursive attachment) and GPOS 4 (mark-to-base), both modelled in round 2, and GPOS descriptions '
             'mixing types 1-4 (C19_roundtrip_gpos1, C19_roundtrip_gpos2, C19_roundtrip_gpos3, C19_roundtrip_gpos4, '
             'C19_roundtrip_gpos_lists); the small '
             'universes remain as kernel-evaluated examples',
             'GSUB 5/6 and GPOS 7/8 (contextual and chained contextual lookups, all three formats, class definitions, '
             'backtrack | input | lookahead, nested actions) are modelled since round 3 (printer and parser, streams '
             'dsl.explain / dsl.parse / dsl.modelrt) and their round trips are proved for every font and lookup of the '
             'domain (C19_roundtrip_gsub5, _gsub6, _gpos7, _gpos8, C19_roundtrip_all_lists for any mix of GSUB resp. '
             'GPOS lookups). Glyphs may be called class / inputclass / backtrackclass / lookaheadclass: the models and '
             'proofs follow the repaired parser (patch 15: keyword only when ":" follows). The seeded Go-only stream '
             'dsl.rtseed is kept as an extra',
             'C19_total (= C19_total_full_holds) is proved with no exclusion: for every font and every text the parser '
             'model returns lookups or an error with line >= 1 and no loop runs out of fuel',
             'goroutine clause: C19_confluent/C19_terminates/C19_no_leak are about the process model; that the Go '
             'runtime implements unbuffered channels as the model says is trusted; the real code is observed by '
             'goroutine profiles after Parse under GOMAXPROCS 1, 2, 4, 16 (dsl.goroutines)',
             'meaning of chained rules: stream dsl.meaning (D) writes one GSUB6/GPOS8 rule with two or three different '
             'backtrack entries (and lookahead entries as control) in each of the three formats, with its own writer, and '
             'checks on the real Parse result that the backtrack is stored closest-to-the-input first and the lookahead '
             'in reading order; the expectation is computed from the entries as listed in the case line, not from any '
             'parse (a parser and a printer that both drop the reversal still round-trip)',
             '"parsing means what the documented syntax says": glyph names, strings via the cmap, ranges and '
             'escapes are in the parser model and compared output-exactly with the code; there is no separate '
             'written specification of the syntax to compare with'],
 'modelled_not_verified': ['unicode.IsLetter/IsDigit/IsSpace and strconv.IsPrint are regenerated range tables of '
                           'the Go toolchain; utf8.DecodeRuneInString and string(rune) re-implemented in Lean and '
                           'compared by correspondence (random bytes, invalid UTF-8)',
                           'strconv.Atoi: no digits and the 64-bit range are modelled in readInt16; in glyph lists '
                           'overflow is not modelled separately (values of 65536 and above are rejected anyway)',
                           'Go maps in readGsub1-4 are association lists; results do not depend on iteration order '
                           '(coverage is sorted, isConstDelta is order-independent); on the real code this is the D predicate of '
                           'dsl.rtrepeat / dsl.parserepeat: 24 parses of every GSUB 1 case must all give the model outcome',
                           'error messages are compared by class (leading words of the format string) and line, '
                           'not by full text'],
 'assumptions': ['Dom (round trip): FontOk (fewer than 65536 glyphs; non-empty glyph names pairwise distinct and each the '
                 'UTF-8 text of one identifier of the language; cmap runes distinct, glyphs inside the font; a font '
                 'without cmap table has no mappings) and, per form, LookupNOk: flags within the 4 covered bits, at '
                 'least one subtable, coverage strictly ascending (canonical index order), glyph ids inside the font, '
                 'non-empty right-hand sides where the parser insists on them (GSUB 2 sequences, GSUB 4 ligature lists), '
                 'value-record fields in int16, GPOS 2.1 pairs in ascending order, GPOS 2.2 coverage ascending, class '
                 'lists ascending by glyph with the classes 1..k all used, matrix of (k1+1) x (k2+1) entries, GPOS 3 '
                 'coverage ascending and non-empty with int16 anchors, GPOS 4 at least one mark record per subtable, mark '
                 'and base glyphs ascending, mark classes exactly 0..k-1 (< 65536), k int16 anchors per base record',
                 'Dom for the contextual forms (GSUB 5/6, GPOS 7/8) - tables the notation cannot express are outside the '
                 'property "parse(explain(l)) is l for every lookup the syntax can express" (each confirmed on the real '
                 'code, none is a finding): format 1 - a covered glyph without any rule (only rules are written, the glyph '
                 'drops out of the coverage); format 2 - a class number that no glyph has (classes are numbered by the '
                 'order of their definitions, and an empty definition "class :c2: = []" is rejected as "empty class"), '
                 'no rule at all (the grammar wants at least one rule after /coverage/), a rule list shorter than '
                 'classes+1 (read back padded with empty lists: same meaning, other representation - like GSUB 1.1/1.2 '
                 'not identified by normalize); format 3 - no input set at all (the grammar wants at least one [set]); '
                 'action numbers and class references below 65536. By contrast GPOS 2 format 2 CAN express unused class '
                 'numbers ("first A, , B;"): these are outside the proved domain ClassOk only, and are exercised by the '
                 'streams (generator genClassesGaps, seeded change C19-r2m1)',
                 'the models mirror the builder including the repairs 12 (NUL byte) and 13 (font without cmap), both '
                 'committed in /repo, 14 (GPOS7/GPOS8 keywords, committed) and 15 (class keywords versus glyph names: '
                 'patches/C19/15, committed as 9963a2a)']}

LEVEL = {'text': 'Proof (partial): Lean models of the lexer (token machine over Go-decoded UTF-8, line counting), of '
         'Parse (every form of the language: lookup flags, glyph lists/sets/ranges/strings, GSUB 1-6, GPOS 1-4, 7, 8), of '
         'ExplainGsub/ExplainGpos for the same, and a '
         'three-process model of the goroutine/channel structure with an arbitrary scheduler. Proved for all '
         'inputs: the lexer is total and ends in exactly one EOF/error item with lines >= 1 (C19_lex_total); the parser '
         'returns lookups or an error with line >= 1 on every text (C19_total); every '
         'flag subset round-trips and the two flag tables regenerated from parser.go/explain.go coincide '
         '(C19_flags, C19_flags_same_spelling); all maximal schedules are finite and end in the same state '
         '(C19_confluent, C19_terminates) in which, for the repaired Parse, no process is blocked (C19_no_leak), '
         'while the unrepaired structure provably leaks the decoder goroutine (C19_leak_before_repair). Round '
         'trips parse(explain l) = l are proved for every font and lookup of the domain for glyph lists, GSUB 1-4, '
         'GPOS 1-4, the contextual forms GSUB 5/6 and GPOS 7/8, and for descriptions mixing all types (induction over the structure: '
         'lexing of rendered pieces, a fragment logic for the parser, per-form lemmas). '
         'Tied to the code by output-exact correspondence (items with lines, Parse outcomes with line and error '
         'class, Explain text byte for byte) and by evaluating the round trip, totality and goroutine counts on '
         'the real code.',
 'note': 'Trusted: Lean kernel + 3 standard axioms; hand-written models mirror lexer.go/parser.go/explain.go as '
         'checked by sampled correspondence; Go runtime semantics of unbuffered channels; Unicode tables of the '
         'toolchain (regenerated). Fifteen defects, all repaired and committed in /repo (the fifteenth: a glyph called class / inputclass / ... at the start of a format 1 subtable was taken for a class definition).',
 'technique': 'Lean 4 proofs (induction over inputs and schedules, diamond property, kernel evaluation of finite '
              'universes) + differential correspondence + direct evaluation on the real code'}
