"""Configuration of ./check C09b: the parts of property C09 outside format 4 (format 12, formats 0
and 6, the cmap Table container, GetBest).  To be merged into cfg/C09.py by the lead (modules,
required_theorems, areas, partial, modelled_not_verified, assumptions are lists to concatenate)."""

PROP = {'drive': ['Cmapx'], 'harness_files': ['area_cmapx.go'], 'modules': ['SfntV.Props.C09b'],
 'required_theorems': ['C09_fmt12',
                       'C09_fmt12_header',
                       'C09_fmt12_total',
                       'C09_fmt12_lib',
                       'C09_impl_eq_spec_12',
                       'C09_impl_eq_spec_0',
                       'C09_fmt0_accepts',
                       'C09_fmt0_roundtrip',
                       'C09_impl_eq_spec_6',
                       'C09_table_roundtrip',
                       'C09_table_shared',
                       'C09_table_no_panic',
                       'C09_table_entries',
                       'C09_get_no_panic',
                       'C09_best',
                       'C09_best_none',
                       'C09_install',
                       'C09_install_keys',
                       'C09_coderange_order',
                       'C09_generated_facts',
                       'C09_fmt12_orig_wrap',
                       'C09_fmt12_maxkey_refused',
                       'C09_fmt6_orig_wrap',
                       'C09_macroman_injective',
                       'C09_mac_decoders',
                       'C09_mac_high_codes'],
 'areas': [('cmapx', 6000, 24000)],
 'rule': 'distinct case lines (map / subtable bytes / table entries, with the queried codes); non-trivial = '
         'a map with at least two entries, a mutated or crafted subtable, a table with at least two keys',
 'partial': ['Macintosh key (1,0) with codes above 255 in a format 4 or 6 subtable (no such codes exist in MacRoman): '
             'Table.Get converts with mac.DecodeOne(byte(code)), so such a code is written to the character of its '
             'low byte over the codes below it; modelled and compared (stream cmapx.get key=1.0.0 with high codes), '
             'recorded as C09_mac_high_codes, excluded from C09_mac_decoders by hypothesis (format 6: '
             'firstCode+entryCount <= 256; format 4: the decoder wrote no code above 255)'],
 'modelled_not_verified': ['maps.Keys + sort.Slice (Format12.Encode, Table.Encode) are not modelled: the models '
                           'take the entries sorted by key (the result is unique because Go map keys are '
                           'distinct); the driver sorts the case line, byte-exact correspondence covers it',
                           'sort.Search in cmap.Decode is modelled by its specification on the sorted segment '
                           'list (first index with o <= start)',
                           'decodeFormat4 with code2rune = macRoman is modelled from the identity-mapping model of '
                           'Model/Cmap4.lean (same checks, every write re-keyed to uint16(macRoman(idx)), dec4Of) and '
                           'compared through Table.Get (stream cmapx.get key=1.0.0, D stream cmapx.macspec); the '
                           'Get/GetBest no-panic theorems keep the format 4 decoder as a parameter',
                           'the shape of mac.DecodeOne (identity below 128, dec[c-128] above) and of the closure in '
                           'Table.Get (mac.DecodeOne(byte(code)), platform 1 / encoding 0, passed to every decoder) is '
                           'checked textually by the extractor, not by a theorem',
                           'CodeRange of Format0/Format4/format 6 maps and the whole of Font.InstallCMap are checked by '
                           'direct predicates (streams cmapx.coderange, cmapx.installspec: each call repeated 24 times on '
                           'freshly built maps because the result must not depend on Go map iteration order; maps with '
                           '0-3 entries, codes 0, 0xFFFF, 0x10000, 0x10FFFF); only Format12.CodeRange high and the key '
                           'choice have a Lean model (C09_install_keys)',
                           'large BMP maps for format 4 (2621 blocks of 20 irregular codes, a 1200-long block at the point '
                           'where idRangeOffset passes 65535, block counts around the limit): stream cmapx.big4 evaluates '
                           '"Format4.Encode refuses (panics) or an independent OpenType format 4 lookup written in the '
                           'harness reads the map back at all 65536 codes" on the real code; the Lean side only supplies '
                           'the expected answer (the refusal itself is Model/Cmap4.lean pack = none)',
                           'hand-laid-out cmap tables (stream cmapx.layout: every permutation of physical against record '
                           'order for up to three subtables, tight / gapped / shared / partially overlapping, minimal 10- '
                           'and 12-byte bodies, exact fit at the end of the table): the expected result is computed from '
                           'the description of the layout, not from the model; crafted format 4 bodies (last segment with '
                           'idRangeOffset reaching outside glyphIdArray, truncated array, missing or damaged sentinel) go '
                           'through the format 4 streams cmap4.decode / cmap4.decspec; GetBest with undecodable '
                           'higher-ranked candidates through cmapx.best / cmapx.bestidx',
                           'uint32 wrap of offsets in Table.Encode and of the length in Format12.Encode '
                           '(outputs of 4 GiB) is modelled (mod 2^32 / panic) but cannot be exercised'],
 'assumptions': ['Format12: a Go map uint32->glyph.ID is its list of entries sorted by key (Map32: keys strictly '
                 'ascending < 2^32, glyph ids < 65536); C09_fmt12_lib additionally: at most 65536 entries (the '
                 "property's domain; decodeFormat12 refuses more) and no key 0xFFFFFFFF (refused by the decoder "
                 'by design)',
                 'C09_get_no_panic / C09_best: the format 4 decoder is any function that does not panic',
                 'C09_table_roundtrip: ValidSub (platform <= 4, 16-bit encoding id, format/length header valid and '
                 'equal to the subtable size, language rule), fewer than 65536 entries (numTables is 16 bit: with '
                 '65536 keys Encode writes numTables = 0 and Decode returns an empty table, run on the real code), '
                 'encoded size < 4 GiB']}

LEVEL = {'text': 'Proof (parts of C09 outside format 4): for every map uint32->glyph the model of Format12.Encode '
         'writes bytes on which an independent executable OpenType format-12 lookup returns the map (0 for '
         'unmapped codes, all codes), with sorted disjoint groups and a header whose 32-bit length field equals '
         'the byte length 16 + 12 x groups (also from 64 KiB on; large family of 5459..65536 isolated groups '
         'through Encode, the header predicate and Table.Encode/Decode/Get/GetBest); the model of decodeFormat12 accepts them '
         '(<= 65536 entries) and, like the models of the format 0 and format 6 decoders, agrees with the '
         'specification lookup on every byte string it accepts; cmap.Decode and Table.Get on decoded tables '
         'never panic (checked-index models), and GetBest returns the first decodable candidate of the '
         'candidate list regenerated from cmap.go; under a Macintosh key (1,0) the subtables of formats 0, 4 and 6 '
         'decode to the specification lookup composed with the 256-entry MacRoman table regenerated from '
         'mac/encoding.go (proved injective by kernel evaluation), for every rune. Tied to the Go code by byte-exact/outcome-exact '
         'correspondence on generated, crafted and mutated inputs and by evaluating the Lean specification on '
         'the bytes Go wrote / the maps Go decoded.',
 'note': 'Trusted: Lean kernel + 3 standard axioms; hand-written models mirror cmap/format12.go, format0.go, '
         'format6.go, cmap.go as checked by sampled correspondence; the specification lookups are my reading '
         'of the OpenType cmap chapter. The repairs e802c48, 25d4922, d96ba23, 071a8c3, 0c896bc in /repo are modelled.',
 'technique': 'Lean 4 proofs about encoder/decoder models against executable specification decoders + '
              'differential correspondence'}
READY = True
