"""Configuration of ./check C15 (see cfg/README)."""

PROP = {'drive': ['Layout', 'Shape'], 'harness_files': ['area_layout.go', 'area_shape.go'], 'modules': ['SfntV.Props.C15'],
 'required_theorems': ['C15_findlookups',
                       'C15_findlookups_total',
                       'C15_findlookups_maporder',
                       'C15_findlookups_det',
                       'C15_findlookups_det_unrepaired_false',
                       'C15_switches',
                       'C15_switches_all_off',
                       'C15_switches_nil',
                       'C15_switches_synth',
                       'C15_kern_read',
                       'C15_kern',
                       'C15_ligatures',
                       'C15_trivial',
                       'C15_trivial_oob',
                       'C15_pipeline',
                       'C15_pipeline_widths',
                       'C15_trivial_engine',
                       'C15_pipeline_single_glyph',
                       'C15_pipeline_empty'],
 'areas': [('layout', 1200, 40000)],
 'rule': 'distinct case lines; non-trivial = FindLookups with >= 2 language systems and >= 2 features, kern '
         'tables with >= 2 subtables, cmaps with >= 4 of the 8 ligature-relevant characters, texts of >= 2 '
         'characters; pipeline cases with at least one character',
 'partial': ['C15_pipeline states Layout = GPOS-apply o assign-widths o GSUB-apply o cmap-map over the engine model '
             'SfntV.Shape.apply (C07); what the engine does with a given lookup list is C06/C07, not restated '
             'here; C15_trivial keeps the abstract-applier form, C15_trivial_engine is the corollary for '
             'contexts without selected lookups',
             'the composition sfnt.Read -> NewLayouter -> Layout for files without GSUB/GPOS/GDEF (runText in '
             'Drive/Layout.lean: synthesis of liga/kern tables, defaulting of switches, FindLookups on the '
             'synthesised script lists, widths, application) is tied by the verdict stream layout.text on '
             'Go Regular / Go Mono with swapped cmap and kern tables, not by a single theorem',
             "clause 'maps each character through the best cmap subtable': the cmap answers are inputs "
             '(rune -> gid as reported by the real GetBest().Lookup); cmap decoding is C09'],
 'modelled_not_verified': ['golang.org/x/text language.Matcher is an abstract parameter (Matcher.pick: any '
                           'function of the tag list returning a valid index); the harness asks the real '
                           'matcher for its choice on the canonically sorted tags and passes it to the model',
                           'language.Tag is modelled by its String(); two distinct Tag values with equal '
                           'String() are outside the model',
                           'parser.Parser inside kern.Read is replaced by the byte view proved in C17',
                           'funit.Int16(font.GlyphWidth(gid)) is an input (gid -> 16-bit width read from the '
                           'font); float widths of CFF fonts are not exercised (base fonts are TrueType)',
                           'kern.Read contains the work bound `6*totalPairs > Size` added for C02 (#35, '
                           'uncommitted edit by the C02 engineer at the time of writing); the model mirrors it'],
 'assumptions': ['C15_kern_read / C15_kern: the value accumulated for a pair stays within int16 after every '
                 'subtable (funit.Int16 cannot hold more); at the excluded point kern.Read wraps silently '
                 '(+20000 and +20000 give -25536) - modelled by wrap16 and exercised by the verdict stream',
                 'C15_kern: each subtable lists a set of pairs (no repeated pair inside one subtable) and '
                 'its length field fits 16 bits (<= 10920 pairs); repeated pairs are summed by kern.Read '
                 '(verdict stream covers them)',
                 'C15_kern: minimum+override on one subtable is read as minimum (the format text gives no '
                 'rule; kern.Read does the same)',
                 'widths fit funit.Int16 (C15_kern: I16 (width gid)); advances are computed in 16-bit '
                 'arithmetic (wrap16), as the Go type dictates']}

LEVEL = {'text': 'Proof: for every feature list, language system, switch map and lookup count the model of '
         'FindLookups returns exactly the in-range lookups of the required and the switched-on optional '
         'features, strictly ascending; the result is independent of both map range orders (script list: '
         'after the repair that sorts the tags; includeLookup: by the final sort), while the unrepaired '
         'function provably was not; a switched-off tag contributes nothing and the synthesised liga/kern '
         'features are optional (after repair of #17). kern.Read applied to the encoding of any well-formed '
         'version-0 table yields the accumulation prescribed by the kern chapter (sum / minimum / override, '
         'non-applicable subtables ignored), and laying out through the derived pair lookup gives width + '
         'that value for every glyph with a successor. standardLigatures contains exactly the completely '
         'mapped entries of the regenerated list, longest first, first match = longest match. With abstract '
         'appliers that change nothing, Layout returns one glyph per character with that character and the '
         'font width. Tied to the code by output-exact correspondence (FindLookups with the real matcher, '
         'kern.Read on generated and mutated tables, standardLigatures through a hook, full Layout on Go '
         'Regular/Go Mono files with swapped cmap/kern tables) and by evaluating the postcondition, the '
         'kern specification, the 200-call determinism check and the trivial-case predicate on outputs of '
         'the real code; the kern specification is additionally compared with golang.org/x/image/font/sfnt '
         'Kern on single-subtable tables (layout.kern.ximage). The font files of layout.text vary every field '
         'sfnt.Read could consult when deciding on the synthesised tables (post.isFixedPitch 0/1/0xFFFFFFFF x '
         'equal/differing/absent hmtx widths, OS/2 panose, empty GSUB/GPOS present, kern with 0 pairs); '
         'layout.ligd evaluates "proportional by widths, no GSUB, liga enabled => the mapped standard '
         'ligatures are applied, longest first" on the real output.',
 'note': 'Trusted: Lean kernel + 3 standard axioms; hand-written models mirror lookup.go, kern.go, '
         'ligatures.go, layout.go as checked by sampled correspondence; the kern specification is my reading '
         'of the OpenType kern chapter; default feature sets, kern masks, the ligature list and the '
         'synthesised language-system records are regenerated from the source.',
 'technique': 'Lean 4 proofs about executable models and an independent kern specification + differential '
              'correspondence on real font files'}
