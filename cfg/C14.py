"""Configuration of ./check C14 (see cfg/README)."""

PROP = {'drive': ['Names'], 'modules': ['SfntV.Props.C14'],
 'required_theorems': ['C14_macroman_inverse',
                       'C14_macroman_injective',
                       'C14_macroman_scalar',
                       'C14_utf16_roundtrip',
                       'C14_post_roundtrip',
                       'C14_language_tables_ok',
                       'C14_name_roundtrip',
                       'C14_name_encode_roundtrip',
                       'C14_name_order_independent',
                       'C14_tables_are_standard',
                       'C14_tag_roundtrip_partial',
                       'C14_tag_string_roundtrip',
                       'C14_choose_order_deterministic',
                       'C14_choose_default_is_best'],
 'areas': [('names', 2500, 60000)],
 'rule': 'distinct case lines (codec inputs, post name lists, name tables); non-trivial = a byte >= 128 / a '
         'non-empty string / at least one glyph name / at least one name record',
 'partial': ['C14_tag_roundtrip_partial: x/text (language.Parse, Tag.Extension) is an abstract parameter assumed to '
             'report the private-use subtags in lower case; checked against the real x/text by the streams '
             'names.tagext/names.tagback/names.tagrt (every pair of the two tables in the thorough tier), not proved. '
             'Only the branch of bcp47ToOtf for tags carrying the -x- extension is modelled; for tags without it the '
             'code scans langBcp47/scriptBcp47 in map order (DESIGN section 9 #39: nl-Latn -> FLE/NLD, bn-Beng -> '
             'beng/bng2 vary between calls) - probed, reported to C01/C08, not part of this theorem',
             'script lists through (*gtab.Info).Encode / gtab.Read: not modelled; exercised on the real code by the D '
             'streams names.slrt (Encode -> Read -> bcp47ToOtf gives back every language system) and names.slspec '
             '(independent Lean reader of the ScriptList on the written bytes); every pair of the two tables in the '
             'thorough tier',
             'Tables.Choose: proved up to the external matcher (candidate order = function of the map, default = '
             'most preferred table); the x/text matcher is abstract, its answer (an index) is computed by the real '
             'matcher and passed to the model in stream names.choose; Choose panics (language.MustParse) on a map '
             'key that is not a BCP 47 tag - not modelled',
             'C14_post_roundtrip carries the guard 258 + (number of non-standard names) <= 65536: beyond it '
             'post.Info.Encode wraps the 16-bit glyphNameIndex silently (known finding C14-post-index-wrap, '
             'inside the stated domain of up to 65535 glyphs)',
             'C14_name_roundtrip carries the guards 6 + 12*records <= 65535 and storage <= 65535 bytes: beyond '
             'them name.Info.Encode wraps the 16-bit storage offset / string offsets silently (known findings '
             'C14-name-storage-wrap, C14-name-record-count-wrap; DESIGN section 9 #25)',
             'negations of the guarded-off cases are shown by replay on the real code, not by Lean witnesses '
             '(the witnesses need > 64 KiB of data in the kernel)'],
 'modelled_not_verified': ['Go string <-> []rune conversion (UTF-8) is the identity on lists of Unicode scalar '
                           'values; strings that are not valid UTF-8 are outside the model',
                           'unicode/utf16 Encode/Decode, sort.Slice (all sort keys distinct), bytes.Buffer and '
                           'encoding/binary re-implemented in Lean and compared by byte-exact correspondence',
                           'name.Table is modelled by its keys()/get() view (hooks VerifKeys/VerifGet/VerifSet); '
                           'Extra entries with ids 0..25 other than 15 are invisible to get() and are ignored '
                           'by Encode',
                           'post header: ItalicAngle enters the model as the 32 bits of '
                           'int32(round(angle*65536)); float rounding not modelled',
                           'name.Info.Encode after the repair visits the language ids in increasing order '
                           '(model: insertion sort of the regenerated tables); byte-exact correspondence for '
                           'every Info, also with several tags per platform and beyond the capacity guards; '
                           'C14_name_roundtrip still holds for every enumeration order'],
 'assumptions': ['NameDomain: Info keys distinct (Go maps), tags among the values of appleBCP/msBCP, Mac strings '
                 'in the Mac Roman repertoire, Windows strings valid Unicode, name ids 16-bit, Windows encoding '
                 'id 1 or 10 (10 only after the repair of name.Decode), directory and storage within 16-bit '
                 'fields',
                 'post: at most 65535 glyphs, names of at most 255 bytes, 258 + custom names <= 65536']}

LEVEL = {'text': 'Proof: (1) over the Mac Roman table regenerated from mac/encoding.go, Encode and Decode are '
         'mutually inverse on all byte strings / on the repertoire and injective (whole table by kernel '
         'evaluation), and the table equals the independently written Apple table; (2) the UTF-16BE codec of '
         'the name table round-trips every sequence of Unicode scalar values; (3) the model of post.Info.Encode '
         'and post.Read returns every glyph-name list (standard order => 32-byte format 1, nil => format 3, '
         'otherwise format 2) unchanged, for any standard-name table; the regenerated 258 names equal the '
         'independently written standard Macintosh list; (4) the model of name.Info.Encode / name.Decode '
         'returns, for every platform, tag and name id, exactly the stored string, for every iteration order '
         'of the language maps, inside the 16-bit capacity of the format; (5) every script and language tag of '
         'the regenerated OpenType tag tables survives the -x-script-lang private-use extension (string level, '
         'x/text abstract). Tied to the Go code by byte-exact '
         '(encoders) and value-exact (decoders, incl. mutated and truncated tables, lone surrogates, all 256 '
         'bytes, every language id) correspondence, and by independent Lean readers of the post and name '
         'tables evaluated on the bytes written by the real encoders.',
 'note': 'Trusted: Lean kernel + 3 standard axioms; hand-written models mirror the code as checked by sampled '
         'correspondence; Spec readers are my reading of the OpenType name/post chapters and the Apple tables. '
         'Two repairs applied to /repo (name.Decode reads Windows encoding 10; gtab.otfToBCP47 strips the space '
         'padding of short script tags); three open known findings '
         '(silent 16-bit wraps in post and name encoders).',
 'technique': 'Lean 4 proofs about codec/table models, kernel evaluation over regenerated tables, byte- and '
              'value-exact differential correspondence, independent Lean readers on real encoder output'}
