"""Configuration of ./check C14 (see cfg/README)."""

PROP = {'drive': ['Names'], 'modules': ['SfntV.Props.C14'],
 'required_theorems': ['C14_macroman_inverse',
                       'C14_macroman_injective',
                       'C14_macroman_scalar',
                       'C14_macroman_decodeone',
                       'C14_utf16_roundtrip',
                       'C14_post_roundtrip',
                       'C14_language_tables_ok',
                       'C14_language_tables_injective',
                       'C14_name_roundtrip',
                       'C14_name_encode_roundtrip',
                       'C14_post_checked_ok_iff',
                       'C14_post_checked_roundtrip',
                       'C14_name_checked_ok_iff',
                       'C14_name_checked_roundtrip',
                       'C14_name_order_independent',
                       'C14_tables_are_standard',
                       'C14_tag_roundtrip_partial',
                       'C14_tag_string_roundtrip',
                       'C14_tag_noext_deterministic',
                       'C14_tag_noext_normal_form',
                       'C14_tag_noext_back',
                       'C14_tag_chinese',
                       'C14_scriptlist_roundtrip',
                       'C14_choose_order_deterministic',
                       'C14_choose_default_is_best'],
 'areas': [('names', 2500, 60000)],
 'rule': 'distinct case lines (codec inputs, post name lists, name tables); non-trivial = a byte >= 128 / a '
         'non-empty string / at least one glyph name / at least one name record',
 'partial': ['tag theorems are at string level with x/text abstract: C14_tag_roundtrip_partial assumes that '
             'language.Parse + Tag.Extension report the private-use subtags in lower case; for tags without the '
             '-x- extension the model receives what x/text reports about the tag (equal to language.Chinese / '
             'SimplifiedChinese / TraditionalChinese?, Tag.Raw language, Tag.Script) from the Go side. Both are '
             'checked against the real x/text by the streams names.tagext/tagback/tagrt (extension) and '
             'names.tagnoext/tagnf/tagkeep (no extension), every pair of the two tables in the thorough tier, '
             'not proved. Observed: x/text parses the plain tag pa-Zzzz (script DFLT, language PAN) as pa-Arab, so '
             'that one pair cannot be written as a plain tag (the D predictions are emitted only when x/text reports '
             'language and script as written; with the extension the pair round-trips)',
             'C14_tag_noext_normal_form: a tag travelling WITHOUT the extension comes back as the pair itself '
             'except where several OpenType tags share one BCP 47 value - then the smallest comes back (repair '
             'a8e5c74; inherent): 10 scripts (bng2, deva, gujr, guru, knda, mlym, mymr, orya, telu, tml2) and 19 '
             'languages (DIV, HYE0, INUK, IRT, KAR, KGE, KHS, KHV, MCR, MLR, MONT, NHC, NLD, ROM, SAY, TCR, TGL, TOD, '
             'YCR); the 8 languages whose value is not a bare subtag (PGR, SYRE, SYRJ, SYRN, ZHH, ZHS, ZHT, ZHTM) '
             'cannot travel without the extension (ZHS/ZHT come back through the zh-Hans/zh-Hant special cases). '
             'With the extension (what otfToBCP47 itself produces) every pair comes back exactly',
             'C14_scriptlist_roundtrip is the composition of the tag theorems with C08_scriptlist_roundtrip (model '
             'SL.encode/SL.readSized of C08); C08 domain SL.InputOk is derived from KeyOk + 16-bit feature indices + '
             'distinct resulting tag pairs (the key lists C08 regenerates equal this property tables: '
             'c08_keys_same, kernel evaluation); remaining hypothesis: SL.encode returns bytes (panics beyond '
             '16-bit offsets). Real code exercised by the D streams names.slrt / names.slspec (independent Lean '
             'reader of the ScriptList)',
             'Tables.Choose: proved up to the external matcher (candidate order = function of the map, default = '
             'most preferred table); the x/text matcher is abstract, its answer (an index) is computed by the real '
             'matcher and passed to the model in stream names.choose; Choose panics (language.MustParse) on a map '
             'key that is not a BCP 47 tag - not modelled',
             'capacity: the property quantifies over glyph-name lists of up to 65535 custom names and over Infos with '
             'several strings of up to 32767 UTF-16 units; the post format 2.0 can index only 65278 non-standard '
             'names (16-bit index 258+n) and the name table has 16-bit record-directory and string-storage offsets, so '
             'no table exists for those inputs and a loud refusal is the only faithful outcome. After the repairs '
             '96a7393 / ac2ee73 / 3d806bb the encoders panic there; the model has checked wrappers '
             '(postEncodeChecked, nameEncodeChecked) and C14_post_checked_roundtrip / C14_name_checked_roundtrip '
             'state, with NO size hypothesis: the encoder refuses loudly or the table round-trips; '
             'C14_*_checked_ok_iff give the exact guards (postFits, nameFits). C14_post_roundtrip / '
             'C14_name_roundtrip (older, sufficient guards) are kept because other properties import them. '
             'The D predicates names.postrt / names.namert expect "panic" exactly where the model refuses'],
 'modelled_not_verified': ['Go string <-> []rune conversion (UTF-8) is the identity on lists of Unicode scalar '
                           'values; strings that are not valid UTF-8 are outside the model',
                           'unicode/utf16 Encode/Decode, sort.Slice (all sort keys distinct), bytes.Buffer and '
                           'encoding/binary re-implemented in Lean and compared by byte-exact correspondence',
                           'name.Table is modelled by its keys()/get() view (hooks VerifKeys/VerifGet/VerifSet); '
                           'Extra entries with ids 0..25 other than 15 are invisible to get() and are ignored '
                           'by Encode',
                           'post header: ItalicAngle enters the model as the 32 bits of '
                           'int32(round(angle*65536)); float rounding not modelled',
                           'name.Info.Encode after the repair visits the language ids in increasing order '
                           '(model: insertion sort of the regenerated tables); byte-exact correspondence for '
                           'every Info, also with several tags per platform; beyond the capacity both sides refuse; '
                           'C14_name_roundtrip still holds for every enumeration order'],
 'assumptions': ['NameDomain: Info keys distinct (Go maps), tags among the values of appleBCP/msBCP, Mac strings '
                 'in the Mac Roman repertoire, Windows strings valid Unicode, name ids 16-bit, Windows encoding '
                 'id 1 or 10 (10 only after the repair of name.Decode), directory and storage within 16-bit '
                 'fields',
                 'post: at most 65535 glyphs, names of at most 255 bytes, 258 + custom names <= 65536',
                 'tags: script/language tags are keys of the regenerated scriptBcp47/langBcp47 (emitted sorted by '
                 'tag; order, distinct keys and tag shapes checked in the kernel); plain tags: script a value of '
                 'scriptBcp47, language a value of langBcp47 or und',
                 'script lists: keys in KeyOk, feature indices 16-bit and no optional index 0xFFFF, distinct resulting '
                 'tag pairs, SL.encode returning bytes (it panics beyond 16-bit offsets)']}

LEVEL = {'text': 'Proof: (1) over the Mac Roman table regenerated from mac/encoding.go, Encode and Decode are '
         'mutually inverse on all byte strings / on the repertoire and injective (whole table by kernel '
         'evaluation), and the table equals the independently written Apple table; (2) the UTF-16BE codec of '
         'the name table round-trips every sequence of Unicode scalar values; (3) the model of post.Info.Encode '
         'and post.Read returns every glyph-name list (standard order => 32-byte format 1, nil => format 3, '
         'otherwise format 2) unchanged, for any standard-name table; the regenerated 258 names equal the '
         'independently written standard Macintosh list; (4) the model of name.Info.Encode / name.Decode '
         'returns, for every platform, tag and name id, exactly the stored string, for every iteration order '
         'of the language maps, inside the 16-bit capacity of the format; (5) every script and language tag of '
         'the regenerated OpenType tag tables survives the -x-script-lang private-use extension (string level, '
         'x/text abstract); a tag without the extension is mapped deterministically (smallest OpenType tag '
         'with the value), comes back in an explicit normal form, and otfToBCP47(bcp47ToOtf t) keeps its '
         'language and script; script lists round-trip tags-to-tags by composition with the C08 codec theorem. '
         'Tied to the Go code by byte-exact '
         '(encoders) and value-exact (decoders, incl. mutated and truncated tables, lone surrogates, all 256 '
         'bytes, every language id) correspondence, and by independent Lean readers of the post and name '
         'tables evaluated on the bytes written by the real encoders.',
 'note': 'Trusted: Lean kernel + 3 standard axioms; hand-written models mirror the code as checked by sampled '
         'correspondence; Spec readers are my reading of the OpenType name/post chapters and the Apple tables. '
         'Repairs in /repo from this property: name.Decode reads Windows encoding 10; gtab.otfToBCP47 strips the '
         'space padding of short script tags; bcp47ToOtf picks the smallest matching tag (was: map order); '
         'name.Info.Encode lays out storage in language-id order (was: map order). The three former known findings (silent 16-bit wraps in the post and name encoders) are '
         'repaired (96a7393, ac2ee73, 3d806bb: the encoders panic); their inputs are regression lines in '
         'corpus/C14/regress.case.',
 'technique': 'Lean 4 proofs about codec/table models, kernel evaluation over regenerated tables, byte- and '
              'value-exact differential correspondence, independent Lean readers on real encoder output'}
