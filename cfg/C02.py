"""Configuration of ./check C02 (see cfg/README)."""

_GROUPS = ['GlyfDec', 'GlyfLazy', 'Cmap4', 'Cmap12', 'CmapDir', 'Metrics', 'NameCff', 'Otl', 'CffDict',
           'CffSets', 'GtabLists', 'LookupList', 'GsubSub', 'SeqCtx', 'ChainCtx', 'GposSub']   # further checked-index model groups: Drive/Total<G>.lean + harness/area_total_<g>.go

PROP = {'drive': ['Total'] + ['Total' + g for g in _GROUPS],
 'harness_files': ['area_total.go'] + ['area_total_' + g.lower() + '.go' for g in _GROUPS],
 'modules': ['SfntV.Props.C02', 'SfntV.Props.C02B'],
 'required_theorems': ['C02_kern_no_panic', 'C02_kern_cost', 'C02_kern',
                       'C02_maxp_no_panic', 'C02_maxp_cost', 'C02_maxp',
                       'C02_header_no_panic', 'C02_header_cost', 'C02_header',
                       'C02_gdef_no_panic', 'C02_gdef_cost_partial', 'C02_gdef_alloc_fails',
                       'C02_kern_unrepaired_cost_fails', 'C02_facts',
                       'C02_loca_no_panic', 'C02_loca_cost', 'C02_removePadding_no_panic', 'C02_composite_no_panic',
                       'C02_glyf_no_panic', 'C02_glyf_cost', 'C02_glyf_agrees',
                       'C02_lazy_safe_simple', 'C02_lazy_simple_cost', 'C02_lazy_safe_components',
                       'C02_cmap4_no_panic', 'C02_cmap4_cost', 'C02_cmap4_agrees', 'C02_lazy_safe_cmap4',
                       'C02_cmap12_no_panic', 'C02_cmap12_cost', 'C02_cmap12_per_group_cap_fails', 'C02_cmap12_agrees',
                       'C02_lazy_safe_cmap12',
                       'C02_hmtx_no_panic', 'C02_hmtx_cost', 'C02_head_no_panic', 'C02_head_cost',
                       'C02_os2_no_panic', 'C02_os2_cost', 'C02_post_no_panic', 'C02_post_cost', 'C02_metrics_agree',
                       'C02_name_no_panic', 'C02_name_cost_partial', 'C02_name_cost_fails', 'C02_name_agrees',
                       'C02_cffindex_no_panic', 'C02_cffindex_cost', 'C02_cffindex_agrees',
                       'C02_cmap_no_panic', 'C02_cmap_cost_partial', 'C02_cmap_agrees', 'C02_lazy_safe_cmap_get',
                       'C02_cmap0_no_panic', 'C02_cmap0_mac_no_panic', 'C02_cmap0_mac_cost', 'C02_cmap0_mac_agrees', 'C02_lazy_safe_cmap0', 'C02_cmap6_no_panic', 'C02_cmap6_cost', 'C02_cmap06_agree',
                       'C02_coverage_no_panic', 'C02_coverage_cost', 'C02_classdef_no_panic', 'C02_classdef_cost',
                       'C02_classdef_unrepaired_cost_fails', 'C02_classdef_unrepaired_cost', 'C02_otl_agree', 'C02_gdef_concrete_no_panic',
                       'C02_gdef_unrepaired_alias', 'C02_gdef_alias_cached',
                       'C02_simple_agrees', 'C02_post_agrees', 'C02_cffindexat_no_panic', 'C02_cffindexat_cost', 'C02_cffindexat_agrees',
                       'C02_cffdict_no_panic', 'C02_cffdict_cost', 'C02_cfffloat_no_panic', 'C02_cfffloat_cost', 'C02_cffdict_agrees',
                       'C02_charset_no_panic', 'C02_charset_cost', 'C02_encoding_no_panic', 'C02_encoding_cost',
                       'C02_fdselect_no_panic', 'C02_fdselect_no_panic_caller', 'C02_fdselect_cost', 'C02_lazy_safe_fdselect',
                       'C02_charset_agrees', 'C02_encoding_agrees', 'C02_fdselect_agrees', 'C02_langsys_no_panic',
                       'C02_scripttable_no_panic', 'C02_scriptlist_no_panic', 'C02_featurelist_no_panic', 'C02_gtab_header_no_panic',
                       'C02_langsys_cost', 'C02_scriptlist_cost_partial', 'C02_featurelist_cost', 'C02_langsys_agrees',
                       'C02_lookuplist_no_panic', 'C02_lookuplist_gsub_no_panic', 'C02_lookuplist_gpos_no_panic', 'C02_extension_no_panic',
                       'C02_lookuplist_cost_partial', 'C02_lookuplist_alias', 'C02_lookuplist_cost_fails', 'C02_lookuplist_agrees',
                       'C02_gsub11_no_panic', 'C02_gsub12_no_panic', 'C02_gsub21_no_panic', 'C02_gsub31_no_panic',
                       'C02_gsub41_no_panic', 'C02_gsub81_no_panic', 'C02_gsub_dispatch_no_panic', 'C02_gsub11_cost',
                       'C02_gsub12_cost', 'C02_gsub21_cost_partial', 'C02_gsub31_cost_partial', 'C02_gsub41_cost',
                       'C02_gsub81_cost_partial', 'C02_gsub21_cost_fails', 'C02_gsub11_agrees', 'C02_gsub12_agrees',
                       'C02_gsub21_agrees', 'C02_gsub31_agrees', 'C02_gsub41_agrees', 'C02_gsub81_agrees',
                       'C02_nested_no_panic', 'C02_seqctx1_no_panic', 'C02_seqctx2_no_panic', 'C02_seqctx3_no_panic',
                       'C02_seqctx1_cost_partial', 'C02_seqctx2_cost', 'C02_seqctx3_cost_partial', 'C02_seqctx1_alias',
                       'C02_seqctx1_cost_fails', 'C02_seqctx3_agrees', 'C02_chain1_no_panic', 'C02_chain2_no_panic',
                       'C02_chain3_no_panic', 'C02_chain1_cost', 'C02_chain2_cost', 'C02_chain3_cost_partial',
                       'C02_chain_zero_count', 'C02_chain1_agrees', 'C02_chain2_agrees', 'C02_chain3_agrees',
                       'C02_gpos11_no_panic', 'C02_gpos12_no_panic', 'C02_gpos21_no_panic', 'C02_gpos22_no_panic',
                       'C02_gpos31_no_panic', 'C02_gpos_dispatch_no_panic', 'C02_anchor_no_panic', 'C02_markarray_no_panic',
                       'C02_gpos11_cost', 'C02_gpos12_cost', 'C02_gpos21_cost_partial', 'C02_gpos22_cost',
                       'C02_gpos31_cost', 'C02_markarray_cost', 'C02_gpos11_agrees', 'C02_gpos12_agrees',
                       'C02_gsub_dispatch_agrees', 'C02_gsub_dispatch_unrepaired_collision', 'C02_chain_dispatch_agrees', 'C02_seqctx_dispatch_agrees', 'C02_gpos_dispatch_agrees', 'C02_lookuplist_no_ext_ext', 'C02_lookuplist_no_ext_ext_gpos', 'C02_lookuplist_ext_ext_rejected',
                       'C02_gpos51_no_panic', 'C02_gpos51_cost_partial', 'C02_gpos51_unrepaired_panics'],
 'areas': [('total', 3000, 28000)],
 'rule': 'distinct case lines (decoder, bytes); non-trivial = input of at least 4 bytes',
 'partial': [
     'modelled: yes / proved: yes (checked-index model, no panic on every input, explicit cost, V stream + site inventory), tier A: '
     'kern.Read, maxp.Read, header.Read, gdef.Read, cmap.Decode + Table.Get + decodeFormat0/4/6/12 + Lookup/CodeRange, decodeLoca + '
     'glyf.Decode + decodeGlyph + removePadding + decodeGlyphComposite + SimpleGlyph.Decode + Components, hmtx.Decode, head.Read, '
     'os2.Read, post.Read, name.Decode + utf16Decode, CFF readIndex/readIndexAt, coverage.Read/ReadSet, classdef.Read; tier B: CFF '
     'decodeDict/decodeFloat, readCharset/readEncoding/readFDSelect (+ the FDSelect closure), readScriptList/readScriptTable/'
     'readLangSysTable/readFeatureList + the gtab.Read header, readLookupList + readExtensionSubtable + both subtable dispatchers, '
     'GSUB 1.1/1.2/2.1/3.1/4.1/8.1, readNested + SeqContext1/2/3, ChainedSeqContext1/2/3, GPOS 1.1/1.2/2.1/2.2/3.1/5.1 (5.1 as repaired by 33f30d8), anchor.Read, '
     'markarray.Read (Props/C02.lean and Props/C02B.lean)',
     'cost clause TRUE ONLY IN A WEAKER FORM (proved as *_cost_partial; the negation of the linear clause proved where a *_fails / '
     '*_alias theorem is listed): gdef.Read, name.Decode, cmap.Decode (quadratic steps), readScriptList (cubic), readLookupList '
     '(6000 x subtable cost), GSUB 2.1/3.1/8.1, SeqContext1/3, ChainedSeqContext3, GPOS 2.1 (offsets may alias one record and every '
     'visit is charged); caps tested only AFTER the work: GSUB 4.1, SeqContext2, ChainedSeqContext2; linear plus a constant cap: '
     'decodeFormat4/12, coverage, classdef, SimpleGlyph.Decode, readFeatureList, GPOS 1.x/2.2/3.1, ChainedSeqContext1',
     'modelled: no / proved: no (fuzz-tied only, stream D:total.<decoder> and total.adv families; search, not proof): sfnt.Read '
     '(table merge), cff.Read top level (Top DICT interpretation, readPrivate, charstring interpreter: see C05/C13), GPOS 4.1/6.1 '
     'readers; bridges missing: SeqContext1/2 top level, GPOS 2.1, script table/script list/feature list to the C08 models',
     'C02_lazy_safe is proved for SimpleGlyph.Decode (every value), Components, Table.Get, the format 0/4/6/12 Lookup/CodeRange and the '
     'FDSelect closure; the remaining accessors (Font.Widths/GlyphBBoxes/GlyphName/..., re-encoding, GetBest, Context.Apply) are only '
     'searched by the fuzz stream',
     'wall-time and runtime.MemStats bounds are checked per case against generous constants '
     '(alloc <= 4096*len + 16 MiB, time <= 50 us*len + 3 s, 10 s time-out); they calibrate, they do not prove',
     'open findings (replayed on every run from known_findings.jsonl): aliasing cost in gdef (distinct tables), GSUB context (#27), name '
     'records, lookup list, script list (cubic), GSUB 8.1, GPOS 2.1, chained context 3; re-encoding refused by an explicit encoder panic '
     '(generator class reencode-refused; strict=1 on the known line). Repaired under this property: the uint16 reader-key collision '
     'of the subtable dispatchers incl. the extension-to-extension lookup on which Context.Apply panicked (8867078; theorems '
     'C02_lookuplist_no_ext_ext, C02_*_dispatch_agrees), #35 kern, glyph-name count, #40, #26, #37 (aliased offsets), #36, Format0.Lookup negative rune; offered: '
     'patches/C02/06 (zero glyph counts)'],
 'modelled_not_verified': [
     'parser.Parser is taken as a plain byte view of an in-memory reader (theorem C17); ReadBytes(n>1024) is the only panic site and every modelled call has a constant argument',
     'sort.Slice in header.Read is re-implemented as List.mergeSort and charged n*(log2 n+1) steps',
     'classdef.Read and coverage.ReadSet are abstract parameters of the gdef model; on the V stream their outcomes are tabulated by running the real sub-readers',
     'allocation is counted in elements (map entries, slice elements, objects), not bytes',
     'encoding/binary.Read of fixed structs (head, hhea, OS/2, post header) is a read of the struct size followed by total field '
     'readers; sort.Search/slices.Insert in cmap.Decode are re-implemented (linear search proved equal under sortedness)',
     'Go map reads of the language tables (name), the Mac Roman table and code2rune are function parameters of the models; the driver '
     'instantiates them with the regenerated tables',
     'make sizes: glyf/loca models require n <= available input (proved), the others n < 2^47 (counts are 16/32-bit fields)'],
 'assumptions': ['in-memory readers (bytes.Reader): Seek/ReadAt fail only at the end of the input',
                 'sizes below 2^47 elements for make (inputs up to several MB give counts below 2^32)']}

LEVEL = {'text': 'Proof for tier A and most of tier B, search for the rest: checked-index Lean models (every Go index, slice, make, '
         'parser read, nil-func call and explicit panic is an operation that can yield a panic) of kern, maxp, header, gdef, the cmap '
         'directory and formats 0/4/6/12, loca/glyf/simple and composite glyphs, hmtx, head, OS/2, post, name, coverage, classdef, the '
         'CFF INDEX/DICT/charset/encoding/FDSelect readers, the GSUB/GPOS header, script, feature and lookup lists, GSUB 1-4/8, '
         '(chained) context 1-3, GPOS 1-3, anchor and mark array are proved never to panic on any byte string (167 theorems), with '
         'explicit step and allocation bounds; where the linear clause is false (offset aliasing: gdef, name, script list, lookup '
         'list, GSUB 2/3/8, context, GPOS 2.1; quadratic cmap directory) the true bound is proved together with a witness. Lazy '
         'decoders and accessors (SimpleGlyph.Decode on every value, Components, Table.Get, Lookup, CodeRange, the FDSelect closure) '
         'are proved panic-free on whatever the decoders return. Each checked model is proved equal, after erasing sites and costs, '
         'to the value-level model of the property that owns the format (C03, C09, C11, C12, C13, C14, C08) where that exists. The '
         'models are tied to the code by outcome-and-value correspondence on malformed inputs and by a regenerated inventory of all '
         'index/slice/make/assertion/panic sites with their guards (one V line per modelled function, 62 functions). Every decoder '
         "named by the property, with the accessors on its result, is additionally run on valid tables from the repository's "
         'encoders, its fuzz corpora, truncations, mutations, the structured inputs of all model generators and constructed families '
         '(many individually legal maximal records, headers straddling the end of the table, aliased offsets), with panics, '
         'time-outs and allocation out of proportion reported as violations with a concrete input.',
 'note': 'Trusted: Lean kernel + 3 standard axioms; hand-written models mirror the code as checked by sampled correspondence and the '
         'site inventory; sfnt.Read, the CFF Top DICT/charstring layer and GPOS 4-6 are covered by differential fuzzing only.',
 'technique': 'Lean 4 proofs about checked-index decoder models + bridging lemmas to value-level models + AST site/guard inventory + '
              'differential fuzzing with allocation/time budgets'}
