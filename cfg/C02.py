"""Configuration of ./check C02 (see cfg/README)."""

_GROUPS = ['GlyfDec', 'GlyfLazy']   # further checked-index model groups: Drive/Total<G>.lean + harness/area_total_<g>.go

PROP = {'drive': ['Total'] + ['Total' + g for g in _GROUPS],
 'harness_files': ['area_total.go'] + ['area_total_' + g.lower() + '.go' for g in _GROUPS],
 'modules': ['SfntV.Props.C02'],
 'required_theorems': ['C02_kern_no_panic', 'C02_kern_cost', 'C02_kern',
                       'C02_maxp_no_panic', 'C02_maxp_cost', 'C02_maxp',
                       'C02_header_no_panic', 'C02_header_cost', 'C02_header',
                       'C02_gdef_no_panic', 'C02_gdef_cost_partial', 'C02_gdef_alloc_fails',
                       'C02_kern_unrepaired_cost_fails', 'C02_facts'],
 'areas': [('total', 3000, 40000)],
 'rule': 'distinct case lines (decoder, bytes); non-trivial = input of at least 4 bytes',
 'partial': [
     'modelled: yes / proved: yes (no panic + explicit linear cost): kern.Read (as repaired), maxp.Read, '
     'header.Read; gdef.Read proved panic-free relative to its sub-readers, cost proved only in the true form '
     '(|b|/4+3)*(C+2) and the proportional-allocation clause DISPROVED (C02_gdef_alloc_fails, known finding C02-gdef-alias)',
     'modelled: no / proved: no in this area (fuzz-tied only, stream D:total.<decoder>; reported as search, not proof): '
     'sfnt.Read, cff.Read (incl. DICT, charset, encoding, FDSelect, charstring interpreter), cmap.Decode + Get/GetBest/Lookup, '
     'glyf.Decode + SimpleGlyph.Decode + Components, gtab.Read (GSUB and GPOS), coverage.Read/ReadSet, classdef.Read, '
     'name.Decode, head.Read, hmtx.Decode, os2.Read, post.Read (several of these have value-level models under other '
     'properties: C09 cmap, C11 glyf, C12 metrics, C08 coverage/classdef/gtab, C13 CFF, C14 name/post; none is in checked-index style)',
     'C02_lazy_safe (whatever Decode returns, the lazy accessors do not panic) is only searched by the fuzz stream '
     '(accessors run after every successful decode), not proved',
     'wall-time and runtime.MemStats bounds are checked per case against generous constants '
     '(alloc <= 4096*len + 16 MiB, time <= 50 us*len + 3 s, 10 s time-out); they calibrate, they do not prove',
     'known open cost findings (each replayed on every run from known_findings.jsonl): gdef.Read mark-glyph-set aliasing (#37, also '
     'a theorem), classdef.Read format 2 backward ranges (#36), GSUB/GPOS context-rule aliasing (#27), CFF Private DICT size (#40), '
     'Type 2 subroutine call blow-up (#26); repaired under this property: kern.Read pair count (#35), sfnt.Read glyph-name count '
     '(Font.GlyphName panic); #6 SimpleGlyph.Decode panics are no longer seen since d60b209 (regression inputs in corpus/C02)'],
 'modelled_not_verified': [
     'parser.Parser is taken as a plain byte view of an in-memory reader (theorem C17); ReadBytes(n>1024) is the only panic site and every modelled call has a constant argument',
     'sort.Slice in header.Read is re-implemented as List.mergeSort and charged n*(log2 n+1) steps',
     'classdef.Read and coverage.ReadSet are abstract parameters of the gdef model; on the V stream their outcomes are tabulated by running the real sub-readers',
     'allocation is counted in elements (map entries, slice elements, objects), not bytes'],
 'assumptions': ['in-memory readers (bytes.Reader): Seek/ReadAt fail only at the end of the input',
                 'sizes below 2^47 elements for make (inputs up to several MB give counts below 2^32)']}

LEVEL = {'text': 'Proof for four decoders, search for the rest: checked-index Lean models of kern.Read (repaired), maxp.Read, '
         'header.Read and gdef.Read (every Go index/slice/make/parser read is an operation that can yield a panic) are proved '
         'never to panic on any byte string, with explicit step and allocation bounds (kern: |b|+3 steps, |b|+1 entries; maxp: 2/2; '
         'header: 3100/840); for gdef the proportional-allocation clause is disproved by a witness family and the true bound is '
         'proved. The models are tied to the code by outcome-and-value correspondence on malformed inputs and by a regenerated '
         'inventory of all index/slice/make/assertion/panic sites with their guards, compared with committed expectations. Every '
         'decoder named by the property (and the lazy accessors on its result) is additionally run on valid tables from the '
         "repository's encoders, its fuzz corpora, truncations at every offset, bit/byte/count/offset mutations and constructed "
         'adversaries, with panics, time-outs and allocation out of proportion reported as violations.',
 'note': 'Trusted: Lean kernel + 3 standard axioms; hand-written models mirror the code as checked by sampled correspondence and the '
         'site inventory; decoders other than the four modelled ones are covered by differential fuzzing only.',
 'technique': 'Lean 4 proofs about checked-index decoder models + AST site/guard inventory + differential fuzzing with allocation/time budgets'}
