#!/usr/bin/env python3
"""Rewrite the generated tables of DESIGN.md (between the BEGIN/END markers): repaired defects and
open findings from known_findings.jsonl, and the seeded changes with the checks that catch them."""
import json, glob, re, os
here = os.path.dirname(os.path.abspath(__file__))
fixed, opened = [], []
for l in open(os.path.join(here, "known_findings.jsonl")):
    l = l.strip()
    if l.startswith("fixed:"):
        m = re.match(r"fixed: property=(\S+) (\S+) (.*)", l)
        fixed.append(m.groups())
    elif l.startswith("{"):
        e = json.loads(l)
        if e.get("status", "open") == "open":
            opened.append(e)
out = ["<!-- BEGIN GENERATED TABLES (mkdesign_tables.py) -->", "",
       "Repaired defects (one `fix:` commit each in `/repo`; the models mirror the repaired code):", "",
       "| property | commit | what failed |", "|---|---|---|"]
for p, c, w in fixed:
    out.append(f"| {p} | `{c}` | {w.replace('|', '/')} |")
out += ["", "Open known findings (replayed on every run, printed as `KNOWN-FINDING`; exit status stays 0):", "",
        "| property | id | what fails |", "|---|---|---|"]
for e in opened:
    out.append(f"| {e['property']} | {e['id']} | {e['what'].replace('|', '/')[:400]} |")
out += ["", "Seeded changes (each confirmed by the lead in a scratch worktree: builds, unedited suite passes with the change, demonstration fails with it and passes without) and what the property's quick check reports with the change applied:", "",
        "| seeded change | what it does / what it needs | caught | how |", "|---|---|---|---|"]
for f in sorted(glob.glob(os.path.join(here, "seeded", "*", "meta.json"))):
    m = json.load(open(f))
    name = f.split("/")[-2]
    if not m.get("confirmed", True) and "confirmed_by_lead" not in m:
        continue
    det = m.get("detected")
    how = m.get("detected_how") or ("VIOLATION with a concrete failing input as replay" if m.get("detected_with_concrete_input") else ("VIOLATION … no-failing-input-found" if det else "not caught — see notes"))
    if m.get("obsolete"):
        how = "caught when made; now OBSOLETE: " + m["obsolete"][:200]
    if m.get("strengthened"):
        how += "; " + (m["strengthened"] if isinstance(m["strengthened"], str) else "check strengthened after a first miss")
    out.append(f"| {name} | {m['summary'][:260].replace('|','/')} Needs: {str(m.get('needs',''))[:200].replace('|','/')} | {'yes' if det else 'NO'} | {how} |")
# first outcome vs current outcome per round
import collections
_st = collections.OrderedDict()
for f in sorted(glob.glob(os.path.join(here, "seeded", "*", "meta.json"))):
    m = json.load(open(f))
    name = f.split("/")[-2]
    _m = re.search(r"-r(\d+)m", name)
    rnd = "round " + (_m.group(1) if _m else "1")
    d = _st.setdefault(rnd, collections.Counter())
    fd = m.get("first_run_detected", m.get("detected"))
    fc = m.get("first_run_concrete", m.get("detected_with_concrete_input"))
    d["n"] += 1
    d["first_concrete" if fc else "first_noinput" if fd else "first_missed"] += 1
    d["now_concrete" if m.get("detected_with_concrete_input") else "now_noinput" if m.get("detected") else "now_missed"] += 1
out += ["", "First outcome per round (quick tier, the property's own check plus the cross-checks listed in meta.json) and outcome now, after the checks were strengthened; for round 1 the 'first' column is the outcome at the first re-evaluation, some of its seeds had been used to strengthen checks before:", "",
        "| round | seeds | first: concrete input | first: no-failing-input-found | first: missed | now: concrete | now: no input | now: missed |", "|---|---|---|---|---|---|---|---|"]
for rnd in sorted(_st, key=lambda r: int(r.split()[1])):
    d = _st[rnd]
    out.append(f"| {rnd} | {d['n']} | {d['first_concrete']} | {d['first_noinput']} | {d['first_missed']} | {d['now_concrete']} | {d['now_noinput']} | {d['now_missed']} |")
# per-property status from cfg + last evidence
import sys
sys.path.insert(0, here)
from checkcfg import PROPS, CLAIMED, NOT_APPLICABLE
out += ["", "Per-property status (from `cfg/Cnn.py` and the last committed `evidence/Cnn.json`):", "",
        "| id | claimed | theorems (discharged/obligations) | last quick run: cases, streams | what stays partial (from cfg) |", "|---|---|---|---|---|"]
ids = [json.loads(l)["id"] for l in open(os.path.join(here, "properties.jsonl")) if l.strip()]
for pid in ids:
    if pid not in PROPS:
        out.append(f"| {pid} | no | — | — | {NOT_APPLICABLE.get(pid, '')[:200]} |")
        continue
    c = PROPS[pid]
    try:
        e = json.load(open(os.path.join(here, "evidence", pid + ".json")))["coverage"]
        ob = f"{e.get('discharged')}/{e.get('obligations')}"
        st = f"{e.get('evaluations')} cases; " + ", ".join(f"{k} {v}" for k, v in sorted(e.get("streams", {}).items()))[:300]
    except Exception:
        ob, st = "?", "?"
    part = "; ".join(str(x) for x in c.get("partial", []))[:700].replace("|", "/").replace("\n", " ")
    out.append(f"| {pid} | {'yes' if pid in CLAIMED else 'no'} | {ob} | {st} | {part} |")
out += ["", "<!-- END GENERATED TABLES -->"]
p = os.path.join(here, "DESIGN.md")
s = open(p).read()
block = "\n".join(out)
if "<!-- BEGIN GENERATED TABLES" in s:
    s = re.sub(r"<!-- BEGIN GENERATED TABLES.*?<!-- END GENERATED TABLES -->", lambda _: block, s, flags=re.S)
else:
    s = s.replace("12.5 Seeded changes and which checks catch them: see `seeded/` and the table at the end of this\nsection (filled in as the changes are confirmed).",
                  "12.5 Seeded changes and which checks catch them, repaired defects, open findings (tables generated\nfrom `known_findings.jsonl` and `seeded/*/meta.json` by `mkdesign_tables.py`):\n\n" + block)
open(p, "w").write(s)
print("tables:", len(fixed), "fixed,", len(opened), "open,", len(glob.glob(os.path.join(here, 'seeded', '*'))), "seeded")
