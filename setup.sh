#!/bin/sh
# Build the framework offline from files on disk: regenerate facts from /repo, build all Lean
# modules (proofs) and the driver, warm the Go build cache for extractor and harness.
set -e
cd "$(dirname "$0")"
export GOFLAGS=-mod=mod GOPROXY=off GOSUMDB=off GOTOOLCHAIN=local
mkdir -p lean/SfntV/Generated evidence
(cd extract && go build -o /tmp/verif_extract_setup . && /tmp/verif_extract_setup /repo "$(pwd)/../lean/SfntV/Generated"; rm -f /tmp/verif_extract_setup)
# root module importing everything that exists
(cd lean && find SfntV -name '*.lean' | sort | sed -e 's/\.lean$//' -e 's#/#.#g' -e 's/^/import /' > SfntV.lean)
(cd lean && lake build SfntV sfntv-driver)
cp /repo/go.sum harness/go.sum
(cd harness && go build -tags verif -o /dev/null .)
echo setup ok
