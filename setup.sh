#!/bin/sh
# Build the framework offline from files on disk: regenerate facts from /repo, build all Lean
# modules (proofs) and the driver, warm the Go build cache for extractor and harness.
set -e
cd "$(dirname "$0")"
export GOFLAGS=-mod=mod GOPROXY=off GOSUMDB=off GOTOOLCHAIN=local
mkdir -p lean/SfntV/Generated evidence
(cd extract && go build -o /tmp/verif_extract_setup . && /tmp/verif_extract_setup /repo "$(pwd)/../lean/SfntV/Generated"; rm -f /tmp/verif_extract_setup)
python3 gen_registry.py
# build the property modules of every claimed property (the proof obligations) and the driver
MODS=$(python3 -c "
import json
from checkcfg import PROPS
claimed = [c['property_id'] for c in json.load(open('MANIFEST.json'))['checks']]
print(' '.join(sorted({m for p in claimed for m in PROPS[p]['modules']})))")
(cd lean && lake build $MODS sfntv-driver)
cp /repo/go.sum harness/go.sum
(cd harness && go build -tags verif -o /dev/null .)
echo setup ok
