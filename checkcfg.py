"""Per-property configuration of ./check: one file cfg/Cnn.py per claimed property, each defining
PROP (modules holding the property theorems, required theorem names, harness areas with
(area, quick_n, thorough_n), what stays partial, ...) and LEVEL (text/note/technique for MANIFEST)."""
import glob, os, importlib.util, json

_here = os.path.dirname(os.path.abspath(__file__))
PROPS, LEVEL_TEXT = {}, {}
import re as _re
for _f in sorted(glob.glob(os.path.join(_here, "cfg", "C*.py"))):
    _pid = os.path.basename(_f)[:-3]
    if not _re.fullmatch(r"C[0-9]{2,3}", _pid):
        continue  # helper files such as C09b.py are merged by their parent cfg
    _spec = importlib.util.spec_from_file_location("cfg_" + _pid, _f)
    _m = importlib.util.module_from_spec(_spec)
    _spec.loader.exec_module(_m)
    PROPS[_pid] = _m.PROP
    LEVEL_TEXT[_pid] = _m.LEVEL

# The properties claimed in MANIFEST.json: only those the lead has reviewed and accepted.
CLAIMED = [l.strip() for l in open(os.path.join(_here, "cfg", "claimed.txt")) if l.strip() and l.strip() in PROPS]

_ids = [json.loads(l)["id"] for l in open(os.path.join(_here, "properties.jsonl")) if l.strip()]
# Properties not (yet) claimed, each with the reason.
_REASONS = {}
try:
    _REASONS = json.load(open(os.path.join(_here, "cfg", "not_applicable.json")))
except Exception:
    pass
NOT_APPLICABLE = {i: _REASONS.get(i, "not yet claimed: model/theorems for this property are still being built (DESIGN.md section 10 order of work); no other technique is substituted")
                  for i in _ids if i not in CLAIMED}
