"""Per-property configuration of ./check (modules holding the property theorems, the
harness areas that tie the model to the code, budgets, what stays partial)."""

PROPS = {
    "C03": dict(
        modules=["SfntV.Props.C03"],
        required_theorems=["C03_no_panic", "C03_ok_iff", "C03_wellformed", "C03_parse_write", "C03_tables_kept", "C03_perm"],
        areas=[("header", 500, 8000)],
        rule="distinct case lines (scaler, tag->bytes map / file bytes); non-trivial = at least two tables",
        partial=["clause 'an independent sfnt implementation reading a complete font file reports the same glyph count, units per em, mapping, widths, names, outlines' is a corollary of C09/C11/C12/C14 spec decoders and is only as complete as those; x/image oracle not yet wired",
                 "C03_read_write (model of header.Read on the written file) is checked by correspondence only (stream header.read), not yet a theorem"],
        modelled_not_verified=["encoding/binary.Write and sort.Slice re-implemented in Lean (be16/be32, mergeSort) and compared by byte-exact correspondence",
                               "uint32 wrap of offsets is outside Dom (file size < 2^32)"],
        assumptions=["Dom: map keys distinct (Go map), file size < 2^32, fewer than 4096 tables (16-bit searchRange)"],
    ),
    "C17": dict(
        modules=["SfntV.Props.C17"],
        required_theorems=["C17_refines", "C17_histories", "C17_spec_fixed", "C17_spec_bulk"],
        areas=[("parser", 3000, 60000)],
        rule="distinct case lines (input bytes, chunk oracle, op history); non-trivial = history of >= 2 ops on a non-empty input",
        partial=[],
        modelled_not_verified=["underlying io.ReadSeeker modelled as a short-read oracle delivering 1..min(wanted,available) bytes; readers returning errors are outside C17 (see C18)",
                               "a Read that returns (0, nil) forever is excluded (io.Reader contract discourages it)"],
        assumptions=["ReadBytes(n) only with n <= bufferSize (documented; the code panics otherwise)",
                     "SeekPos only to non-negative offsets"],
    ),
}

LEVEL_TEXT = {
    "C03": dict(
        text="Proof: for every scaler type and every tag->bytes map in Dom, the model of header.Write yields bytes satisfying an independent executable definition of a well-formed sfnt container (sorted directory, search fields, alignment, containment, disjointness, per-table checksums, whole-file checksum 0xB1B0AFBA), an independent directory parser recovers exactly the written bodies, the writer never panics, and the output is independent of map iteration order. Tied to header/write.go by byte-exact correspondence (model bytes = Go bytes) and by evaluating WellFormed/specParse on the Go-written bytes; ttTableOrder and the magic constant are regenerated from the source.",
        note="Trusted: Lean kernel + 3 standard axioms; hand-written model of header.Write/Read mirrors the code as checked by sampled byte-exact correspondence; WellFormed is my reading of the OpenType font-file chapter.",
        technique="Lean 4 proof about the writer model against an executable well-formedness spec + byte-exact differential correspondence",
    ),
    "C17": dict(
        text="Proof: the model of parser.Parser (every exported method, refill loop, arbitrary short-read oracle) is proved in Lean to produce, for every input, every oracle and every finite operation history, exactly the outputs of a cursor over the plain byte slice (C17_histories), with closed forms for fixed and bulk reads. The model is tied to parser/parser.go by output-exact correspondence on exhaustive short and random long histories around the 1024-byte boundary; bufferSize is regenerated from the source.",
        note="Trusted: Lean kernel + 3 standard axioms; the hand-written model mirrors parser.go as checked by the sampled correspondence (verdict stream: outputs and Pos after every op; diagnostic: window state via verif hook); underlying reader = short-read oracle without errors.",
        technique="Lean 4 refinement proof (invariant + induction over histories) + differential correspondence",
    ),
}

# Properties not (yet) claimed, each with the reason.  Kept current as checks are added.
NOT_APPLICABLE = {
    "C01": "not yet claimed: model/theorems for this property are still being built (see DESIGN.md §10 order of work); no other technique is substituted",
    "C02": "not yet claimed: model/theorems for this property are still being built (see DESIGN.md §10 order of work); no other technique is substituted",
    "C03": "not yet claimed: model/theorems for this property are still being built (see DESIGN.md §10 order of work); no other technique is substituted",
    "C04": "not yet claimed: model/theorems for this property are still being built (see DESIGN.md §10 order of work); no other technique is substituted",
    "C05": "not yet claimed: model/theorems for this property are still being built (see DESIGN.md §10 order of work); no other technique is substituted",
    "C06": "not yet claimed: model/theorems for this property are still being built (see DESIGN.md §10 order of work); no other technique is substituted",
    "C07": "not yet claimed: model/theorems for this property are still being built (see DESIGN.md §10 order of work); no other technique is substituted",
    "C08": "not yet claimed: model/theorems for this property are still being built (see DESIGN.md §10 order of work); no other technique is substituted",
    "C09": "not yet claimed: model/theorems for this property are still being built (see DESIGN.md §10 order of work); no other technique is substituted",
    "C10": "not yet claimed: model/theorems for this property are still being built (see DESIGN.md §10 order of work); no other technique is substituted",
    "C11": "not yet claimed: model/theorems for this property are still being built (see DESIGN.md §10 order of work); no other technique is substituted",
    "C12": "not yet claimed: model/theorems for this property are still being built (see DESIGN.md §10 order of work); no other technique is substituted",
    "C13": "not yet claimed: model/theorems for this property are still being built (see DESIGN.md §10 order of work); no other technique is substituted",
    "C14": "not yet claimed: model/theorems for this property are still being built (see DESIGN.md §10 order of work); no other technique is substituted",
    "C15": "not yet claimed: model/theorems for this property are still being built (see DESIGN.md §10 order of work); no other technique is substituted",
    "C16": "not yet claimed: model/theorems for this property are still being built (see DESIGN.md §10 order of work); no other technique is substituted",
    "C18": "not yet claimed: model/theorems for this property are still being built (see DESIGN.md §10 order of work); no other technique is substituted",
    "C19": "not yet claimed: model/theorems for this property are still being built (see DESIGN.md §10 order of work); no other technique is substituted",
    "C20": "not yet claimed: model/theorems for this property are still being built (see DESIGN.md §10 order of work); no other technique is substituted",
}
NOT_APPLICABLE = {k: v for k, v in NOT_APPLICABLE.items() if k not in PROPS}
