#!/usr/bin/env python3
"""seedall.py <Cnn> <outdir-with-m1..mN> [extra Cnn ...] — adopt seeded changes produced by a mutation
agent: copy to /verif/seeded/<Cnn>-m<i>/, confirm them independently in a scratch worktree
(confirm_seed.sh), run the property's check(s) against a scratch worktree with the change applied
(seedrun.sh), and record the outcome in meta.json."""
import sys, os, json, subprocess, shutil, glob, re
pid, out = sys.argv[1], sys.argv[2]
checks = [pid] + sys.argv[3:]
for d in sorted(glob.glob(os.path.join(out, "m*"))):
    i = os.path.basename(d)
    dst = f"/verif/seeded/{pid}-{os.environ.get('SEED_PREFIX', '')}{i}"
    os.makedirs(dst, exist_ok=True)
    for f in os.listdir(d):
        shutil.copy(os.path.join(d, f), dst)
    meta = json.load(open(os.path.join(dst, "meta.json")))
    pkg = meta.get("pkgdir")
    if not pkg:
        m = re.search(r"pkgdir:\s*(\S+)", open(os.path.join(dst, "demo_test.go")).read())
        pkg = m.group(1) if m else "."
    pkg = pkg.strip("/") or "."
    r = subprocess.run(["/verif/confirm_seed.sh", dst, pkg], capture_output=True, text=True)
    conf = r.stdout.strip().splitlines()
    ok = ("build: ok" in conf and "suite-with-change: pass" in conf and
          "demo-with-change: fails (good)" in conf and "demo-without-change: pass (good)" in conf)
    meta["confirmed_by_lead"] = conf
    meta["confirmed"] = ok
    print(f"== {os.path.basename(dst)}: confirmed={ok} {conf if not ok else ''}")
    if ok:
        r = subprocess.run(["/verif/seedrun.sh", os.path.join(dst, "patch.diff")] + checks, capture_output=True, text=True)
        print(r.stdout.strip())
        meta["checks_run"] = "./seedrun.sh seeded/%s/patch.diff %s (quick tier)" % (os.path.basename(dst), " ".join(checks))
        meta["check_output"] = r.stdout.strip().splitlines()
        meta["detected"] = "VIOLATION" in r.stdout
        meta["detected_with_concrete_input"] = any("VIOLATION" in l and "no-failing-input-found" not in l for l in r.stdout.splitlines())
    json.dump(meta, open(os.path.join(dst, "meta.json"), "w"), indent=1)
