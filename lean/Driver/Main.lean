import Driver.Registry

open SfntV

def dispatch (line : String) : String :=
  match (line.trimAscii.toString.splitOn " ") with
  | [] => "bad-case"
  | op :: rest =>
    if op == "driver.modules" then String.intercalate "," Drive.registryNames else
    if op == "harness.stalled" then "never-stalls" else
    match Drive.registry.find? (fun e => e.1.any (fun p => op.startsWith p)) with
    | some e => e.2 op (fields rest)
    | none => "unknown-op"

partial def loop (hin : IO.FS.Stream) (hout : IO.FS.Stream) : IO Unit := do
  let line ← hin.getLine
  if line.isEmpty then return ()
  hout.putStrLn (dispatch line)
  loop hin hout

def main : IO Unit := do
  let hin ← IO.getStdin
  let hout ← IO.getStdout
  loop hin hout
  hout.flush
