import SfntV.Drive.Parser
import SfntV.Drive.Header
import SfntV.Drive.Cmap

open SfntV

def dispatch (line : String) : String :=
  match (line.trimAscii.toString.splitOn " ") with
  | [] => "bad-case"
  | op :: rest =>
    let fs := fields rest
    if op.startsWith "parser." then Drive.Parser.handle op fs
    else if op.startsWith "header." then Drive.Header.handle op fs
    else if op.startsWith "cmap" then Drive.Cmap.handle op fs
    else "unknown-op"

partial def loop (hin : IO.FS.Stream) (hout : IO.FS.Stream) : IO Unit := do
  let line ← hin.getLine
  if line.isEmpty then return ()
  hout.putStrLn (dispatch line)
  loop hin hout

def main : IO Unit := do
  let hin ← IO.getStdin
  let hout ← IO.getStdout
  loop hin hout
  hout.flush
