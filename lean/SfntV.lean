import SfntV.Drive.Parser
import SfntV.Generated.Header
import SfntV.Generated.Parser
import SfntV.Model.Parser
import SfntV.Prelude.Bytes
import SfntV.Proofs.Parser
import SfntV.Props.C17
