/-
C14 — independent readers written from the OpenType / Apple TrueType table descriptions
(NOT from the Go code): glyph names of the "post" table, strings of the "name" table.
Core-only.  Bytes are `Nat`s below 256.
-/
import SfntV.Prelude.Bytes

namespace SfntV.Names.Spec

/-- Apple TrueType Reference Manual, 'post' table, "the standard Macintosh glyph ordering":
the 258 glyph names of format 1 (written down from the manual's list, not from post/names.go). -/
def standardNames : List String :=
  [".notdef", ".null", "nonmarkingreturn", "space", "exclam", "quotedbl", "numbersign", "dollar",
   "percent", "ampersand", "quotesingle", "parenleft", "parenright", "asterisk", "plus", "comma",
   "hyphen", "period", "slash", "zero", "one", "two", "three", "four", "five", "six", "seven",
   "eight", "nine", "colon", "semicolon", "less", "equal", "greater", "question", "at",
   "A", "B", "C", "D", "E", "F", "G", "H", "I", "J", "K", "L", "M", "N", "O", "P", "Q", "R", "S",
   "T", "U", "V", "W", "X", "Y", "Z", "bracketleft", "backslash", "bracketright", "asciicircum",
   "underscore", "grave",
   "a", "b", "c", "d", "e", "f", "g", "h", "i", "j", "k", "l", "m", "n", "o", "p", "q", "r", "s",
   "t", "u", "v", "w", "x", "y", "z", "braceleft", "bar", "braceright", "asciitilde",
   "Adieresis", "Aring", "Ccedilla", "Eacute", "Ntilde", "Odieresis", "Udieresis", "aacute",
   "agrave", "acircumflex", "adieresis", "atilde", "aring", "ccedilla", "eacute", "egrave",
   "ecircumflex", "edieresis", "iacute", "igrave", "icircumflex", "idieresis", "ntilde", "oacute",
   "ograve", "ocircumflex", "odieresis", "otilde", "uacute", "ugrave", "ucircumflex", "udieresis",
   "dagger", "degree", "cent", "sterling", "section", "bullet", "paragraph", "germandbls",
   "registered", "copyright", "trademark", "acute", "dieresis", "notequal", "AE", "Oslash",
   "infinity", "plusminus", "lessequal", "greaterequal", "yen", "mu", "partialdiff", "summation",
   "product", "pi", "integral", "ordfeminine", "ordmasculine", "Omega", "ae", "oslash",
   "questiondown", "exclamdown", "logicalnot", "radical", "florin", "approxequal", "Delta",
   "guillemotleft", "guillemotright", "ellipsis", "nonbreakingspace", "Agrave", "Atilde", "Otilde",
   "OE", "oe", "endash", "emdash", "quotedblleft", "quotedblright", "quoteleft", "quoteright",
   "divide", "lozenge", "ydieresis", "Ydieresis", "fraction", "currency", "guilsinglleft",
   "guilsinglright", "fi", "fl", "daggerdbl", "periodcentered", "quotesinglbase", "quotedblbase",
   "perthousand", "Acircumflex", "Ecircumflex", "Aacute", "Edieresis", "Egrave", "Iacute",
   "Icircumflex", "Idieresis", "Igrave", "Oacute", "Ocircumflex", "apple", "Ograve", "Uacute",
   "Ucircumflex", "Ugrave", "dotlessi", "circumflex", "tilde", "macron", "breve", "dotaccent",
   "ring", "cedilla", "hungarumlaut", "ogonek", "caron", "Lslash", "lslash", "Scaron", "scaron",
   "Zcaron", "zcaron", "brokenbar", "Eth", "eth", "Yacute", "yacute", "Thorn", "thorn", "minus",
   "multiply", "onesuperior", "twosuperior", "threesuperior", "onehalf", "onequarter",
   "threequarters", "franc", "Gbreve", "gbreve", "Idotaccent", "Scedilla", "scedilla", "Cacute",
   "cacute", "Ccaron", "ccaron", "dcroat"]

def standardTable : List (List Nat) := standardNames.map fun s => s.toUTF8.toList.map UInt8.toNat

def word (bs : Array Nat) (i : Nat) : Option Nat :=
  match bs[i]?, bs[i+1]? with
  | some a, some b => some (a * 256 + b)
  | _, _ => none

/-- "stringData: glyph names with length bytes [variable] (a Pascal string)": all complete
Pascal strings found in the data, in order.  Fuel = number of bytes. -/
def pascalStrings : Nat → List Nat → List (List Nat)
  | 0, _ => []
  | _, [] => []
  | fuel + 1, l :: rest =>
    if l ≤ rest.length then rest.take l :: pascalStrings fuel (rest.drop l) else []

/-- OpenType 'post': "Version 1.0 … the glyph names are the 258 standard Macintosh names …
Version 2.0: uint16 numGlyphs; uint16 glyphNameIndex[numGlyphs]; uint8 stringData[] … If the
name index is between 0 and 257, treat the name index as a glyph index in the Macintosh
standard order. If the name index is between 258 and 65535, then subtract 258 and use that to
index into the list of Pascal strings at the end of the table. … Version 3.0 … no PostScript
name information is provided for the glyphs."  Result: `none` = malformed,
`some none` = no names, `some (some l)` = the names. -/
def postNamesWith (std : Array (List Nat)) (bl : List Nat) : Option (Option (List (List Nat))) :=
  let bs := bl.toArray
  if bs.size < 32 then none else
  match word bs 0, word bs 2 with
  | some 1, some 0 => some (some std.toList)
  | some 3, some 0 => some none
  | some 2, some 0 =>
    match word bs 32 with
    | none => none
    | some n =>
      if bs.size < 34 + 2 * n then none else
      let strs := (pascalStrings bl.length (bl.drop (34 + 2 * n))).toArray
      let names := (List.range n).mapM fun g =>
        match word bs (34 + 2 * g) with
        | none => none
        | some idx =>
          if idx < 258 then std[idx]? else strs[idx - 258]?
      names.map some
  | _, _ => none

def postNames (bl : List Nat) : Option (Option (List (List Nat))) := postNamesWith standardTable.toArray bl

/-! ### name table -/

/-- Apple, "ROMAN.TXT" (Mac OS Roman to Unicode, the variant with the euro sign at 0xDB): the
Unicode values of the bytes 0x80..0xFF (written down from the Apple table, not from mac/encoding.go). -/
def macRomanHigh : List Nat :=
  [0xC4, 0xC5, 0xC7, 0xC9, 0xD1, 0xD6, 0xDC, 0xE1, 0xE0, 0xE2, 0xE4, 0xE3, 0xE5, 0xE7, 0xE9, 0xE8,
   0xEA, 0xEB, 0xED, 0xEC, 0xEE, 0xEF, 0xF1, 0xF3, 0xF2, 0xF4, 0xF6, 0xF5, 0xFA, 0xF9, 0xFB, 0xFC,
   0x2020, 0xB0, 0xA2, 0xA3, 0xA7, 0x2022, 0xB6, 0xDF, 0xAE, 0xA9, 0x2122, 0xB4, 0xA8, 0x2260, 0xC6, 0xD8,
   0x221E, 0xB1, 0x2264, 0x2265, 0xA5, 0xB5, 0x2202, 0x2211, 0x220F, 0x3C0, 0x222B, 0xAA, 0xBA, 0x3A9, 0xE6, 0xF8,
   0xBF, 0xA1, 0xAC, 0x221A, 0x192, 0x2248, 0x2206, 0xAB, 0xBB, 0x2026, 0xA0, 0xC0, 0xC3, 0xD5, 0x152, 0x153,
   0x2013, 0x2014, 0x201C, 0x201D, 0x2018, 0x2019, 0xF7, 0x25CA, 0xFF, 0x178, 0x2044, 0x20AC, 0x2039, 0x203A, 0xFB01, 0xFB02,
   0x2021, 0xB7, 0x201A, 0x201E, 0x2030, 0xC2, 0xCA, 0xC1, 0xCB, 0xC8, 0xCD, 0xCE, 0xCF, 0xCC, 0xD3, 0xD4,
   0xF8FF, 0xD2, 0xDA, 0xDB, 0xD9, 0x131, 0x2C6, 0x2DC, 0xAF, 0x2D8, 0x2D9, 0x2DA, 0xB8, 0x2DD, 0x2DB, 0x2C7]

/-- Mac OS Roman: bytes below 0x80 are ASCII, the others follow the Apple table. -/
def macRomanDecode (bs : List Nat) : List Nat :=
  bs.map fun b => if b < 128 then b else macRomanHigh.getD (b - 128) 0xFFFD

/-- Unicode, UTF-16: "a pair of 16-bit code units, the first in D800..DBFF and the second in
DC00..DFFF, represents the supplementary code point 10000 + (hi−D800)·400 + (lo−DC00)"; an
unpaired surrogate is ill-formed (replaced by U+FFFD, as converters do).  Big-endian bytes. -/
def utf16beDecode : List Nat → List Nat
  | a :: b :: c :: d :: rest =>
    let u := a * 256 + b
    let v := c * 256 + d
    if 0xD800 ≤ u ∧ u ≤ 0xDBFF ∧ 0xDC00 ≤ v ∧ v ≤ 0xDFFF then
      (0x10000 + (u - 0xD800) * 0x400 + (v - 0xDC00)) :: utf16beDecode rest
    else (if 0xD800 ≤ u ∧ u ≤ 0xDFFF then 0xFFFD else u) :: utf16beDecode (c :: d :: rest)
  | [a, b] => let u := a * 256 + b; [if 0xD800 ≤ u ∧ u ≤ 0xDFFF then 0xFFFD else u]
  | _ => []

/-- One decoded name record: platform, encoding, language id, name id, string (runes). -/
structure NameRec where
  plat : Nat
  enc : Nat
  lang : Nat
  id : Nat
  val : List Nat

/-- OpenType 'name': "uint16 version; uint16 count; Offset16 storageOffset; NameRecord
nameRecord[count]" with "NameRecord: platformID, encodingID, languageID, nameID, length (in bytes),
stringOffset (from start of storage area)".  "Strings for the Windows platform (3) are UTF-16BE";
"Macintosh platform (1), encoding 0 = Roman".  Returns every record of those two kinds whose
string lies inside the table, in file order; `none` if the header or a record does not fit. -/
def nameRecords (bl : List Nat) : Option (List NameRec) :=
  let bs := bl.toArray
  match word bs 2, word bs 4 with
  | some count, some so =>
    if bs.size < 6 + 12 * count then none else
    (List.range count).foldr (fun i acc =>
      match acc with
      | none => none
      | some l =>
        let fld (k : Nat) := (word bs (6 + 12 * i + 2 * k)).getD 0
        let plat := fld 0; let enc := fld 1; let lang := fld 2; let nid := fld 3; let len := fld 4; let off := fld 5
        if so + off + len > bs.size then none else
        let str := (bl.drop (so + off)).take len
        if plat = 3 ∧ (enc = 1 ∨ enc = 10) then some (⟨plat, enc, lang, nid, utf16beDecode str⟩ :: l)
        else if plat = 1 ∧ enc = 0 then some (⟨plat, enc, lang, nid, macRomanDecode str⟩ :: l)
        else some l) (some [])
  | _, _ => none

/-! ### script list -/

/-- One language system as an independent reader sees it. -/
structure LangSysRec where
  script : List Nat      -- 4 tag bytes
  lang : List Nat        -- 4 tag bytes, `[]` for the default language system
  required : Nat
  features : List Nat

def wordsAt (bs : Array Nat) (pos n : Nat) : Option (List Nat) :=
  (List.range n).mapM fun i => word bs (pos + 2 * i)

def tagAt (bs : Array Nat) (pos : Nat) : Option (List Nat) :=
  (List.range 4).mapM fun i => bs[pos + i]?

/-- OpenType, chapter 2: "LangSys table: Offset16 lookupOrderOffset (reserved, NULL); uint16
requiredFeatureIndex (0xFFFF if none); uint16 featureIndexCount; uint16 featureIndices[]". -/
def langSysAt (bs : Array Nat) (pos : Nat) : Option (Nat × List Nat) := do
  let req ← word bs (pos + 2)
  let n ← word bs (pos + 4)
  let fs ← wordsAt bs (pos + 6) n
  pure (req, fs)

/-- OpenType, chapter 2: GSUB/GPOS header "uint16 majorVersion, minorVersion; Offset16
scriptListOffset, …"; "ScriptList table: uint16 scriptCount; ScriptRecord {Tag scriptTag;
Offset16 scriptOffset — from beginning of ScriptList}"; "Script table: Offset16
defaultLangSysOffset (may be NULL); uint16 langSysCount; LangSysRecord {Tag langSysTag; Offset16
langSysOffset — from beginning of Script table}".  All language systems, in table order. -/
def scriptListOf (bl : List Nat) : Option (List LangSysRec) := do
  let bs := bl.toArray
  let slo ← word bs 4
  let sc ← word bs slo
  let per ← (List.range sc).mapM fun i => do
    let stag ← tagAt bs (slo + 2 + 6 * i)
    let so ← word bs (slo + 2 + 6 * i + 4)
    let st := slo + so
    let dflt ← word bs st
    let lc ← word bs (st + 2)
    let dl ← if dflt = 0 then pure [] else do
      let (req, fs) ← langSysAt bs (st + dflt)
      pure [(⟨stag, [], req, fs⟩ : LangSysRec)]
    let ls ← (List.range lc).mapM fun j => do
      let ltag ← tagAt bs (st + 4 + 6 * j)
      let lo ← word bs (st + 4 + 6 * j + 4)
      let (req, fs) ← langSysAt bs (st + lo)
      pure (⟨stag, ltag, req, fs⟩ : LangSysRec)
    pure (dl ++ ls)
  pure per.flatten

end SfntV.Names.Spec
