/-
A minimal CFF reader written from Adobe TN5176 (CFF) and TN5177 (Type 2 charstrings), used as
the *specification* against which files written by the real `(*cff.Font).Write` are checked
(property C13, D streams).  It composes the section specifications `specIndex`,
`specCharset`, `specFDSelect` and the DICT operand decoder.  Core-only.
-/
import SfntV.Model.CffIndex
import SfntV.Model.CffDict
import SfntV.Model.CffCharset
import SfntV.Model.CffFdselect
import SfntV.Model.CffEncoding
import SfntV.Model.CffRead

namespace SfntV.Cff.Spec
open SfntV SfntV.Cff

/-- exact decimal `± m · 10^e` -/
structure Dec where
  neg : Bool
  m : Nat
  e : Int
deriving Repr, DecidableEq

def Dec.norm (d : Dec) : Dec :=
  let (n, m, e) := normReal d.neg d.m d.e
  ⟨n, m, e⟩

def Dec.ofInt (v : Int) : Dec := Dec.norm ⟨v < 0, v.natAbs, 0⟩

def Dec.toIntVal (d : Dec) : Int := if d.neg then -(d.m : Int) else d.m

/-- exact sum -/
def Dec.add (a b : Dec) : Dec :=
  let e := if a.e ≤ b.e then a.e else b.e
  let va := a.toIntVal * (10 ^ (a.e - e).toNat : Nat)
  let vb := b.toIntVal * (10 ^ (b.e - e).toNat : Nat)
  let s := va + vb
  Dec.norm ⟨s < 0, s.natAbs, e⟩

/-- `k / 65536` as an exact decimal (`1/65536 = 5^16 / 10^16`) -/
def Dec.ofFixed (k : Int) : Dec := Dec.norm ⟨k < 0, k.natAbs * 5 ^ 16, -16⟩

def operandDec : Operand → Option Dec
  | .int v => some (Dec.ofInt v)
  | .real n m e => some (Dec.norm ⟨n, m, e⟩)
  | .str _ => none

abbrev Dict := List (Nat × List Operand)

def Dict.get (d : Dict) (op : Nat) : Option (List Operand) := (d.find? (·.1 = op)).map (·.2)

/-- single integer operand with default -/
def Dict.int (d : Dict) (op : Nat) (dflt : Int) : Option Int :=
  match d.get op with
  | none => some dflt
  | some [.int v] => some v
  | some [.real n m e] => if e ≥ 0 ∧ e ≤ 12 then some ((if n then -1 else 1) * (m * 10 ^ e.toNat : Nat)) else none
  | _ => none

def Dict.num (d : Dict) (op : Nat) (dflt : Dec) : Option Dec :=
  match d.get op with
  | none => some dflt
  | some [o] => operandDec o
  | _ => none

def Dict.str (d : Dict) (op : Nat) : Option String :=
  match d.get op with
  | none => some ""
  | some [.str s] => some s
  | _ => none

/-- TN5176 §4 Table 6, "delta": "the first value in a delta array is stored as is, each
subsequent value is stored as the difference from the previous value" -/
def undelta : Int → List Operand → Option (List Int)
  | _, [] => some []
  | prev, .int v :: rest => (undelta (prev + v) rest).map ((prev + v) :: ·)
  | _, _ => none

/-! ## Type 2 charstring width (TN5177 §3.1, §4.1) -/

/-- "A number […] 32–246: b0−139; 247–250: (b0−247)*256+b1+108; 251–254: −(b0−251)*256−b1−108;
28: 16-bit two's complement; 255: 32-bit two's complement 16.16 fixed".  Value in units 1/65536. -/
def t2Number : Bytes → Option (Int × Bytes)
  | b0 :: rest =>
    let v := b0.toNat
    if 32 ≤ v ∧ v ≤ 246 then some (((v : Int) - 139) * 65536, rest)
    else if 247 ≤ v ∧ v ≤ 250 then
      match rest with
      | b1 :: r => some ((((v : Int) - 247) * 256 + b1.toNat + 108) * 65536, r)
      | [] => none
    else if 251 ≤ v ∧ v ≤ 254 then
      match rest with
      | b1 :: r => some ((-((v : Int) - 251) * 256 - b1.toNat - 108) * 65536, r)
      | [] => none
    else if v = 28 then
      match rest with
      | b1 :: b2 :: r => some (toI16 (b1.toNat * 256 + b2.toNat) * 65536, r)
      | _ => none
    else if v = 255 then
      match rest with
      | b1 :: b2 :: b3 :: b4 :: r =>
        some (toI32 (((b1.toNat * 256 + b2.toNat) * 256 + b3.toNat) * 256 + b4.toNat), r)
      | _ => none
    else none
  | [] => none

/-- numbers up to the first operator: `(operands, operator byte)` -/
def t2Prefix : Nat → Bytes → List Int → Option (List Int × Nat)
  | 0, _, _ => none
  | fuel+1, cs, acc =>
    match t2Number cs with
    | some (v, r) => t2Prefix fuel r (acc ++ [v])
    | none =>
      match cs with
      | b :: _ => some (acc, b.toNat)
      | [] => none

/-- "The first stack-clearing operator, which must be one of hstem, hstemhm, vstem, vstemhm,
cntrmask, hintmask, hmoveto, vmoveto, rmoveto, or endchar, takes an additional argument — the
width […] which may be expressed as zero or one numeric argument."  The operators that take an
even number of arguments have the width iff the count is odd; hmoveto/vmoveto take one; endchar
none (or four).  Result: `none` = width omitted (defaultWidthX), `some d` = nominalWidthX + d. -/
def t2WidthArg (cs : Bytes) : Option (Option Int) :=
  match t2Prefix (cs.length + 1) cs [] with
  | none => none
  | some (args, op) =>
    let n := args.length
    let odd := n % 2 = 1
    if op = 1 ∨ op = 3 ∨ op = 18 ∨ op = 23 ∨ op = 19 ∨ op = 20 ∨ op = 21 then
      some (if odd then args.head? else none)
    else if op = 22 ∨ op = 4 then
      some (if n = 2 then args.head? else none)
    else if op = 14 then
      some (if n = 1 ∨ n = 5 then args.head? else none)
    else none

/-! ## the file -/

structure PrivateInfo where
  blueValues : List Int
  otherBlues : List Int
  blueShift : Int
  blueFuzz : Int
  forceBold : Bool
  defaultWidth : Dec
  nominalWidth : Dec
  blueScale : Dec
  stdHW : Dec
  stdVW : Dec
deriving Repr

structure FontSummary where
  fontName : Bytes
  strs : List String          -- Version, Notice, Copyright, FullName, FamilyName, Weight
  isFixedPitch : Bool
  underlinePos : Dec
  underlineThick : Dec
  nGlyphs : Nat
  charset : List Nat          -- SIDs or CIDs
  names : Option (List String)  -- simple fonts: glyph names
  ros : Option (String × String × Int)
  fds : List Nat              -- FD index of every glyph
  privs : List PrivateInfo
  widths : List Dec
  encoding : Option (List Nat)   -- simple fonts with a custom encoding: glyph of every code
  italicAngle : Dec
  fontMatrix : List Dec
  fdMatrices : List (List Dec)
deriving Repr

/-- "FontMatrix array 0.001 0 0 0.001 0 0" (Top DICT and Font DICTs) -/
def Dict.matrix (d : Dict) (dflt : List Dec) : Option (List Dec) :=
  match d.get 3079 with
  | none => some dflt
  | some xs => if xs.length = 6 then xs.mapM operandDec else none

def fm001 : List Dec := [Dec.norm ⟨false, 1, -3⟩, Dec.ofInt 0, Dec.ofInt 0, Dec.norm ⟨false, 1, -3⟩, Dec.ofInt 0, Dec.ofInt 0]
def fmId : List Dec := [Dec.ofInt 1, Dec.ofInt 0, Dec.ofInt 0, Dec.ofInt 1, Dec.ofInt 0, Dec.ofInt 0]

def readPrivate (std custom : Array String) (data : Bytes) (d : Dict) : Option PrivateInfo := do
  -- "Private: number number — Private DICT size and offset (0)"
  let (size, off) ← match d.get 18 with
    | some [.int s, .int o] => if s ≥ 0 ∧ o ≥ 0 then some (s.toNat, o.toNat) else none
    | _ => none
  if off + size > data.length then none
  let pd ← match decodeDict std custom ((data.drop off).take size) with
    | .ok d => some d
    | _ => none
  let bv ← undelta 0 ((Dict.get pd 6).getD [])
  let ob ← undelta 0 ((Dict.get pd 7).getD [])
  pure {
    blueValues := bv, otherBlues := ob,
    blueShift := ← Dict.int pd 3082 7, blueFuzz := ← Dict.int pd 3083 1,
    forceBold := (← Dict.int pd 3086 0) ≠ 0,
    defaultWidth := ← Dict.num pd 20 (Dec.ofInt 0), nominalWidth := ← Dict.num pd 21 (Dec.ofInt 0),
    -- "BlueScale number 0.039625", "StdHW number", "StdVW number"
    blueScale := ← Dict.num pd 3081 (Dec.norm ⟨false, 39625, -6⟩),
    stdHW := ← Dict.num pd 10 (Dec.ofInt 0), stdVW := ← Dict.num pd 11 (Dec.ofInt 0) }

/-- "Appendix B: Predefined Encodings" (Standard, Expert): the glyph whose name the table gives
for the code; the tables are regenerated from the sources as name → code lists -/
def predefinedEncoding (tab : List (String × Nat)) (names : List String) : List Nat :=
  (List.range 256).map fun c =>
    match (names.zipIdx.filter fun (ng : String × Nat) => tab.lookup ng.1 = some c).getLast? with
    | some (_, g) => g
    | none => 0

/-- "Header: Card8 major, Card8 minor, Card8 hdrSize, OffSize offSize.  […] Name INDEX, Top DICT
INDEX, String INDEX, Global Subr INDEX follow the header in this order."  Then the Top DICT
operators CharStrings (17), charset (15), ROS (12 30), FDArray (12 36), FDSelect (12 37),
Private (18) locate the other sections by absolute offsets. -/
def readFont (T : Tables) (data : Bytes) : Option FontSummary := do
  let std := T.std
  let major ← specNum data 0 1
  let hdrSize ← specNum data 2 1
  let offSize ← specNum data 3 1
  if major ≠ 1 ∨ hdrSize < 4 ∨ offSize < 1 ∨ offSize > 4 then none
  let (names, p1) ← specIndex data hdrSize
  let (tops, p2) ← specIndex data p1
  let (strIdx, p3) ← specIndex data p2
  let (_gsubrs, _) ← specIndex data p3
  let fontName ← match names with
    | [n] => some n
    | _ => none
  let topBytes ← match tops with
    | [t] => some t
    | _ => none
  let custom ← (strIdx.mapM fun b => String.fromUTF8? (ByteArray.mk b.toArray)).map List.toArray
  let top ← match decodeDict std custom topBytes with
    | .ok d => some d
    | _ => none
  let csOff ← Dict.int top 17 0
  let (charStrings, _) ← specIndex data csOff.toNat
  let nGlyphs := charStrings.length
  if nGlyphs = 0 then none
  let charsetOff ← Dict.int top 15 0
  let isCID0 := (Dict.get top 3102).isSome
  -- "Appendix C: Predefined Charsets": offsets 0, 1, 2 denote ISOAdobe, Expert, ExpertSubset
  let charset ← (if ¬ isCID0 ∧ 0 ≤ charsetOff ∧ charsetOff ≤ 2 then do
      let tab := if charsetOff = 0 then T.isoAdobe else if charsetOff = 1 then T.expert else T.expertSubset
      if nGlyphs > tab.length then none
      (tab.take nGlyphs).mapM fun nm => std.toList.idxOf? nm
    else specCharset data charsetOff.toNat nGlyphs)
  let strs ← [0, 1, 3072, 2, 3, 4].mapM (Dict.str top)
  let isCID := (Dict.get top 3102).isSome
  let (ros, fds, privs, gnames, fdMats) ← (if isCID then do
      let ros ← match Dict.get top 3102 with
        | some [.str r, .str o, .int s] => some (r, o, s)
        | _ => none
      let fdaOff ← Dict.int top 3108 0
      let (fontDicts, _) ← specIndex data fdaOff.toNat
      let fdsOff ← Dict.int top 3109 0
      let fds ← specFDSelect data fdsOff.toNat nGlyphs
      let pm ← fontDicts.mapM fun fdBytes =>
        match decodeDict std custom fdBytes with
        | .ok fd => do pure (← readPrivate std custom data fd, ← Dict.matrix fd fm001)
        | _ => none
      let privs := pm.map (·.1)
      if fds.any (· ≥ privs.length) then none
      pure (some ros, fds, privs, (none : Option (List String)), pm.map (·.2))
    else do
      let p ← readPrivate std custom data top
      let gn ← charset.mapM fun (sid : Nat) => stringsGet std custom (Int.ofNat sid)
      pure (none, List.replicate nGlyphs 0, [p], some gn, []))
  let widths ← (charStrings.zip fds).mapM fun (cs, fd) => do
    let p ← privs[fd]?
    match ← t2WidthArg cs with
    | none => pure p.defaultWidth
    | some d => pure (Dec.add p.nominalWidth (Dec.ofFixed d))
  -- "Encoding: number — encoding offset (0 = Standard, 1 = Expert)"; custom encodings only
  let encOff ← Dict.int top 16 0
  let encoding ← (if isCID then pure none
    else if encOff = 0 then pure (some (predefinedEncoding T.standardEncRev (gnames.getD [])))
    else if encOff = 1 then pure (some (predefinedEncoding T.expertEnc (gnames.getD [])))
    else (specEncoding data encOff.toNat charset).map some : Option (Option (List Nat)))
  pure {
    italicAngle := ← Dict.num top 3074 (Dec.ofInt 0),
    -- the writer under test uses the identity as default for CID-keyed fonts' Top DICT
    fontMatrix := ← Dict.matrix top (if isCID then fmId else fm001),
    fdMatrices := fdMats,
    encoding := encoding,
    fontName := fontName, strs := strs,
    isFixedPitch := (← Dict.int top 3073 0) ≠ 0,
    underlinePos := ← Dict.num top 3075 (Dec.ofInt (-100)), underlineThick := ← Dict.num top 3076 (Dec.ofInt 50),
    nGlyphs := nGlyphs, charset := charset, names := gnames, ros := ros, fds := fds,
    privs := privs, widths := widths }

end SfntV.Cff.Spec
