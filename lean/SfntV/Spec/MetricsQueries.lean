/-
C12 — definitions for the box queries, written from geometry, not from the Go code:
the smallest integer box enclosing a set of points, and the bounding box of the image of a set of
points under an affine map (for a rectangle: of its four corners).  Core-only.
-/
import SfntV.Model.MetricsQueries

namespace SfntV.Metrics.Spec
open SfntV.Metrics

def minQ : List Rat → Rat
  | [] => 0
  | x :: xs => xs.foldl min x

def maxQ : List Rat → Rat
  | [] => 0
  | x :: xs => xs.foldl max x

/-- The glyph bounding box in design units: the smallest box with INTEGER coordinates that contains
every point of the outline (`⌊min x⌋, ⌊min y⌋, ⌈max x⌉, ⌈max y⌉`); all zero for an empty outline. -/
def enclosingBox (pts : List (Rat × Rat)) : Rect :=
  match pts with
  | [] => ⟨0, 0, 0, 0⟩
  | _ => ⟨(minQ (pts.map (·.1))).floor, (minQ (pts.map (·.2))).floor,
          (maxQ (pts.map (·.1))).ceil, (maxQ (pts.map (·.2))).ceil⟩

/-- the image of the point `(x, y)` under the affine map `[a b c d e f]` (PDF convention:
`x' = a·x + c·y + e`, `y' = b·x + d·y + f`) -/
def image (m : Mat) (p : Rat × Rat) : Rat × Rat :=
  (m.a * p.1 + m.c * p.2 + m.e, m.b * p.1 + m.d * p.2 + m.f)

/-- The bounding box of the image of a point set under `m`: the smallest axis-parallel rectangle
containing every image point (for a glyph box: the images of all FOUR corners — under a shear or a
rotation the extreme image points are not the images of the lower-left and upper-right corner). -/
def imageBox (m : Mat) (pts : List (Rat × Rat)) : RectQ :=
  match pts with
  | [] => ⟨0, 0, 0, 0⟩
  | _ =>
    let q := pts.map (image m)
    ⟨minQ (q.map (·.1)), minQ (q.map (·.2)), maxQ (q.map (·.1)), maxQ (q.map (·.2))⟩

/-- glyph space → PDF glyph space units: the font matrix followed by the scale 1000 -/
def pdfMatrix (fm : Mat) : Mat :=
  ⟨1000 * fm.a, 1000 * fm.b, 1000 * fm.c, 1000 * fm.d, 1000 * fm.e, 1000 * fm.f⟩

end SfntV.Metrics.Spec
