/-
C12 — definitions for the box queries, written from geometry, not from the Go code:
the smallest integer box enclosing a set of points, and the bounding box of the image of a set of
points under an affine map (for a rectangle: of its four corners).  Core-only.
-/
import SfntV.Model.MetricsQueries

namespace SfntV.Metrics.Spec
open SfntV.Metrics

def minQ : List Rat → Rat
  | [] => 0
  | x :: xs => xs.foldl min x

def maxQ : List Rat → Rat
  | [] => 0
  | x :: xs => xs.foldl max x

/-- The glyph bounding box in design units: the smallest box with INTEGER coordinates that contains
every point of the outline (`⌊min x⌋, ⌊min y⌋, ⌈max x⌉, ⌈max y⌉`); all zero for an empty outline. -/
def enclosingBox (pts : List (Rat × Rat)) : Rect :=
  match pts with
  | [] => ⟨0, 0, 0, 0⟩
  | _ => ⟨(minQ (pts.map (·.1))).floor, (minQ (pts.map (·.2))).floor,
          (maxQ (pts.map (·.1))).ceil, (maxQ (pts.map (·.2))).ceil⟩

/-- the image of the point `(x, y)` under the affine map `[a b c d e f]` (PDF convention:
`x' = a·x + c·y + e`, `y' = b·x + d·y + f`) -/
def image (m : Mat) (p : Rat × Rat) : Rat × Rat :=
  (m.a * p.1 + m.c * p.2 + m.e, m.b * p.1 + m.d * p.2 + m.f)

/-- The bounding box of the image of a point set under `m`: the smallest axis-parallel rectangle
containing every image point (for a glyph box: the images of all FOUR corners — under a shear or a
rotation the extreme image points are not the images of the lower-left and upper-right corner). -/
def imageBox (m : Mat) (pts : List (Rat × Rat)) : RectQ :=
  match pts with
  | [] => ⟨0, 0, 0, 0⟩
  | _ =>
    let q := pts.map (image m)
    ⟨minQ (q.map (·.1)), minQ (q.map (·.2)), maxQ (q.map (·.1)), maxQ (q.map (·.2))⟩

/-- glyph space → PDF glyph space units: the font matrix followed by the scale 1000 -/
def pdfMatrix (fm : Mat) : Mat :=
  ⟨1000 * fm.a, 1000 * fm.b, 1000 * fm.c, 1000 * fm.d, 1000 * fm.e, 1000 * fm.f⟩

/-- CID-keyed CFF fonts: a glyph of font dictionary `fd` is drawn in the coordinate system of that
dictionary; "the font dictionary matrix is applied first, the font matrix second" (cff.Outlines
doc, Adobe TN 5176 §  FDArray), and PDF glyph space units are 1000 × the result. -/
def cidImage (fd fm : Mat) (p : Rat × Rat) : Rat × Rat :=
  let q := image fm (image fd p)
  (1000 * q.1, 1000 * q.2)

/-- bounding box of the images of a point set under an arbitrary map -/
def imageBoxF (f : Rat × Rat → Rat × Rat) (pts : List (Rat × Rat)) : RectQ :=
  match pts with
  | [] => ⟨0, 0, 0, 0⟩
  | _ =>
    let q := pts.map f
    ⟨minQ (q.map (·.1)), minQ (q.map (·.2)), maxQ (q.map (·.1)), maxQ (q.map (·.2))⟩

/-- horizontal advance in PDF glyph space units of a glyph of design width `w` under the linear
part `[a b c d]` of the composed map, measured along the (possibly slanted) baseline as
`GlyphWidthPDF` defines it: `w · (a − b·c/d) · 1000` (`w · a · 1000` when `d` vanishes) -/
def cidWidthPDF (fd fm : Mat) (w : Rat) : Rat :=
  let a := fd.a * fm.a + fd.b * fm.c
  let b := fd.a * fm.b + fd.b * fm.d
  let c := fd.c * fm.a + fd.d * fm.c
  let d := fd.c * fm.b + fd.d * fm.d
  let absd := if d < 0 then -d else d
  w * ((if absd > 1 / 1000000 then a - b * c / d else a) * 1000)

end SfntV.Metrics.Spec
