/-
Specification side of C11, written from the OpenType/TrueType `glyf` and `loca` table
descriptions (not from the Go code).  Core-only: linked into the driver.
-/
import SfntV.Prelude.Bytes

namespace SfntV.GlyfSpec
open SfntV

/-- bit `k` of a flag byte -/
def testBit (f : UInt8) (k : Nat) : Bool := f.toNat / 2 ^ k % 2 == 1

/-- "uint16": two bytes, most significant first -/
def u16At (b : Bytes) (k : Nat) : Option Nat :=
  match b[k]?, b[k+1]? with
  | some hi, some lo => some (hi.toNat * 256 + lo.toNat)
  | _, _ => none

/-- "int16": two's complement reading of a uint16 -/
def toInt16 (n : Nat) : Int := if n < 32768 then (n : Int) else (n : Int) - 65536

/-- "endPtsOfContours[numberOfContours]: Array of point indices for the last point of each
contour, in increasing numeric order." -/
def readEndPts (b : Bytes) : Nat → Nat → Option (List Nat)
  | 0, _ => some []
  | n+1, k =>
    match u16At b k with
    | none => none
    | some e =>
      match readEndPts b n (k + 2) with
      | none => none
      | some es => some (e :: es)

/-- "in increasing numeric order": the decoder accepts equal consecutive entries as an empty
contour and refuses a decrease (a decreasing entry describes no set of points). -/
def nonDecreasing : List Nat → Bool
  | a :: b :: rest => a ≤ b && nonDecreasing (b :: rest)
  | _ => true

/-- The logical flag array: "flags[variable]: Array of flag elements." REPEAT_FLAG (bit 3): "If
set, the next byte (read as unsigned) specifies the number of additional times this flag byte is
to be repeated in the logical flags array — that is, the number of additional logical flag entries
inserted after this entry."  The array has one logical entry per point ("the total number of
points is the last entry of endPtsOfContours plus 1"); entries are produced one at a time, with
the pending repetition carried along; whatever repetition is still pending once all points have
their flag is not used.  Returns the logical flags and the offset after the last byte read. -/
def logicalFlags (b : Bytes) : Nat → Nat → Nat → UInt8 → Option (List UInt8 × Nat)
  | 0, k, _, _ => some ([], k)
  | n+1, k, pending, cur =>
    if pending > 0 then
      match logicalFlags b n k (pending - 1) cur with
      | none => none
      | some (fs, k') => some (cur :: fs, k')
    else
      match b[k]? with
      | none => none
      | some f =>
        if testBit f 3 then
          match b[k+1]? with
          | none => none
          | some c =>
            match logicalFlags b n (k + 2) c.toNat f with
            | none => none
            | some (fs, k') => some (f :: fs, k')
        else
          match logicalFlags b n (k + 1) 0 f with
          | none => none
          | some (fs, k') => some (f :: fs, k')

/-- The coordinate deltas of one axis.  X_SHORT_VECTOR (bit 1; bit 2 for y): "If set, the
corresponding x-coordinate is 1 byte long, and the sign is determined by the
X_IS_SAME_OR_POSITIVE_X_SHORT_VECTOR flag. If not set, its interpretation depends on the
X_IS_SAME_OR_POSITIVE_X_SHORT_VECTOR flag: If that other flag is set, the x-coordinate is the same
as the previous x-coordinate, and no element is added to the xCoordinates array. If both flags are
not set, the corresponding element in the xCoordinates array is two bytes and interpreted as a
signed integer."  Bit 4 (bit 5 for y): "If X_SHORT_VECTOR is set, this bit describes the sign of
the value, with 1 equalling positive and 0 negative." -/
def deltas (b : Bytes) (shortBit sameBit : Nat) : List UInt8 → Nat → Option (List Int × Nat)
  | [], k => some ([], k)
  | f :: fs, k =>
    if testBit f shortBit then
      match b[k]? with
      | none => none
      | some v =>
        match deltas b shortBit sameBit fs (k + 1) with
        | none => none
        | some (ds, k') =>
          some ((if testBit f sameBit then (v.toNat : Int) else -(v.toNat : Int)) :: ds, k')
    else if testBit f sameBit then
      match deltas b shortBit sameBit fs k with
      | none => none
      | some (ds, k') => some (0 :: ds, k')
    else
      match u16At b k with
      | none => none
      | some w =>
        match deltas b shortBit sameBit fs (k + 2) with
        | none => none
        | some (ds, k') => some (toInt16 w :: ds, k')

/-- "Coordinate for the first point is relative to (0,0); others are relative to previous
point": absolute coordinates are the running sums of the deltas. -/
def runningSums : Int → List Int → List Int
  | _, [] => []
  | acc, d :: ds => (acc + d) :: runningSums (acc + d) ds

structure Pt where
  x : Int
  y : Int
  onCurve : Bool
deriving Repr, DecidableEq

structure Outline where
  contours : List (List Pt)
  instructions : Bytes
deriving Repr, DecidableEq

/-- points `first .. last` (inclusive) of the point array -/
def slicePts (pts : List Pt) (first last : Nat) : List Pt :=
  (List.range (last + 1 - first)).filterMap fun j => pts[first + j]?

/-- linear-time form of `slicePts` for the compiled driver -/
def slicePtsImpl (pts : List Pt) (first last : Nat) : List Pt :=
  (pts.drop first).take (last + 1 - first)

theorem range_filterMap_take {α : Type} (l : List α) (n : Nat) :
    (List.range n).filterMap (fun j => l[j]?) = l.take n := by
  induction n with
  | zero => simp
  | succ n ih =>
    rw [List.range_succ, List.filterMap_append, ih, List.take_add_one]
    cases h : l[n]? <;> simp [h]

theorem slicePts_eq (pts : List Pt) (first last : Nat) :
    slicePts pts first last = (pts.drop first).take (last + 1 - first) := by
  unfold slicePts
  rw [← range_filterMap_take]
  congr 1
  funext j
  rw [List.getElem?_drop]

/-- the compiler may use the linear form: it is the same function (indexing a `List` point by
point is quadratic, which matters for glyphs with 65536 points) -/
@[csimp] theorem slicePts_eq_impl : @slicePts = @slicePtsImpl := by
  funext pts first last
  exact slicePts_eq pts first last

/-- contour `i` consists of the points after the end of contour `i-1` up to `endPts[i]` -/
def splitContours (pts : List Pt) : Nat → List Nat → List (List Pt)
  | _, [] => []
  | first, e :: es => slicePts pts first e :: splitContours pts (e + 1) es

def zip3 : List Int → List Int → List UInt8 → List Pt
  | x :: xs, y :: ys, f :: fs => ⟨x, y, testBit f 0⟩ :: zip3 xs ys fs
  | _, _, _ => []

/-- "The number of points is determined by the last entry in the endPtsOfContours array": that
entry plus one; no contours, no points. -/
def pointCount (endPts : List Nat) : Nat :=
  match endPts.getLast? with
  | none => 0
  | some e => e + 1

/-- Simple glyph description (the bytes after the 10-byte glyph header), for
`numberOfContours ≥ 0`: endPtsOfContours, instructionLength, instructions, flags, xCoordinates,
yCoordinates.  ON_CURVE_POINT is bit 0.  Bytes after the y-coordinates are padding.  A glyph
with zero contours has no points.  Coordinates are exact integers (no 16-bit wrap). -/
def decodeSimple (numberOfContours : Int) (b : Bytes) : Option Outline :=
  if numberOfContours < 0 then none else
  let nc := numberOfContours.toNat
  match readEndPts b nc 0 with
  | none => none
  | some endPts =>
    if !nonDecreasing endPts then none else
    let numPoints := pointCount endPts
    match u16At b (2 * nc) with
    | none => none
    | some il =>
      if b.length < 2 * nc + 2 + il then none else
      match logicalFlags b numPoints (2 * nc + 2 + il) 0 0 with
      | none => none
      | some (flags, k1) =>
        match deltas b 1 4 flags k1 with
        | none => none
        | some (dx, k2) =>
          match deltas b 2 5 flags k2 with
          | none => none
          | some (dy, _) =>
            some ⟨splitContours (zip3 (runningSums 0 dx) (runningSums 0 dy) flags) 0 endPts,
              (b.drop (2 * nc + 2)).take il⟩

/-! ## outline → Bézier segments (used only to compare the specification decoder with
golang.org/x/image/font/sfnt `LoadGlyph` on real fonts; not part of the C11 theorems)

TrueType: "Two consecutive on-curve points define a line segment; off-curve points between
on-curve points are control points of quadratic Bézier segments; between two consecutive off-curve
points there is an implied on-curve point at their midpoint.  The sequence may wrap around from
the last point of the contour to the first; every contour is closed."  The order in which segments
are emitted, the start point (first on-curve point, or the implied midpoint of the first two
off-curve points) and the rounding of implied midpoints (integer division truncating toward zero,
in font units) follow x/image's iterator so that the two segment lists can be compared literally. -/

inductive Seg where
  | move (x y : Int)
  | line (x y : Int)
  | quad (cx cy x y : Int)
deriving Repr, DecidableEq

structure SegState where
  firstOn : Option (Int × Int) := none
  firstOff : Option (Int × Int) := none
  lastOff : Option (Int × Int) := none

def midPt (p q : Int × Int) : Int × Int := ((p.1 + q.1).tdiv 2, (p.2 + q.2).tdiv 2)

/-- closing a contour -/
def closeSegs (st : SegState) : List Seg :=
  let fon := st.firstOn.getD (0, 0)
  match st.firstOff, st.lastOff with
  | none, none => [.line fon.1 fon.2]
  | none, some lo => [.quad lo.1 lo.2 fon.1 fon.2]
  | some fo, none => [.quad fo.1 fo.2 fon.1 fon.2]
  | some fo, some lo =>
    let m := midPt lo fo
    [.quad lo.1 lo.2 m.1 m.2, .quad fo.1 fo.2 fon.1 fon.2]

def contourSegs : List Pt → SegState → List Seg
  | [], st => closeSegs st
  | pt :: rest, st =>
    let p := (pt.x, pt.y)
    match st.firstOn with
    | none =>
      if pt.onCurve then .move p.1 p.2 :: contourSegs rest { st with firstOn := some p }
      else
        match st.firstOff with
        | none => contourSegs rest { st with firstOff := some p }
        | some fo =>
          let m := midPt fo p
          .move m.1 m.2 :: contourSegs rest { st with firstOn := some m, lastOff := some p }
    | some _ =>
      match st.lastOff with
      | none =>
        if pt.onCurve then .line p.1 p.2 :: contourSegs rest st
        else contourSegs rest { st with lastOff := some p }
      | some lo =>
        if pt.onCurve then .quad lo.1 lo.2 p.1 p.2 :: contourSegs rest { st with lastOff := none }
        else
          let m := midPt lo p
          .quad lo.1 lo.2 m.1 m.2 :: contourSegs rest { st with lastOff := some p }

def outlineSegs (o : Outline) : List Seg := o.contours.flatMap fun c => contourSegs c {}

/-! ## loca -/

/-! `loca`: "The offsets must be in ascending order" (non-decreasing: an empty glyph has equal
consecutive offsets); every offset lies inside the glyf table; glyph data is 2-byte aligned (short
format stores offset/2, so offsets must be even); there are numGlyphs+1 entries, the first is 0 for
a table written from scratch and the last is the length of the glyf data.  `indexToLocFormat` 0:
"Offset16 … the actual local offset divided by 2 is stored", 1: "Offset32 … the actual local
offset is stored". -/

def offsets16 : Bytes → List Nat
  | hi :: lo :: rest => 2 * (hi.toNat * 256 + lo.toNat) :: offsets16 rest
  | _ => []

def offsets32 : Bytes → List Nat
  | a :: b :: c :: d :: rest =>
    (a.toNat * 16777216 + b.toNat * 65536 + c.toNat * 256 + d.toNat) :: offsets32 rest
  | _ => []

def readLoca (fmt : Nat) (loca : Bytes) : Option (List Nat) :=
  if fmt = 0 then (if loca.length % 2 ≠ 0 then none else some (offsets16 loca))
  else if fmt = 1 then (if loca.length % 4 ≠ 0 then none else some (offsets32 loca))
  else none

def sortedLe : List Nat → Bool
  | a :: b :: rest => a ≤ b && sortedLe (b :: rest)
  | _ => true

/-- the loca facts of the property, as a checker giving the first violated clause -/
def locaFactsErr (fmt : Nat) (loca : Bytes) (glyfLen numGlyphs : Nat) : Option String :=
  match readLoca fmt loca with
  | none => some "unreadable"
  | some offs =>
    if offs.length ≠ numGlyphs + 1 then some "count"
    else if !sortedLe offs then some "order"
    else if offs.any (· % 2 ≠ 0) then some "odd"
    else if offs.any (· > glyfLen) then some "outside"
    else if offs.head? ≠ some 0 then some "first"
    else if offs.getLast? ≠ some glyfLen then some "last"
    else if fmt = 0 ∧ glyfLen > 2 * 0xFFFF then some "short-unrepresentable"
    else none

end SfntV.GlyfSpec
