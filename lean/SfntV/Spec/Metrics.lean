/-
C12 — definitions of the derived header fields, written from the OpenType specification
(chapters "hhea", "head", "OS/2", "post"), not from the Go code.  Plain folds over the glyph list.
A glyph is a pair (advance width, bounding box); a glyph "has no contours" when its box is the
all-zero rectangle (that is how the library represents an empty glyph: funit.Rect16.IsZero).
Core-only.
-/
import SfntV.Model.Metrics

namespace SfntV.Metrics.Spec
open SfntV.Metrics

def minList : List Int → Int
  | [] => 0
  | x :: xs => xs.foldl min x

def maxList : List Int → Int
  | [] => 0
  | x :: xs => xs.foldl max x

/-- glyphs with contours -/
def inked (gs : List (Int × Rect)) : List (Int × Rect) := gs.filter fun g => !g.2.isZero

/-- hhea: "advanceWidthMax — Maximum advance width value in 'hmtx' table." (0 for no glyphs) -/
def advanceWidthMax (ws : List Int) : Int := ws.foldl max 0

/-- hhea: "minLeftSideBearing — Minimum left sidebearing value in 'hmtx' table for glyphs with
contours (empty glyphs should be ignored)."  `ls` = the bearings stored in hmtx. -/
def minLeftSideBearing (ls : List Int) (es : List Rect) : Int :=
  minList ((inked (ls.zip es)).map (·.1))

/-- hhea: "minRightSideBearing — Minimum right sidebearing value; calculated as
min(aw - (lsb + xMax - xMin)) for glyphs with contours (empty glyphs should be ignored)."
Glyph = (aw, lsb, box). -/
def minRightSideBearing (ws ls : List Int) (es : List Rect) : Int :=
  minList (((ws.zip (ls.zip es)).filter fun g => !g.2.2.isZero).map
    fun g => g.1 - (g.2.1 + g.2.2.urx - g.2.2.llx))

/-- hhea: "xMaxExtent — Max(lsb + (xMax - xMin))." for glyphs with contours -/
def xMaxExtent (ls : List Int) (es : List Rect) : Int :=
  maxList ((inked (ls.zip es)).map fun g => g.1 + (g.2.urx - g.2.llx))

/-- a glyph as the hhea definitions see it: advance width, left side bearing, bounding box -/
structure Glyph where
  aw : Int
  lsb : Int
  box : Rect
deriving Repr

/-- glyphs with contours -/
def inkedG (gs : List Glyph) : List Glyph := gs.filter fun g => !g.box.isZero

/-- the same four definitions over a glyph list (used by the theorems) -/
def advanceWidthMaxG (gs : List Glyph) : Int := (gs.map (·.aw)).foldl max 0
def minLeftSideBearingG (gs : List Glyph) : Int := minList ((inkedG gs).map (·.lsb))
def minRightSideBearingG (gs : List Glyph) : Int :=
  minList ((inkedG gs).map fun g => g.aw - (g.lsb + g.box.urx - g.box.llx))
def xMaxExtentG (gs : List Glyph) : Int :=
  maxList ((inkedG gs).map fun g => g.lsb + (g.box.urx - g.box.llx))

/-- hhea: numberOfHMetrics `k` describes the widths `ws` when the first `k` widths are stored and
every later glyph has the width of glyph `k-1`; the writer should use the least such `k ≥ 1`. -/
def describes (k : Nat) (ws : List Int) : Bool :=
  decide (1 ≤ k ∧ k ≤ ws.length) && (ws.drop k).all fun w => some w == ws[k - 1]?

/-- the least `k` that describes `ws`: all but the last glyphs of the maximal constant tail are dropped -/
def leastNumberOfHMetrics (ws : List Int) : Nat :=
  match ws.reverse with
  | [] => 0
  | v :: rest => ws.length - (rest.takeWhile (· == v)).length

/-- a value stored in an int16 field saturates when it is out of range -/
def sat16 (x : Int) : Int := max (-32768) (min 32767 x)

def fitsI16 (x : Int) : Bool := decide (-32768 ≤ x ∧ x ≤ 32767)

/-- head: "xMin, yMin, xMax, yMax — … for all glyph bounding boxes" = union of the boxes of
glyphs with contours; all zero when there is none. -/
def fontBBox (es : List Rect) : Rect :=
  match es.filter (fun e => !e.isZero) with
  | [] => ⟨0, 0, 0, 0⟩
  | l => ⟨minList (l.map (·.llx)), minList (l.map (·.lly)), maxList (l.map (·.urx)), maxList (l.map (·.ury))⟩

/-- OS/2 (version ≥ 3): "xAvgCharWidth — the arithmetic average of the escapement (width) of all
non-zero width glyphs in the font", rounded to the nearest integer (half up). -/
def avgCharWidth (ws : List Int) : Int :=
  let p := (ws.filter (· > 0)).map Int.toNat
  let n := p.length
  if n = 0 then 0 else ((2 * p.sum + n) / (2 * n) : Nat)

/-- OS/2: usFirstCharIndex / usLastCharIndex — "minimum / maximum Unicode index in this font …
0xFFFF if the value is beyond the BMP" -/
def charIndex (c : Nat) : Nat := if c > 0xFFFF then 0xFFFF else c

/-- post: "isFixedPitch — set to 0 if the font is proportionally spaced, non-zero if the font is
not proportionally spaced (i.e. monospaced)".  Glyphs of width 0 (marks) are disregarded;
a font without glyphs is not monospaced. -/
def isFixedPitch (ws : List Int) : Bool :=
  match ws with
  | [] => false
  | _ => match ws.filter (· ≠ 0) with
    | [] => true
    | w :: rest => rest.all (· == w)

end SfntV.Metrics.Spec
