/-
Specification side of the Type 2 charstring properties (C05, C04), written from Adobe TN5177.

* `Spec.T2.interp`       : the specification interpreter = the one interpreter with every quirk off.
* `encodeInt/encodeFixed`: TN5177 §3.2 Table 3 read backwards (how an operand value is written).
* `legalCount`           : TN5177 §4 operand grammar of each path/hint operator (operand counts).
* `Tok`, `WF`            : an independent stack-effect grammar of well-formed charstrings
                           (TN5177 §3.1: "w? {hs* vs* cm* hm* mt subpath}? {mt subpath}* endchar").
Core-only.
-/
import SfntV.Model.T2Interp

namespace SfntV.Spec.T2
open SfntV SfntV.T2

/-- "The Type 2 specification interpreter": `interp` with no quirk enabled. -/
def interp (env : Env) (code : List Nat) : Outcome Glyph := SfntV.T2.interp strict env code

/-- TN5177 Table 3: "32–246: b0−139", "247–250: (b0−247)*256+b1+108", "251–254:
−(b0−251)*256−b1−108", "28: b1<<8|b2" — the shortest code of the integer `x` (int16 range). -/
def encodeInt (x : Int) : List Nat :=
  if -107 ≤ x ∧ x ≤ 107 then [(x + 139).toNat]
  else if 107 < x ∧ x ≤ 1131 then
    let y := x - 108
    [(y / 256 + 247).toNat, (y % 256).toNat]
  else if x < -107 ∧ -1131 ≤ x then
    let y := -108 - x
    [(y / 256 + 251).toNat, (y % 256).toNat]
  else
    let u := (x % 65536).toNat
    [28, u / 256, u % 256]

/-- TN5177 Table 3: "255: b1<<24|b2<<16|b3<<8|b4 interpreted as a 16.16 signed fixed number";
`u` is the value in 2⁻¹⁶ units. -/
def encodeFixed (u : Int) : List Nat :=
  let w := (u % 4294967296).toNat
  [255, w / 16777216, w / 65536 % 256, w / 256 % 256, w % 256]

/-- TN5177 §4.1–4.3: legal operand counts (after an optional width has been taken off) -/
def legalCount : Op → Nat → Bool
  | .rmoveto, n => n == 2
  | .hmoveto, n | .vmoveto, n => n == 1
  | .rlineto, n => n ≥ 2 && n % 2 == 0
  | .hlineto, n | .vlineto, n => n ≥ 1
  | .rrcurveto, n => n ≥ 6 && n % 6 == 0
  | .rcurveline, n => n ≥ 8 && (n - 2) % 6 == 0
  | .rlinecurve, n => n ≥ 8 && n % 2 == 0
  | .hhcurveto, n | .vvcurveto, n | .hvcurveto, n | .vhcurveto, n => n ≥ 4 && n % 4 ≤ 1
  | .flex, n => n == 13
  | .flex1, n => n == 11
  | .hflex, n => n == 7
  | .hflex1, n => n == 9
  | .hstem, n | .vstem, n | .hstemhm, n | .vstemhm, n => n ≥ 2 && n % 2 == 0
  | .hintmask, n | .cntrmask, n => n % 2 == 0
  | .endchar, n => n == 0
  | _, _ => false

def isMoveto : Op → Bool
  | .rmoveto | .hmoveto | .vmoveto => true
  | _ => false

def isPathOp : Op → Bool
  | .rlineto | .hlineto | .vlineto | .rrcurveto | .rcurveline | .rlinecurve | .hhcurveto
  | .vvcurveto | .hvcurveto | .vhcurveto | .flex | .flex1 | .hflex | .hflex1 => true
  | _ => false

def isStem : Op → Bool
  | .hstem | .vstem | .hstemhm | .vstemhm => true
  | _ => false

/-- bytes of an operator: one byte, or the escape byte 12 and the second byte -/
def opBytes (o : Op) : List Nat :=
  match opTable.find? (fun p => p.2 == o) with
  | some (c, _) => if c ≥ 256 then [c / 256, c % 256] else [c]
  | none => []

/-- The value-dependent operators, applied to KNOWN operands: the operands that decide whether the
operator is legal (divisor, radicand, index, roll count and amount, transient-array index) are integer
literals written directly in front of the operator. -/
inductive LitOp
  | div (b : Int)          -- "… a  b div":  literal divisor b ≠ 0
  | sqrt (v : Int)         -- "v sqrt":      literal v ≥ 0
  | index (i : Int)        -- "… i index":   literal index (negative = top element)
  | roll (n j : Int)       -- "… n j roll":  literal count 1 ≤ n ≤ depth and amount j
  | put (i : Int)          -- "… a  i put":  literal transient-array index 0 ≤ i < 32
  | get (i : Int)          -- "i get":       literal index that was `put` before
deriving Repr, DecidableEq

/-- tokens of the charstring language (subroutine calls: `PTok`) -/
inductive Tok
  | int (v : Int)
  | fixed (u : Int)
  | op (o : Op)
  | mask (cntr : Bool) (bytes : List Nat)
  | lit (k : LitOp)
deriving Repr, DecidableEq

abbrev Program := List Tok

def encodeTok : Tok → List Nat
  | .int v => encodeInt v
  | .fixed u => encodeFixed u
  | .op o => opBytes o
  | .mask c bs => opBytes (if c then .cntrmask else .hintmask) ++ bs
  | .lit (.div b) => encodeInt b ++ opBytes .div
  | .lit (.sqrt v) => encodeInt v ++ opBytes .sqrt
  | .lit (.index i) => encodeInt i ++ opBytes .index
  | .lit (.roll n j) => encodeInt n ++ encodeInt j ++ opBytes .roll
  | .lit (.put i) => encodeInt i ++ opBytes .put
  | .lit (.get i) => encodeInt i ++ opBytes .get

def encode (p : Program) : List Nat := p.flatMap encodeTok

/-- abstract state of the grammar: operand count, width seen, hint stage, move seen, stem count -/
structure Abs where
  depth : Nat := 0
  widthDone : Bool := false
  stage : Nat := 0
  moved : Bool := false
  nStems : Nat := 0
  ended : Bool := false
  /-- transient-array indices written by an earlier `put` -/
  written : List Nat := []
deriving Repr, DecidableEq

/-- operand count left after the optional width: the width may only be the extra first operand
of the first stack-clearing operator -/
def afterWidth (a : Abs) (o : Op) : Option Nat :=
  if legalCount o a.depth then some a.depth
  else if !a.widthDone && a.depth ≥ 1 && legalCount o (a.depth - 1) then some (a.depth - 1)
  else none

/-- stack effect (operands taken, results pushed) of the arithmetic and conditional operators whose
behaviour does not depend on operand VALUES (TN5177 §4.4, §4.5).  `div`, `sqrt` (undefined for a zero
divisor / negative operand), `put`, `get`, `index`, `roll` (operand values select stack or storage
positions) are outside this static grammar. -/
def arithEffect : Op → Option (Nat × Nat)
  | .abs | .neg | .not => some (1, 1)
  | .add | .sub | .mul | .eq | .and | .or => some (2, 1)
  | .drop => some (1, 0)
  | .dup => some (1, 2)
  | .exch => some (2, 2)
  | .ifelse => some (4, 1)
  | .random => some (0, 1)
  | _ => none

/-- one token of the grammar; `none` = not well formed.  Operands are limited to ±32000, the
range in which the Go decoder does not clamp (see finding C05-clamp). -/
def wfTok (a : Abs) : Tok → Option Abs
  | .int v =>
    if !a.ended && a.depth < Gen.t2maxStack && -32000 ≤ v && v ≤ 32000 then some { a with depth := a.depth + 1 } else none
  | .fixed u =>
    if !a.ended && a.depth < Gen.t2maxStack && -(32000 * one) ≤ u && u ≤ 32000 * one then some { a with depth := a.depth + 1 } else none
  | .op o =>
    if a.ended then none
    else if isMoveto o then
      (afterWidth a o).map fun _ => { a with depth := 0, widthDone := true, moved := true }
    else if isPathOp o then
      if a.moved && legalCount o a.depth then some { a with depth := 0 } else none
    else if isStem o then
      if a.stage ≤ 1 && !a.moved then
        (afterWidth a o).map fun n => { a with depth := 0, widthDone := true, stage := 1, nStems := a.nStems + n / 2 }
      else none
    else if o == .endchar then
      (afterWidth a o).map fun _ => { a with depth := 0, widthDone := true, ended := true }
    else
      match arithEffect o with
      | some (pops, pushes) =>
        if pops ≤ a.depth && a.depth - pops + pushes ≤ Gen.t2maxStack then
          some { a with depth := a.depth - pops + pushes }
        else none
      | none => none
  | .mask _ bs =>
    if a.ended then none
    else
      match afterWidth a .hintmask with
      | some n =>
        let stems := a.nStems + n / 2
        if (n == 0 || a.stage == 1) && (a.stage ≥ 1) && stems ≥ 1 && bs.length == (stems + 7) / 8 then
          some { a with depth := 0, widthDone := true, stage := 2, nStems := stems }
        else none
      | none => none
  | .lit k =>
    if a.ended then none
    else
      let small (v : Int) : Bool := -32000 ≤ v && v ≤ 32000
      match k with
      | .div b =>
        if small b && b != 0 && 1 ≤ a.depth && a.depth + 1 ≤ Gen.t2maxStack then some a else none
      | .sqrt v =>
        if 0 ≤ v && v ≤ 32000 && a.depth + 1 ≤ Gen.t2maxStack then some { a with depth := a.depth + 1 } else none
      | .index i =>
        if small i && a.depth + 1 ≤ Gen.t2maxStack && i.toNat + 1 ≤ a.depth then some { a with depth := a.depth + 1 } else none
      | .roll n j =>
        if small n && small j && 1 ≤ n && n.toNat ≤ a.depth && a.depth + 2 ≤ Gen.t2maxStack then some a else none
      | .put i =>
        if 0 ≤ i && i < 32 && 1 ≤ a.depth && a.depth + 1 ≤ Gen.t2maxStack then
          some { a with depth := a.depth - 1, written := i.toNat :: a.written } else none
      | .get i =>
        if 0 ≤ i && i < 32 && a.written.contains i.toNat && a.depth + 1 ≤ Gen.t2maxStack then
          some { a with depth := a.depth + 1 } else none

def wfRun : Abs → Program → Option Abs
  | a, [] => some a
  | a, t :: ts => (wfTok a t).bind (wfRun · ts)

/-- decidable checker of well-formedness -/
def wfCheck (p : Program) : Bool :=
  match wfRun {} p with
  | some a => a.ended
  | none => false

/-- well-formed programs of the path/hint core -/
def WF (p : Program) : Prop := wfCheck p = true

instance (p : Program) : Decidable (WF p) := inferInstanceAs (Decidable (_ = true))

/-- Tokens on which the Go decoder is known to agree with the specification (given operands within
±32000, which `wfTok` already demands of every literal operand).  Excluded, each a decidable syntactic
condition: `mul` (finding C05-mul); `add`, `sub` (their results are not statically within ±32000, the
range outside which the Go decoder clamps deltas: finding C05-clamp); `flex1`, `hflex1` (they derive
one delta as a sum of up to five operands, which can leave ±32000: C05-clamp again). -/
def agreesTok : Tok → Bool
  | .op o => !(o == .mul || o == .add || o == .sub || o == .flex1 || o == .hflex1)
  | .lit (.index _) => true
  | .lit (.roll _ _) => true                -- (count 0, which TN5177 permits and the Go decoder rejects, is outside WF)
  | .lit (.put _) => true
  | .lit (.get _) => false                  -- progress only (the bound on the stored value is not tracked)
  | .lit (.div _) => true                   -- integer divisor, |b| ≥ 1: the quotient stays within ±32000
  | .lit (.sqrt v) => decide (isqrt (v * one * one).toNat ≤ 32000 * 65536)  -- the literal's root is within ±32000 (always true for 0 ≤ v ≤ 32000; checked, not proved)
  | _ => true

/-- decidable: every token agrees -/
def agreesCheck (p : Program) : Bool := p.all agreesTok

def Agrees (p : Program) : Prop := agreesCheck p = true

instance (p : Program) : Decidable (Agrees p) := inferInstanceAs (Decidable (_ = true))


/-! ### programs with subroutine calls (TN5177 §4.7 "Subroutine operators")

Stack-neutral subroutines: a body is a sequence of complete tokens of the grammar (it may itself call
subroutines) followed by `return`; a body may also end the glyph with `endchar`.  A call is written
"biased index, callsubr/callgsubr"; the bias depends on the size of the called table. -/

inductive PTok
  | tok (t : Tok)
  | call (glob : Bool) (idx : Nat)
deriving Repr, DecidableEq

abbrev PProgram := List PTok

/-- token-level local and global subroutine tables -/
structure Tables where
  lsubrs : List PProgram
  gsubrs : List PProgram
deriving Repr

def Tables.tbl (T : Tables) (glob : Bool) : List PProgram := if glob then T.gsubrs else T.lsubrs

/-- "callsubr: calls a charstring subroutine with index subr# (actually the subr number plus the
subroutine bias number, as described in section 2.3)" -/
def biased (n idx : Nat) : Int := (idx : Int) - bias n

def encodePTok (T : Tables) : PTok → List Nat
  | .tok t => encodeTok t
  | .call g i => encodeInt (biased (T.tbl g).length i) ++ opBytes (if g then .callgsubr else .callsubr)

def encodeP (T : Tables) (p : PProgram) : List Nat := p.flatMap (encodePTok T)

/-- the bytes of a subroutine: its tokens, then `return` -/
def encodeBody (T : Tables) (p : PProgram) : List Nat := encodeP T p ++ opBytes .ret

/-- the `decodeInfo` of a font with these tables -/
def Tables.env (T : Tables) (dw nw : Int) : Env :=
  ⟨T.lsubrs.map (encodeBody T), T.gsubrs.map (encodeBody T), dw, nw⟩

/-- the grammar with calls: `dep` nesting levels are still available (10 at top level); `f` is fuel
for the checker (total number of tokens visited); a call needs room for its index operand, a valid
index, a table of at most 65536 entries, and the body must be well formed in the caller's state -/
def wfRunP (T : Tables) : Nat → Nat → Abs → PProgram → Option Abs
  | 0, _, _, _ => none
  | _ + 1, _, a, [] => some a
  | f + 1, dep, a, .tok t :: r => (wfTok a t).bind (wfRunP T f dep · r)
  | f + 1, dep, a, .call g i :: r =>
    match dep with
    | 0 => none
    | dep' + 1 =>
      if a.ended || a.depth + 1 > Gen.t2maxStack || (T.tbl g).length > 65536 then none
      else
        match (T.tbl g)[i]? with
        | none => none
        | some q =>
          match wfRunP T f dep' a q with
          | none => none
          | some a2 => if a2.ended then (if r.isEmpty then some a2 else none) else wfRunP T f (dep' + 1) a2 r

/-- decidable checker for a program with subroutine tables -/
def wfCheckP (T : Tables) (fuel : Nat) (p : PProgram) : Bool :=
  match wfRunP T fuel Gen.t2callDepth {} p with
  | some a => a.ended
  | none => false

def agreesPTok : PTok → Bool
  | .tok t => agreesTok t
  | .call _ _ => true

/-- the main program and every subroutine body avoid the known deviations -/
def agreesCheckP (T : Tables) (p : PProgram) : Bool :=
  p.all agreesPTok && T.lsubrs.all (·.all agreesPTok) && T.gsubrs.all (·.all agreesPTok)

end SfntV.Spec.T2
