/-
Reference semantics of OpenType lookup application (property C06), written from the OpenType
specification (chapters "OpenType Layout Common Table Formats", "GSUB", "GPOS", "GDEF") and,
for the cases the specification leaves open, from the decisions the repository documents in
opentype/gtab/testcases (sections 1-3).  NOT derived from the Go code: there are no positions
to repair, no stack, no scratch slices.  A matched contextual rule is remembered by TAGS on the
glyphs themselves.  Core-only: linked into the driver.

The table data types (coverage, class definition, GDEF, subtables, lookups) are those of
Model/ShapeTypes.lean: they describe the font data, not an algorithm.

Results are `Except String α`: `.error why` means "the rules do not determine the outcome here"
(outside the region `Defined`, see the end of the file), never a failure of the font.
-/
import SfntV.Model.ShapeTypes

namespace SfntV.Spec.Shape
open SfntV SfntV.Shape

abbrev R := Except String

/-- the outcome is not determined by the specification / the documented decisions -/
def undef (why : String) : R α := .error why

def need (o : Option α) (why : String) : R α :=
  match o with
  | some a => pure a
  | none => undef why

/-! ## lookup flags (Common Table Formats, "lookupFlag bit enumeration") -/

/-- bit test on the 16-bit lookupFlag word -/
def flagSet (flags mask : Nat) : Bool := flags &&& mask != 0

/-- "0x0002 IGNORE_BASE_GLYPHS: If set, skips over base glyphs.  0x0004 IGNORE_LIGATURES: If set,
skips over ligatures.  0x0008 IGNORE_MARKS: If set, skips over all combining marks.
0x0010 USE_MARK_FILTERING_SET: … The layout engine skips over all mark glyphs not in the mark
filtering set indicated.  0xFF00 MARK_ATTACHMENT_TYPE_MASK: If not zero, skips over all marks of
attachment type different from specified."  "If a mark filtering set is specified, this supersedes
any mark attachment type indication in the lookup flag.  If the IGNORE_MARKS bit is set, this
supersedes any mark filtering set or mark attachment type indications."
GDEF glyph classes: 1 base, 2 ligature, 3 mark, 4 component.  A filtering set that does not
exist contains no glyph. -/
def skipRule (gd : Gdef) (flags markSet gid : Nat) : Bool :=
  let cls := classOf gd.glyphClass gid
  (cls == 1 && flagSet flags 0x0002) ||
  (cls == 2 && flagSet flags 0x0004) ||
  (cls == 3 &&
    (if flagSet flags 0x0008 then true
     else if flagSet flags 0x0010 then
       !(match gd.markSets[markSet]? with
         | some s => setVal s gid
         | none => false)
     else if flagSet flags 0xFF00 then
       classOf gd.markAttach gid != (flags &&& 0xFF00) >>> 8
     else false))

/-- a glyph takes part in a lookup iff the lookup flags do not say to skip it -/
def keepRule (gd : Gdef) (flags markSet gid : Nat) : Bool := !skipRule gd flags markSet gid

def keepOf (gd : Gdef) (lk : Lookup) : Nat → Bool := keepRule gd lk.flags lk.markSet

/-! ## tagged glyphs -/

/-- A glyph of the buffer.  `inp` lists the active contextual matches (by nesting depth) whose
INPUT SEQUENCE the glyph belongs to, `win` those whose matched window contains it. -/
structure TG where
  g : Glyph
  inp : List Nat := []
  win : List Nat := []
deriving Repr, DecidableEq, Inhabited

def TG.kept (kp : Nat → Bool) (t : TG) : Bool := kp t.g.gid
def TG.hasInp (d : Nat) (t : TG) : Bool := t.inp.contains d
def TG.hasWin (d : Nat) (t : TG) : Bool := t.win.contains d
/-- the match at depth `d` is finished: forget its tags -/
def TG.untag (d : Nat) (t : TG) : TG := { t with inp := t.inp.filter (· != d), win := t.win.filter (· != d) }

/-! ## matching glyph sequences -/

/-- "the lookup … skips over glyphs [the flags say to ignore]": the patterns must be satisfied, in
order, by the first `|pats|` glyphs of `gs` that are not skipped.  The result lists the indices
(counted from `i`) of the matched glyphs. -/
def matchSeq (kp : Nat → Bool) : List (Nat → Bool) → List TG → Nat → Option (List Nat)
  | [], _, _ => some []
  | _ :: _, [], _ => none
  | p :: ps, t :: ts, i =>
    if kp t.g.gid then
      if p t.g.gid then (matchSeq kp ps ts (i + 1)).map (i :: ·) else none
    else matchSeq kp (p :: ps) ts (i + 1)

/-- number of glyphs up to and including the last matched one -/
def usedLen (offs : List Nat) : Nat :=
  match offs.getLast? with
  | some o => o + 1
  | none => 0

/-- a matched (chained) context rule: offsets into the glyphs after the current one of the input
glyphs after the first, and the number of following glyphs inside the window of the match -/
structure CtxMatch where
  offs : List Nat
  wlen : Nat
deriving Repr, DecidableEq

/-- Chained sequence context: "backtrack sequence … input sequence … lookahead sequence"; the
backtrack sequence is listed nearest glyph first (`pre` holds the glyphs before the current one,
nearest first).  Input glyphs must lie inside the `lim` glyphs the enclosing match allows
(testcases 2_07: "child matches cannot extend beyond the parent match"); backtrack and lookahead
are context and may lie outside.  The window of the match extends over the ignored glyphs that
follow the last input glyph (testcases 2_08: "trailing ignored glyphs are included in the parent
match"). -/
def matchContext (kp : Nat → Bool) (back input look : List (Nat → Bool)) (pre post : List TG)
    (lim : Nat) : Option CtxMatch :=
  match matchSeq kp back pre 0 with
  | none => none
  | some _ =>
    match matchSeq kp input (post.take lim) 0 with
    | none => none
    | some offs =>
      let used := usedLen offs
      match matchSeq kp look (post.drop used) 0 with
      | none => none
      | some _ =>
        let trailing := ((post.take lim).drop used).takeWhile fun t => !kp t.g.gid
        some ⟨offs, used + trailing.length⟩

/-- "the first rule [in the set, in the order of the font] that matches is used" -/
def firstRule (kp : Nat → Bool) (mb mi ml : Nat → Nat → Bool) (pre post : List TG) (lim : Nat) :
    List Rule → Option (CtxMatch × List Action)
  | [] => none
  | r :: rs =>
    match matchContext kp (r.back.map mb) (r.input.map mi) (r.look.map ml) pre post lim with
    | some m => some (m, r.actions)
    | none => firstRule kp mb mi ml pre post lim rs

/-- the first glyph that is not skipped, with its index -/
def nextKept (kp : Nat → Bool) : List TG → Nat → Option (Nat × TG)
  | [], _ => none
  | t :: ts, i => if kp t.g.gid then some (i, t) else nextKept kp ts (i + 1)

/-! ## positioning arithmetic -/

/-- offsets and advances are 16-bit design units; a sum outside that range cannot be stored -/
def fit16 (x : Int) : R Int :=
  if -32768 ≤ x ∧ x < 32768 then pure x else undef "positioning value outside int16"

/-- GPOS ValueRecord: "xPlacement: horizontal adjustment for placement, yPlacement: vertical
adjustment for placement, xAdvance: horizontal adjustment for advance" — each is ADDED to the
glyph's value.  yAdvance and device tables are not implemented by the library (excluded). -/
def addValue (v : Option ValueRec) (g : Glyph) : R Glyph :=
  match v with
  | none => pure g
  | some v =>
    if v.unimpl then undef "value record field the library does not implement" else do
    let x ← fit16 (g.xoff + v.xPlacement)
    let y ← fit16 (g.yoff + v.yPlacement)
    let a ← fit16 (g.adv + v.xAdvance)
    pure { g with xoff := x, yoff := y, adv := a }

/-- sum of the advances of a list of glyphs -/
def advSum : List TG → Int
  | [] => 0
  | t :: ts => t.g.adv + advSum ts

/-- Mark attachment (GPOS 4 and 6): "the client aligns their attachment points" — the mark is
placed so that its anchor coincides with the anchor of the base (or base mark).  The pen
position of the mark lies `advs` (the advances from the base up to the mark) to the right of
the pen position of the base, and the base is drawn at its own offset. -/
def attach (base : Glyph) (baseAnchor : Anchor) (mark : Glyph) (markRec : MarkRec) (advs : Int) : R Glyph := do
  let x ← fit16 (base.xoff + baseAnchor.x - markRec.x - advs)
  let y ← fit16 (base.yoff + baseAnchor.y - markRec.y)
  pure { mark with xoff := x, yoff := y }

/-- the glyph to attach to: "to identify the base glyph that combines with a mark, the client
must look backward in the glyph string from the mark to the preceding base glyph" — the nearest
preceding glyph that is a candidate (mark-to-base: not a mark; mark-to-mark: not skipped by the
lookup flags).  If the subtable has no anchors for that glyph (it is not covered) the mark is not
attached; in particular it is never attached to a glyph further back. -/
def attachTarget (isCandidate : TG → Bool) (cov : Cov) (pre : List TG) : Option (Nat × TG × Nat) :=
  match pre.findIdx? isCandidate with
  | none => none
  | some k =>
    match pre[k]? with
    | some t => match covGet cov t.g.gid with
      | some i => some (k, t, i)
      | none => none
    | none => none

/-! ## one subtable at one position -/

/-- what a subtable does at a position -/
inductive Hit where
  /-- finished: the current glyph and part of the following ones become `done`, `rest` is still
  to be processed by the lookup -/
  | done (done rest : List TG)
  /-- a contextual rule matched: its nested lookups have to be run -/
  | ctx (m : CtxMatch) (actions : List Action)
deriving Repr

/-- a new glyph standing in the place of `t` (same tags) -/
def TG.withGid (t : TG) (gid : Nat) : TG := { t with g := { t.g with gid := gid } }

/-- mark-to-base / mark-to-mark -/
def markAttach (isCandidate : TG → Bool) (markCov baseCov : Cov) (marks : List MarkRec)
    (bases : List (List Anchor)) (pre : List TG) (cur : TG) (post : List TG) : R (Option Hit) :=
  match covGet markCov cur.g.gid with
  | none => pure none
  | some mi => do
    let mr ← need marks[mi]? "mark coverage index outside the mark array"
    match attachTarget isCandidate baseCov pre with
    | none => pure none
    | some (k, base, bi) =>
      let row ← need bases[bi]? "base coverage index outside the base array"
      match row[mr.cls]? with
      | none => pure none
      | some anchor =>
        -- an anchor offset of NULL ("no anchor for this class") is stored as (0, 0)
        if anchor.x == 0 && anchor.y == 0 then pure none else do
        let g ← attach base.g anchor cur.g mr (advSum (pre.take (k + 1)))
        pure (some (.done [{ cur with g := g }] post))

/-- pair adjustment: "valueRecord1: positioning data for the first glyph; valueRecord2: for the
second glyph".  "If valueFormat2 is 0 [no second record] the second glyph of the pair is the
first glyph of the next pair", otherwise the next pair starts after the second glyph. -/
def pairAdjust (adj : PairAdj) (cur : TG) (post : List TG) (j : Nat) (second : TG) : R (Option Hit) := do
  let g1 ← addValue adj.first cur.g
  match adj.second with
  | none => pure (some (.done ({ cur with g := g1 } :: post.take j) (post.drop j)))
  | some v => do
    let g2 ← addValue (some v) second.g
    pure (some (.done ({ cur with g := g1 } :: post.take j ++ [{ second with g := g2 }]) (post.drop (j + 1))))

/-- `pre`: the glyphs before the current one, nearest first; `cur`: the current glyph (not
skipped); `post`: the glyphs after it; `lim`: how many of them an enclosing match allows to be
consumed.  `none`: the subtable does not apply here. -/
def matchSub (kp : Nat → Bool) (gd : Gdef) (pre : List TG) (cur : TG) (post : List TG) (lim : Nat) :
    Subtable → R (Option Hit)
  /- GSUB 1.1 "Format 1 calculates the indices of the output glyphs: … deltaGlyphID is added to the
     input glyph index; addition is modulo 65536" -/
  | .gsub11 cov delta =>
    if setVal cov cur.g.gid then pure (some (.done [cur.withGid ((cur.g.gid + delta) % 65536)] post))
    else pure none
  /- GSUB 1.2 "substituteGlyphIDs, ordered by Coverage index" -/
  | .gsub12 cov subst =>
    match covGet cov cur.g.gid with
    | none => pure none
    | some i => do
      let n ← need subst[i]? "coverage index outside substituteGlyphIDs"
      pure (some (.done [cur.withGid n] post))
  /- GSUB 2.1 "replaces one glyph with more than one glyph … glyphCount must always be greater
     than 0".  The first new glyph stands for the text of the old one; all new glyphs take its
     place in every enclosing match. -/
  | .gsub21 cov repl =>
    match covGet cov cur.g.gid with
    | none => pure none
    | some i => do
      match ← need repl[i]? "coverage index outside the sequence array" with
      | [] => undef "multiple substitution with an empty sequence"
      | r0 :: rs =>
        pure (some (.done (cur.withGid r0 :: rs.map fun r => { cur with g := ⟨r, [], 0, 0, 0⟩ }) post))
  /- GSUB 3.1 alternates: the client chooses; the library documents "always chooses the first
     glyph from the list" and "if the list of replacements is empty, the lookup is ignored" -/
  | .gsub31 cov alts =>
    match covGet cov cur.g.gid with
    | none => pure none
    | some i => do
      match ← need alts[i]? "coverage index outside the alternate sets" with
      | [] => pure none
      | n :: _ => pure (some (.done [cur.withGid n] post))
  /- GSUB 4.1 "replaces several glyphs with a single glyph … ligatures are ordered by preference";
     component glyph IDs start with the second component.  The ligature stands for the text of all
     components; ignored glyphs between the components are moved behind the ligature (testcases
     1_12, 1_13).  The ligature is substituted in the place of the FIRST component, the others are
     deleted: it belongs to the input sequence of an enclosing match iff the first component does
     (testcases 2_08, 2_09: an input glyph merged with trailing ignored glyphs stays an input
     glyph).  When a later component belongs to an input sequence the first one does not belong
     to, implementations differ (testcases section 4): not determined. -/
  | .gsub41 cov ligs =>
    match covGet cov cur.g.gid with
    | none => pure none
    | some i => do
      let set ← need ligs[i]? "coverage index outside the ligature sets"
      let cands := set.filterMap fun (l : Lig) =>
        (matchSeq kp (l.comps.map fun c g => g == c) (post.take lim) 0).map fun offs => (l, usedLen offs)
      match cands with
      | [] => pure none
      | (l, used) :: _ =>
        let region := post.take used
        let comps := region.filter fun t => kp t.g.gid
        let skipped := region.filter fun t => !kp t.g.gid
        if comps.all fun t => t.win == cur.win && t.inp.all cur.inp.contains then
          let text := cur.g.text ++ comps.flatMap fun t => t.g.text
          pure (some (.done ({ cur with g := ⟨l.out, text, 0, 0, 0⟩ } :: skipped) (post.drop used)))
        else undef "ligature whose components belong to different parts of an enclosing match"
  /- GSUB 8.1 reverse chaining contextual single substitution: one input glyph (Coverage),
     backtrack and lookahead coverages, "substituteGlyphIDs, ordered by Coverage index" -/
  | .gsub81 input back look subst =>
    match covGet input cur.g.gid with
    | none => pure none
    | some i =>
      match matchSeq kp (back.map covHas) pre 0, matchSeq kp (look.map covHas) post 0 with
      | some _, some _ => do
        let n ← need subst[i]? "coverage index outside substituteGlyphIDs"
        pure (some (.done [cur.withGid n] post))
      | _, _ => pure none
  /- Sequence context format 1: "simple glyph contexts": rule sets by Coverage index of the first
     glyph, rules give the glyph IDs of the input sequence starting with the second glyph -/
  | .ctx1 cov rules =>
    match covGet cov cur.g.gid with
    | none => pure none
    | some i => do
      let rs ← need rules[i]? "coverage index outside the rule sets"
      pure ((firstRule kp (fun x g => g == x) (fun x g => g == x) (fun x g => g == x) pre post lim rs).map
        fun (m, a) => .ctx m a)
  /- format 2: "class-based glyph contexts": rule sets by class of the first glyph (no rule set:
     no match), rules give classes -/
  | .ctx2 cov cls rules =>
    if !covHas cov cur.g.gid then pure none else
    match rules[classOf cls cur.g.gid]? with
    | none => pure none
    | some rs =>
      let m := fun c g => classOf cls g == c
      pure ((firstRule kp m m m pre post lim rs).map fun (m, a) => .ctx m a)
  /- format 3: "coverage-based glyph contexts": one Coverage table per input position -/
  | .ctx3 input actions =>
    match input with
    | [] => undef "context format 3 without input coverage"
    | c0 :: cs =>
      if !setVal c0 cur.g.gid then pure none else
      pure ((matchContext kp [] (cs.map setVal) [] pre post lim).map fun m => .ctx m actions)
  | .chain1 cov rules =>
    match covGet cov cur.g.gid with
    | none => pure none
    | some i => do
      let rs ← need rules[i]? "coverage index outside the rule sets"
      pure ((firstRule kp (fun x g => g == x) (fun x g => g == x) (fun x g => g == x) pre post lim rs).map
        fun (m, a) => .ctx m a)
  | .chain2 cov bcls icls lcls rules =>
    if !covHas cov cur.g.gid then pure none else
    match rules[classOf icls cur.g.gid]? with
    | none => pure none
    | some rs =>
      pure ((firstRule kp (fun c g => classOf bcls g == c) (fun c g => classOf icls g == c)
        (fun c g => classOf lcls g == c) pre post lim rs).map fun (m, a) => .ctx m a)
  | .chain3 back input look actions =>
    match input with
    | [] => undef "chained context format 3 without input coverage"
    | c0 :: cs =>
      if !setVal c0 cur.g.gid then pure none else
      pure ((matchContext kp (back.map setVal) (cs.map setVal) (look.map setVal) pre post lim).map
        fun m => .ctx m actions)
  /- GPOS 1.1 "applies the same adjustment to every covered glyph", 1.2 one ValueRecord per
     Coverage index -/
  | .gpos11 cov adj =>
    if !covHas cov cur.g.gid then pure none else do
    let g ← addValue adj cur.g
    pure (some (.done [{ cur with g := g }] post))
  | .gpos12 cov adj =>
    match covGet cov cur.g.gid with
    | none => pure none
    | some i => do
      let v ← need adj[i]? "coverage index outside the value records"
      let g ← addValue v cur.g
      pure (some (.done [{ cur with g := g }] post))
  /- GPOS 2.1 pairs of glyph IDs: the second glyph is the next glyph that is not skipped -/
  | .gpos21 pairs =>
    match nextKept kp (post.take lim) 0 with
    | none => pure none
    | some (j, second) =>
      match pairs.lookup (cur.g.gid, second.g.gid) with
      | none => pure none
      | some none => undef "pair without adjustment record"
      | some (some adj) => pairAdjust adj cur post j second
  /- GPOS 2.2 class pairs: "class1Records, ordered by classes in classDef1 … class2Records, ordered
     by classes in classDef2" -/
  | .gpos22 cov cls1 cls2 adj =>
    if !setVal cov cur.g.gid then pure none else
    match nextKept kp (post.take lim) 0 with
    | none => pure none
    | some (j, second) =>
      match adj[classOf cls1 cur.g.gid]? with
      | none => pure none
      | some row =>
        match row[classOf cls2 second.g.gid]? with
        | none => pure none
        | some none => undef "pair without adjustment record"
        | some (some pa) => pairAdjust pa cur post j second
  /- GPOS 3 (cursive attachment) is not among the lookup types of the property -/
  | .gpos31 _ _ => undef "cursive attachment is outside the property"
  /- GPOS 4.1 mark-to-base: "look backward in the glyph string from the mark to the preceding base
     glyph" — the nearest preceding glyph that is not a mark (GDEF class 3; `gclass` is the GDEF
     glyph class definition, see `tablesOk`) -/
  | .gpos41 markCov baseCov marks bases gclass =>
    markAttach (fun t => classOf gclass t.g.gid != 3) markCov baseCov marks bases pre cur post
  /- GPOS 6.1 mark-to-mark: the preceding mark, i.e. the nearest preceding glyph the lookup does
     not skip -/
  | .gpos61 mark1Cov mark2Cov marks1 marks2 =>
    markAttach (fun t => kp t.g.gid) mark1Cov mark2Cov marks1 marks2 pre cur post

/-- "A lookup is finished for a glyph after the client locates the target glyph or glyph context
and performs a substitution [positioning]": the subtables are tried in order, the FIRST one
that applies is used. -/
def firstHit (kp : Nat → Bool) (gd : Gdef) (pre : List TG) (cur : TG) (post : List TG) (lim : Nat) :
    List Subtable → R (Option Hit)
  | [] => pure none
  | s :: ss => do
    match ← matchSub kp gd pre cur post lim s with
    | some h => pure (some h)
    | none => firstHit kp gd pre cur post lim ss

/-! ## nested lookups of a matched context -/

/-- positions of the glyphs that now form the input sequence of the match at depth `d` -/
def inputPositions (d : Nat) (ts : List TG) : List Nat :=
  ts.zipIdx.filterMap fun (t, i) => if t.hasInp d then some i else none

/-- position after the last glyph of the window of the match at depth `d` -/
def windowEnd (d : Nat) (ts : List TG) : Nat :=
  ts.length - (ts.reverse.takeWhile fun t => !t.hasWin d).length

/-- "seqLookupRecords, in design order": every record names a lookup and "sequenceIndex: index
(zero-based) into the input glyph sequence".  Decisions documented in testcases section 3: "the
positions for chained actions are interpreted at the time the child action is run"; glyphs added
in the place of an input glyph count, removed glyphs shift later positions.  A nested lookup
cannot consume glyphs beyond the window of the match.  `n` is the number of nested lookups that
may still be run for this position of the outer lookup (implementations bound it). -/
def runActions (child : Lookup → List TG → TG → List TG → Nat → Nat → R (Option (List TG × List TG × Nat)))
    (ll : LookupList) (gd : Gdef) (d : Nat) : List Action → List TG → Nat → R (List TG × Nat)
  | [], ts, n => pure (ts, n)
  | act :: acts, ts, n =>
    if n = 0 then undef "more nested lookups than implementations run" else
    match (inputPositions d ts)[act.seqIdx]? with
    | none => undef "sequence index outside the input sequence"
    | some j =>
      match ll[act.lookup]?, ts[j]? with
      | some lk, some cur =>
        if !keepOf gd lk cur.g.gid then runActions child ll gd d acts ts (n - 1) else do
        match ← child lk (ts.take j).reverse cur (ts.drop (j + 1)) (windowEnd d ts - (j + 1)) (n - 1) with
        | none => runActions child ll gd d acts ts (n - 1)
        | some (dn, rest, n') => runActions child ll gd d acts (ts.take j ++ dn ++ rest) n'
      | _, _ => undef "lookup index outside the lookup list"

/-- the glyphs of the window of a fresh match at depth `d`, tagged -/
def tagWindow (d : Nat) (m : CtxMatch) (cur : TG) (post : List TG) : List TG :=
  { cur with inp := d :: cur.inp, win := d :: cur.win } ::
    (post.take m.wlen).zipIdx.map fun (t, i) =>
      { t with inp := if m.offs.contains i then d :: t.inp else t.inp, win := d :: t.win }

/-- One lookup at one position (the current glyph is not skipped by the lookup): first applicable
subtable; for a contextual rule the nested lookups are run at once.  `fuel` bounds the nesting
depth, `d` is the nesting depth.  Result: the finished glyphs, the glyphs still to be processed,
the remaining budget of nested lookups. -/
def applyAt (ll : LookupList) (gd : Gdef) : Nat → Nat → Lookup → List TG → TG → List TG → Nat → Nat →
    R (Option (List TG × List TG × Nat))
  | 0, _, _, _, _, _, _, _ => undef "nesting deeper than implementations allow"
  | fuel + 1, d, lk, pre, cur, post, lim, n => do
    match ← firstHit (keepOf gd lk) gd pre cur post lim lk.subtables with
    | none => pure none
    | some (.done dn rest) => pure (some (dn, rest, n))
    | some (.ctx m acts) =>
      let ts := pre.reverse ++ tagWindow d m cur post ++ post.drop m.wlen
      let (ts', n') ← runActions (applyAt ll gd fuel (d + 1)) ll gd d acts ts n
      let tail := ts'.drop pre.length
      pure (some (((tail.takeWhile (TG.hasWin d)).map (TG.untag d)), tail.dropWhile (TG.hasWin d), n'))

/-! ## one lookup over the glyph string -/

/-- "a lookup is applied to the glyph string from its beginning to its end [in logical order]":
the scan.  A skipped glyph is passed over, a glyph no subtable applies to is passed over, after
an application the scan continues behind the glyphs the application consumed ("matches cannot
overlap", testcases 2_06).  `done`: processed glyphs, last first. -/
def scanFwd (B : Nat) (ll : LookupList) (gd : Gdef) (lk : Lookup) : Nat → List TG → List TG → R (List TG)
  | _, done, [] => pure done.reverse
  | 0, _, _ :: _ => undef "no progress"
  | fuel + 1, done, cur :: post =>
    if !keepOf gd lk cur.g.gid then scanFwd B ll gd lk fuel (cur :: done) post else do
    match ← applyAt ll gd B 0 lk done cur post post.length (B - 1) with
    | none => scanFwd B ll gd lk fuel (cur :: done) post
    | some (dn, rest, _) =>
      if rest.length ≤ post.length then scanFwd B ll gd lk fuel (dn.reverse ++ done) rest
      else undef "no progress"

/-- GSUB lookup type 8: "processing of the glyph string … begins at the end of the string and
proceeds to the beginning" (there are no nested lookups and the length never changes).
`todo`: the glyphs not yet processed, LAST first; `after`: the processed glyphs behind them. -/
def scanRev (gd : Gdef) (lk : Lookup) : List TG → List TG → R (List TG)
  | [], after => pure after
  | cur :: pre, after =>
    if !keepOf gd lk cur.g.gid then scanRev gd lk pre (cur :: after) else do
    match ← firstHit (keepOf gd lk) gd pre cur after after.length lk.subtables with
    | some (.done dn rest) => scanRev gd lk pre (dn ++ rest)
    | _ => scanRev gd lk pre (cur :: after)

def isReverse : Subtable → Bool
  | .gsub81 _ _ _ _ => true
  | _ => false

/-- a lookup has one type; type 8 is processed backwards, every other type forwards -/
def runLookup (B : Nat) (ll : LookupList) (gd : Gdef) (lk : Lookup) (ts : List TG) : R (List TG) :=
  if lk.subtables.any isReverse then
    if lk.subtables.all isReverse then scanRev gd lk ts.reverse []
    else undef "lookup mixing type 8 with other subtable types"
  else scanFwd B ll gd lk ts.length [] ts

/-- "lookups are applied in the order of the lookup list [the order the client assembled]", each
to the whole glyph string produced by the previous one -/
def runLookups (B : Nat) (ll : LookupList) (gd : Gdef) : List Nat → List TG → R (List TG)
  | [], ts => pure ts
  | i :: is, ts => do
    let lk ← need ll[i]? "lookup index outside the lookup list"
    let ts' ← runLookup B ll gd lk ts
    runLookups B ll gd is ts'

/-! ## well-formed table data -/

/-- a glyph set lists its members; an entry saying "not a member" has no meaning in the formats -/
def setOk (s : GSet) : Bool := s.all fun e => e.2

def subtableOk : Subtable → Bool
  | .gsub11 cov _ => setOk cov
  | .ctx3 input _ => input.all setOk
  | .chain3 back input look _ => back.all setOk && input.all setOk && look.all setOk
  | .gpos22 cov _ _ _ => setOk cov
  | _ => true

/-- the glyph classes a mark-to-base subtable was given are those of the GDEF table -/
def classesOk (gd : Gdef) : Subtable → Bool
  | .gpos41 _ _ _ _ gclass => gclass == gd.glyphClass
  | _ => true

def tablesOk (ll : LookupList) (gd : Gdef) : Bool :=
  ((ll.all fun lk => lk.subtables.all (classesOk gd)) && gd.markSets.all setOk) &&
    ll.all fun lk => lk.subtables.all subtableOk

/-! ## the reference shaper -/

/-- Apply the lookups `lookups` (indices into `ll`) to `seq`.  `B` is the bound on lookups run for
one position of an outer lookup (1 + nested ones). -/
def shape (B : Nat) (ll : LookupList) (gd : Gdef) (lookups : List Nat) (seq : List Glyph) : R (List Glyph) :=
  if !tablesOk ll gd then undef "glyph set with a non-member entry" else do
  let ts ← runLookups B ll gd lookups (seq.map fun g => { g := g })
  pure (ts.map (·.g))

/-- The region where the OpenType text and the documented decisions (testcases sections 1-3)
determine the outcome: the reference shaper returns a value.  It excludes: malformed tables
(indices outside their arrays, empty sequences, sets with non-member entries, lookups mixing
type 8 with other types, lookup or sequence indices out of range), ligatures whose components are
tagged differently by an enclosing match (testcases section 4), more nested lookups than
implementations run, cursive attachment, unimplemented value-record fields and int16 overflow. -/
def Defined (B : Nat) (ll : LookupList) (gd : Gdef) (lookups : List Nat) (seq : List Glyph) : Bool :=
  match shape B ll gd lookups seq with
  | .ok _ => true
  | .error _ => false

end SfntV.Spec.Shape
