/-
Outcome of a modelled Go function: a value, an error (class), or a Go panic at a named site.
-/
namespace SfntV

inductive Outcome (α : Type) where
  | ok : α → Outcome α
  | err : String → Outcome α
  | panic : String → Outcome α
deriving Repr, DecidableEq

instance : Monad Outcome where
  pure := .ok
  bind x f := match x with
    | .ok a => f a
    | .err e => .err e
    | .panic s => .panic s

def Outcome.noPanic : Outcome α → Prop
  | .panic _ => False
  | _ => True

def Outcome.isOk : Outcome α → Bool
  | .ok _ => true
  | _ => false

/-- checked index: what `xs[i]` does in Go -/
def idx (site : String) (xs : List α) (i : Nat) : Outcome α :=
  match xs[i]? with
  | some v => .ok v
  | none => .panic site

end SfntV
