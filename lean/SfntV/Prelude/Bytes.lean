/-
Byte strings, hex transport, big-endian packing.  Core-only (linked into the driver).
-/
namespace SfntV

abbrev Bytes := List UInt8

def hexDigit (n : Nat) : Char :=
  if n < 10 then Char.ofNat (48 + n) else Char.ofNat (87 + n)

def hexOfByte (b : UInt8) : String :=
  String.ofList [hexDigit (b.toNat / 16), hexDigit (b.toNat % 16)]

def toHex (b : Bytes) : String :=
  String.ofList (b.flatMap fun x => [hexDigit (x.toNat / 16), hexDigit (x.toNat % 16)])

def hexVal (c : Char) : Option Nat :=
  if '0' ≤ c ∧ c ≤ '9' then some (c.toNat - 48)
  else if 'a' ≤ c ∧ c ≤ 'f' then some (c.toNat - 87)
  else if 'A' ≤ c ∧ c ≤ 'F' then some (c.toNat - 55)
  else none

def fromHexChars : List Char → Option Bytes
  | [] => some []
  | a :: b :: rest => do
    let x ← hexVal a
    let y ← hexVal b
    let r ← fromHexChars rest
    pure (UInt8.ofNat (x * 16 + y) :: r)
  | [_] => none

def fromHex (s : String) : Option Bytes := fromHexChars s.toList

/-- big-endian 16-bit word (value taken mod 65536), arithmetic form -/
def be16 (n : Nat) : Bytes := [UInt8.ofNat (n / 256 % 256), UInt8.ofNat (n % 256)]
/-- big-endian 32-bit word (value taken mod 2^32), arithmetic form -/
def be32 (n : Nat) : Bytes :=
  [UInt8.ofNat (n / 16777216 % 256), UInt8.ofNat (n / 65536 % 256),
   UInt8.ofNat (n / 256 % 256), UInt8.ofNat (n % 256)]

/-- big-endian value of a byte string -/
def beVal : Bytes → Nat
  | [] => 0
  | b :: bs => b.toNat * 256 ^ bs.length + beVal bs

def natsToString (l : List Nat) : String := ",".intercalate (l.map toString)

/-- split "k=v" fields of a case line into an association list -/
def fields (parts : List String) : List (String × String) :=
  parts.filterMap fun p =>
    match p.splitOn "=" with
    | [k, v] => some (k, v)
    | _ => none

def getField (fs : List (String × String)) (k : String) : Option String :=
  (fs.find? (·.1 == k)).map (·.2)

def parseNatList (s : String) : Option (List Nat) :=
  if s.isEmpty then some [] else (s.splitOn ",").mapM String.toNat?

def parseInt? (s : String) : Option Int := s.toInt?

end SfntV
