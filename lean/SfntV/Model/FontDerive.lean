/-
C01 — `(*Font).Write` at the level of decoded table records: `derive` mirrors
makeHead/makeHmtx/makeOS2/makeName/makePost/GetFontInfo (write.go:161-333, font.go:113-190),
`codec` is what one Encode→Decode pass of each table codec does to its record (the small
semantic normalisations only — the byte-level codecs are C08/C09/C11/C12/C13/C14 and are
assumed to be the identity on everything else).  Core-only.
-/
import SfntV.Model.FontMeta

namespace SfntV.Font

/-! ## decoded table records (the fields of the Go `Info` structs that `Write` sets or `Read` uses) -/

/-- head.Info -/
structure HeadRec where
  fontRevision : Nat
  unitsPerEm : Nat
  created : Time
  modified : Time
  isBold : Bool
  isItalic : Bool
  lowestRecPPEM : Nat
deriving DecidableEq, Repr, Inhabited

/-- hmtx.Info (hhea + hmtx) -/
structure HmtxRec where
  widths : List Int
  ascent : Int
  descent : Int
  lineGap : Int
  /-- `round(CaretAngle·180/π·65536)`: the caret angle goes through float trigonometry
  (hmtx.fromAngle/toAngle) which is not modelled; the harness supplies the value -/
  caret16 : Int
deriving DecidableEq, Repr, Inhabited

/-- os2.Info -/
structure Os2Rec where
  weightClass : Nat
  widthClass : Nat
  isBold : Bool
  isItalic : Bool
  isRegular : Bool
  isOblique : Bool
  ascent : Int
  descent : Int
  lineGap : Int
  capHeight : Int
  xHeight : Int
  avgGlyphWidth : Int
  familyClass : Int
  codePageRange : Nat
  permUse : Int
deriving DecidableEq, Repr, Inhabited

/-- name.Table (the fields `makeName` sets; the others stay empty) -/
structure NameRec where
  family : Str
  subfamily : Str
  description : Str
  copyright : Str
  trademark : Str
  license : Str
  licenseURL : Str
  identifier : Str
  fullName : Str
  version : Str
  postScriptName : Str
  sampleText : Str
deriving DecidableEq, Repr, Inhabited

/-- post.Info without the glyph names (those belong to the opaque glyph payload) -/
structure PostRec where
  italicAngle : Dy
  underlinePosition : Int
  underlineThickness : Int
  isFixedPitch : Bool
deriving DecidableEq, Repr, Inhabited

/-- type1.FontInfo inside the CFF table -/
structure CffInfo where
  fontName : Str
  fullName : Str
  familyName : Str
  weight : Str
  version : Str
  copyright : Str
  notice : Str
  italicAngle : Dy
  isFixedPitch : Bool
  underlinePosition : Dy
  underlineThickness : Dy
  fontMatrix : FM
deriving DecidableEq, Repr, Inhabited

/-- the table set of one font file, decoded -/
structure Tables where
  /-- `dir.ScalerType == ScalerTypeCFF` ("OTTO") -/
  scalerCFF : Bool
  head : Option HeadRec
  hmtx : Option HmtxRec
  /-- maxp.Info.NumGlyphs -/
  maxp : Option Nat
  os2 : Option Os2Rec
  /-- the name table `Read` selects (Windows en-US, else Mac) -/
  name : Option NameRec
  post : Option PostRec
  cff : Option CffInfo
  /-- decoded glyph data + cmap summary; `widths` are the widths stored *inside* the CFF glyph
  data (`none` for glyf, which stores none) -/
  outline : Outline
  gdef : Option Str
  gsub : Option Str
  gpos : Option Str
  /-- token of the GPOS table `Read` synthesises from a `kern` table (read.go:498-520) -/
  kern : Option Str
deriving DecidableEq, Repr, Inhabited

/-- things `Write` takes from its environment or computes by float trigonometry; none of them
reaches a `Font` field again (theorem `merge_derive_env`) -/
structure Env where
  /-- `time.Now()` -/
  now : Time
  /-- `day.Format("2006-01-02")` -/
  fmtDate : Time → Str
  /-- caret angle recovered from `fromAngle(ItalicAngle/180·π)` -/
  caretOf : Dy → Int

/-! ## naming (font.go:137-190) -/

/-- the words of `Subfamily()` as a function of the width class, the weight tag together with
"the family name already contains it" (`none` when the weight is 0 or 400), and three flags -/
def subfamilyWordsCore (width : Nat) (wt : Option (Str × Bool)) (bold oblique italic : Bool) : List Str :=
  let w1 : List Str := if width ≠ 0 ∧ width ≠ 5 then [widthString width] else []
  let w2 : List Str :=
    match wt with
    | some (tag, seenInFamily) =>
      let seen := seenInFamily || w1.any (hasInfix tag)
      if seen then w1 else w1 ++ [tag]
    | none => if bold then w1 ++ [s_Bold] else w1
  if oblique then w2 ++ [s_Oblique]
  else if italic then w2 ++ [s_Italic]
  else w2

def subfamilyCore (width : Nat) (wt : Option (Str × Bool)) (bold oblique italic : Bool) : Str :=
  let ws := subfamilyWordsCore width wt bold oblique italic
  if ws.isEmpty then s_Regular else joinWords ws

/-- the weight word `Subfamily()` wants to add, and whether `FamilyName` already contains it -/
def weightTag (F : FontMeta) : Option (Str × Bool) :=
  if F.weight ≠ 0 ∧ F.weight ≠ 400 then
    some (weightSimple F.weight, hasInfix (weightSimple F.weight) F.familyName)
  else none

/-- `Subfamily()` -/
def subfamily (F : FontMeta) : Str :=
  subfamilyCore F.width (weightTag F) F.isBold F.isOblique F.isItalic

/-- `FullName()` -/
def fullName (F : FontMeta) : Str := F.familyName ++ ' ' :: subfamily F

/-- character class of the regexp `[^!-$&-'*-.0-;=?-Z\\^-z|~]+` in `PostScriptName()` -/
def psAllowed (c : Char) : Bool :=
  let n := c.toNat
  (33 ≤ n && n ≤ 36) || (38 ≤ n && n ≤ 39) || (42 ≤ n && n ≤ 46) || (48 ≤ n && n ≤ 59) ||
  n == 61 || (63 ≤ n && n ≤ 90) || n == 92 || (94 ≤ n && n ≤ 122) || n == 124 || n == 126

/-- `PostScriptName()` -/
def postScriptName (F : FontMeta) : Str := (F.familyName ++ '-' :: subfamily F).filter psAllowed

/-- `strings.ReplaceAll(s, "©", "(c)")` -/
def replaceCopyrightSign : Str → Str
  | [] => []
  | c :: cs => if c = '©' then '(' :: 'c' :: ')' :: replaceCopyrightSign cs else c :: replaceCopyrightSign cs

/-! ## derive -/

def deriveHead (F : FontMeta) : HeadRec :=
  { fontRevision := F.version, unitsPerEm := F.unitsPerEm,
    created := F.creationTime, modified := F.modificationTime,
    isBold := F.isBold, isItalic := !F.italicAngle.isZero, lowestRecPPEM := 7 }

/-- makeHmtx: `widths[i] = funit.Int16(w)` -/
def deriveHmtx (env : Env) (F : FontMeta) : HmtxRec :=
  { widths := F.outline.widthList.map fun w => toInt16 w.trunc,
    ascent := F.ascent, descent := F.descent, lineGap := F.lineGap,
    caret16 := env.caretOf F.italicAngle }

/-- the loop at the head of makeOS2: sum and count of `int(w)` over `w > 0` -/
def avgGlyphWidth (ws : List Dy) : Int :=
  let pos := ws.filter Dy.isPos
  let sum : Int := (pos.map Dy.trunc).foldl (· + ·) 0
  let count : Int := pos.length
  wrap16 (if count > 0 then Int.tdiv (sum + Int.tdiv count 2) count else sum)

def deriveOs2 (F : FontMeta) : Os2Rec :=
  { weightClass := F.weight, widthClass := F.width,
    isBold := F.isBold, isItalic := !F.italicAngle.isZero,
    isRegular := F.isRegular, isOblique := F.isOblique,
    ascent := F.ascent, descent := F.descent, lineGap := F.lineGap,
    capHeight := F.capHeight, xHeight := F.xHeight,
    avgGlyphWidth := avgGlyphWidth F.outline.widthList,
    familyClass := if F.isSerif then 768 else if F.isScript then 2560 else 0,
    codePageRange := F.codePageRange, permUse := F.permUse }

/-- the day whose date goes into the identifier string (makeName) -/
def nameDay (env : Env) (F : FontMeta) : Time :=
  if !F.modificationTime.isZero then F.modificationTime
  else if !F.creationTime.isZero then F.creationTime
  else env.now

def deriveName (env : Env) (F : FontMeta) : NameRec :=
  let full := fullName F
  let ver := verString F.version
  { family := F.familyName, subfamily := subfamily F, description := F.description,
    copyright := F.copyright, trademark := F.trademark, license := F.license,
    licenseURL := F.licenseURL,
    identifier := full ++ [';', ' '] ++ ver ++ [';', ' '] ++ env.fmtDate (nameDay env F),
    fullName := full, version := s_VersionSp ++ ver,
    postScriptName := postScriptName F, sampleText := F.sampleText }

def derivePost (F : FontMeta) : PostRec :=
  { italicAngle := F.italicAngle,
    underlinePosition := toInt16 F.underlinePosition.round,
    underlineThickness := toInt16 F.underlineThickness.round,
    isFixedPitch := isFixedPitch F.outline.widthList }

/-- GetFontInfo -/
def deriveCff (F : FontMeta) : CffInfo :=
  { fontName := postScriptName F, fullName := fullName F, familyName := F.familyName,
    weight := weightString F.weight, version := verString F.version,
    copyright := replaceCopyrightSign F.copyright, notice := F.trademark,
    italicAngle := F.italicAngle, isFixedPitch := isFixedPitch F.outline.widthList,
    underlinePosition := F.underlinePosition, underlineThickness := F.underlineThickness,
    fontMatrix := F.fontMatrix }

/-- `(*Font).Write`, write.go:40-99, as a set of table records -/
def derive (env : Env) (F : FontMeta) : Tables :=
  { scalerCFF := F.outline.kind == .cff,
    head := some (deriveHead F),
    hmtx := some (deriveHmtx env F),
    maxp := some F.outline.numGlyphs,
    os2 := some (deriveOs2 F),
    name := some (deriveName env F),
    post := some (derivePost F),
    cff := if F.outline.kind == .cff then some (deriveCff F) else none,
    outline := F.outline,
    gdef := F.gdef, gsub := F.gsub, gpos := F.gpos,
    kern := none }

/-! ## what one Encode→Decode pass does to a record -/

/-- head.Encode/Read: times go through `encodeTime`/`decodeTime` -/
def codecHead (h : HeadRec) : HeadRec :=
  { h with created := decodeTime (encodeTime h.created), modified := decodeTime (encodeTime h.modified) }

/-- os2.Encode/Read (os2.go:76-330): fsSelection carries ITALIC and BOLD only when REGULAR is
clear; fsType knows four permission values; version-4 tables keep x-height and cap height only
when positive -/
def codecOs2 (o : Os2Rec) : Os2Rec :=
  { o with
    isBold := o.isBold && !o.isRegular,
    isItalic := o.isItalic && !o.isRegular,
    capHeight := if o.capHeight > 0 then o.capHeight else 0,
    xHeight := if o.xHeight > 0 then o.xHeight else 0,
    permUse := if 1 ≤ o.permUse ∧ o.permUse ≤ 3 then o.permUse else 0 }

/-- post.Encode/Read: `int32(math.Round(angle*65536))`, read back as `float64(n)/65536` -/
def codecPost (p : PostRec) : PostRec :=
  { p with italicAngle := ⟨toInt32 p.italicAngle.round16, 16⟩ }

/-- the glyf table stores no advance widths; everything else in the payload is kept -/
def codecOutline (o : Outline) : Outline :=
  match o.kind with
  | .glyf => { o with widths := none }
  | .cff => o

def codec (T : Tables) : Tables :=
  { T with head := T.head.map codecHead, os2 := T.os2.map codecOs2, post := T.post.map codecPost,
           outline := codecOutline T.outline }

end SfntV.Font
