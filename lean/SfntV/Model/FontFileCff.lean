/-
C01 — the font file as BYTES, OpenType/CFF flavour (stage 3', container level): every sfnt table
around the outlines is composed from the byte-level codec models as in Model/FontFile.lean (head,
hhea/hmtx, maxp 0.5, OS/2: C12; name, post: C14; cmap: C09; container: C03); the `CFF ` table itself
is carried as the bytes `makeCFF` produces (its codec is C13's subject) together with what those
bytes stand for, and `cff.Read` is an abstract decoder.  Core-only (linked into the driver).
-/
import SfntV.Model.FontFile

namespace SfntV.FontFile
open SfntV SfntV.Font

/-- what `cff.Read` delivers, as far as the font-level model looks at it -/
structure CffPayload where
  /-- `cff.Font.FontInfo` -/
  info : CffInfo
  /-- `Glyph.Width` of every glyph (float64, exact) -/
  widths : List Dy
  /-- `Glyph.Extent()` of every glyph (floor / ceil of the outline's extreme coordinates) -/
  extents : List Metrics.Rect
  /-- everything else (charstrings, glyph names or CIDs, private and font dicts, encoding) -/
  token : Str
deriving Repr, DecidableEq

/-- an OpenType/CFF font value -/
structure CffFileFont where
  /-- scalar fields; the `outline` summary inside is ignored (recomputed by `metaOfCff`) -/
  scalars : FontMeta
  /-- the `CFF ` table `makeCFF` builds from `GetFontInfo()` and the outlines (C13 `writeFont`) -/
  cffBytes : Bytes
  /-- the `cff.Outlines` (+ FontInfo) those bytes stand for -/
  payload : CffPayload
  cmap : Option CmapTable.Table
  gdef : Option Bytes := none
  gsub : Option Bytes := none
  gpos : Option Bytes := none
deriving Repr, DecidableEq

/-- the outline summary of a CFF font -/
def outlineOfCff (p : CffPayload) (cm : Option CmapTable.Table) : Outline :=
  let best := bestSub cm
  { kind := .cff, numGlyphs := p.widths.length, widths := some p.widths,
    heights := p.extents.map (·.ury), glyphs := p.token, emptyGlyf := false,
    cmap := match cm with | some t => tokenOfBytes (CmapTable.encode t) | none => ['-'],
    hasBest := best.isSome,
    gidH := match best with | some s => s.lookup 72 | none => 0,
    gidX := match best with | some s => s.lookup 120 | none => 0,
    stdLig := best.bind stdLigOf }

def metaOfCff (F : CffFileFont) : FontMeta :=
  { F.scalars with outline := outlineOfCff F.payload F.cmap,
                   gdef := F.gdef.map tokenOfBytes, gsub := F.gsub.map tokenOfBytes,
                   gpos := F.gpos.map tokenOfBytes }

/-- the table map `Write` hands to `header.Write` (write.go:41-98), CFF branch -/
def writeTablesCff (ef : EnvF) (F : CffFileFont) : Outcome (List Header.Entry) :=
  let M := metaOfCff F
  let rects := F.payload.extents
  let bbox := Metrics.fontBBoxModel rects
  let rr := ef.riseRun M.italicAngle
  let hm := deriveHmtx ef.env M
  let info : Metrics.Info :=
    { widths := some hm.widths, extents := some rects, lsb := none,
      ascent := hm.ascent, descent := hm.descent, lineGap := hm.lineGap, caretOffset := 0 }
  match Metrics.encode info rr.1 rr.2 with
  | .err e => .err e
  | .panic s => .panic s
  | .ok (hhea, hmtx) =>
    match Metrics.encodeMaxp ⟨F.payload.widths.length, none⟩ with
    | .err e => .err e
    | .panic s => .panic s
    | .ok maxp =>
      let win := Metrics.winMetricsModel bbox
      let ci := charIndices F.cmap
      let os2 := Metrics.encodeOs2 (os2Of (deriveOs2 M) ⟨ci.1, ci.2, win.1, win.2⟩)
      let name := natsToBytes (Names.nameEncode (nameEntries (deriveName ef.env M)) 1)
      let post := natsToBytes (Names.postEncode (postHdrN (derivePost M)) none)
      let head := Metrics.encodeHead (headOf (deriveHead M) bbox 0)
      .ok [⟨tag "hhea", some hhea⟩, ⟨tag "hmtx", hmtx⟩, ⟨tag "cmap", F.cmap.map CmapTable.encode⟩,
           ⟨tag "OS/2", some os2⟩, ⟨tag "name", some name⟩, ⟨tag "post", some post⟩,
           ⟨tag "CFF ", some F.cffBytes⟩, ⟨tag "maxp", some maxp⟩, ⟨tag "head", some head⟩,
           ⟨tag "GDEF", F.gdef⟩, ⟨tag "GSUB", F.gsub⟩, ⟨tag "GPOS", F.gpos⟩]

/-- `(*Font).Write` for a CFF font: scaler type "OTTO" -/
def writeFileCff (ef : EnvF) (F : CffFileFont) : Outcome Bytes :=
  match writeTablesCff ef F with
  | .err e => .err e
  | .panic s => .panic s
  | .ok ts =>
    match Header.write 0x4F54544F ts with
    | .ok w => .ok w.bytes
    | .err e => .err e
    | .panic s => .panic s

/-- what `Read` returns for an OpenType/CFF file -/
structure ReadResultCff where
  font : FontMeta
  cmap : Option CmapTable.Table
deriving Repr, DecidableEq

/-- `sfnt.Read` on a file with scaler type "OTTO": as `readFile`, with `cff.Read` (`decCff`) in
place of the glyf/loca decoder; the glyph widths stored in the CFF data are overridden by hmtx in
`merge`. -/
def readFileCff (ld : LayoutDec) (decCff : Bytes → Outcome CffPayload) (caretOf : Int → Int → Int)
    (f : Bytes) : Outcome ReadResultCff :=
  match Header.read 280 f with
  | .err e => .err ("header:" ++ e)
  | .panic s => .panic s
  | .ok (sc, recs) =>
    if sc != 0x4F54544F then .err "not-CFF-flavoured" else
    let tab := tableOf f recs
    match optDecode (tab (tag "head")) Metrics.decodeHead with
    | .err e => .err ("head:" ++ e) | .panic s => .panic s
    | .ok head =>
    match optDecode (tab (tag "maxp")) Metrics.decodeMaxp with
    | .err e => .err ("maxp:" ++ e) | .panic s => .panic s
    | .ok maxp =>
    match optDecode (tab (tag "OS/2")) Metrics.decodeOs2 with
    | .err e => .err ("OS/2:" ++ e) | .panic s => .panic s
    | .ok os2 =>
    match optDecode (tab (tag "hhea")) (fun hh => Metrics.decode hh (tab (tag "hmtx"))) with
    | .err e => .err ("hmtx:" ++ e) | .panic s => .panic s
    | .ok hm =>
    match (match tab (tag "name") with
           | none => some none
           | some b => (Names.nameDecode (bytesToNats b)).map some) with
    | none => .err "name:malformed"
    | some nameDec =>
    match optDecode (tab (tag "cmap")) CmapTable.decode with
    | .err e => .err ("cmap:" ++ e) | .panic s => .panic s
    | .ok cm =>
    match optDecode (tab (tag "post")) decodePostFull with
    | .err e => .err ("post:" ++ e) | .panic s => .panic s
    | .ok post =>
    match hasDecode (tab (tag "GDEF")) ld.gdef with
    | .err e => .err ("GDEF:" ++ e) | .panic s => .panic s
    | .ok gdef =>
    match hasDecode (tab (tag "GSUB")) ld.gsub with
    | .err e => .err ("GSUB:" ++ e) | .panic s => .panic s
    | .ok gsub =>
    match hasDecode (tab (tag "GPOS")) ld.gpos with
    | .err e => .err ("GPOS:" ++ e) | .panic s => .panic s
    | .ok gpos =>
    if (tab (tag "kern")).isSome then .err "kern-not-modelled" else
    match hasDecode (tab (tag "CFF ")) decCff with
    | .err e => .err ("CFF:" ++ e) | .panic s => .panic s
    | .ok none => .err "no-glyph-data"
    | .ok (some p) =>
      let T : Tables :=
        { scalerCFF := true,
          head := head.map recOfHead,
          hmtx := hm.map fun d => { widths := d.widths, ascent := d.ascent, descent := d.descent,
                                    lineGap := d.lineGap, caret16 := caretOf d.rise d.run },
          maxp := maxp.map (·.numGlyphs.toNat),
          os2 := os2.map recOfOs2,
          name := nameDec.bind nameRecOf,
          post := post.map (·.1),
          cff := some p.info,
          outline := outlineOfCff p cm,
          gdef := gdef, gsub := gsub, gpos := gpos, kern := none }
      match readErr T with
      | some e => .err e
      | none => .ok { font := merge T, cmap := cm }

/-- the normal form of a CFF file font -/
def nfFileCff (F : CffFileFont) : ReadResultCff :=
  { font := nf (metaOfCff F), cmap := F.cmap }

end SfntV.FontFile
