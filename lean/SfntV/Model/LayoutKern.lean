/-
C15 — legacy `kern` tables.  Core-only.

SPEC  : `KSub`, `kernSpec` — the accumulation rule of the OpenType/TrueType `kern` table chapter
        (version 0 header, format 0 subtables, coverage bits), written from the format description;
        `encKern` — the byte layout of such a table.
MODEL : `kernRead` — `kern.Read` of /repo/kern/kern.go on raw bytes (cursor arithmetic of
        parser.Parser replaced by the byte view C17 proves it to be), Go map = association list
        (`mget`/`mset`), `funit.Int16 +=` = `wrap16`.
        `kernAdjust` — what `sfnt.Read` + `Layouter.Layout` do with the result: one GPOS 2.1
        lookup whose records carry only `First.XAdvance`, applied along the glyph sequence.
-/
import SfntV.Prelude.Bytes
import SfntV.Generated.Layout

namespace SfntV.Layout

abbrev Pair := Nat × Nat

/-- two's-complement wrap of `funit.Int16` arithmetic -/
def wrap16 (x : Int) : Int := (x + 32768) % 65536 - 32768

/-- `funit.Int16(buf[4])<<8 | funit.Int16(buf[5])` for an unsigned 16-bit pattern -/
def toI16 (n : Nat) : Int := if n < 32768 then (n : Int) else (n : Int) - 65536

/-! ## Go map `map[glyph.Pair]funit.Int16` -/

abbrev KMap := List (Pair × Int)

/-- `res[key]` (zero value when absent) -/
def mget (m : KMap) (k : Pair) : Int :=
  match m.find? (fun e => e.1 == k) with
  | some e => e.2
  | none => 0

/-- `res[key] = v` -/
def mset (m : KMap) (k : Pair) (v : Int) : KMap := (k, v) :: m.filter (fun e => !(e.1 == k))

/-- the three branches of the inner loop of `kern.Read` -/
def pairStep (isMin isOver : Bool) (m : KMap) (k : Pair) (v : Int) : KMap :=
  if isMin then (if mget m k < v then mset m k v else m)
  else if isOver then mset m k v
  else mset m k (wrap16 (mget m k + v))

/-! ## MODEL: `kern.Read` on bytes -/

inductive KErr where
  | io | unsupported | invalid
deriving Repr, DecidableEq

def byteAt (b : Bytes) (i : Nat) : Nat := (b[i]?.getD 0).toNat
def u16At (b : Bytes) (i : Nat) : Nat := byteAt b i * 256 + byteAt b (i + 1)

/-- the `for j := 0; j < int(nPairs); j++` loop; `pos` is the parser's cursor -/
def readPairs (b : Bytes) (isMin isOver : Bool) : Nat → Nat → KMap → Except KErr KMap
  | 0, _, m => .ok m
  | n + 1, pos, m =>
    if pos + 6 ≤ b.length then
      let k : Pair := (u16At b pos, u16At b (pos + 2))
      readPairs b isMin isOver n (pos + 6) (pairStep isMin isOver m k (toI16 (u16At b (pos + 4))))
    else .error .io

/-- the `for i := 0; i < int(nTables); i++` loop; `pos` is the variable `pos` of the Go code, `tp`
is `totalPairs` (the work bound added for C02: a table whose applicable subtables announce more
pairs than fit into the file is refused) -/
def readSubs (b : Bytes) : Nat → Nat → Nat → KMap → Except KErr KMap
  | 0, _, _, m => .ok m
  | n + 1, pos, tp, m =>
    if pos + 6 ≤ b.length then
      let ver := u16At b pos
      let length := u16At b (pos + 2)
      let format := byteAt b (pos + 4)
      let flags := byteAt b (pos + 5)
      if length < Gen.kernMinLength then .error .invalid
      else if ver ≠ 0 ∨ format ≠ 0 ∨ flags &&& Gen.kernMaskApplicable ≠ 1 then
        readSubs b n (pos + length) tp m
      else if pos + 8 ≤ b.length then
        let nPairs := u16At b (pos + 6)
        if 6 * (tp + nPairs) > b.length then .error .invalid
        else
          match readPairs b (flags &&& Gen.kernMaskMinimum ≠ 0) (flags &&& Gen.kernMaskOverride ≠ 0)
              nPairs (pos + 14) m with
          | .ok m' => readSubs b n (pos + length) (tp + nPairs) m'
          | .error e => .error e
      else .error .io
    else .error .io

/-- `kern.Read` -/
def kernRead (b : Bytes) : Except KErr KMap :=
  if 2 ≤ b.length then
    if u16At b 0 ≠ 0 then .error .unsupported
    else if 4 ≤ b.length then readSubs b (u16At b 2) 4 0 []
    else .error .io
  else .error .io

/-! ## SPEC: the `kern` table of the OpenType specification -/

/-- One subtable.  OpenType `kern` chapter: "Each subtable begins with: uint16 version; uint16 length;
uint16 coverage", and for `coverage`: bit 0 horizontal ("1 if table has horizontal data, 0 if
vertical"), bit 1 minimum ("If this bit is set to 1, the table has minimum values. If set to 0, the
table has kerning values."), bit 2 cross-stream ("If set to 1, kerning is perpendicular to the flow of
the text."), bit 3 override ("If this bit is set to 1 the value in this table should replace the
value currently being accumulated."), bits 4-7 reserved ("set to zero"), bits 8-15 format.
Format 0: "uint16 nPairs, searchRange, entrySelector, rangeShift" then `nPairs` records
"uint16 left; uint16 right; FWORD value". -/
structure KSub where
  version : Nat
  format : Nat
  horizontal : Bool
  minimum : Bool
  crossStream : Bool
  override : Bool
  reserved : Nat
  /-- searchRange, entrySelector, rangeShift: redundant binary-search aids -/
  search : Nat × Nat × Nat
  pairs : List (Pair × Int)
deriving Repr

/-- A subtable contributes to kerning along a horizontal line of text iff it is a version-0,
format-0 subtable with horizontal data that is not cross-stream.  (Formats other than 0 and set
reserved bits are not interpreted.) -/
def KSub.applies (s : KSub) : Bool :=
  s.version == 0 && s.format == 0 && s.horizontal && !s.crossStream && s.reserved == 0

/-- "The left-hand glyph … and right-hand glyph … are combined into a 32-bit key and the array is
searched": the value recorded for the pair, if any. -/
def KSub.value (s : KSub) (k : Pair) : Option Int := (s.pairs.find? (fun e => e.1 == k)).map (·.2)

/-- One accumulation step.  Kerning values are summed over the subtables; a minimum subtable
limits the accumulated value from below; an override subtable replaces it.  For the
combination minimum+override the chapter gives no rule; the values of a minimum table are limits,
not kerning values, so they are treated as limits. -/
def specStep (k : Pair) (acc : Int) (s : KSub) : Int :=
  if s.applies then
    match s.value k with
    | none => acc
    | some v => if s.minimum then (if acc < v then v else acc) else if s.override then v else acc + v
  else acc

/-- the kerning value of a glyph pair according to the table -/
def kernSpec (subs : List KSub) (k : Pair) : Int := subs.foldl (specStep k) 0

/-- coverage low byte -/
def KSub.flags (s : KSub) : Nat :=
  (if s.horizontal then 1 else 0) + (if s.minimum then 2 else 0) + (if s.crossStream then 4 else 0) +
  (if s.override then 8 else 0) + 16 * s.reserved

def encPair (e : Pair × Int) : Bytes := be16 e.1.1 ++ be16 e.1.2 ++ be16 (e.2 % 65536).toNat

def encSub (s : KSub) : Bytes :=
  be16 s.version ++ be16 (14 + 6 * s.pairs.length) ++ [UInt8.ofNat s.format, UInt8.ofNat s.flags] ++
  be16 s.pairs.length ++ be16 s.search.1 ++ be16 s.search.2.1 ++ be16 s.search.2.2 ++
  s.pairs.flatMap encPair

/-- "uint16 version (0); uint16 nTables" followed by the subtables -/
def encKern (subs : List KSub) : Bytes := be16 0 ++ be16 subs.length ++ subs.flatMap encSub

/-- the fields fit their binary representation; each subtable lists a *set* of pairs -/
structure KSub.WF (s : KSub) : Prop where
  version_lt : s.version < 65536
  format_lt : s.format < 256
  reserved_lt : s.reserved < 16
  length_lt : 14 + 6 * s.pairs.length < 65536
  search_lt : s.search.1 < 65536 ∧ s.search.2.1 < 65536 ∧ s.search.2.2 < 65536
  glyphs_lt : ∀ e ∈ s.pairs, e.1.1 < 65536 ∧ e.1.2 < 65536
  values_i16 : ∀ e ∈ s.pairs, -32768 ≤ e.2 ∧ e.2 ≤ 32767
  keys_nodup : (s.pairs.map (·.1)).Nodup

/-! ## the structured form of the reader (bridge between bytes and spec) -/

def foldPairs (isMin isOver : Bool) (m : KMap) (ps : List (Pair × Int)) : KMap :=
  ps.foldl (fun m e => pairStep isMin isOver m e.1 e.2) m

def subStep (m : KMap) (s : KSub) : KMap :=
  if s.applies then foldPairs s.minimum s.override m s.pairs else m

def foldSubs (m : KMap) (subs : List KSub) : KMap := subs.foldl subStep m

/-! ## conversion to GPOS and application (read.go:498-520, gpos.go Gpos2_1.apply) -/

/-- `glyph.Info` (offsets are not touched by anything modelled here and are left out) -/
structure Glyph where
  gid : Nat
  text : List Nat
  adv : Int
deriving Repr, DecidableEq

/-- `Gpos2_1.apply` for records `{First: {XAdvance: v}}` (Second = nil ⇒ the next position is the
second glyph of the pair) along the whole sequence, with nothing skipped (lookup flags 0):
every glyph followed by another one gets `Advance += kern(g, next)`; the last is left alone.
The map `m` is the `kern.Info` the subtable was built from. -/
def kernAdjust (m : KMap) : List Glyph → List Glyph
  | a :: b :: r =>
    (if m.any (fun e => e.1 == (a.gid, b.gid)) then { a with adv := wrap16 (a.adv + mget m (a.gid, b.gid)) } else a)
      :: kernAdjust m (b :: r)
  | l => l

end SfntV.Layout
