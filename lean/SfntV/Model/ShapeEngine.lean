/-
The shaping engine of opentype/gtab as a purely functional state machine (properties
C06/C07): `Context.Apply`, `applyAtRecursively` with the nested-action budget, `applyAt`,
`fixStackInsert`, `fixStackMerge` (layout.go) and `apply` of the subtables (gsub.go,
nested.go, gpos.go).  Core-only: linked into the driver.

The model mirrors the code AS REPAIRED for the defects of DESIGN §9 listed below; each
repair is a separate small patch to /repo, and each place is marked `REPAIRED #n`.
  #11 gsub.go   Gsub4_1.apply   `skipPos = matchPos[:0]` aliased the two slices
  #12 gsub.go   Gsub2_1.apply   `repl[0]` on an empty replacement
  #13 filter.go Keep            `MarkGlyphSets[set]` unchecked (see `keep` in ShapeTypes)
  #14 layout.go applyAtRecursively: stack left non-empty when the budget runs out (14a);
                an action with a bad sequence index was never consumed (14b)
  #15 nested.go SeqContext2.apply `l.Rules[ruleIdx]` unchecked class index
  #15 gpos4.go, gpos6.go apply  `BaseArray[baseIdx][markRecord.Class]` unchecked mark class
  #33 layout.go fixStackMerge   `EndPos` not reduced by merged glyphs after the last input
  C06-ch3 nested.go ChainedSeqContext3.apply recorded the first input position twice in `InputPos`
  #32 layout.go Apply           GSUB type 8 lookups were applied front to back
  C06-ch3skip nested.go ChainedSeqContext3.apply skip loops stopped one glyph early
  C06-attach gpos4.go, gpos6.go the mark offsets ignored the offsets of the glyph attached to
  C06-base gpos4.go, gpos6.go   the search for the base glyph / mark2 went past uncovered glyphs

Every Go index expression that is not dominated by a guard is an `idx`/`idxI` here and
yields `panic site`; running out of the explicit fuel yields `err "fuel"` (proved impossible
in Props/C07: that is the termination theorem).
-/
import SfntV.Model.ShapeTypes

namespace SfntV.Shape
open SfntV

/-- `xs[i]` with a Go `int` index -/
def idxI (site : String) (xs : List α) (i : Int) : Outcome α :=
  if i < 0 then .panic site else idx site xs i.toNat

/-! ## fixStackInsert / fixStackMerge -/

/-- insert `new` after the LAST occurrence of `pos` (`hasPosAt` is overwritten by later hits) -/
def insAfterLast (pos : Int) (new : List Int) : List Int → Option (List Int)
  | [] => none
  | p :: ps =>
    match insAfterLast pos new ps with
    | some r => some (p :: r)
    | none => if p == pos then some (p :: (new ++ ps)) else none

/-- `pos+1, …, pos+num-1` -/
def newPositions (pos : Int) (num : Nat) : List Int :=
  (List.range (num - 1)).map fun (j : Nat) => pos + 1 + (j : Int)

/-- body of the loop of `fixStackInsert(pos, num)` for one stack entry -/
def fixInsertOne (pos : Int) (num : Nat) (e : Nested) : Nested :=
  if e.endPos ≤ pos then e else
  let shifted := e.inputPos.map fun p => if p > pos then p + ((num - 1 : Nat) : Int) else p
  { e with
    inputPos := (insAfterLast pos (newPositions pos num) shifted).getD shifted
    endPos := e.endPos + ((num - 1 : Nat) : Int) }

/-- The two-pointer loop of `fixStackMerge` over the merged positions (first argument, the
flag says whether we are at `i == 0`) and the input positions, with the running `delta`.
Returns the new input positions and `needsMergePos`. -/
def mergeWalk : List Int → Bool → List Int → Int → List Int × Bool
  | [], _, inp, d => (inp.map (· - d), false)
  | p :: ps, first, inp, d =>
    let lo := (inp.takeWhile (· < p)).map (· - d)
    match inp.dropWhile (· < p) with
    | [] => (lo, false)
    | q :: qs =>
      if p < q then
        let r := mergeWalk ps false (q :: qs) (if first then d else d + 1)
        (lo ++ r.1, r.2)
      else
        let ends := first || ps.isEmpty
        if first then
          let r := mergeWalk ps false qs d
          (lo ++ q :: r.1, ends || r.2)
        else
          let r := mergeWalk ps false qs (d + 1)
          (lo ++ r.1, ends || r.2)

/-- `slices.BinarySearch` exactly as implemented (the list need not be sorted) -/
def bsearch (x : List Int) (t : Int) : Nat → Nat → Nat → Nat
  | 0, i, _ => i
  | f + 1, i, j =>
    if i < j then
      let h := (i + j) / 2
      if x.getD h 0 < t then bsearch x t f (h + 1) j else bsearch x t f i h
    else i

/-- body of the loop of `fixStackMerge(pos)` for one stack entry.
REPAIRED #33: `EndPos` shrinks by ALL merged glyphs (`len(pos)-1`), not only by those met
before the input list was exhausted. -/
def fixMergeOne (pos : List Int) (e : Nested) : Nested :=
  match pos with
  | [] => e
  | p0 :: _ =>
    if e.endPos ≤ p0 then e else
    let w := mergeWalk pos true e.inputPos 0
    let inp := w.1
    let needs := w.2
    let i := bsearch inp p0 (inp.length + 1) 0 inp.length
    let has := inp[i]? == some p0
    let inp' :=
      if needs && !has then inp.take i ++ p0 :: inp.drop i
      else if has && !needs then inp.take i ++ inp.drop (i + 1)
      else inp
    { e with inputPos := inp', endPos := e.endPos - ((pos.length - 1 : Nat) : Int) }

/-! ## matching helpers shared by the subtables -/

/-- `for p+needed < limit && !keep(seq[p].GID) { p++ }`; the first argument is `seq[p:]`.
Panics when the loop condition indexes past the end (possible only if `limit > len(seq)`). -/
def skipFwd (kp : Nat → Bool) : List Glyph → Nat → Int → Nat → Outcome Nat
  | [], p, limit, needed =>
    if (p : Int) + needed < limit then .panic "skip:seq[p]" else .ok p
  | g :: rest, p, limit, needed =>
    if (p : Int) + needed < limit then
      if kp g.gid then .ok p else skipFwd kp rest (p + 1) limit needed
    else .ok p

/-- `for p-needed >= 0 && !keep(seq[p].GID) { p-- }`; the list is `seq[p], seq[p-1], …, seq[0]`
(so `p - needed >= 0` iff its length exceeds `needed`); returns what is left of it. -/
def skipBack (kp : Nat → Bool) : List Glyph → Nat → List Glyph
  | [], _ => []
  | g :: rest, needed =>
    if (g :: rest).length > needed && !kp g.gid then skipBack kp rest needed else g :: rest

/-- backtrack matching: predicates in rule order, glyphs before `a` in reverse order -/
def matchBack (kp : Nat → Bool) : List (Nat → Bool) → List Glyph → Bool
  | [], _ => true
  | pr :: prs, rev =>
    match skipBack kp rev prs.length with
    | [] => false
    | g :: rest =>
      if (g :: rest).length ≤ prs.length then false
      else if pr g.gid then matchBack kp prs rest else false

/-- input / lookahead matching of the formats 1, 2 and of `SeqContext3`: from position `p`
(already matched) match the predicates against the following kept glyphs below `limit`.
Returns the matched positions and the last one. -/
def matchFwd (kp : Nat → Bool) (seq : List Glyph) :
    List (Nat → Bool) → Nat → Int → Outcome (Option (List Nat × Nat))
  | [], p, _ => .ok (some ([], p))
  | pr :: prs, p, limit => do
    let q ← skipFwd kp (seq.drop (p + 1)) (p + 1) limit prs.length
    if (q : Int) + prs.length ≥ limit then .ok none else
    let g ← idx "match:seq[p]" seq q
    if pr g.gid then
      match ← matchFwd kp seq prs q limit with
      | some (ps, last) => .ok (some (q :: ps, last))
      | none => .ok none
    else .ok none

/-- one rule of a (chained) sequence context, formats 1/2 and `SeqContext3`:
returns `InputPos` and `EndPos` of the match -/
def matchRule (kp : Nat → Bool) (seq : List Glyph) (a : Nat) (b : Int)
    (back input look : List (Nat → Bool)) : Outcome (Option (List Nat × Nat)) :=
  if !matchBack kp back (seq.take a).reverse then .ok none else do
  match ← matchFwd kp seq input a b with
  | none => .ok none
  | some (ps, p) =>
    match ← matchFwd kp seq look p seq.length with
    | none => .ok none
    | some _ => do
      let next ← skipFwd kp (seq.drop (p + 1)) (p + 1) b 0
      .ok (some (a :: ps, next))

/-- `ctx.stack = append(ctx.stack, &nested{…})` -/
def pushMatch (st : St) (ps : List Nat) (acts : List Action) (endPos : Nat) : St :=
  { st with stack := ⟨ps.map Int.ofNat, acts, endPos⟩ :: st.stack }

/-- the `ruleLoop` of the formats 1 and 2: the first matching rule is pushed -/
def firstRule (kp : Nat → Bool) (st : St) (a : Nat) (b : Int) (mb mi ml : Nat → Nat → Bool) :
    List Rule → Outcome (Option (St × Nat))
  | [] => .ok none
  | r :: rs => do
    match ← matchRule kp st.seq a b (r.back.map mb) (r.input.map mi) (r.look.map ml) with
    | some (ps, next) => .ok (some (pushMatch st ps r.actions next, next))
    | none => firstRule kp st a b mb mi ml rs

/-- input loop of `ChainedSeqContext3.apply` (it tests the glyph at `p` first, then skips).
Before the repair C06-ch3 the caller started `matchPos` with `a` and this loop appended `a` again. -/
def chain3Input (kp : Nat → Bool) (seq : List Glyph) :
    List GSet → Nat → Int → Outcome (Option (List Nat × Nat))
  | [], p, _ => .ok (some ([], p))
  | c :: cs, p, limit => do
    if (p : Int) + cs.length ≥ limit then .ok none else
    let g ← idx "chain3:seq[p]" seq p
    if !setVal c g.gid then .ok none else
    -- REPAIRED C06-ch3skip: all ignored glyphs are skipped (was: `needed = cs.length`, which
    -- stopped one glyph early and tested an ignored glyph against the next coverage set)
    let q ← skipFwd kp (seq.drop (p + 1)) (p + 1) limit 0
    match ← chain3Input kp seq cs q limit with
    | some (ps, last) => .ok (some (p :: ps, last))
    | none => .ok none

/-- ligature components of GSUB 4.1 against `seq[p:]`, limited to positions below `b`:
matched positions, their text, the skipped glyphs, the remaining suffix.
REPAIRED #11: the skipped positions are collected separately from the matched ones. -/
def matchComps (kp : Nat → Bool) :
    List Nat → List Glyph → Nat → Int → Outcome (Option (List Nat × List Nat × List Glyph × List Glyph))
  | [], rest, _, _ => .ok (some ([], [], [], rest))
  | _ :: _, [], p, b => if (p : Int) ≥ b then .ok none else .panic "gsub41:seq[p]"
  | c :: cs, g :: rest, p, b =>
    if (p : Int) ≥ b then .ok none
    else if kp g.gid then
      if g.gid = c then do
        match ← matchComps kp cs rest (p + 1) b with
        | some (ps, t, sk, r) => .ok (some (p :: ps, g.text ++ t, sk, r))
        | none => .ok none
      else .ok none
    else do
      match ← matchComps kp (c :: cs) rest (p + 1) b with
      | some (ps, t, sk, r) => .ok (some (ps, t, g :: sk, r))
      | none => .ok none

/-- the `ligLoop`: first ligature of the set that matches -/
def firstLig (kp : Nat → Bool) (rest : List Glyph) (a : Nat) (b : Int) :
    List Lig → Outcome (Option (Lig × List Nat × List Nat × List Glyph × List Glyph))
  | [] => .ok none
  | l :: ls => do
    match ← matchComps kp l.comps rest (a + 1) b with
    | some (ps, t, sk, r) => .ok (some (l, ps, t, sk, r))
    | none => firstLig kp rest a b ls

/-- `GposValueRecord.Apply` -/
def applyValue (v : Option ValueRec) (g : Glyph) : Outcome Glyph :=
  match v with
  | none => .ok g
  | some v =>
    if v.unimpl then .panic "valuerecord:not implemented"
    else .ok { g with xoff := wrap16 (g.xoff + v.xPlacement), yoff := wrap16 (g.yoff + v.yPlacement),
                      adv := wrap16 (g.adv + v.xAdvance) }

/-- the two `Apply` calls at the end of `Gpos2_1.apply` / `Gpos2_2.apply`: when `Second` is nil
the next position is `p` itself -/
def applyPair (st : St) (a p : Nat) (g1 g2 : Glyph) (adj : PairAdj) : Outcome (Option (St × Nat)) := do
  let g1' ← applyValue adj.first g1
  match adj.second with
  | none => .ok (some ({ st with seq := st.seq.set a g1' }, p))
  | some v => do
    let g2' ← applyValue (some v) g2
    .ok (some ({ st with seq := (st.seq.set a g1').set p g2' }, p + 1))

/-- the backward search of `Gpos4_1.apply` / `Gpos6_1.apply` over `seq[a-1], seq[a-2], …`: glyphs for
which `skip` holds are passed over (4.1: marks, 6.1: glyphs the lookup flags skip); the result is
the first other glyph and the sum of the advances from there up to `a-1`.
REPAIRED C06-base: the search stops at that glyph (was: it went on to the nearest glyph COVERED by
the base coverage, attaching across uncovered base glyphs). -/
def findCand (skip : Nat → Bool) : List Glyph → Int → Option (Glyph × Int)
  | [], _ => none
  | g :: rest, acc => if skip g.gid then findCand skip rest (acc + g.adv) else some (g, acc + g.adv)

/-- `Gpos4_1.apply` and `Gpos6_1.apply`.
REPAIRED #15: a mark class outside the anchor row does not apply (was: index panic on tables
the reader delivers).
REPAIRED C06-attach: both set `XOffset = seq[p].XOffset + dx`, `YOffset = seq[p].YOffset + dy`,
the attachment points coincide (was: 4.1 `XOffset += dx`, 6.1 `XOffset = dx`, neither looked
at the offsets of the glyph attached to). -/
def applyMark (skip : Nat → Bool) (st : St) (a : Nat) (markCov baseCov : Cov) (marks : List MarkRec)
    (bases : List (List Anchor)) : Outcome (Option (St × Nat)) := do
  let g ← idx "gpos4/6:seq[a]" st.seq a
  match covGet markCov g.gid with
  | none => .ok none
  | some mi =>
    let mr ← idx "gpos4/6:MarkArray[markIdx]" marks mi
    if a == 0 then .ok none else
    match findCand skip (st.seq.take a).reverse 0 with
    | none => .ok none
    | some (bg, advs) =>
      match covGet baseCov bg.gid with
      | none => .ok none
      | some bi =>
        let row ← idx "gpos4/6:BaseArray[baseIdx]" bases bi
        match row[mr.cls]? with
        | none => .ok none
        | some br =>
          if br.x == 0 && br.y == 0 then .ok none else
          let dx : Int := br.x - mr.x - advs
          let dy : Int := br.y - mr.y
          let xo := wrap16 (bg.xoff + dx)
          let yo := wrap16 (bg.yoff + dy)
          .ok (some ({ st with seq := st.seq.set a { g with xoff := xo, yoff := yo } }, a + 1))

/-! ## subtable.apply(ctx, a, b) -/

/-- `none` = the Go function returns −1 (not applicable, context unchanged);
`some (st', next)` = applied. -/
def applySub (kp : Nat → Bool) (st : St) (a : Nat) (b : Int) :
    Subtable → Outcome (Option (St × Nat))
  | .gsub11 cov delta => do
    let g ← idx "gsub11:seq[a]" st.seq a
    if !setHas cov g.gid then .ok none else
    .ok (some ({ st with seq := st.seq.set a { g with gid := (g.gid + delta) % 65536 } }, a + 1))
  | .gsub12 cov subst => do
    let g ← idx "gsub12:seq[a]" st.seq a
    match covGet cov g.gid with
    | none => .ok none
    | some i =>
      let n ← idx "gsub12:SubstituteGlyphIDs[idx]" subst i
      .ok (some ({ st with seq := st.seq.set a { g with gid := n } }, a + 1))
  | .gsub21 cov repl => do
    let g ← idx "gsub21:seq[a]" st.seq a
    match covGet cov g.gid with
    | none => .ok none
    | some i =>
      let rp ← idx "gsub21:Repl[idx]" repl i
      match rp with
      | [] => .ok none -- REPAIRED #12 (was: `repl[0]` panics)
      | r0 :: rs =>
        let k := rs.length + 1
        let seq' := st.seq.take a ++ ({ g with gid := r0 } :: rs.map fun r => ⟨r, [], 0, 0, 0⟩)
          ++ st.seq.drop (a + 1)
        let stack' := if k > 1 then st.stack.map (fixInsertOne a k) else st.stack
        .ok (some (⟨seq', stack'⟩, a + k))
  | .gsub31 cov alts => do
    let g ← idx "gsub31:seq[a]" st.seq a
    match covGet cov g.gid with
    | none => .ok none
    | some i =>
      let alt ← idx "gsub31:Alternates[idx]" alts i
      match alt with
      | [] => .ok none
      | n :: _ => .ok (some ({ st with seq := st.seq.set a { g with gid := n } }, a + 1))
  | .gsub41 cov ligs => do
    let g ← idx "gsub41:seq[a]" st.seq a
    match covGet cov g.gid with
    | none => .ok none
    | some i =>
      let ligSet ← idx "gsub41:Repl[ligSetIdx]" ligs i
      match ← firstLig kp (st.seq.drop (a + 1)) a b ligSet with
      | none => .ok none
      | some (l, ps, t, sk, r) =>
        let seq' := st.seq.take a ++ (⟨l.out, g.text ++ t, 0, 0, 0⟩ :: sk) ++ r
        let merged : List Int := (a :: ps).map Int.ofNat
        .ok (some (⟨seq', st.stack.map (fixMergeOne merged)⟩, a + 1 + sk.length))
  | .gsub81 input back look subst => do
    let g ← idx "gsub81:seq[a]" st.seq a
    match covGet input g.gid with
    | none => .ok none
    | some i =>
      if !matchBack kp (back.map covHas) (st.seq.take a).reverse then .ok none else
      match ← matchFwd kp st.seq (look.map covHas) a st.seq.length with
      | none => .ok none
      | some _ =>
        let n ← idx "gsub81:SubstituteGlyphIDs[idx]" subst i
        .ok (some ({ st with seq := st.seq.set a { g with gid := n } }, a + 1))
  | .ctx1 cov rules => do
    let g ← idx "ctx1:seq[a]" st.seq a
    match covGet cov g.gid with
    | none => .ok none
    | some i =>
      let rs ← idx "ctx1:Rules[rulesIdx]" rules i
      firstRule kp st a b (fun x y => y == x) (fun x y => y == x) (fun x y => y == x) rs
  | .ctx2 cov cls rules => do
    let g ← idx "ctx2:seq[a]" st.seq a
    if !covHas cov g.gid then .ok none else
    match rules[classOf cls g.gid]? with
    | none => .ok none -- REPAIRED #15 (was: `l.Rules[ruleIdx]` panics)
    | some rs =>
      firstRule kp st a b (fun c y => classOf cls y == c) (fun c y => classOf cls y == c)
        (fun c y => classOf cls y == c) rs
  | .ctx3 input actions => do
    let g ← idx "ctx3:seq[a]" st.seq a
    match input with
    | [] => .panic "ctx3:Input[0]"
    | c0 :: cs =>
      if !setVal c0 g.gid then .ok none else
      match ← matchRule kp st.seq a b [] (cs.map setVal) [] with
      | some (ps, next) => .ok (some (pushMatch st ps actions next, next))
      | none => .ok none
  | .chain1 cov rules => do
    let g ← idx "chain1:seq[a]" st.seq a
    match covGet cov g.gid with
    | none => .ok none
    | some i =>
      let rs ← idx "chain1:Rules[rulesIdx]" rules i
      firstRule kp st a b (fun x y => y == x) (fun x y => y == x) (fun x y => y == x) rs
  | .chain2 cov bcls icls lcls rules => do
    let g ← idx "chain2:seq[a]" st.seq a
    if !covHas cov g.gid then .ok none else
    match rules[classOf icls g.gid]? with
    | none => .ok none
    | some rs =>
      firstRule kp st a b (fun c y => classOf bcls y == c) (fun c y => classOf icls y == c)
        (fun c y => classOf lcls y == c) rs
  | .chain3 back input look actions => do
    if !matchBack kp (back.map setVal) (st.seq.take a).reverse then .ok none else
    match ← chain3Input kp st.seq input a b with
    | none => .ok none
    | some (ps, next) => do
      -- REPAIRED C06-ch3skip: the lookahead may lie beyond `b`; ignored glyphs at the window end
      -- are skipped first (was: the glyph at `next` was tested even if ignored)
      let p0 ← (if look.isEmpty then pure next
                else skipFwd kp (st.seq.drop next) next st.seq.length 0)
      match ← chain3Input kp st.seq look p0 st.seq.length with
      | none => .ok none
      -- REPAIRED C06-ch3: `InputPos` is `ps` (was `a :: ps`: `matchPos` started as `[a]` and the
      -- input loop appended `a` again, so sequence index 1 addressed the first input glyph)
      | some _ => .ok (some (pushMatch st ps actions next, next))
  | .gpos11 cov adj => do
    let g ← idx "gpos11:seq[a]" st.seq a
    if !covHas cov g.gid then .ok none else
    let g' ← applyValue adj g
    .ok (some ({ st with seq := st.seq.set a g' }, a + 1))
  | .gpos12 cov adj => do
    let g ← idx "gpos12:seq[a]" st.seq a
    match covGet cov g.gid with
    | none => .ok none
    | some i =>
      let v ← idx "gpos12:Adjust[idx]" adj i
      let g' ← applyValue v g
      .ok (some ({ st with seq := st.seq.set a g' }, a + 1))
  | .gpos21 pairs => do
    let g1 ← idx "gpos21:seq[a]" st.seq a
    let p ← skipFwd kp (st.seq.drop (a + 1)) (a + 1) b 0
    if (p : Int) ≥ b then .ok none else
    let g2 ← idx "gpos21:seq[p]" st.seq p
    match pairs.lookup (g1.gid, g2.gid) with
    | none => .ok none
    | some none => .panic "gpos21:nil PairAdjust"
    | some (some adj) => applyPair st a p g1 g2 adj
  | .gpos22 cov cls1 cls2 adj => do
    let g1 ← idx "gpos22:seq[a]" st.seq a
    if !setHas cov g1.gid then .ok none else
    let p ← skipFwd kp (st.seq.drop (a + 1)) (a + 1) b 0
    if (p : Int) ≥ b then .ok none else
    let g2 ← idx "gpos22:seq[p]" st.seq p
    match adj[classOf cls1 g1.gid]? with
    | none => .ok none
    | some row =>
      match row[classOf cls2 g2.gid]? with
      | none => .ok none
      | some none => .panic "gpos22:nil PairAdjust"
      | some (some pa) => applyPair st a p g1 g2 pa
  | .gpos31 cov recs => do
    let g ← idx "gpos31:seq[a]" st.seq a
    match covGet cov g.gid with
    | none => .ok none
    | some i =>
      let r ← idx "gpos31:Records[idx]" recs i
      let yo : Int ←
        (if a > 0 then do
          let prev ← idx "gpos31:seq[a-1]" st.seq (a - 1)
          match covGet cov prev.gid with
          | none => pure g.yoff
          | some pi => do
            let pr ← idx "gpos31:Records[prev]" recs pi
            pure (wrap16 (prev.yoff + pr.exit.y - r.entry.y))
        else pure g.yoff)
      let ad : Int ←
        (if (a : Int) < b - 1 then do
          let nx ← idx "gpos31:seq[a+1]" st.seq (a + 1)
          match covGet cov nx.gid with
          | none => pure g.adv
          | some ni => do
            let nr ← idx "gpos31:Records[next]" recs ni
            pure (wrap16 (g.xoff + r.exit.x - nx.xoff - nr.entry.x))
        else pure g.adv)
      .ok (some ({ st with seq := st.seq.set a { g with yoff := yo, adv := ad } }, a + 1))
  | .gpos41 markCov baseCov marks bases gclass =>
    applyMark (fun x => classOf gclass x == Gen.shapeClassMark) st a markCov baseCov marks bases
  | .gpos61 mark1Cov mark2Cov marks1 marks2 => applyMark (fun x => !kp x) st a mark1Cov mark2Cov marks1 marks2

/-- `Context.applyAt`: the first subtable that applies -/
def applyAt (kp : Nat → Bool) (st : St) (a : Nat) (b : Int) :
    List Subtable → Outcome (Option (St × Nat))
  | [] => .ok none
  | s :: ss => do
    match ← applySub kp st a b s with
    | some r => .ok (some r)
    | none => applyAt kp st a b ss

/-! ## applyAtRecursively -/

/-- The `for len(ctx.stack) > 0 && numActions < budget` loop.  `B` is the budget (64 in the
source, regenerated), `n` is `numActions`.  Each iteration either pops an entry or consumes
one action, so `2*(B-n) + |stack|` decreases: the fuel `2*B + |stack|` always suffices.
REPAIRED #14b: the action is removed from the list before the sequence index is checked. -/
def nestedLoop (B : Nat) (ll : LookupList) (gd : Gdef) :
    Nat → St → Nat → Int → Outcome (St × Int)
  | 0, st, n, next => if st.stack.isEmpty || n ≥ B then .ok (st, next) else .err "fuel"
  | fuel + 1, st, n, next =>
    match st.stack with
    | [] => .ok (st, next)
    | top :: below =>
      if n ≥ B then .ok (st, next) else
      match top.actions with
      | [] =>
        nestedLoop B ll gd fuel { st with stack := below } n
          (if below.isEmpty then top.endPos else next)
      | act :: acts =>
        let st1 : St := { st with stack := { top with actions := acts } :: below }
        match top.inputPos[act.seqIdx]? with
        | none => nestedLoop B ll gd fuel st1 (n + 1) next
        | some pos =>
          match ll[act.lookup]? with
          | none => nestedLoop B ll gd fuel st1 (n + 1) next
          | some lk => do
            let g ← idxI "applyAtRecursively:seq[InputPos[seqIdx]]" st1.seq pos
            if lk.keep gd g.gid then
              match ← applyAt (lk.keep gd) st1 pos.toNat top.endPos lk.subtables with
              | some (st2, _) => nestedLoop B ll gd fuel st2 (n + 1) next
              | none => nestedLoop B ll gd fuel st1 (n + 1) next
            else nestedLoop B ll gd fuel st1 (n + 1) next

/-- fuel that always suffices for `nestedLoop` started with `numActions = 1` -/
def nestedFuel (B : Nat) (st : St) : Nat := 2 * B + st.stack.length

/-- `Context.applyAtRecursively(pos)` for the lookup `lk`.
REPAIRED #14a: when the budget is exhausted the remaining entries are dropped (and `next`
is the `EndPos` of the outermost match) instead of staying on the stack for the next call. -/
def applyAtRec (B : Nat) (ll : LookupList) (gd : Gdef) (lk : Lookup) (st : St) (pos : Int) :
    Outcome (St × Int) := do
  let g ← idxI "applyAtRecursively:seq[pos]" st.seq pos
  if !lk.keep gd g.gid then .ok (st, pos + 1) else
  match ← applyAt (lk.keep gd) st pos.toNat st.seq.length lk.subtables with
  | none => .ok (st, pos + 1)
  | some (st1, next) =>
    match ← nestedLoop B ll gd (nestedFuel B st1) st1 1 next with
    | (st2, next2) =>
      match st2.stack.getLast? with
      | none => .ok (st2, next2)
      | some bottom => .ok ({ st2 with stack := [] }, bottom.endPos)

/-! ## Context.Apply -/

/-- The `for pos < len(ctx.seq)` loop of one lookup, with the progress guard.  Every
iteration lowers `len(seq) - pos` by at least one, so `fuel = len(seq) - pos` suffices. -/
def lookupLoop (B : Nat) (ll : LookupList) (gd : Gdef) (lk : Lookup) : Nat → St → Int → Outcome St
  | 0, st, pos => if pos < (st.seq.length : Int) then .err "fuel" else .ok st
  | fuel + 1, st, pos =>
    if pos < (st.seq.length : Int) then do
      let oldTodo : Int := (st.seq.length : Int) - pos
      match ← applyAtRec B ll gd lk st pos with
      | (st1, p1) =>
        let newTodo : Int := (st1.seq.length : Int) - p1
        let p2 : Int := if newTodo ≥ oldTodo then (st1.seq.length : Int) - oldTodo + 1 else p1
        lookupLoop B ll gd lk fuel st1 p2
    else .ok st

/-- `s.(*Gsub8_1)` -/
def Subtable.isRev81 : Subtable → Bool
  | .gsub81 _ _ _ _ => true
  | _ => false

/-- `isReverseLookup`: at least one subtable and all of them GSUB 8.1 -/
def Lookup.reverse (lk : Lookup) : Bool := !lk.subtables.isEmpty && lk.subtables.all Subtable.isRev81

/-- REPAIRED #32: the `for pos := len(ctx.seq) - 1; pos >= 0; pos--` loop of a reverse lookup
(GSUB type 8 was applied front to back).  The first argument is `pos + 1`. -/
def revLoop (gd : Gdef) (lk : Lookup) : Nat → St → Outcome St
  | 0, st => .ok st
  | pos + 1, st => do
    let g ← idx "Apply:seq[pos]" st.seq pos
    if lk.keep gd g.gid then
      match ← applyAt (lk.keep gd) st pos st.seq.length lk.subtables with
      | some (st1, _) => revLoop gd lk pos st1
      | none => revLoop gd lk pos st
    else revLoop gd lk pos st

/-- the body of the loop of `Context.Apply` for one lookup -/
def applyLookup (B : Nat) (ll : LookupList) (gd : Gdef) (lk : Lookup) (st : St) : Outcome St :=
  if lk.reverse then revLoop gd lk st.seq.length st
  else lookupLoop B ll gd lk st.seq.length st 0

/-- `Context.Apply`: the lookups of `ctx.lookups` in order; indices outside the lookup list
are skipped.  The stack persists from call to call, as in the Go `Context`. -/
def applyLookups (B : Nat) (ll : LookupList) (gd : Gdef) : List Nat → St → Outcome St
  | [], st => .ok st
  | i :: is, st =>
    match ll[i]? with
    | none => applyLookups B ll gd is st
    | some lk => do
      let st1 ← applyLookup B ll gd lk st
      applyLookups B ll gd is st1

/-- one call `ctx.Apply(seq)` on a context whose stack is `stack` -/
def apply (B : Nat) (ll : LookupList) (gd : Gdef) (lookups : List Nat) (stack : List Nested)
    (seq : List Glyph) : Outcome St :=
  applyLookups B ll gd lookups ⟨seq, stack⟩

/-- A history of calls on ONE context: the outcome of every call; the history stops at the
first panic (the Go context is then in an unspecified state). -/
def runHistory (B : Nat) (ll : LookupList) (gd : Gdef) (lookups : List Nat) :
    List Nested → List (List Glyph) → List (Outcome St)
  | _, [] => []
  | stack, s :: ss =>
    match apply B ll gd lookups stack s with
    | .ok st => .ok st :: runHistory B ll gd lookups st.stack ss
    | o => [o]

end SfntV.Shape
