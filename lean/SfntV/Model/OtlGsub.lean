/-
Models of GSUB subtable codecs (/repo/opentype/gtab/gsub.go, as repaired for C08: a coverage
offset above 0xFFFF is refused with a panic in `Gsub1_2/2_1/3_1.encode`, as `Gsub4_1.encode`
already did): `Gsub1_1`, `Gsub1_2`, the sequence tables `Gsub2_1` (Multiple Substitution) and
`Gsub3_1` (Alternate Substitution), whose binary layouts and Go codecs coincide, and `Gsub4_1`.
Coverage tables are given as their glyph list in coverage-index order (see Model/OtlCoverage).
Readers take the bytes from the subtable position on (offsets are from there).  Core-only.
-/
import SfntV.Model.OtlCoverage

namespace SfntV.Otl.Gsub
open SfntV SfntV.Otl

/-! ### GSUB 1.1 — `Gsub1_1{Cov coverage.Set; Delta glyph.ID}`; `gs` = the set, sorted
(`Set.ToTable` sorts, so the coverage table is always valid) -/

def encodeLen11 (gs : List Nat) : Outcome Nat :=
  match Cov.encodeLen gs with
  | .ok n => .ok (6 + n)
  | .err e => .err e
  | .panic s => .panic s

def encode11 (gs : List Nat) (delta : Nat) : Outcome Bytes :=
  match Cov.encode gs with
  | .ok c => .ok (wordsToBytes [1, 6, delta] ++ c)
  | .err e => .err e
  | .panic s => .panic s

/-- `readGsub1_1` (after `readGsubSubtable` has read the format word): glyphs in reading order -/
def read11 (b : Bytes) : Outcome (List Nat × Nat) :=
  match bytesToWords b with
  | _ :: covOff :: delta :: _ =>
    match Cov.readSet (b.drop covOff) with
    | .ok gs => .ok (gs, delta)
    | .err e => .err e
    | .panic s => .panic s
  | _ => .err eIO

/-! ### GSUB 1.2 — `Gsub1_2{Cov coverage.Table; SubstituteGlyphIDs []glyph.ID}` -/

def encodeLen12 (rev subs : List Nat) : Outcome Nat :=
  match Cov.encodeLen rev with
  | .ok n => .ok (6 + 2 * subs.length + n)
  | .err e => .err e
  | .panic s => .panic s

def encode12 (rev subs : List Nat) : Outcome Bytes :=
  let covOffs := 6 + 2 * subs.length
  if covOffs > 0xFFFF then .panic "coverage offset overflow"
  else match Cov.encode rev with
    | .ok c => .ok (wordsToBytes ([2, w16 covOffs, w16 subs.length] ++ subs) ++ c)
    | .err e => .err e
    | .panic s => .panic s

/-- `if len(cov) > len(xs) { cov.Prune(len(xs)) } else { xs = xs[:len(cov)] }` -/
def prune {α} (cov : List (Nat × Nat)) (xs : List α) : List (Nat × Nat) × List α :=
  if cov.length > xs.length then (cov.filter (fun p => p.2 < xs.length), xs)
  else (cov, xs.take cov.length)

/-- `readGsub1_2`: (coverage entries (gid, index), substitutes) -/
def read12 (b : Bytes) : Outcome (List (Nat × Nat) × List Nat) :=
  match bytesToWords b with
  | _ :: covOff :: n :: rest =>
    if rest.length < n then .err eIO
    else match Cov.read (b.drop covOff) with
      | .ok cov => .ok (prune cov (rest.take n))
      | .err e => .err e
      | .panic s => .panic s
  | _ => .err eIO

/-! ### GSUB 2.1 and 3.1 — coverage + one glyph sequence per coverage index -/

def seqWords (seqs : List (List Nat)) : List Nat := seqs.flatMap fun r => w16 r.length :: r

/-- the offsets `uint16(covOffs)` of the first loop of `encode` -/
def seqOffsets : List (List Nat) → Nat → List Nat
  | [], _ => []
  | r :: rs, off => w16 off :: seqOffsets rs (off + 2 + 2 * r.length)

def seqTotal (seqs : List (List Nat)) : Nat := 6 + 2 * seqs.length + 2 * (seqWords seqs).length

def encodeLenSeq (rev : List Nat) (seqs : List (List Nat)) : Outcome Nat :=
  match Cov.encodeLen rev with
  | .ok n => .ok (seqTotal seqs + n)
  | .err e => .err e
  | .panic s => .panic s

def encodeSeq (rev : List Nat) (seqs : List (List Nat)) : Outcome Bytes :=
  let covOffs := seqTotal seqs
  if covOffs > 0xFFFF then .panic "coverage offset overflow"
  else match Cov.encode rev with
    | .ok c => .ok (wordsToBytes ([1, w16 covOffs, w16 seqs.length] ++
        seqOffsets seqs (6 + 2 * seqs.length) ++ seqWords seqs) ++ c)
    | .err e => .err e
    | .panic s => .panic s

/-- a counted glyph array at byte offset `off` (`readGIDSlice` after `SeekPos`) -/
def readCounted (b : Bytes) (off : Nat) : Outcome (List Nat) :=
  match bytesToWords (b.drop off) with
  | n :: rest => if rest.length < n then .err eIO else .ok (rest.take n)
  | [] => .err eIO

def readSeqs (b : Bytes) : List Nat → Outcome (List (List Nat))
  | [] => .ok []
  | off :: offs =>
    match readCounted b off with
    | .ok r =>
      match readSeqs b offs with
      | .ok rs => .ok (r :: rs)
      | o => o
    | .err e => .err e
    | .panic s => .panic s

/-- `readGsub2_1` / `readGsub3_1` -/
def readSeq (b : Bytes) : Outcome (List (Nat × Nat) × List (List Nat)) :=
  match bytesToWords b with
  | _ :: covOff :: n :: rest =>
    if rest.length < n then .err eIO
    else match Cov.read (b.drop covOff) with
      | .ok cov =>
        let pr := prune cov (rest.take n)
        match readSeqs b pr.2 with
        | .ok seqs => .ok (pr.1, seqs)
        | .err e => .err e
        | .panic s => .panic s
      | .err e => .err e
      | .panic s => .panic s
  | _ => .err eIO

/-! ### GSUB 4.1 — `Gsub4_1{Cov coverage.Table; Repl [][]Ligature}`, `Ligature{In []glyph.ID; Out}` -/

structure Lig where
  inp : List Nat
  out : Nat
deriving DecidableEq, Repr

def ligWords (l : Lig) : List Nat := l.out :: w16 (l.inp.length + 1) :: l.inp

/-- byte size of a ligature set: count, offsets, ligature tables -/
def ligSetLen (set : List Lig) : Nat := 2 + 2 * set.length + (set.map fun l => 4 + 2 * l.inp.length).sum

/-- `pos` of each ligature inside its set -/
def ligOffsets : List Lig → Nat → List Nat
  | [], _ => []
  | l :: ls, pos => w16 pos :: ligOffsets ls (pos + 4 + 2 * l.inp.length)

def ligSetWords (set : List Lig) : List Nat :=
  w16 set.length :: (ligOffsets set (2 + 2 * set.length) ++ set.flatMap ligWords)

def ligSetOffsets : List (List Lig) → Nat → List Nat
  | [], _ => []
  | s :: ss, total => w16 total :: ligSetOffsets ss (total + ligSetLen s)

def lig41Total (repl : List (List Lig)) : Nat := 6 + 2 * repl.length + (repl.map ligSetLen).sum

def encodeLen41 (rev : List Nat) (repl : List (List Lig)) : Outcome Nat :=
  match Cov.encodeLen rev with
  | .ok n => .ok (lig41Total repl + n)
  | .err e => .err e
  | .panic s => .panic s

def encode41 (rev : List Nat) (repl : List (List Lig)) : Outcome Bytes :=
  let covOffs := lig41Total repl
  match Cov.encodeLen rev with          -- `total += l.Cov.EncodeLen()` precedes the overflow test
  | .ok _ =>
    if covOffs > 0xFFFF then .panic "coverage offset overflow"
    else match Cov.encode rev with
      | .ok c => .ok (wordsToBytes ([1, w16 covOffs, w16 repl.length] ++
          ligSetOffsets repl (6 + 2 * repl.length) ++ repl.flatMap ligSetWords) ++ c)
      | .err e => .err e
      | .panic s => .panic s
  | .err e => .err e
  | .panic s => .panic s

/-- one ligature at byte offset `off`: glyph, componentCount, `componentCount-1` glyphs
(REPAIRED C02-zero-count: a component count of 0 is refused; it used to ask for 65535 glyphs) -/
def readLig (b : Bytes) (off : Nat) : Outcome Lig :=
  match bytesToWords (b.drop off) with
  | out :: cc :: rest =>
    if cc == 0 then .err eInvalid
    else if rest.length < cc - 1 then .err eIO else .ok ⟨rest.take (cc - 1), out⟩
  | _ => .err eIO

def readLigs (b : Bytes) (setPos : Nat) : List Nat → Outcome (List Lig)
  | [] => .ok []
  | off :: offs =>
    match readLig b (setPos + off) with
    | .ok l =>
      match readLigs b setPos offs with
      | .ok ls => .ok (l :: ls)
      | o => o
    | .err e => .err e
    | .panic s => .panic s

def readLigSets (b : Bytes) : List Nat → Outcome (List (List Lig))
  | [] => .ok []
  | off :: offs =>
    match bytesToWords (b.drop off) with
    | n :: rest =>
      if rest.length < n then .err eIO
      else match readLigs b off (rest.take n) with
        | .ok set =>
          match readLigSets b offs with
          | .ok sets => .ok (set :: sets)
          | o => o
        | .err e => .err e
        | .panic s => .panic s
    | [] => .err eIO

/-- `readGsub4_1` -/
def read41 (b : Bytes) : Outcome (List (Nat × Nat) × List (List Lig)) :=
  match bytesToWords b with
  | _ :: covOff :: n :: rest =>
    if rest.length < n then .err eIO
    else match Cov.read (b.drop covOff) with
      | .ok cov =>
        let pr := prune cov (rest.take n)
        match readLigSets b pr.2 with
        | .ok repl =>
          if lig41Total repl > 0xFFFF then .err eInvalid else .ok (pr.1, repl)
        | .err e => .err e
        | .panic s => .panic s
      | .err e => .err e
      | .panic s => .panic s
  | _ => .err eIO

/-! ### GSUB 8.1 — `Gsub8_1{Input; Backtrack, Lookahead []coverage.Table; SubstituteGlyphIDs}`
(reverse chaining contextual single substitution) -/

/-- coverage offsets with the refusal of the repair: (offsets, total after the last table) -/
def covOffsets : List (List Nat) → Nat → Outcome (List Nat × Nat)
  | [], total => .ok ([], total)
  | c :: cs, total =>
    match Cov.encodeLen c with
    | .ok n =>
      if total > 0xFFFF then .panic "coverage offset overflow"
      else match covOffsets cs (total + n) with
        | .ok (r, t) => .ok (w16 total :: r, t)
        | o => o
    | .err e => .err e
    | .panic s => .panic s

def covsBytes : List (List Nat) → Outcome Bytes
  | [] => .ok []
  | c :: cs =>
    match Cov.encode c with
    | .ok b =>
      match covsBytes cs with
      | .ok r => .ok (b ++ r)
      | o => o
    | o => o

def covsLen : List (List Nat) → Outcome Nat
  | [] => .ok 0
  | c :: cs =>
    match Cov.encodeLen c, covsLen cs with
    | .ok n, .ok r => .ok (n + r)
    | _, _ => .panic "invalid coverage table"

def encodeLen81 (input : List Nat) (back look : List (List Nat)) (subs : List Nat) : Outcome Nat :=
  match Cov.encodeLen input, covsLen back, covsLen look with
  | .ok n, .ok nb, .ok nl => .ok (10 + 2 * back.length + 2 * look.length + 2 * subs.length + n + nb + nl)
  | _, _, _ => .panic "invalid coverage table"

def encode81 (input : List Nat) (back look : List (List Nat)) (subs : List Nat) : Outcome Bytes :=
  let covOff := 10 + 2 * back.length + 2 * look.length + 2 * subs.length
  match Cov.encodeLen input with
  | .ok n =>
    match covOffsets back (covOff + n) with
    | .ok (bo, t1) =>
      match covOffsets look t1 with
      | .ok (lo, _) =>
        if covOff > 0xFFFF then .panic "coverage offset overflow"
        else match Cov.encode input, covsBytes back, covsBytes look with
          | .ok ci, .ok cb, .ok cl =>
            .ok (wordsToBytes ([1, w16 covOff, w16 back.length] ++ bo ++ [w16 look.length] ++ lo ++
              [w16 subs.length] ++ subs) ++ ci ++ cb ++ cl)
          | _, _, _ => .panic "invalid coverage table"
      | .err e => .err e
      | .panic s => .panic s
    | .err e => .err e
    | .panic s => .panic s
  | .err e => .err e
  | .panic s => .panic s

def readCovs (b : Bytes) : List Nat → Outcome (List (List (Nat × Nat)))
  | [] => .ok []
  | o :: os =>
    match Cov.read (b.drop o) with
    | .ok c =>
      match readCovs b os with
      | .ok r => .ok (c :: r)
      | o' => o'
    | .err e => .err e
    | .panic s => .panic s

structure Rev81 where
  input : List (Nat × Nat)
  back : List (List (Nat × Nat))
  look : List (List (Nat × Nat))
  subs : List Nat

/-- `readGsub8_1` -/
def read81 (b : Bytes) : Outcome Rev81 :=
  match bytesToWords b with
  | _ :: covOff :: nb :: r1 =>
    if r1.length < nb then .err eIO
    else match r1.drop nb with
      | nl :: r2 =>
        if r2.length < nl then .err eIO
        else match r2.drop nl with
          | n :: r3 =>
            if r3.length < n then .err eIO
            else match Cov.read (b.drop covOff) with
              | .ok input =>
                match readCovs b (r1.take nb) with
                | .ok back =>
                  match readCovs b (r2.take nl) with
                  | .ok look =>
                    let pr := prune input (r3.take n)
                    .ok ⟨pr.1, back, look, pr.2⟩
                  | .err e => .err e
                  | .panic s => .panic s
                | .err e => .err e
                | .panic s => .panic s
              | .err e => .err e
              | .panic s => .panic s
          | [] => .err eIO
      | [] => .err eIO
  | _ => .err eIO

/-- `readGsubSubtable` for lookup types 1, 2, 3: format word, then dispatch
(`gsubReaders[10*type+format]`) -/
inductive Sub where
  | s11 (gs : List Nat) (delta : Nat)
  | s12 (cov : List (Nat × Nat)) (subs : List Nat)
  | seq (tp : Nat) (cov : List (Nat × Nat)) (seqs : List (List Nat))
  | s41 (cov : List (Nat × Nat)) (repl : List (List Lig))
  | s81 (r : Rev81)

def readSubtable (tp : Nat) (b : Bytes) : Outcome Sub :=
  match bytesToWords b with
  | [] => .err eIO
  | fmt :: _ =>
    if tp == 1 && fmt == 1 then
      match read11 b with
      | .ok r => .ok (.s11 r.1 r.2)
      | .err e => .err e
      | .panic s => .panic s
    else if tp == 1 && fmt == 2 then
      match read12 b with
      | .ok r => .ok (.s12 r.1 r.2)
      | .err e => .err e
      | .panic s => .panic s
    else if (tp == 2 || tp == 3) && fmt == 1 then
      match readSeq b with
      | .ok r => .ok (.seq tp r.1 r.2)
      | .err e => .err e
      | .panic s => .panic s
    else if tp == 4 && fmt == 1 then
      match read41 b with
      | .ok r => .ok (.s41 r.1 r.2)
      | .err e => .err e
      | .panic s => .panic s
    else if tp == 8 && fmt == 1 then
      match read81 b with
      | .ok r => .ok (.s81 r)
      | .err e => .err e
      | .panic s => .panic s
    else .err eInvalid

/-! ### Specification (OpenType GSUB chapter), as a function glyph → substitution

"1.1 Single Substitution Format 1: substFormat = 1, coverageOffset — offset to Coverage table, from
beginning of substitution subtable; deltaGlyphID — add to original glyph ID to get substitute glyph
ID" (addition modulo 65536).
"1.2 Single Substitution Format 2: substFormat = 2, coverageOffset, glyphCount,
substituteGlyphIDs[glyphCount] — array of substitute glyph IDs, ordered by Coverage index."
"2.1 Multiple Substitution Format 1: substFormat = 1, coverageOffset, sequenceCount,
sequenceOffsets[sequenceCount] — offsets to Sequence tables, from beginning of substitution
subtable, ordered by Coverage index; Sequence table: glyphCount, substituteGlyphIDs[glyphCount]."
"3.1 Alternate Substitution Format 1: … alternateSetOffsets[alternateSetCount]; AlternateSet table:
glyphCount, alternateGlyphIDs[glyphCount]."
`specSubst tp b g` = the glyphs the subtable of lookup type `tp` associates with `g`
(`none`: `g` is not covered, or the table is incomplete). -/

def specCovIndex (b : Bytes) (off g : Nat) : Option Nat :=
  match Cov.specEntries (bytesToWords (b.drop off)) with
  | some es => (es.find? (·.1 == g)).map (·.2)
  | none => none

def specCounted (b : Bytes) (off : Nat) : Option (List Nat) :=
  match bytesToWords (b.drop off) with
  | n :: rest => if n ≤ rest.length then some (rest.take n) else none
  | [] => none

def specSubst (tp : Nat) (b : Bytes) (g : Nat) : Option (List Nat) :=
  match tp, bytesToWords b with
  | 1, 1 :: covOff :: delta :: _ => (specCovIndex b covOff g).map fun _ => [(g + delta) % 65536]
  | 1, 2 :: covOff :: n :: rest => do
    let i ← specCovIndex b covOff g
    if i < n then (rest[i]?).map fun x => [x] else none
  | _, 1 :: covOff :: n :: rest => do
    let i ← specCovIndex b covOff g
    if i < n then (rest[i]?).bind fun off => specCounted b off else none
  | _, _ => none

end SfntV.Otl.Gsub
