/-
Model of the charstring compiler of cff/t2encode.go for property C04:
`encodeArgs` (absolute → relative with the decoder's running position), `encoder.AppendEdges`
(every operator form the optimiser may choose, with the `maxStack` bound), `encodePaths`,
`encodeSubPath` for a GIVEN path of edges (dijkstra.ShortestPath is an untrusted oracle) and
`(*Glyph).encodeCharString` (width prefix, stem chunks, hstemhm/vstemhm, implicit vstem).

Coordinates of the input glyph are dyadic rationals `n / 2^K` with one common `K ≥ 16` (a float64
is such a number); decoder-side values are in 2⁻¹⁶ units.  Core-only.
-/
import SfntV.Model.T2Encode

namespace SfntV.T2Enc
open SfntV SfntV.T2

/-- `encodedNumber` -/
structure EncNum where
  val : Int
  code : List Nat
deriving Repr, DecidableEq

def EncNum.isZero (e : EncNum) : Bool := e.val == 0

def encNum (n : Int) (k : Nat) : EncNum := ⟨(encodeNumber n k).1, (encodeNumber n k).2⟩

/-- input commands (`GlyphOp`), absolute coordinates at scale 2^-K -/
inductive InCmd
  | moveTo (x y : Int)
  | lineTo (x y : Int)
  | curveTo (xa ya xb yb xc yc : Int)
  | mask (cntr : Bool) (bytes : List Nat)
deriving Repr, DecidableEq

/-- a drawing segment with encoded relative arguments (`enCmd` with Op = lineto/curveto) -/
inductive Seg
  | line (dx dy : EncNum)
  | curve (a0 a1 a2 a3 a4 a5 : EncNum)
deriving Repr, DecidableEq

/-- `enCmd` -/
inductive EnCmd
  | move (dx dy : EncNum)
  | seg (s : Seg)
  | mask (cntr : Bool) (bytes : List Nat)
deriving Repr, DecidableEq

def Seg.args : Seg → List EncNum
  | .line dx dy => [dx, dy]
  | .curve a0 a1 a2 a3 a4 a5 => [a0, a1, a2, a3, a4, a5]

/-- `cmds[pos].Args[i]` -/
def Seg.arg (s : Seg) (i : Nat) : EncNum := s.args.getD i ⟨0, []⟩

/-- `encodeArgs`: `pos` is the decoder's current point (sum of the encoded deltas), in units;
`sh = 2^(K-16)` converts units to the input scale -/
def encodeArgsFrom (K : Nat) : Int → Int → List InCmd → List EnCmd
  | _, _, [] => []
  | px, py, .moveTo x y :: rest =>
    let sh : Int := 2 ^ (K - 16)
    let dx := encNum (x - px * sh) K
    let dy := encNum (y - py * sh) K
    .move dx dy :: encodeArgsFrom K (px + dx.val) (py + dy.val) rest
  | px, py, .lineTo x y :: rest =>
    let sh : Int := 2 ^ (K - 16)
    let dx := encNum (x - px * sh) K
    let dy := encNum (y - py * sh) K
    .seg (.line dx dy) :: encodeArgsFrom K (px + dx.val) (py + dy.val) rest
  | px, py, .curveTo xa ya xb yb xc yc :: rest =>
    let sh : Int := 2 ^ (K - 16)
    let dax := encNum (xa - px * sh) K
    let day := encNum (ya - py * sh) K
    let dbx := encNum (xb - dax.val * sh - px * sh) K
    let dby := encNum (yb - day.val * sh - py * sh) K
    let dcx := encNum (xc - dbx.val * sh - dax.val * sh - px * sh) K
    let dcy := encNum (yc - dby.val * sh - day.val * sh - py * sh) K
    .seg (.curve dax day dbx dby dcx dcy) ::
      encodeArgsFrom K (px + (dax.val + dbx.val + dcx.val)) (py + (day.val + dby.val + dcy.val)) rest
  | px, py, .mask c bs :: rest => .mask c bs :: encodeArgsFrom K px py rest

def encodeArgs (K : Nat) (cmds : List InCmd) : List EnCmd := encodeArgsFrom K 0 0 cmds

/-- an `edge`: operands, operator, target node -/
structure Edge where
  args : List EncNum
  op : Op
  to : Nat
deriving Repr, DecidableEq

def maxStack : Nat := Gen.t2maxStack

/-- the `continue` test of the rlineto loop: the next command is a line with both deltas non-zero
and there is room for it -/
def lineGoOn (rest : List Seg) (n : Nat) : Bool :=
  match rest with
  | .line dx' dy' :: _ => !dx'.isZero && !dy'.isZero && decide (n + 2 ≤ maxStack)
  | _ => false

/-- the `continue` test of the rrcurveto loop -/
def curveGoOn (rest : List Seg) (n : Nat) : Bool :=
  match rest with
  | .curve b0 b1 _ _ b4 b5 :: _ =>
    !b0.isZero && !b1.isZero && !b4.isZero && !b5.isZero && decide (n + 6 ≤ maxStack)
  | _ => false

/-- "{dx dy}+ rlineto": returns the edges, and `code`, `pos`, remaining commands after the loop -/
def rlineEdges (frm : Nat) : List Seg → List EncNum → Nat → List Edge × List EncNum × Nat × List Seg
  | .line dx dy :: rest, code, pos =>
    if code.length + 2 ≤ maxStack then
      let code' := code ++ [dx, dy]
      let r := rlineEdges frm rest code' (pos + 1)
      if lineGoOn rest code'.length then r else (⟨code', .rlineto, frm + pos + 1⟩ :: r.1, r.2)
    else ([], code, pos, .line dx dy :: rest)
  | rest, code, pos => ([], code, pos, rest)

/-- "dx {dy dx}* dy? hlineto" / "dy {dx dy}* dx? vlineto": `ci` = index of the argument that has
to be zero in the next line -/
def altLineArgs : Nat → List Seg → List EncNum → List EncNum
  | ci, .line dx dy :: rest, code =>
    if code.length + 1 ≤ maxStack then
      if !((Seg.line dx dy).arg ci).isZero then code
      else altLineArgs (1 - ci) rest (code ++ [(Seg.line dx dy).arg (1 - ci)])
    else code
  | _, _, code => code

/-- "(dxa dya dxb dyb dxc dyc)+ rrcurveto" -/
def rrcurveEdges (frm : Nat) : List Seg → List EncNum → Nat → List Edge × List EncNum × Nat × List Seg
  | .curve a0 a1 a2 a3 a4 a5 :: rest, code, pos =>
    if code.length + 6 ≤ maxStack then
      let code' := code ++ [a0, a1, a2, a3, a4, a5]
      let r := rrcurveEdges frm rest code' (pos + 1)
      if curveGoOn rest code'.length then r else (⟨code', .rrcurveto, frm + pos + 1⟩ :: r.1, r.2)
    else ([], code, pos, .curve a0 a1 a2 a3 a4 a5 :: rest)
  | rest, code, pos => ([], code, pos, rest)

/-- "dya? (dxa dxb dyb dxc)+ hhcurveto" (offs = 1) / "dxa? (dya dxb dyb dyc)+ vvcurveto" (offs = 0) -/
def hhvvEdges (frm : Nat) (offs : Nat) (op : Op) : List Seg → List EncNum → Nat → List Edge
  | .curve a0 a1 a2 a3 a4 a5 :: rest, code, pos =>
    let c := Seg.curve a0 a1 a2 a3 a4 a5
    if code.length + 4 ≤ maxStack then
      if !(c.arg (4 + offs)).isZero then []
      else
        let lead : Option (List EncNum) :=
          if !(c.arg offs).isZero then
            (if pos == 0 && decide (code.length + 5 ≤ maxStack) then some [c.arg offs] else none)
          else some []
        match lead with
        | none => []
        | some l =>
          let code' := code ++ l ++ [c.arg (1 - offs), a2, a3, c.arg (5 - offs)]
          ⟨code', op, frm + pos + 1⟩ :: hhvvEdges frm offs op rest code' (pos + 1)
    else []
  | _, _, _ => []

/-- "dx1 dx2 dy2 dy3 (dya dxb dyb dxc dxd dxe dye dyf)* dxf? hvcurveto" (orig = 0) and vhcurveto
(orig = 1); `offs` alternates -/
def hvvhEdges (frm : Nat) (orig : Nat) (op : Op) : Nat → List Seg → List EncNum → Nat → List Edge
  | offs, .curve a0 a1 a2 a3 a4 a5 :: rest, code, pos =>
    let c := Seg.curve a0 a1 a2 a3 a4 a5
    if !(c.arg (1 - offs)).isZero then []
    else
      let aligned := (c.arg (4 + offs)).isZero
      if offs != orig && !aligned then []
      else if code.length + 4 > maxStack || (!aligned && code.length + 5 > maxStack) then []
      else
        let code' := code ++ [c.arg offs, a2, a3, c.arg (5 - offs)] ++ (if aligned then [] else [c.arg (4 + offs)])
        let offs' := 1 - offs
        if offs' == orig then hvvhEdges frm orig op offs' rest code' (pos + 1)
        else
          ⟨code', op, frm + pos + 1⟩ ::
            (if aligned then hvvhEdges frm orig op offs' rest code' (pos + 1) else [])
  | _, _, _, _ => []

/-- hflex / hflex1 for two consecutive curves -/
def flexEdges (frm : Nat) : List Seg → List Edge
  | .curve a0 a1 a2 a3 a4 a5 :: .curve b0 b1 b2 b3 b4 b5 :: _ =>
    if a5.isZero && b1.isZero then
      let dy := a3.val + b3.val
      if a1.isZero && b5.isZero && dy == 0 then
        [⟨[a0, a2, a3, a4, b0, b2, b4], .hflex, frm + 2⟩]
      else if dy + a1.val + b5.val == 0 then
        [⟨[a0, a1, a2, a3, a4, b0, b2, b3, b4], .hflex1, frm + 2⟩]
      else []
    else []
  | _ => []

/-- `encoder.AppendEdges(nil, from)` on the remaining commands `cmds = enc[from:]` -/
def appendEdges (frm : Nat) (cmds : List Seg) : List Edge :=
  match cmds with
  | [] => []
  | .line _ _ :: _ =>
    let r := rlineEdges frm cmds [] 0
    let lc : List Edge := match r.2.2.2 with
      | .curve a0 a1 a2 a3 a4 a5 :: _ =>
        if r.2.1.length + 6 ≤ maxStack then [⟨r.2.1 ++ [a0, a1, a2, a3, a4, a5], .rlinecurve, frm + r.2.2.1 + 1⟩] else []
      | _ => []
    let v := altLineArgs 0 cmds []
    let h := altLineArgs 1 cmds []
    r.1 ++ lc ++ (if v.length > 0 then [⟨v, .vlineto, frm + v.length⟩] else [])
      ++ (if h.length > 0 then [⟨h, .hlineto, frm + h.length⟩] else [])
  | .curve _ _ _ _ _ _ :: _ =>
    let r := rrcurveEdges frm cmds [] 0
    let cl : List Edge := match r.2.2.2 with
      | .line dx dy :: _ =>
        if r.2.1.length + 2 ≤ maxStack then [⟨r.2.1 ++ [dx, dy], .rcurveline, frm + r.2.2.1 + 1⟩] else []
      | _ => []
    r.1 ++ cl ++ hhvvEdges frm 0 .vvcurveto cmds [] 0 ++ hhvvEdges frm 1 .hhcurveto cmds [] 0
      ++ hvvhEdges frm 0 .hvcurveto 0 cmds [] 0 ++ hvvhEdges frm 1 .vhcurveto 1 cmds [] 0
      ++ flexEdges frm cmds

/-- bytes of an edge: the operand codes, then the operator -/
def Edge.bytes (e : Edge) : List Nat := e.args.flatMap (·.code) ++ Spec.T2.opBytes e.op

/-- `encodeSubPath` for a given path: each step names an edge (target, operator) that must be among
the model's proposals at the current node; the path must end at `segs.length`.  `none` = the oracle
returned something that is not a path of proposed edges. -/
def assembleSubPath (segs : List Seg) : Nat → List (Nat × Op) → Option (List Nat)
  | node, [] => if node == segs.length then some [] else none
  | node, (to, op) :: rest =>
    match (appendEdges node (segs.drop node)).find? (fun e => e.to == to && e.op == op) with
    | some e =>
      if e.to > node then (assembleSubPath segs e.to rest).map (e.bytes ++ ·) else none
    | none => none

/-- the maximal run of drawing segments at the head of a command list, and the rest -/
def takeSegs : List EnCmd → List Seg × List EnCmd
  | .seg s :: rest => let r := takeSegs rest; (s :: r.1, r.2)
  | rest => ([], rest)

theorem takeSegs_length (l : List EnCmd) : (takeSegs l).2.length ≤ l.length := by
  induction l with
  | nil => simp [takeSegs]
  | cons c t ih => cases c <;> simp [takeSegs] <;> omega

/-- `encodePaths` with the chosen paths (one per sub-path run, in order) -/
def encodePathsFuel : Nat → List EnCmd → List (List (Nat × Op)) → Option (List Nat)
  | 0, _, _ => none
  | _ + 1, [], _ => some (Spec.T2.opBytes .endchar)
  | f + 1, .move dx dy :: rest, paths =>
    let m := if dx.isZero then dy.code ++ Spec.T2.opBytes .vmoveto
      else if dy.isZero then dx.code ++ Spec.T2.opBytes .hmoveto
      else dx.code ++ dy.code ++ Spec.T2.opBytes .rmoveto
    (encodePathsFuel f rest paths).map (m ++ ·)
  | f + 1, .mask c bs :: rest, paths =>
    (encodePathsFuel f rest paths).map (Spec.T2.opBytes (if c then .cntrmask else .hintmask) ++ bs ++ ·)
  | f + 1, .seg s :: rest, paths =>
    let r := takeSegs (.seg s :: rest)
    match paths with
    | p :: ps =>
      match assembleSubPath r.1 0 p with
      | some b => (encodePathsFuel f r.2 ps).map (b ++ ·)
      | none => none
    | [] => none

def encodePaths (cmds : List EnCmd) (paths : List (List (Nat × Op))) : Option (List Nat) :=
  encodePathsFuel (cmds.length + 1) cmds paths

/-- stem deltas of one chunk: `enc := encodeNumber(x - prev); prev += enc.Val` — `prev` (in 2⁻¹⁶ units) is
the edge as the decoder will see it, the sum of the rounded deltas written so far (as `encodeArgs` does
for coordinates).  REPAIRED C04-stemaccum (repository commit b6e7b8c): before, `prev = x` was the
unrounded previous edge and the rounding errors of stems finer than 16.16 added up along a chunk. -/
def stemChunkCodes (K : Nat) : Int → List Int → List EncNum
  | _, [] => []
  | prev, x :: rest =>
    let d := encNum (x - prev * 2 ^ (K - 16)) K
    d :: stemChunkCodes K (prev + d.val) rest

/-- the chunk loop of one stem list; returns header bytes and the remaining `extra` -/
def stemListFuel (K : Nat) (op : Op) (isV : Bool) (maskFirst : Bool) :
    Nat → Nat → List Int → List Nat × Nat
  | 0, extra, _ => ([], extra)
  | f + 1, extra, stems =>
    if stems.length == 0 then ([], extra)
    else
      let k := min ((maxStack - extra) / 2) (stems.length / 2)
      let chunk := stems.take (2 * k)
      let rest := stems.drop (2 * k)
      let codes := (stemChunkCodes K 0 chunk).flatMap (·.code)
      let canOmit := isV && rest.length == 0 && maskFirst
      let r := stemListFuel K op isV maskFirst f 0 rest
      (codes ++ (if canOmit then [] else Spec.T2.opBytes op) ++ r.1, r.2)

def isMask : InCmd → Bool
  | .mask _ _ => true
  | _ => false

/-- `(*Glyph).encodeCharString(defaultWidth, nominalWidth)`; `w` at scale 2^-K, `dw nw` in units;
`none` = error (odd stem list) or the oracle's paths are not paths of proposed edges -/
def encodeCharString (K : Nat) (w : Int) (hs vs : List Int) (cmds : List InCmd) (dw nw : Int)
    (paths : List (List (Nat × Op))) : Option (List Nat) :=
  let sh : Int := 2 ^ (K - 16)
  let hdrW : List Nat := if w != dw * sh then (encNum (w - nw * sh) K).code else []
  let extra := if w != dw * sh then 1 else 0
  let used := cmds.any isMask
  let maskFirst := match cmds with
    | c :: _ => isMask c
    | [] => false
  if hs.length % 2 != 0 || vs.length % 2 != 0 then none
  else
    let h := stemListFuel K (if used then .hstemhm else .hstem) false maskFirst (hs.length + 1) extra hs
    let v := stemListFuel K (if used then .vstemhm else .vstem) true maskFirst (vs.length + 1) h.2 vs
    (encodePaths (encodeArgs K cmds) paths).map (hdrW ++ h.1 ++ v.1 ++ ·)

end SfntV.T2Enc
