/-
Checked-index model of `gdef.Read` (opentype/gdef/gdef.go:49-148, the REPAIRED code: every
distinct mark-glyph-set coverage offset is decoded only once, gdef.go:127-142).  The pre-repair
loop (one `coverage.ReadSet` per offset ENTRY) is kept as `readSetsOld` / `readOld`, to state what
the repair removed.  The sub-readers
`classdef.Read(p, pos)` and `coverage.ReadSet(p, pos)` are abstract parameters: functions from
the absolute position to an outcome carrying the size of the decoded table and its cost.
-/
import SfntV.Model.TotalBase

namespace SfntV.Total.Gdef
open SfntV SfntV.Total

/-- a sub-reader: position ↦ (number of entries of the decoded table, its cost) -/
abbrev Sub := Nat → Outcome (Nat × Cost)

structure Table where
  glyphClass : Option Nat          -- entries of the class table; `none` = nil
  markAttachClass : Option Nat
  markGlyphSets : Option (List Nat)  -- glyph count per set; `none` = nil slice
deriving Repr, DecidableEq

def addCost (c d : Cost) : Cost := ⟨c.steps + d.steps, c.alloc + d.alloc⟩

/-- gdef.go:120-125: `for i := range coverageOffsets { coverageOffsets[i], err = p.ReadUint32() }` -/
def readOffsets (b : Bytes) : Nat → Nat → List Nat → Cost → Outcome (List Nat × Cost)
  | 0, _, acc, c => .ok (acc.reverse, c)
  | n+1, pos, acc, c => do
    let w ← readBytes "gdef.go:121#ReadUint32" b pos 4
    let v ← w32 "gdef.go:121#ReadUint32" w 0
    readOffsets b n (pos + 4) (v :: acc) c.tick

/-- gdef.go:131-142 (repaired):
`for i := range table.MarkGlyphSets { offs := coverageOffsets[i]; set, seen := sets[offs];
   if !seen { set, err = coverage.ReadSet(p, pos+int64(offs)); …; sets[offs] = set }; table.MarkGlyphSets[i] = set }`.
The Go map `sets` is the association list `sets` (offset ↦ size of the decoded set; map reads and
writes cannot panic).  A hit costs the iteration step only; a miss costs the sub-read plus one
allocated map entry. -/
def readSets (cov : Sub) (base : Nat) (offs : List Nat) :
    Nat → Nat → List (Nat × Nat) → List Nat → Cost → Outcome (List Nat × Cost)
  | 0, _, _, acc, c => .ok (acc.reverse, c)
  | n+1, i, sets, acc, c => do
    let o ← idx "gdef.go:132#coverageOffsets[i]" offs i
    match sets.lookup o with
    | some sz => readSets cov base offs n (i + 1) sets (sz :: acc) c.tick
    | none => do
      let (sz, d) ← cov (base + o)
      readSets cov base offs n (i + 1) ((o, sz) :: sets) (sz :: acc) ((addCost c.tick d).mem 1)

/-- PRE-REPAIR loop (old gdef.go:128-133; the site labels carry the OLD line numbers):
`for i := range table.MarkGlyphSets { …ReadSet(p, pos+int64(coverageOffsets[i])) }` -/
def readSetsOld (cov : Sub) (base : Nat) (offs : List Nat) : Nat → Nat → List Nat → Cost → Outcome (List Nat × Cost)
  | 0, _, acc, c => .ok (acc.reverse, c)
  | n+1, i, acc, c => do
    let o ← idx "gdef.go:129#coverageOffsets[i] (pre-repair)" offs i
    let (sz, d) ← cov (base + o)
    readSetsOld cov base offs n (i + 1) (sz :: acc) (addCost c.tick d)

def read (cls cov : Sub) (b : Bytes) : Outcome (Table × Cost) := do
  let buf ← readBytes "gdef.go:51#ReadBytes(12)" b 0 12
  let c := Cost.zero.tick
  let major ← w16 "gdef.go:55#buf[0],buf[1]" buf 0
  let minor ← w16 "gdef.go:56#buf[2],buf[3]" buf 2
  if major ≠ 1 ∨ (minor ≠ 0 ∧ minor ≠ 2 ∧ minor ≠ 3) then .err "unsupported" else
  let glyphClassDefOffset ← w16 "gdef.go:63#buf[4],buf[5]" buf 4
  let _attachListOffset ← w16 "gdef.go:64#buf[6],buf[7]" buf 6
  let _ligCaretListOffset ← w16 "gdef.go:65#buf[8],buf[9]" buf 8
  let markAttachClassDefOffset ← w16 "gdef.go:66#buf[10],buf[11]" buf 10
  let (markGlyphSetsDefOffset, c) ←
    (if minor ≥ 2 then do
      let w ← readBytes "gdef.go:69#ReadUint16" b 12 2
      let v ← w16 "gdef.go:69#ReadUint16" w 0
      pure (v, c.tick)
    else pure (0, c) : Outcome (Nat × Cost))
  let c ←
    (if minor ≥ 3 then do
      let _w ← readBytes "gdef.go:76#ReadUint32" b 14 4
      pure c.tick
    else pure c : Outcome Cost)
  let c := c.mem 1                                           -- &Table{}
  let (gc, c) ←
    (if glyphClassDefOffset ≠ 0 then do
      let (sz, d) ← cls glyphClassDefOffset
      pure (some sz, addCost c d)
    else pure (none, c) : Outcome (Option Nat × Cost))
  let (mac, c) ←
    (if markAttachClassDefOffset ≠ 0 then do
      let (sz, d) ← cls markAttachClassDefOffset
      pure (some sz, addCost c d)
    else pure (none, c) : Outcome (Option Nat × Cost))
  if markGlyphSetsDefOffset = 0 then .ok (⟨gc, mac, none⟩, c) else
  let pos := markGlyphSetsDefOffset
  let hb ← readBytes "gdef.go:107#ReadBytes(4)" b pos 4
  let c := c.tick
  let format ← w16 "gdef.go:111#buf[0],buf[1]" hb 0
  if format ≠ 1 then .err "unsupported" else
  let count ← w16 "gdef.go:118#buf[2],buf[3]" hb 2
  let c ← mkSlice "gdef.go:119#make([]uint32, markGlyphSetCount)" count c
  let (offs, c) ← readOffsets b count (pos + 4) [] c
  let c ← mkSlice "gdef.go:129#make(map[uint32]coverage.Set)" 1 c   -- the (empty) map object
  let c ← mkSlice "gdef.go:130#make([]coverage.Set, markGlyphSetCount)" count c
  let (sets, c) ← readSets cov pos offs count 0 [] [] c
  .ok (⟨gc, mac, some sets⟩, c)

/-- PRE-REPAIR `gdef.Read`: identical to `read` up to the mark-glyph-set loop, which decodes one
coverage table per offset entry (`readSetsOld`); no map. -/
def readOld (cls cov : Sub) (b : Bytes) : Outcome (Table × Cost) := do
  let buf ← readBytes "gdef.go:51#ReadBytes(12)" b 0 12
  let c := Cost.zero.tick
  let major ← w16 "gdef.go:55#buf[0],buf[1]" buf 0
  let minor ← w16 "gdef.go:56#buf[2],buf[3]" buf 2
  if major ≠ 1 ∨ (minor ≠ 0 ∧ minor ≠ 2 ∧ minor ≠ 3) then .err "unsupported" else
  let glyphClassDefOffset ← w16 "gdef.go:63#buf[4],buf[5]" buf 4
  let _attachListOffset ← w16 "gdef.go:64#buf[6],buf[7]" buf 6
  let _ligCaretListOffset ← w16 "gdef.go:65#buf[8],buf[9]" buf 8
  let markAttachClassDefOffset ← w16 "gdef.go:66#buf[10],buf[11]" buf 10
  let (markGlyphSetsDefOffset, c) ←
    (if minor ≥ 2 then do
      let w ← readBytes "gdef.go:69#ReadUint16" b 12 2
      let v ← w16 "gdef.go:69#ReadUint16" w 0
      pure (v, c.tick)
    else pure (0, c) : Outcome (Nat × Cost))
  let c ←
    (if minor ≥ 3 then do
      let _w ← readBytes "gdef.go:76#ReadUint32" b 14 4
      pure c.tick
    else pure c : Outcome Cost)
  let c := c.mem 1                                           -- &Table{}
  let (gc, c) ←
    (if glyphClassDefOffset ≠ 0 then do
      let (sz, d) ← cls glyphClassDefOffset
      pure (some sz, addCost c d)
    else pure (none, c) : Outcome (Option Nat × Cost))
  let (mac, c) ←
    (if markAttachClassDefOffset ≠ 0 then do
      let (sz, d) ← cls markAttachClassDefOffset
      pure (some sz, addCost c d)
    else pure (none, c) : Outcome (Option Nat × Cost))
  if markGlyphSetsDefOffset = 0 then .ok (⟨gc, mac, none⟩, c) else
  let pos := markGlyphSetsDefOffset
  let hb ← readBytes "gdef.go:107#ReadBytes(4)" b pos 4
  let c := c.tick
  let format ← w16 "gdef.go:111#buf[0],buf[1]" hb 0
  if format ≠ 1 then .err "unsupported" else
  let count ← w16 "gdef.go:118#buf[2],buf[3]" hb 2
  let c ← mkSlice "gdef.go:119#make([]uint32, markGlyphSetCount)" count c
  let (offs, c) ← readOffsets b count (pos + 4) [] c
  let c ← mkSlice "gdef.go:127#make([]coverage.Set, markGlyphSetCount) (pre-repair)" count c
  let (sets, c) ← readSetsOld cov pos offs count 0 [] c
  .ok (⟨gc, mac, some sets⟩, c)

end SfntV.Total.Gdef
