/-
C02 (decoders are total): checked-index model of `decodeFormat12` (cmap/format12.go:34-79) and of
the lazy accessors `Format12.Lookup` (format12.go:131) and `Format12.CodeRange` (format12.go:135).

Every `data[…]` index expression is a checked operation with the site label of the inventory
(`Tie/cmap.decodeFormat12.json`); uint32 arithmetic is written with `% 4294967296` exactly where
Go wraps.  The Go map `Format12` is an association list used as a write log (newest entry first;
`mapGet` finds the most recent write), so a map write can be charged without searching the map.
Cost: `steps` = loop iterations executed (group loop + fill loop), `alloc` = 1 (the map object)
+ 1 per map write (a write creates at most one entry; `decode_keys_sorted` in
Proofs/TotalCmap12 shows that on success every write creates exactly one).
Core-only: linked into the driver.
-/
import SfntV.Model.TotalBase

namespace SfntV.Total.Cmap12
open SfntV SfntV.Total

/-- Go map `uint32 → glyph.ID` as a write log, newest first -/
abbrev KV := List (Nat × Nat)

/-- `cmap[c]` (0 for absent keys; the most recent write wins) -/
def mapGet : KV → Nat → Nat
  | [], _ => 0
  | k :: rest, c => if k.1 = c then k.2 else mapGet rest c

/-- `cmap[c] = g` -/
def mapSet (m : KV) (c g : Nat) : KV := (c, g) :: m

/-- `uint32(a)<<24 | uint32(b)<<16 | uint32(c)<<8 | uint32(d)` -/
def u32 (a b c d : UInt8) : Nat := ((a.toNat * 256 + b.toNat) * 256 + c.toNat) * 256 + d.toNat

/-- `data[base+k]` with `base`, `k` of type uint32 (the sum wraps) -/
def at32 (site : String) (data : Bytes) (base k : Nat) : Outcome UInt8 :=
  idx site data ((base + k) % 4294967296)

/-- `uint32(data[base+k])<<24 | uint32(data[base+k+1])<<16 | uint32(data[base+k+2])<<8 |
uint32(data[base+k+3])`: four checked index expressions, evaluated left to right, each with its
own site label -/
def rd32 (s0 s1 s2 s3 : String) (data : Bytes) (base k : Nat) : Outcome Nat := do
  let a ← at32 s0 data base k
  let b ← at32 s1 data base (k + 1)
  let c ← at32 s2 data base (k + 2)
  let d ← at32 s3 data base (k + 3)
  pure (u32 a b c d)

/-- `glyph.ID(startGlyphID + c - startCharCode)`: uint32 arithmetic, truncated to 16 bits -/
def gidAt (start gid c : Nat) : Nat :=
  ((gid + c) % 4294967296 + 4294967296 - start) % 4294967296 % 65536

/-- format12.go:73-75 `for c := startCharCode; c <= endCharCode; c++ { cmap[c] = … }`.
`c++` is uint32 arithmetic.  The first argument is fuel for the structural recursion; the caller
passes `end + 1 - start`, and `fill_closed` (Proofs) shows that for `end ≠ 0xFFFFFFFF` the loop
leaves by its own condition `c > end` with exactly that many iterations (more fuel changes
nothing). -/
def fill (start stop gid : Nat) : Nat → Nat → KV → Cost → KV × Cost
  | 0, _, m, k => (m, k)
  | fuel+1, c, m, k =>
    if c ≤ stop then
      fill start stop gid fuel ((c + 1) % 4294967296) (mapSet m c (gidAt start gid c)) ((k.tick).mem 1)
    else (m, k)

/-- the group loop format12.go:52-76: `n` iterations still to run (`n = nSegments - i`).
`reset = false` is the code as it stands (`size` accumulates over all groups); `reset = true` is
the variant with a per-group counter, kept to state why the accumulation matters
(`decodeFormat12PerGroup`). -/
def loop (reset : Bool) (data : Bytes) : Nat → Nat → Nat → Nat → KV → Cost → Outcome (KV × Cost)
  | 0, _, _, _, m, k => .ok (m, k)
  | n+1, i, prevEnd, size, m, k => do
    let k := k.tick
    let base := (16 + i * 12) % 4294967296
    let startCharCode ← rd32 "format12.go:54#data[base]" "format12.go:54#data[base+1]"
      "format12.go:54#data[base+2]" "format12.go:54#data[base+3]" data base 0
    let endCharCode ← rd32 "format12.go:55#data[base+4]" "format12.go:55#data[base+5]"
      "format12.go:55#data[base+6]" "format12.go:55#data[base+7]" data base 4
    let startGlyphID ← rd32 "format12.go:56#data[base+8]" "format12.go:56#data[base+9]"
      "format12.go:56#data[base+10]" "format12.go:56#data[base+11]" data base 8
    if (i > 0 ∧ startCharCode ≤ prevEnd) ∨ endCharCode < startCharCode ∨ endCharCode = 0xFFFFFFFF
        ∨ startGlyphID > 0xFFFF
        ∨ (startGlyphID + (endCharCode + 4294967296 - startCharCode) % 4294967296) % 4294967296 > 0xFFFF then
      .err "malformed"
    else
    let size0 := if reset then 0 else size
    -- `size += endCharCode - startCharCode + 1` in uint32
    let size' := (size0 + ((endCharCode + 4294967296 - startCharCode) % 4294967296 + 1) % 4294967296) % 4294967296
    if size' > 65536 then .err "malformed" else
    let r := fill startCharCode endCharCode startGlyphID (endCharCode + 1 - startCharCode) startCharCode m k
    loop reset data n ((i + 1) % 4294967296) endCharCode size' r.1 r.2

/-- body of `decodeFormat12` with the counter discipline as a parameter; `c2r` = "code2rune ≠ nil".
`16+int(nSegments)*12` is computed in `int` (64 bits): no wrap. -/
def decodeWith (reset : Bool) (data : Bytes) (c2r : Bool) : Outcome (KV × Cost) :=
  if c2r then .err "code2rune" else
  if data.length < 16 then .err "malformed" else do
  -- constant indices 12..15 (`at32` with base 12: `(12 + k) % 2^32 = 12 + k`)
  let nSegments ← rd32 "format12.go:43#data[12]" "format12.go:43#data[13]" "format12.go:43#data[14]"
    "format12.go:43#data[15]" data 12 0
  if data.length ≠ 16 + nSegments * 12 ∨ nSegments > 1000000 then .err "malformed" else
  -- cmap := Format12{}
  loop reset data nSegments 0 0 0 [] (Cost.zero.mem 1)

/-- `decodeFormat12(data, code2rune)` as it stands -/
def decodeFormat12 (data : Bytes) (c2r : Bool := false) : Outcome (KV × Cost) :=
  decodeWith false data c2r

/-- the variant "`size` is a per-group local" (NOT the code: the witness `perGroup_alloc` shows
what it would cost) -/
def decodeFormat12PerGroup (data : Bytes) (c2r : Bool := false) : Outcome (KV × Cost) :=
  decodeWith true data c2r

/-! ## lazy accessors -/

/-- `Format12.Lookup(code rune)`: `cmap[uint32(code)]`; the conversion wraps negative runes; a
map read cannot panic -/
def lookup (m : KV) (code : Int) : Outcome Nat := .ok (mapGet m (code % 4294967296).toNat)

/-- `rune(c)` for a uint32 `c` (conversion to int32 wraps) -/
def toRune (c : Nat) : Int :=
  if c % 4294967296 < 2147483648 then (c % 4294967296 : Nat) else ((c % 4294967296 : Nat) : Int) - 4294967296

/-- the `range cmap` loop of `Format12.CodeRange`; the key order is Go's (arbitrary) iteration
order, an explicit parameter -/
def codeRangeLoop : List Nat → Bool → Int → Int → Int × Int
  | [], _, lo, hi => (lo, hi)
  | c :: cs, first, lo, hi =>
    let cr := toRune c
    let lo := if first ∨ cr < lo then cr else lo
    let hi := if first ∨ cr > hi then cr else hi
    codeRangeLoop cs false lo hi

/-- `Format12.CodeRange()`: `keys` = the map's keys in iteration order; no index expression,
nothing that can panic -/
def codeRange (keys : List Nat) : Outcome (Int × Int) := .ok (codeRangeLoop keys true 0 0)

end SfntV.Total.Cmap12
