/-
C19 — model of opentype/gtab/builder/parser.go: the item supply (channel + backlog + the final
item repeated once the channel is closed), `fatal`, the small readers, lookup flags, glyph
lists and sets, the string decoder, and the readers for GSUB 1–4.  Core-only.

Loops of the Go code (`for { … }`) are fuelled; the fuel given by `parseText` is larger than
the number of items, and every loop iteration that does not end the loop consumes at least
one item, so the fuel never runs out (`errFuel` is reported as an error of line 0 so that a
model that did run out would be seen by the correspondence and by `C19_total`).
-/
import SfntV.Model.DslLexer

namespace SfntV.Dsl

/-- what `Parse` is given besides the text -/
structure Font where
  numGlyphs : Nat
  /-- glyph names (bytes), index = glyph id; `[]` = no name -/
  names : List (List Nat)
  /-- the best cmap subtable: rune ↦ glyph id (first match; absent or 0 = not mapped) -/
  cmap : List (Nat × Nat)
  /-- the font has no usable cmap table (`GetBest` fails): strings cannot be used -/
  noCmap : Bool := false
deriving Repr, DecidableEq

/-- `byName[name]`: the map is filled for gid = 0, 1, …, so the last glyph with that name wins -/
def Font.byName (f : Font) (name : List Nat) : Option Nat :=
  let rec go (i : Nat) (ns : List (List Nat)) (acc : Option Nat) : Option Nat :=
    match ns with
    | [] => acc
    | n :: rest => go (i + 1) rest (if i < f.numGlyphs && n != [] && n == name then some i else acc)
  go 0 f.names none

def Font.lookup (f : Font) (r : Nat) : Nat :=
  match f.cmap.find? (·.1 == r) with
  | some p => p.2
  | none => 0

/-- `parseError`: the line of the item `fatal` peeks at, and the class of the message -/
structure PErr where
  line : Nat
  cls : String
deriving Repr, DecidableEq

structure PS where
  /-- items the lexer has not yet handed over -/
  toks : List Tok
  /-- pushed-back items (head = top of the Go slice) -/
  backlog : List Tok
  /-- the most recent item received from the channel -/
  last : Tok
deriving Repr

abbrev PM := StateT PS (Except PErr)

def readItem : PM Tok := fun s =>
  match s.backlog with
  | t :: b => .ok (t, { s with backlog := b })
  | [] =>
    match s.toks with
    | t :: ts => .ok (t, { s with toks := ts, last := t })
    | [] => .ok (s.last, s)

def pushBack (t : Tok) : PM Unit := fun s => .ok ((), { s with backlog := t :: s.backlog })

def peek : PM Tok := do
  let t ← readItem
  pushBack t
  pure t

/-- `p.fatal(…)`: panics with a `parseError` whose `next` is `p.peek()` -/
def fatal {α : Type} (cls : String) : PM α := do
  let t ← peek
  throw { line := t.line, cls := cls }

def errFuel : String := "model-out-of-fuel"

def optional (types : List Nat) : PM Bool := do
  let t ← readItem
  if types.contains t.typ then pure true
  else do pushBack t; pure false

def required (typ : Nat) : PM Tok := do
  let t ← readItem
  if t.typ != typ then fatal "expected-token" else pure t

def readIdentifier : PM (List Nat) := do
  let t ← readItem
  if t.typ != tIdentifier then fatal "expected identifier" else pure t.bytes

def isIdent (t : Tok) (name : List Nat) : Bool := t.typ == tIdentifier && t.bytes == name

/-- the bytes of an ASCII literal -/
def lit (s : String) : List Nat := s.toList.map Char.toNat

/-! keywords as byte lists (kernel-friendly; `#guard`ed against the spelling) -/
def kwGSUB (n : Nat) : List Nat := [71, 83, 85, 66, 48 + n]
def kwGPOS (n : Nat) : List Nat := [71, 80, 79, 83, 48 + n]
#guard kwGSUB 1 == lit "GSUB1" && kwGSUB 6 == lit "GSUB6" && kwGPOS 1 == lit "GPOS1" && kwGPOS 4 == lit "GPOS4"

/-- `readLookupFlags`; spellings and bits are the regenerated table `dslParseFlagsC` -/
def readLookupFlagsLoop : Nat → Nat → PM Nat
  | 0, _ => throw { line := 0, cls := errFuel }
  | fuel + 1, flags => do
    if !(← optional [tHyphen]) then pure flags
    else
      let which ← readIdentifier
      match Gen.dslParseFlagsC.find? (·.1 == which) with
      | some e => readLookupFlagsLoop fuel (flags ||| e.2)
      | none => fatal "unknown lookup flag"

def readLookupFlags (fuel : Nat) : PM Nat := do
  let flags ← readLookupFlagsLoop fuel 0
  let _ ← optional [tEOL]
  pure flags

/-- `decodeString`: drop the two quote bytes, undo `\n \r \t` and `\x ↦ x` -/
def decodeEsc : Bool → List Nat → List Nat
  | _, [] => []
  | true, r :: rest =>
    (if r == 110 then 10 else if r == 114 then 13 else if r == 116 then 9 else r) :: decodeEsc false rest
  | false, r :: rest => if r == 92 then decodeEsc true rest else r :: decodeEsc false rest

def decodeString (t : Tok) : List Nat := decodeEsc false ((t.val.drop 1).dropLast.map (·.1))

/-- value of an integer item (`[+-]?[0-9]*` by construction of the lexer): `none` when
`strconv.Atoi` fails for lack of digits; overflow is not modelled separately because every
caller rejects values outside 16 bits anyway (readInteger: see `DslGpos`). -/
def signSplit : List Nat → Bool × List Nat
  | 43 :: r => (false, r)
  | 45 :: r => (true, r)
  | r => (false, r)

def atoi (bs : List Nat) : Option Int :=
  let (neg, ds) := signSplit bs
  if ds.isEmpty || !(ds.all fun d => inR 48 57 d) then none
  else
    let n := ds.foldl (fun a d => a * 10 + (d - 48)) 0
    some (if neg then -(Int.ofNat n) else Int.ofNat n)

/-- the range loop of `readGlyphList`: `start+1 … gid` or `start-1 … gid` -/
def rangeTo (start gid : Nat) : List Nat :=
  if gid < start then (List.range (start - gid)).map fun i => start - 1 - i
  else (List.range (gid - start)).map fun i => start + 1 + i

/-- the `for _, gid := range next` loop of `readGlyphList` -/
def addGids : List Nat → List Nat → Bool → PM (List Nat × Bool)
  | [], res, hy => pure (res, hy)
  | gid :: more, res, hy =>
    if hy then
      match res.getLast? with
      | none => fatal "invalid range"
      | some start => addGids more (res ++ rangeTo start gid) false
    else addGids more (res ++ [gid]) false

/-- the `for r := range decodeString(…)` loop: the first unmapped rune is fatal -/
def mapRunes (f : Font) : List Nat → PM (List Nat)
  | [] => pure []
  | r :: rest =>
    let gid := f.lookup r
    if gid == 0 then fatal "rune" else do
      let more ← mapRunes f rest
      pure (gid :: more)

/-- read an item and keep it if `p` holds, otherwise push it back (`goto done` in
`readGlyphList`: `p.backlog = append(p.backlog, item)`) -/
def takeIf (p : Tok → Bool) : PM (Option Tok) := do
  let t ← readItem
  if p t then pure (some t) else do pushBack t; pure none

/-- the items `readGlyphList` consumes: a known glyph name, a string, an integer, a hyphen -/
def glyphItem (f : Font) (t : Tok) : Bool :=
  (t.typ == tIdentifier && (f.byName t.bytes).isSome) || t.typ == tString ||
    t.typ == tInteger || t.typ == tHyphen

def readGlyphListLoop (f : Font) : Nat → List Nat → Bool → PM (List Nat)
  | 0, _, _ => throw { line := 0, cls := errFuel }
  | fuel + 1, res, hy => do
    match ← takeIf (glyphItem f) with
    | none => if hy then fatal "hyphenated range not terminated" else pure res
    | some item =>
      if item.typ == tIdentifier then
        match f.byName item.bytes with
        | none => pure res -- not reached: `glyphItem` holds
        | some gid =>
          let (res', hy') ← addGids [gid] res hy
          readGlyphListLoop f fuel res' hy'
      else if item.typ == tString then
        if f.noCmap then fatal "font has no cmap" else
        let next ← mapRunes f (decodeString item)
        let (res', hy') ← addGids next res hy
        readGlyphListLoop f fuel res' hy'
      else if item.typ == tInteger then
        match atoi item.bytes with
        | some (Int.ofNat x) =>
          if x ≥ 65536 || x ≥ f.numGlyphs then fatal "invalid glyph id"
          else
            let (res', hy') ← addGids [x] res hy
            readGlyphListLoop f fuel res' hy'
        | _ => fatal "invalid glyph id"
      else
        if hy then fatal "consecutive hyphens in glyph list"
        else readGlyphListLoop f fuel res true

def readGlyphList (f : Font) (fuel : Nat) : PM (List Nat) := readGlyphListLoop f fuel [] false

/-- insertion into an ascending list without duplicates (`sort.Slice` + `unique`) -/
def insertAsc (x : Nat) : List Nat → List Nat
  | [] => [x]
  | y :: ys => if x < y then x :: y :: ys else if x == y then y :: ys else y :: insertAsc x ys

def sortUnique (l : List Nat) : List Nat := l.foldr insertAsc []

def readGlyphSet (f : Font) (fuel : Nat) : PM (List Nat) := do
  let _ ← required tSquareBracketOpen
  let res ← readGlyphList f fuel
  let _ ← required tSquareBracketClose
  pure (sortUnique res)

/-! ### lookup tables -/

/-- `*gtab.GposValueRecord` without device offsets; `none` = nil -/
structure VR where
  x : Int
  y : Int
  dx : Int
  dy : Int
deriving Repr, DecidableEq

/-- `*gtab.PairAdjust` -/
abbrev PairAdj := Option VR × Option VR

/-- a nested action of a contextual rule: `(lookup index, sequence index)`, written `index@position` -/
abbrev Action := Nat × Nat

/-- a contextual rule: the input after its first element (glyphs or classes) and the actions -/
structure SeqRule where
  input : List Nat
  actions : List Action
deriving Repr, DecidableEq

/-- a chained contextual rule; the backtrack sequence is stored closest element first (as in the
font), the notation writes it in reading order -/
structure ChRule where
  back : List Nat
  input : List Nat
  look : List Nat
  actions : List Action
deriving Repr, DecidableEq

inductive Subtable where
  | gsub1_1 (cov : List Nat) (delta : Nat)
  | gsub1_2 (cov : List Nat) (subst : List Nat)
  | gsub2_1 (cov : List Nat) (repl : List (List Nat))
  | gsub3_1 (cov : List Nat) (alt : List (List Nat))
  | gsub4_1 (cov : List Nat) (repl : List (List (List Nat × Nat)))
  | gpos1_1 (cov : List Nat) (adj : Option VR)
  | gpos1_2 (cov : List Nat) (adj : List (Option VR))
  /-- pairs sorted by (left, right) -/
  | gpos2_1 (pairs : List ((Nat × Nat) × PairAdj))
  /-- coverage set (ascending), class tables as (glyph, class) sorted by glyph, adjust matrix -/
  | gpos2_2 (cov : List Nat) (class1 class2 : List (Nat × Nat)) (adjust : List (List PairAdj))
  /-- cursive attachment: coverage (ascending) and entry/exit anchors `(x1, y1, x2, y2)` -/
  | gpos3_1 (cov : List Nat) (recs : List (Int × Int × Int × Int))
  /-- mark-to-base: mark records `(glyph, class, x, y)` and base records `(glyph, anchors)`, both in
  ascending glyph order -/
  | gpos4_1 (marks : List (Nat × Nat × Int × Int)) (bases : List (Nat × List (Int × Int)))
  /-- contextual, format 1: first glyph ↦ its rules `(rest of the input, actions)`, glyphs ascending;
  an action is `(lookup index, sequence index)` -/
  | ctx1 (rules : List (Nat × List SeqRule))
  /-- contextual, format 2: coverage, class table `(glyph, class)` sorted by glyph, rules per class
  (index 0 … number of classes) as `(rest of the input classes, actions)` -/
  | ctx2 (cov : List Nat) (classes : List (Nat × Nat)) (rules : List (List SeqRule))
  /-- contextual, format 3: one glyph set per input position -/
  | ctx3 (input : List (List Nat)) (actions : List Action)
  /-- chained contextual, format 1; a rule is `(backtrack, rest of input, lookahead, actions)`, the
  backtrack sequence stored closest glyph first (as in the font) -/
  | chain1 (rules : List (Nat × List ChRule))
  | chain2 (cov : List Nat) (bcls icls lcls : List (Nat × Nat))
      (rules : List (List ChRule))
  | chain3 (back input look : List (List Nat)) (actions : List Action)
deriving Repr, DecidableEq

structure Lookup where
  typ : Nat
  flags : Nat
  subtables : List Subtable
deriving Repr, DecidableEq

/-- association list standing for the Go map `res` (keys distinct by the duplicate check) -/
def aget {β : Type} (m : List (Nat × β)) (k : Nat) : Option β := (m.find? (·.1 == k)).map (·.2)

def keysAsc {β : Type} (m : List (Nat × β)) : List Nat := sortUnique (m.map (·.1))

/-- the mapping loop shared by GSUB 1–4: `from -> to {, from -> to}`.  `one` handles a single
pair and returns the updated map. -/
def pairsLoop {σ : Type} (one : σ → PM σ) : Nat → σ → PM σ
  | 0, _ => throw { line := 0, cls := errFuel }
  | fuel + 1, st => do
    let st' ← one st
    if !(← optional [tComma]) then pure st'
    else do
      let _ ← optional [tEOL]
      pairsLoop one fuel st'

def header (fuel : Nat) : PM Nat := do
  let _ ← optional [tColon]
  let _ ← optional [tEOL]
  readLookupFlags fuel

/-- subtables of one lookup, separated by `||` (and an optional line break) -/
def subtablesLoop (one : PM Subtable) : Nat → List Subtable → PM (List Subtable)
  | 0, _ => throw { line := 0, cls := errFuel }
  | fuel + 1, acc => do
    let st ← one
    if !(← optional [tOr]) then pure (acc ++ [st])
    else do
      let _ ← optional [tEOL]
      subtablesLoop one fuel (acc ++ [st])

def zipInsert : List Nat → List Nat → List (Nat × Nat) → PM (List (Nat × Nat))
  | g :: gs, t :: ts, m =>
    if (aget m g).isSome then fatal "duplicate mapping" else zipInsert gs ts (m ++ [(g, t)])
  | _, _, m => pure m

def gsub1Sub (f : Font) (fuel : Nat) : PM Subtable := do
  let res ← pairsLoop (fun (m : List (Nat × Nat)) => do
      let from_ ← readGlyphList f fuel
      let _ ← required tArrow
      let to ← readGlyphList f fuel
      if from_.length != to.length then fatal "length mismatch"
      else zipInsert from_ to m) fuel []
  if res.isEmpty then fatal "no substitutions found"
  else
    let cov := keysAsc res
    let deltas := res.map fun p => (p.2 + 65536 - p.1) % 65536
    let d0 := deltas.headD 0
    pure (if deltas.all (· == d0) then Subtable.gsub1_1 cov d0
      else Subtable.gsub1_2 cov (cov.map fun g => (aget res g).getD 0))

def readGsub1 (f : Font) (fuel : Nat) : PM Lookup := do
  let flags ← header fuel
  let subs ← subtablesLoop (gsub1Sub f fuel) fuel []
  pure { typ := 1, flags := flags, subtables := subs }

def gsub2Sub (f : Font) (fuel : Nat) : PM Subtable := do
  let data ← pairsLoop (fun (m : List (Nat × List Nat)) => do
      let from_ ← readGlyphList f fuel
      if from_.length != 1 then fatal "expected single glyph"
      else
        let _ ← required tArrow
        let to ← readGlyphList f fuel
        if to.isEmpty then
          -- `p.fatal("expected at least one glyph at %s", p.readItem())`: the item is consumed
          -- before `fatal` peeks
          let _ ← readItem
          fatal "expected at least one glyph"
        else
          let g := from_.headD 0
          if (aget m g).isSome then fatal "duplicate mapping" else pure (m ++ [(g, to)])) fuel []
  if data.isEmpty then fatal "no substitutions found"
  else
    let cov := keysAsc data
    pure (.gsub2_1 cov (cov.map fun g => (aget data g).getD []))

def readGsub2 (f : Font) (fuel : Nat) : PM Lookup := do
  let flags ← header fuel
  let subs ← subtablesLoop (gsub2Sub f fuel) fuel []
  pure { typ := 2, flags := flags, subtables := subs }

def gsub3Sub (f : Font) (fuel : Nat) : PM Subtable := do
  let res ← pairsLoop (fun (m : List (Nat × List Nat)) => do
      let from_ ← readGlyphList f fuel
      if from_.length != 1 then fatal "expected single glyph"
      else
        let _ ← required tArrow
        let _ ← required tSquareBracketOpen
        let to ← readGlyphList f fuel
        let _ ← required tSquareBracketClose
        let g := from_.headD 0
        if (aget m g).isSome then fatal "duplicate mapping" else pure (m ++ [(g, to)])) fuel []
  if res.isEmpty then fatal "no substitutions found"
  else
    let cov := keysAsc res
    pure (.gsub3_1 cov (cov.map fun g => (aget res g).getD []))

def readGsub3 (f : Font) (fuel : Nat) : PM Lookup := do
  let flags ← header fuel
  let subs ← subtablesLoop (gsub3Sub f fuel) fuel []
  pure { typ := 3, flags := flags, subtables := subs }

/-- `data[key] = append(data[key], lig)` -/
def appendAt {β : Type} (m : List (Nat × List β)) (k : Nat) (v : β) : List (Nat × List β) :=
  if (aget m k).isSome then m.map fun p => if p.1 == k then (p.1, p.2 ++ [v]) else p
  else m ++ [(k, [v])]

def gsub4Sub (f : Font) (fuel : Nat) : PM Subtable := do
  let data ← pairsLoop (fun (m : List (Nat × List (List Nat × Nat))) => do
      let from_ ← readGlyphList f fuel
      if from_.isEmpty then
        let _ ← readItem
        fatal "expected at least one glyph"
      else
        let _ ← required tArrow
        let to ← readGlyphList f fuel
        if to.length != 1 then fatal "expected single glyph"
        else pure (appendAt m (from_.headD 0) (from_.drop 1, to.headD 0))) fuel []
  let cov := keysAsc data
  pure (.gsub4_1 cov (cov.map fun g => (aget data g).getD []))

def readGsub4 (f : Font) (fuel : Nat) : PM Lookup := do
  let flags ← header fuel
  let subs ← subtablesLoop (gsub4Sub f fuel) fuel []
  pure { typ := 4, flags := flags, subtables := subs }

/-! ### GPOS 1 and 2 -/

def optionalIdentifier (name : List Nat) : PM Bool := do
  let t ← readItem
  if isIdent t name then pure true
  else do pushBack t; pure false

def requiredIdentifier (name : List Nat) : PM Unit := do
  let t ← readItem
  if isIdent t name then pure () else fatal "expected identifier"

/-- `readInteger` then the range check of `readInt16`.  `strconv.Atoi` fails without digits
and outside the 64-bit range. -/
def readInt16 : PM Int := do
  let t ← readItem
  if t.typ != tInteger then fatal "expected integer"
  else
    match atoi t.bytes with
    | none => fatal "invalid integer"
    | some v =>
      if v > 9223372036854775807 || v < -9223372036854775808 then fatal "invalid integer"
      else if v < -32768 || v > 32767 then fatal "int16 out of range"
      else pure v

def kwX : List Nat := [120]
def kwY : List Nat := [121]
def kwDx : List Nat := [100, 120]
def kwDy : List Nat := [100, 121]
def kwUnderscore : List Nat := [95]
def kwFirst : List Nat := [102, 105, 114, 115, 116]
def kwSecond : List Nat := [115, 101, 99, 111, 110, 100]
#guard kwX == lit "x" && kwY == lit "y" && kwDx == lit "dx" && kwDy == lit "dy" && kwUnderscore == lit "_" &&
  kwFirst == lit "first" && kwSecond == lit "second"

def valueItem (t : Tok) : Bool := isIdent t kwX || isIdent t kwY || isIdent t kwDx || isIdent t kwDy

/-- the `valueRecordLoop` of `readGposValueRecord` -/
def valueLoop : Nat → VR → PM VR
  | 0, _ => throw { line := 0, cls := errFuel }
  | fuel + 1, r => do
    match ← takeIf valueItem with
    | none => pure r
    | some t =>
      let v ← readInt16
      if isIdent t kwX then valueLoop fuel { r with x := v }
      else if isIdent t kwY then valueLoop fuel { r with y := v }
      else if isIdent t kwDx then valueLoop fuel { r with dx := v }
      else valueLoop fuel { r with dy := v }

def readGposValueRecord (fuel : Nat) : PM (Option VR) := do
  if (← optionalIdentifier kwUnderscore) then pure none
  else
    let r ← valueLoop fuel { x := 0, y := 0, dx := 0, dy := 0 }
    if r.x == 0 && r.y == 0 && r.dx == 0 && r.dy == 0 then pure none else pure (some r)

def readPairAdjust (fuel : Nat) : PM PairAdj := do
  let a1 ← readGposValueRecord fuel
  if (← optional [tAmpersand]) then
    let a2 ← readGposValueRecord fuel
    pure (a1, a2)
  else pure (a1, none)

/-- `m[k] = v` -/
def aset {β : Type} (m : List (Nat × β)) (k : Nat) (v : β) : List (Nat × β) :=
  if (aget m k).isSome then m.map fun p => if p.1 == k then (k, v) else p else m ++ [(k, v)]

def gpos1Sub (f : Font) (fuel : Nat) : PM Subtable := do
  if (← peek).typ == tSquareBracketOpen then
    let from_ ← readGlyphSet f fuel
    let _ ← required tArrow
    let adj ← readGposValueRecord fuel
    pure (.gpos1_1 from_ adj)
  else
    let res ← pairsLoop (fun (m : List (Nat × Option VR)) => do
      let gids ← readGlyphList f fuel
      if gids.length != 1 then fatal "expected single glyph"
      else
        let _ ← required tArrow
        let adj ← readGposValueRecord fuel
        pure (aset m (gids.headD 0) adj)) fuel []
    let cov := keysAsc res
    pure (.gpos1_2 cov (cov.map fun g => (aget res g).getD none))

def readGpos1 (f : Font) (fuel : Nat) : PM Lookup := do
  let flags ← header fuel
  let subs ← subtablesLoop (gpos1Sub f fuel) fuel []
  pure { typ := 1, flags := flags, subtables := subs }

/-- `subtable[glyph.Pair{…}] = pair` on a list kept sorted by (left, right) -/
def pairSet (m : List ((Nat × Nat) × PairAdj)) (k : Nat × Nat) (v : PairAdj) : List ((Nat × Nat) × PairAdj) :=
  match m with
  | [] => [(k, v)]
  | e :: rest =>
    if e.1 == k then (k, v) :: rest
    else if k.1 < e.1.1 || (k.1 == e.1.1 && k.2 < e.1.2) then (k, v) :: e :: rest
    else e :: pairSet rest k v

/-- insert the glyphs of one class; a glyph that already has a class is fatal -/
def classInsert : List Nat → Nat → List (Nat × Nat) → PM (List (Nat × Nat))
  | [], _, tbl => pure tbl
  | g :: gs, c, tbl =>
    if (aget tbl g).isSome then fatal "duplicate class" else classInsert gs c (tbl ++ [(g, c)])

/-- the `for i := 0; ; i++` loops reading `first …;` and `second …;` -/
def classLoop (f : Font) (fuel : Nat) : Nat → Bool → List (Nat × Nat) → Nat → PM (List (Nat × Nat))
  | 0, _, _, _ => throw { line := 0, cls := errFuel }
  | n + 1, isFirst, tbl, cnt => do
    if (← optional [tSemicolon]) then pure tbl
    else
      if !isFirst then
        let _ ← required tComma
      let gg ← readGlyphList f fuel
      let tbl' ← classInsert gg cnt tbl
      classLoop f fuel n false tbl' (cnt + 1)

/-- `classdef.Table.NumClasses` -/
def numClasses (tbl : List (Nat × Nat)) : Nat := (tbl.map (·.2)).foldl max 0 + 1

def sortByGlyph (tbl : List (Nat × Nat)) : List (Nat × Nat) :=
  (keysAsc tbl).map fun g => (g, (aget tbl g).getD 0)

def adjustRow (fuel : Nat) : Nat → Nat → PM (List PairAdj)
  | 0, _ => pure []
  | k + 1, j => do
    if j > 0 then
      let _ ← optional [tComma]
    let a ← readPairAdjust fuel
    let rest ← adjustRow fuel k (j + 1)
    pure (a :: rest)

def adjustRows (fuel : Nat) (cols : Nat) : Nat → PM (List (List PairAdj))
  | 0 => pure []
  | k + 1 => do
    let row ← adjustRow fuel cols 0
    let _ ← optional [tComma, tSemicolon]
    let _ ← optional [tEOL]
    let rest ← adjustRows fuel cols k
    pure (row :: rest)

def gpos2Sub (f : Font) (fuel : Nat) : PM Subtable := do
  if (← peek).typ == tSlash then
    let _ ← required tSlash
    let cov ← readGlyphList f fuel
    let _ ← required tSlash
    let _ ← optional [tEOL]
    requiredIdentifier kwFirst
    let c1 ← classLoop f fuel fuel true [] 1
    let _ ← optional [tEOL]
    requiredIdentifier kwSecond
    let c2 ← classLoop f fuel fuel true [] 1
    let _ ← optional [tEOL]
    let adjust ← adjustRows fuel (numClasses c2) (numClasses c1)
    pure (.gpos2_2 (sortUnique cov) (sortByGlyph c1) (sortByGlyph c2) adjust)
  else
    let res ← pairsLoop (fun (m : List ((Nat × Nat) × PairAdj)) => do
      let from_ ← readGlyphList f fuel
      if from_.length != 2 then fatal "expected glyph pair"
      else
        let _ ← required tArrow
        let pair ← readPairAdjust fuel
        pure (pairSet m (from_.headD 0, (from_.drop 1).headD 0) pair)) fuel []
    pure (.gpos2_1 res)

def readGpos2 (f : Font) (fuel : Nat) : PM Lookup := do
  let flags ← header fuel
  let subs ← subtablesLoop (gpos2Sub f fuel) fuel []
  pure { typ := 2, flags := flags, subtables := subs }

/-! ### GPOS 3 (cursive attachment) -/

def kwTo : List Nat := [116, 111]
#guard kwTo == lit "to"

/-- `readGlyph`: a glyph list of exactly one glyph -/
def readGlyph (f : Font) (fuel : Nat) : PM Nat := do
  let gids ← readGlyphList f fuel
  if gids.length == 0 then fatal "expected glyph, got"
  else if gids.length > 1 then fatal "expected single glyph"
  else pure (gids.headD 0)

/-- records separated by `;` (and an optional line break) -/
def semiLoop {σ : Type} (one : σ → PM σ) : Nat → σ → PM σ
  | 0, _ => throw { line := 0, cls := errFuel }
  | fuel + 1, st => do
    let st' ← one st
    if !(← optional [tSemicolon]) then pure st'
    else do
      let _ ← optional [tEOL]
      semiLoop one fuel st'

/-- one subtable of `readGpos3`: `glyph: x,y to x,y {; glyph: …}`; a later record for the same
glyph replaces the earlier one (Go map) -/
def gpos3Sub (f : Font) (fuel : Nat) : PM Subtable := do
  let res ← semiLoop (fun (m : List (Nat × (Int × Int × Int × Int))) => do
    let gid ← readGlyph f fuel
    let _ ← optional [tColon]
    let x1 ← readInt16
    let _ ← required tComma
    let y1 ← readInt16
    requiredIdentifier kwTo
    let x2 ← readInt16
    let _ ← required tComma
    let y2 ← readInt16
    pure (aset m gid (x1, y1, x2, y2))) fuel []
  let cov := keysAsc res
  pure (.gpos3_1 cov (cov.map fun g => (aget res g).getD (0, 0, 0, 0)))

def readGpos3 (f : Font) (fuel : Nat) : PM Lookup := do
  let flags ← header fuel
  let subs ← subtablesLoop (gpos3Sub f fuel) fuel []
  pure { typ := 3, flags := flags, subtables := subs }

/-! ### GPOS 4 (mark-to-base attachment) -/

def kwMark : List Nat := [109, 97, 114, 107]
def kwBase : List Nat := [98, 97, 115, 101]
#guard kwMark == lit "mark" && kwBase == lit "base"

/-- `readInteger` then the range check of `readUint16` -/
def readUint16 : PM Nat := do
  let t ← readItem
  if t.typ != tInteger then fatal "expected integer"
  else
    match atoi t.bytes with
    | none => fatal "invalid integer"
    | some v =>
      if v > 9223372036854775807 || v < -9223372036854775808 then fatal "invalid integer"
      else if v < 0 || v ≥ 65536 then fatal "uint16 out of range"
      else pure v.toNat

/-- `len(gs) > 0 && gs[len(gs)-1] >= gid` -/
def lastGe (gs : List Nat) (gid : Nat) : Bool :=
  match gs.getLast? with
  | some l => decide (l ≥ gid)
  | none => false

/-- records introduced by a keyword, each optionally followed by `;` and a line break; `one`
reads the record after the keyword, given the records so far -/
def recLoop {α : Type} (kw : List Nat) (one : List α → PM α) : Nat → List α → PM (List α)
  | 0, _ => throw { line := 0, cls := errFuel }
  | n + 1, acc => do
    if !(← optionalIdentifier kw) then pure acc
    else
      let item ← one acc
      let _ ← optional [tSemicolon]
      let _ ← optional [tEOL]
      recLoop kw one n (acc ++ [item])

/-- `glyph: class@x,y` of a mark record -/
def markOne (f : Font) (fuel : Nat) (acc : List (Nat × Nat × Int × Int)) : PM (Nat × Nat × Int × Int) := do
  let gid ← readGlyph f fuel
  if lastGe (acc.map (·.1)) gid then fatal "mark glyphs not given in ascending order"
  else
    let _ ← optional [tColon]
    let cls ← readUint16
    let _ ← required tAt
    let x ← readInt16
    let _ ← required tComma
    let y ← readInt16
    pure (gid, cls, x, y)

/-- the anchors of one base record: `@x,y` per mark class, commas optional -/
def anchorsLoop : Nat → Nat → List (Int × Int) → PM (List (Int × Int))
  | 0, _, acc => pure acc
  | k + 1, i, acc => do
    let _ ← (if i == 0 then pure false else optional [tComma])
    let _ ← required tAt
    let x ← readInt16
    let _ ← required tComma
    let y ← readInt16
    anchorsLoop k (i + 1) (acc ++ [(x, y)])

/-- `glyph: @x,y @x,y` of a base record -/
def baseOne (f : Font) (fuel k : Nat) (acc : List (Nat × List (Int × Int))) : PM (Nat × List (Int × Int)) := do
  let gid ← readGlyph f fuel
  if lastGe (acc.map (·.1)) gid then fatal "base glyphs not given in ascending order"
  else
    let _ ← optional [tColon]
    let anchors ← anchorsLoop k 0 []
    pure (gid, anchors)

/-- one subtable of `readGpos4`: the mark classes seen must be 0 … k-1 -/
def gpos4Sub (f : Font) (fuel : Nat) : PM Subtable := do
  let marks ← recLoop kwMark (markOne f fuel) fuel []
  let classes := marks.map (·.2.1)
  let k := classes.eraseDups.length
  if !((List.range k).all fun c => classes.contains c) then fatal "missing mark class"
  else
    let bases ← recLoop kwBase (baseOne f fuel k) fuel []
    pure (.gpos4_1 marks bases)

def readGpos4 (f : Font) (fuel : Nat) : PM Lookup := do
  let flags ← header fuel
  let subs ← subtablesLoop (gpos4Sub f fuel) fuel []
  pure { typ := 4, flags := flags, subtables := subs }

/-! ### contextual and chained contextual lookups (GSUB 5/6, GPOS 7/8) -/

def kwClass : List Nat := [99, 108, 97, 115, 115]
def kwInputclass : List Nat := [105, 110, 112, 117, 116] ++ kwClass
def kwBacktrackclass : List Nat := [98, 97, 99, 107, 116, 114, 97, 99, 107] ++ kwClass
def kwLookaheadclass : List Nat := [108, 111, 111, 107, 97, 104, 101, 97, 100] ++ kwClass
#guard kwClass == lit "class" && kwInputclass == lit "inputclass" && kwBacktrackclass == lit "backtrackclass" &&
  kwLookaheadclass == lit "lookaheadclass"

/-- a 16-bit number of `readNestedLookups` (`strconv.Atoi` and the range check) -/
def u16Of (t : Tok) : Option Nat :=
  match atoi t.bytes with
  | none => none
  | some v => if v < 0 || v ≥ 65536 then none else some v.toNat

def isInt (t : Tok) : Bool := t.typ == tInteger

/-- `readNestedLookups`: `index@position` as long as integers follow -/
def nestedLoop : Nat → List Action → PM (List Action)
  | 0, _ => throw { line := 0, cls := errFuel }
  | n + 1, acc => do
    match ← takeIf isInt with
    | none => pure acc
    | some item =>
      match u16Of item with
      | none => fatal "invalid lookup index"
      | some idx => do
        let _ ← required tAt
        let item2 ← readItem
        if item2.typ != tInteger then fatal "invalid lookup position"
        else
          match u16Of item2 with
          | none => fatal "invalid lookup position"
          | some pos => nestedLoop n (acc ++ [(idx, pos)])

/-- `readClassName`: `:name:` or `::` (class 0, the empty name) -/
def readClassName : PM (List Nat) := do
  let _ ← required tColon
  let item ← readItem
  if item.typ == tIdentifier then do
    let _ ← required tColon
    pure item.bytes
  else if item.typ == tColon then pure []
  else fatal "expected class name"

/-- `readClassNames` -/
def classNamesLoop : Nat → List (List Nat) → PM (List (List Nat))
  | 0, _ => throw { line := 0, cls := errFuel }
  | n + 1, acc => do
    let next ← peek
    if next.typ != tColon then pure acc
    else do
      let nm ← readClassName
      classNamesLoop n (acc ++ [nm])

/-- a class-definition keyword: the identifier `kw` followed by `:` (a glyph may have the same
name; the colon decides).  The keyword is consumed, the colon is not. -/
def optionalKeyword (kw : List Nat) : PM Bool := do
  let t ← readItem
  if isIdent t kw then do
    let t2 ← peek
    if t2.typ == tColon then pure true
    else do pushBack t; pure false
  else do pushBack t; pure false

/-- `parseClassDef` after its keyword: `:name: = [glyphs]` -/
def parseClassDef (f : Font) (fuel : Nat) : PM (List Nat × List Nat) := do
  let _ ← required tColon
  let name ← readIdentifier
  let _ ← required tColon
  let _ ← optional [tEqual]
  let gids ← readGlyphSet f fuel
  if gids.isEmpty then fatal "empty class" else pure (name, gids)

/-- class names in the order of their definition (class number = position + 1) and the class table
in insertion order -/
abbrev ClsSt := List (List Nat) × List (Nat × Nat)

/-- register a class definition: the name must be new and no glyph may have a class already -/
def addClass (dupMsg ovlMsg : String) (st : ClsSt) (name : List Nat) (gids : List Nat) : PM ClsSt :=
  if st.1.contains name then fatal dupMsg
  else if gids.any (fun g => (aget st.2 g).isSome) then fatal ovlMsg
  else pure (st.1 ++ [name], st.2 ++ gids.map fun g => (g, st.1.length + 1))

/-- the number of the class called `nm`: its position (from `i`) in the list of defined names -/
def findCls : List (List Nat) → List Nat → Nat → Option Nat
  | [], _, _ => none
  | x :: xs, nm, i => if x == nm then some i else findCls xs nm (i + 1)

/-- class numbers of a list of names; the empty name is class 0 -/
def resolveNames (idx : List (List Nat)) : List (List Nat) → PM (List Nat)
  | [] => pure []
  | nm :: rest =>
    if nm.isEmpty then do
      let r ← resolveNames idx rest
      pure (0 :: r)
    else if (findCls idx nm 1).isSome then do
      let r ← resolveNames idx rest
      pure ((findCls idx nm 1).getD 0 :: r)
    else fatal "undefined class"

/-- `rules[i] = append(rules[i], rule)` -/
def appendIdx {β : Type} : List (List β) → Nat → β → List (List β)
  | [], _, _ => []
  | r :: rs, 0, v => (r ++ [v]) :: rs
  | r :: rs, i + 1, v => r :: appendIdx rs i v

/-- the map of format 1 as coverage-ordered list -/
def byGlyph {β : Type} (res : List (Nat × List β)) : List (Nat × List β) :=
  (keysAsc res).map fun g => (g, (aget res g).getD [])

/-- one rule of contextual format 1: `glyphs -> actions` -/
def ctx1Rule (f : Font) (fuel : Nat) (res : List (Nat × List SeqRule)) : PM (List (Nat × List SeqRule)) := do
  let input ← readGlyphList f fuel
  let _ ← required tArrow
  let actions ← nestedLoop fuel []
  if input.isEmpty then do
    let _ ← readItem
    fatal "expected at least one glyph"
  else pure (appendAt res (input.headD 0) ⟨input.drop 1, actions⟩)

/-- one rule of contextual format 2: `:c1: :: -> actions` -/
def ctx2Rule (fuel : Nat) (idx : List (List Nat)) (rules : List (List SeqRule)) : PM (List (List SeqRule)) := do
  let names ← classNamesLoop fuel []
  let _ ← required tArrow
  let actions ← nestedLoop fuel []
  if names.isEmpty then fatal "no input classes given"
  else
    let input ← resolveNames idx names
    pure (appendIdx rules (input.headD 0) ⟨input.drop 1, actions⟩)

/-- glyph sets `[…] […]` until an item of kind `stop` has been taken; at least one set -/
def setsThen (f : Font) (fuel stop : Nat) : Nat → List (List Nat) → PM (List (List Nat))
  | 0, _ => throw { line := 0, cls := errFuel }
  | n + 1, acc => do
    let s ← readGlyphSet f fuel
    if (← optional [stop]) then pure (acc ++ [s]) else setsThen f fuel stop n (acc ++ [s])

/-- glyph sets until an item of kind `stop` has been taken; possibly none -/
def setsUntil (f : Font) (fuel stop : Nat) : Nat → List (List Nat) → PM (List (List Nat))
  | 0, _ => throw { line := 0, cls := errFuel }
  | n + 1, acc => do
    if (← optional [stop]) then pure acc
    else
      let s ← readGlyphSet f fuel
      setsUntil f fuel stop n (acc ++ [s])

/-- the subtable loop of `readSeqCtx`; the class definitions read so far are kept until a
format 2 subtable uses them -/
def ctxLoop (f : Font) (fuel : Nat) : Nat → ClsSt → List Subtable → PM (List Subtable)
  | 0, _, _ => throw { line := 0, cls := errFuel }
  | n + 1, st, acc => do
    if (← optionalKeyword kwClass) then do
      let d ← parseClassDef f fuel
      let st' ← addClass "duplicate class" "overlapping classes" st d.1 d.2
      let _ ← optional [tEOL]
      ctxLoop f fuel n st' acc
    else do
      let next ← peek
      let r ← (if next.typ == tSlash then do
          let _ ← required tSlash
          let firstGlyphs ← readGlyphList f fuel
          let _ ← required tSlash
          let rules ← pairsLoop (ctx2Rule fuel st.1) fuel (List.replicate (st.1.length + 1) [])
          pure (Subtable.ctx2 (sortUnique firstGlyphs) (sortByGlyph st.2) rules, (([], []) : ClsSt))
        else if next.typ == tSquareBracketOpen then do
          let input ← setsThen f fuel tArrow fuel []
          let actions ← nestedLoop fuel []
          pure (Subtable.ctx3 input actions, st)
        else do
          let res ← pairsLoop (ctx1Rule f fuel) fuel []
          pure (Subtable.ctx1 (byGlyph res), st))
      if !(← optional [tOr]) then pure (acc ++ [r.1])
      else do
        let _ ← optional [tEOL]
        ctxLoop f fuel n r.2 (acc ++ [r.1])

def readSeqCtx (f : Font) (fuel typ : Nat) : PM Lookup := do
  let flags ← header fuel
  let subs ← ctxLoop f fuel fuel ([], []) []
  pure { typ := typ, flags := flags, subtables := subs }

/-- one rule of chained format 1: `backtrack | input | lookahead -> actions` -/
def chain1Rule (f : Font) (fuel : Nat) (res : List (Nat × List ChRule)) : PM (List (Nat × List ChRule)) := do
  let backtrack ← readGlyphList f fuel
  let _ ← required tBar
  let input ← readGlyphList f fuel
  let _ ← required tBar
  let lookahead ← readGlyphList f fuel
  let _ ← required tArrow
  let actions ← nestedLoop fuel []
  if input.isEmpty then do
    let _ ← readItem
    fatal "expected at least one glyph"
  else pure (appendAt res (input.headD 0) ⟨backtrack.reverse, input.drop 1, lookahead, actions⟩)

/-- one rule of chained format 2 -/
def chain2Rule (fuel : Nat) (bidx iidx lidx : List (List Nat)) (rules : List (List ChRule)) :
    PM (List (List ChRule)) := do
  let bnames ← classNamesLoop fuel []
  let _ ← required tBar
  let inames ← classNamesLoop fuel []
  let _ ← required tBar
  let lnames ← classNamesLoop fuel []
  let _ ← required tArrow
  let actions ← nestedLoop fuel []
  if inames.isEmpty then fatal "no input classes given"
  else
    let input ← resolveNames iidx inames
    let backtrack ← resolveNames bidx bnames
    let lookahead ← resolveNames lidx lnames
    pure (appendIdx rules (input.headD 0) ⟨backtrack.reverse, input.drop 1, lookahead, actions⟩)

/-- the three class tables of `readChainedSeqCtx` -/
structure ChSt where
  b : ClsSt
  i : ClsSt
  l : ClsSt

def ChSt.empty : ChSt := { b := ([], []), i := ([], []), l := ([], []) }

/-- the kind of the next item, or of the one after it when the next is `|` (nothing is consumed) -/
def peekType2 : PM Nat := do
  let next ← readItem
  if next.typ == tBar then do
    let t ← peek
    pushBack next
    pure t.typ
  else do
    pushBack next
    pure next.typ

/-- the subtable loop of `readChainedSeqCtx` -/
def chainLoop (f : Font) (fuel : Nat) : Nat → ChSt → List Subtable → PM (List Subtable)
  | 0, _, _ => throw { line := 0, cls := errFuel }
  | n + 1, st, acc => do
    if (← optionalKeyword kwInputclass) then do
      let d ← parseClassDef f fuel
      let c ← addClass "duplicate input class" "overlapping input classes" st.i d.1 d.2
      let _ ← optional [tEOL]
      chainLoop f fuel n { st with i := c } acc
    else if (← optionalKeyword kwBacktrackclass) then do
      let d ← parseClassDef f fuel
      let c ← addClass "duplicate backtrack class" "overlapping backtrack classes" st.b d.1 d.2
      let _ ← optional [tEOL]
      chainLoop f fuel n { st with b := c } acc
    else if (← optionalKeyword kwLookaheadclass) then do
      let d ← parseClassDef f fuel
      let c ← addClass "duplicate lookahead class" "overlapping lookahead classes" st.l d.1 d.2
      let _ ← optional [tEOL]
      chainLoop f fuel n { st with l := c } acc
    else do
      let nextType ← peekType2
      let r ← (if nextType == tSlash then do
          let _ ← required tSlash
          let firstGlyphs ← readGlyphList f fuel
          let _ ← required tSlash
          let rules ← pairsLoop (chain2Rule fuel st.b.1 st.i.1 st.l.1) fuel (List.replicate (st.i.1.length + 1) [])
          pure (Subtable.chain2 (sortUnique firstGlyphs) (sortByGlyph st.b.2) (sortByGlyph st.i.2)
            (sortByGlyph st.l.2) rules, ChSt.empty)
        else if nextType == tSquareBracketOpen then do
          let back ← setsUntil f fuel tBar fuel []
          let input ← setsThen f fuel tBar fuel []
          let look ← setsUntil f fuel tArrow fuel []
          let actions ← nestedLoop fuel []
          pure (Subtable.chain3 back.reverse input look actions, st)
        else do
          let res ← pairsLoop (chain1Rule f fuel) fuel []
          pure (Subtable.chain1 (byGlyph res), st))
      if !(← optional [tOr]) then pure (acc ++ [r.1])
      else do
        let _ ← optional [tEOL]
        chainLoop f fuel n r.2 (acc ++ [r.1])

def readChainedSeqCtx (f : Font) (fuel typ : Nat) : PM Lookup := do
  let flags ← header fuel
  let subs ← chainLoop f fuel fuel ChSt.empty []
  pure { typ := typ, flags := flags, subtables := subs }

/-- outcome of the forms this file does not model: the driver reports `unmodelled` -/
def unmodelled : String := "model-unmodelled-form"

/-- `parser.parse` -/
def parseLoop (f : Font) (fuel : Nat) : Nat → List Lookup → PM (List Lookup)
  | 0, _ => throw { line := 0, cls := errFuel }
  | n + 1, acc => do
    let item ← readItem
    if item.typ == tEOF then pure acc
    else if item.typ == tError then
      fatal (if item.err == 1 then "unexpected character" else "unterminated string")
    else if item.typ == tSemicolon || item.typ == tEOL then parseLoop f fuel n acc
    else if isIdent item (kwGSUB 1) then do
      let l ← readGsub1 f fuel; parseLoop f fuel n (acc ++ [l])
    else if isIdent item (kwGSUB 2) then do
      let l ← readGsub2 f fuel; parseLoop f fuel n (acc ++ [l])
    else if isIdent item (kwGSUB 3) then do
      let l ← readGsub3 f fuel; parseLoop f fuel n (acc ++ [l])
    else if isIdent item (kwGSUB 4) then do
      let l ← readGsub4 f fuel; parseLoop f fuel n (acc ++ [l])
    else if isIdent item (kwGPOS 1) then do
      let l ← readGpos1 f fuel; parseLoop f fuel n (acc ++ [l])
    else if isIdent item (kwGPOS 2) then do
      let l ← readGpos2 f fuel; parseLoop f fuel n (acc ++ [l])
    else if isIdent item (kwGPOS 3) then do
      let l ← readGpos3 f fuel; parseLoop f fuel n (acc ++ [l])
    else if isIdent item (kwGPOS 4) then do
      let l ← readGpos4 f fuel; parseLoop f fuel n (acc ++ [l])
    else if isIdent item (kwGSUB 5) then do
      let l ← readSeqCtx f fuel 5; parseLoop f fuel n (acc ++ [l])
    else if isIdent item (kwGSUB 6) then do
      let l ← readChainedSeqCtx f fuel 6; parseLoop f fuel n (acc ++ [l])
    else if isIdent item (kwGPOS 7) then do
      let l ← readSeqCtx f fuel 7; parseLoop f fuel n (acc ++ [l])
    else if isIdent item (kwGPOS 8) then do
      let l ← readChainedSeqCtx f fuel 8; parseLoop f fuel n (acc ++ [l])
    else fatal "unexpected"

def zeroTok : Tok := { typ := 0, val := [], line := 0 }

/-- `Parse` on the items of the lexer -/
def parseToks (f : Font) (toks : List Tok) : Except PErr (List Lookup) :=
  let fuel := toks.length + 2
  match (parseLoop f fuel fuel []).run { toks := toks, backlog := [], last := zeroTok } with
  | .ok (ls, _) => .ok ls
  | .error e => .error e

def parseRunes (f : Font) (rs : List RB) : Except PErr (List Lookup) := parseToks f (lexRunes rs)

def parseBytes (f : Font) (bs : List Nat) : Except PErr (List Lookup) := parseRunes f (decodeUtf8 bs)

end SfntV.Dsl
