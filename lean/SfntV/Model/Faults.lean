/-
Model of the I/O plumbing of header/write.go (the write loop of `Write`), cff/write.go (the
section loop), header/tables.go (`Read` against an arbitrary `io.ReaderAt`) and read.go (`Read`:
`io.ReadAll` for plain readers, then `header.Read`, first error returned) — property C18.
Core-only: linked into the driver.
-/
import SfntV.Model.Header
import SfntV.Generated.Faults

namespace SfntV.Faults
open SfntV SfntV.Header

/-! ## destinations (`io.Writer`) -/

/-- One `Write(p)` call as seen by the caller: from the state and `len p` the destination decides
how many bytes it takes (`n`), whether it reports an error, and its next state.  The bytes it
takes are the first `n` bytes of `p` (this is what `io.Writer` promises). -/
structure Dest (σ : Type) where
  step : σ → Nat → Nat × Bool × σ

/-- the `io.Writer` contract: `0 ≤ n ≤ len(p)` and a non-nil error whenever `n < len(p)` -/
def Dest.Honest (d : Dest σ) : Prop :=
  ∀ s len, (d.step s len).1 ≤ len ∧ ((d.step s len).2.1 = false → (d.step s len).1 = len)

/-- accepts exactly `k` bytes in total, then fails; short writes (`n = min(len p, remaining)`,
error iff short).  State: bytes accepted so far. -/
def shortW (k : Nat) : Dest Nat :=
  ⟨fun acc len => (min len (k - acc), decide (min len (k - acc) < len), acc + min len (k - acc))⟩

/-- fails without short-writing: a call that does not fit is refused as a whole (`n = 0`) -/
def atomicW (k : Nat) : Dest Nat :=
  ⟨fun acc len => if acc + len ≤ k then (len, false, acc + len) else (0, true, acc)⟩

/-- takes the whole slice and *then* reports the failure (`n = len p > 0` together with an
error), as a buffered destination whose flush fails does -/
def lateW (k : Nat) : Dest Nat :=
  ⟨fun acc len => (len, decide (k < acc + len), acc + len)⟩

/-- a destination that breaks the contract (short count, nil error); only used to check that
the model mirrors `n % 4` being computed from the *returned* count -/
def sloppyW (k : Nat) : Dest Nat :=
  ⟨fun acc len => (min len (k - acc), false, acc + min len (k - acc))⟩

/-- result of a writer: the count it returns, whether it returns an error, and (ghost) the
bytes the destination has taken -/
structure Res where
  n : Nat
  err : Bool
  out : Bytes
deriving Repr, DecidableEq

def Res.pre (n : Nat) (b : Bytes) (r : Res) : Res := ⟨n + r.n, r.err, b ++ r.out⟩

/-- `pad[:4-k]` with `k = n % 4` -/
def padOf (n : Nat) : Bytes := List.replicate (4 - n % 4) 0

/-- the loop over the table bodies, header/write.go:110-121.  The padding is computed from the
count `n` returned by the body write. -/
def bodiesTo (d : Dest σ) : σ → List Bytes → Res
  | _, [] => ⟨0, false, []⟩
  | s, b :: rest =>
    let r := d.step s b.length
    if r.2.1 then ⟨r.1, true, b.take r.1⟩
    else if r.1 % 4 ≠ 0 then
      let q := d.step r.2.2 (padOf r.1).length
      if q.2.1 then ⟨r.1 + q.1, true, b.take r.1 ++ (padOf r.1).take q.1⟩
      else (bodiesTo d q.2.2 rest).pre (r.1 + q.1) (b.take r.1 ++ (padOf r.1).take q.1)
    else (bodiesTo d r.2.2 rest).pre r.1 (b.take r.1)

/-- header/write.go:103-121: header bytes, then the bodies -/
def writeTo (d : Dest σ) (s : σ) (hdr : Bytes) (bodies : List Bytes) : Res :=
  let r := d.step s hdr.length
  if r.2.1 then ⟨r.1, true, hdr.take r.1⟩
  else (bodiesTo d r.2.2 bodies).pre r.1 (hdr.take r.1)

/-- `header.Write(w, scalerType, tables)` against destination `d`: the argument checks come
first and return `(0, err)` without touching the destination. -/
def faultWrite (d : Dest σ) (s : σ) (scaler : Nat) (ts : List Entry) : Outcome Res :=
  match write scaler ts with
  | .ok w => .ok (writeTo d s w.header (w.bodies.map (·.2)))
  | .err e => .err e
  | .panic p => .panic p

/-! The same loop over the chunk *lengths* only (what the driver runs for every fault point). -/

def countBodies (d : Dest σ) : σ → List Nat → Nat × Bool
  | _, [] => (0, false)
  | s, b :: rest =>
    let r := d.step s b
    if r.2.1 then (r.1, true)
    else if r.1 % 4 ≠ 0 then
      let q := d.step r.2.2 (4 - r.1 % 4)
      if q.2.1 then (r.1 + q.1, true)
      else let t := countBodies d q.2.2 rest; (r.1 + q.1 + t.1, t.2)
    else let t := countBodies d r.2.2 rest; (r.1 + t.1, t.2)

def countTo (d : Dest σ) (s : σ) (hdr : Nat) (bodies : List Nat) : Nat × Bool :=
  let r := d.step s hdr
  if r.2.1 then (r.1, true)
  else let t := countBodies d r.2.2 bodies; (r.1 + t.1, t.2)

/-- cff/write.go:231-236: the sections in order, first error returned; no count is reported.
Result: error?, and what the destination took. -/
def sectionsTo (d : Dest σ) : σ → List Bytes → Bool × Bytes
  | _, [] => (false, [])
  | s, b :: rest =>
    let r := d.step s b.length
    if r.2.1 then (true, b.take r.1)
    else let t := sectionsTo d r.2.2 rest; (t.1, b.take r.1 ++ t.2)

def sectionsErr (d : Dest σ) : σ → List Nat → Bool
  | _, [] => false
  | s, b :: rest =>
    let r := d.step s b
    if r.2.1 then true else sectionsErr d r.2.2 rest

/-! ## sources (`io.ReaderAt`, `io.Reader`) -/

/-- result of `ReadAt(buf[:n], off)` as far as `header.Read` looks at it: the full `n` bytes
with a nil error, `io.EOF`, or another error -/
inductive Rd where
  | ok (b : Bytes)
  | eof
  | fault
deriving Repr, DecidableEq

abbrev ReaderAt := Nat → Nat → Rd

/-- `bytes.Reader.ReadAt` on `f` (offsets are non-negative here) -/
def memReader (f : Bytes) : ReaderAt := fun off n =>
  if off < f.length ∧ off + n ≤ f.length then .ok ((f.drop off).take n) else .eof

/-- a source that returns an error other than EOF for every access touching an offset `≥ k` -/
def faultReader (f : Bytes) (k : Nat) : ReaderAt := fun off n =>
  if off + n > k then .fault else memReader f off n

abbrev TocRec := Bytes × Nat × Nat   -- name, offset, length

def decodeRec (e : Bytes) : TocRec :=
  (e.take 4, beVal ((e.drop 8).take 4), beVal ((e.drop 12).take 4))

/-- the loop over the directory entries, header/tables.go:85-115 -/
def readDir (ra : ReaderAt) : Nat → Nat → List TocRec → Outcome (List TocRec)
  | _, 0, acc => .ok acc.reverse
  | i, fuel+1, acc =>
    match ra (12 + 16 * i) 16 with
    | .eof => .err "io"
    | .fault => .err "io"
    | .ok e =>
      let r := decodeRec e
      if r.1.any (fun b => b < 0x20 || b > 0x7e) then .err "invalid"
      else if acc.any (fun x => x.1 == r.1) then .err "invalid"
      else readDir ra (i + 1) fuel (r :: acc)

def covLe (a b : Nat × Nat) : Bool := if a.1 ≠ b.1 then a.1 < b.1 else a.2 ≤ b.2

/-- sorted allocation list `(Start, End)`, `End` computed in uint32 -/
def coverage (recs : List TocRec) : List (Nat × Nat) :=
  (recs.map fun r => (r.2.1, (r.2.1 + r.2.2) % 4294967296)).mergeSort covLe

/-- `header.Read` (header/tables.go:54-151) against any `io.ReaderAt`; `negErr` is the error class
the source's answer to `ReadAt(·, -1)` leads to (only reached when the last allocation ends at 0) -/
def readRG (negErr : String) (maxTables : Nat) (ra : ReaderAt) : Outcome (Nat × List TocRec) :=
  match ra 0 6 with
  | .eof => .err "io"
  | .fault => .err "io"
  | .ok b =>
    let scaler := beVal (b.take 4)
    let n := beVal ((b.drop 4).take 2)
    if !scalerOk scaler then .err "unsupported"
    else if n > maxTables then .err "invalid"
    else
      match readDir ra 0 n [] with
      | .err e => .err e
      | .panic p => .panic p
      | .ok recs =>
        let cov := coverage recs
        match cov.head?, cov.getLast? with
        | some first, some last =>
          if first.1 < 12 then .err "invalid"
          else if overlapping cov then .err "invalid"
          else if last.2 = 0 then .err negErr        -- ReadAt at offset -1
          else
            match ra (last.2 - 1) 1 with
            | .eof => .err "invalid"                  -- "table extends beyond EOF"
            | .fault => .err "io"
            | .ok _ => .ok (scaler, recs)
        | _, _ => .err "invalid"                      -- "no tables"

/-- `header.Read` against a source that answers a negative offset with an error other than EOF
(`bytes.Reader`, `os.File`: "negative offset").  `readRG` takes the class of that answer as a
parameter: `io.SectionReader.ReadAt` answers a negative offset with `io.EOF`, which `header.Read`
reports as "table extends beyond EOF" (class "invalid"). -/
def readR (maxTables : Nat) (ra : ReaderAt) : Outcome (Nat × List TocRec) := readRG "io" maxTables ra

/-- a plain `io.Reader` delivering `f`, which fails (non-EOF) once `k` bytes have been
delivered (`none` = never): what `io.ReadAll` returns -/
def readAll (f : Bytes) (k : Option Nat) : Outcome Bytes :=
  match k with
  | some k => if k < f.length then .err "io" else .ok f
  | none => .ok f

/-- `sfnt.Read` (read.go:62-76 and the error plumbing after it): `decode` stands for everything
after `header.Read` (it gets the directory and the source). -/
def sfntRead (decode : Nat × List TocRec → ReaderAt → Outcome α) (ra : ReaderAt) : Outcome α :=
  match readR Gen.headerMaxTables ra with
  | .ok dir => decode dir ra
  | .err e => .err e
  | .panic p => .panic p

/-- `sfnt.Read` on a plain `io.Reader` -/
def sfntReadStream (decode : Nat × List TocRec → ReaderAt → Outcome α) (f : Bytes) (k : Option Nat) :
    Outcome α :=
  match readAll f k with
  | .ok data => sfntRead decode (memReader data)
  | .err e => .err e
  | .panic p => .panic p

end SfntV.Faults
