/-
C01 — `sfnt.Read` at the level of decoded table records: `readErr` (the consistency checks of
read.go:200-283), `merge` (read.go:285-523, line by line), and the explicit normal form `nf`
that one Write→Read cycle maps a font value to.  Core-only.
-/
import SfntV.Model.FontDerive

namespace SfntV.Font

/-! ## the reader -/

/-- glyph count `Read` settles on before looking at the glyph data (read.go:200-212);
`none` = "hmtx and maxp glyph count mismatch" -/
def settleNumGlyphs (T : Tables) : Option Nat :=
  let n0 := T.maxp.getD 0
  match T.hmtx with
  | some h =>
    if h.widths.length > 0 then
      if n0 = 0 then some h.widths.length
      else if h.widths.length > n0 then some n0
      else if h.widths.length ≠ n0 then none
      else some n0
    else some n0
  | none => some n0

/-- hmtx widths after the "fix up" truncation; empty when there is no usable hmtx -/
def hmtxWidths (T : Tables) : List Int :=
  match T.hmtx with
  | some h => if T.maxp.getD 0 ≠ 0 then h.widths.take (T.maxp.getD 0) else h.widths
  | none => []

/-- error class with which `Read` rejects the table set, `none` if it is accepted -/
def readErr (T : Tables) : Option String :=
  -- read.go:76-87: `!(hasGlyf && dir.Has("loca") || dir.Has("CFF "))`.
  -- REPAIRED C01-empty-glyf (3cdbec2): a zero-length glyf table (`T.outline.emptyGlyf`: every
  -- glyph blank) counts as present, so only a CFF-flavoured file without CFF table is rejected here.
  if T.scalerCFF && T.cff.isNone then some "no-glyph-data" else
  match settleNumGlyphs T with
  | none => some "hmtx-maxp-mismatch"
  | some n =>
    if T.scalerCFF then
      if n ≠ 0 ∧ T.outline.numGlyphs ≠ n then some "cff-count"
      else none
    else
      if T.head.isNone then some "missing-head"
      else if T.maxp.isNone then some "missing-maxp"
      else if n ≠ 0 ∧ T.outline.numGlyphs ≠ n then some "ttf-count"
      else none

/-- `Outlines` as assembled by read.go:214-290: hmtx widths override CFF widths; a glyf font
without usable hmtx has all-zero widths -/
def mergeOutline (T : Tables) : Outline :=
  let hw := hmtxWidths T
  let kind := if T.scalerCFF then Kind.cff else Kind.glyf
  let widths : Option (List Dy) :=
    if hw.length > 0 then some (hw.map Dy.ofInt)
    else if T.scalerCFF then T.outline.widths
    -- REPAIRED C01-no-hmtx-widths (feedc74): `widths = make([]funit.Int16, len(ttGlyphs))`
    else some (List.replicate T.outline.numGlyphs (Dy.ofInt 0))
  { T.outline with kind := kind, widths := widths }

/-- the `strings.Contains(… "Bold")` rule of read.go:408-413 -/
def boldWord (s : Str) : Bool :=
  hasInfix s_Bold s && !hasInfix s_SemiBold s && !hasInfix s_ExtraBold s

/-- `info.CapHeight == 0 && cmapBest != nil` fallback (read.go:355-366) -/
def heightFallback (cur : Int) (o : Outline) (gid : Nat) : Int :=
  if cur = 0 ∧ o.hasBest ∧ gid ≠ 0 ∧ gid < o.numGlyphs then o.heights.getD gid 0 else cur

/-- `os2Info.FamilyClass >> 8` ∈ {1,2,3,4,5,7} -/
def classIsSerif (familyClass : Int) : Bool :=
  let c := familyClass / 256
  c = 1 ∨ c = 2 ∨ c = 3 ∨ c = 4 ∨ c = 5 ∨ c = 7

def classIsScript (familyClass : Int) : Bool := familyClass / 256 = 10

/-- read.go:285-523 (valid when `readErr T = none`) -/
def merge (T : Tables) : FontMeta :=
  let o := mergeOutline T
  -- `fontInfo` is only set for the CFF scaler type (read.go:217-229)
  let cffI : Option CffInfo := if T.scalerCFF then T.cff else none
  -- naming, classes
  let family0 : Str := match T.name with | some n => n.family | none => []
  let family : Str :=
    match cffI with
    | some c => if family0.isEmpty then c.familyName else family0
    | none => family0
  let width : Nat := match T.os2 with | some s => s.widthClass | none => 0
  let weight0 : Nat := match T.os2 with | some s => s.weightClass | none => 0
  let weight : Nat :=
    match cffI with
    | some c => if weight0 = 0 then weightFromString c.weight else weight0
    | none => weight0
  -- version: name > head > CFF
  let version : Nat :=
    match T.name.bind (fun n => verParse n.version) with
    | some v => verRound v
    | none =>
      match T.head with
      | some h => verRound h.fontRevision
      | none =>
        match cffI with
        | some c => if c.version.isEmpty then 0 else verRound ((verParse c.version).getD 0)
        | none => 0
  let unitsPerEm : Nat :=
    match T.head with
    | some h => h.unitsPerEm
    | none =>
      match cffI with
      | some c => match c.fontMatrix.upem with | some u => u | none => 1000
      | none => 1000
  let fontMatrix : FM :=
    match cffI with
    | some c => c.fontMatrix
    | none => ⟨['U'], some unitsPerEm⟩
  -- vertical metrics: OS/2 > hhea
  let (ascent, descent, lineGap) : Int × Int × Int :=
    match T.os2 with
    | some s => (s.ascent, s.descent, s.lineGap)
    | none => match T.hmtx with
      | some h => (h.ascent, h.descent, h.lineGap)
      | none => (0, 0, 0)
  let cap0 : Int := match T.os2 with | some s => s.capHeight | none => 0
  let xh0 : Int := match T.os2 with | some s => s.xHeight | none => 0
  -- italic angle: post > CFF > hhea caret, rounded to 16.16
  let angle16 : Int :=
    match T.post with
    | some p => p.italicAngle.round16
    | none => match cffI with
      | some c => c.italicAngle.round16
      | none => match T.hmtx with
        | some h => h.caret16
        | none => 0
  let (ulPos, ulThick) : Dy × Dy :=
    match T.post with
    | some p => (Dy.ofInt p.underlinePosition, Dy.ofInt p.underlineThickness)
    | none => match cffI with
      -- REPAIRED C01-no-post-underline (0dc7ef1): rounded to whole units, as makePost stores them
      | some c => (Dy.ofInt c.underlinePosition.round, Dy.ofInt c.underlineThickness.round)
      | none => (Dy.ofInt 0, Dy.ofInt 0)
  -- style flags
  let sub : Str := match T.name with | some n => n.subfamily | none => []
  let isItalic : Bool :=
    angle16 ≠ 0 ||
    (match T.head with | some h => h.isItalic | none => false) ||
    (match T.os2 with | some s => s.isItalic || s.isOblique | none => false) ||
    (T.name.isSome && hasInfix s_Italic sub)
  let isOblique : Bool := match T.os2 with | some s => s.isOblique | none => false
  let isBold0 : Bool :=
    match T.os2 with
    | some s => s.isBold
    | none => match T.head with | some h => h.isBold | none => false
  let isBold : Bool := isBold0 || (T.name.isSome && boldWord sub)
  let isRegular : Bool :=
    if !(isItalic || isBold) then (match T.os2 with | some s => s.isRegular | none => false) else false
  { familyName := family, width := width, weight := weight,
    isRegular := isRegular, isBold := isBold, isItalic := isItalic, isOblique := isOblique,
    isSerif := match T.os2 with | some s => classIsSerif s.familyClass | none => false,
    isScript := match T.os2 with | some s => classIsScript s.familyClass | none => false,
    codePageRange := match T.os2 with | some s => s.codePageRange | none => 0,
    version := version,
    creationTime := match T.head with | some h => h.created | none => Time.zero,
    modificationTime := match T.head with | some h => h.modified | none => Time.zero,
    description := match T.name with | some n => n.description | none => [],
    sampleText := match T.name with | some n => n.sampleText | none => [],
    copyright := match T.name with
      | some n => n.copyright
      | none => match cffI with | some c => c.copyright | none => [],
    trademark := match T.name with
      | some n => n.trademark
      | none => match cffI with | some c => c.notice | none => [],
    license := match T.name with | some n => n.license | none => [],
    licenseURL := match T.name with | some n => n.licenseURL | none => [],
    permUse := match T.os2 with | some s => s.permUse | none => 0,
    unitsPerEm := unitsPerEm, fontMatrix := fontMatrix,
    ascent := ascent, descent := descent, lineGap := lineGap,
    capHeight := heightFallback cap0 o o.gidH,
    xHeight := heightFallback xh0 o o.gidX,
    italicAngle := ⟨angle16, 16⟩,
    underlinePosition := ulPos, underlineThickness := ulThick,
    outline := o,
    gdef := T.gdef,
    gsub := match T.gsub with
      | some g => some g
      | none => if !isFixedPitch o.widthList && o.hasBest then o.stdLig else none,
    gpos := match T.gpos with
      | some g => some g
      | none => T.kern }

/-- one Write→Read cycle on the model (the environment never matters, see `merge_derive_env`) -/
def rewrite (env : Env) (F : FontMeta) : FontMeta := merge (codec (derive env F))

/-! ## the normal form, field by field -/

/-- version as re-read from the name table string "Version d.ddd" -/
def nfVersion (v : Nat) : Nat := verOfDecimal (verThousandths v) 3

def nfOutline (o : Outline) : Outline :=
  let ws := o.widthList.map fun w => toInt16 w.trunc
  { o with widths := if ws.length > 0 then some (ws.map Dy.ofInt)
                     else match o.kind with | .cff => o.widths | .glyf => some [] }

/-- What `Read(Write(F))` is, spelled out.  Every field that is not the identity is a place
where "comes back unchanged" holds only up to the stated normalisation. -/
def nf (F : FontMeta) : FontMeta :=
  let o := nfOutline F.outline
  let cap0 : Int := if F.capHeight > 0 then F.capHeight else 0
  let xh0 : Int := if F.xHeight > 0 then F.xHeight else 0
  let isItalic : Bool := !F.italicAngle.isZero || F.isOblique || hasInfix s_Italic (subfamily F)
  let isBold : Bool := (F.isBold && !F.isRegular) || boldWord (subfamily F)
  { F with
    -- three decimals, as printed into the name table
    version := nfVersion F.version,
    -- whole seconds; the 1904 epoch is the "unset" value of the head table
    creationTime := decodeTime (encodeTime F.creationTime),
    modificationTime := decodeTime (encodeTime F.modificationTime),
    -- fsType knows four values
    permUse := if 1 ≤ F.permUse ∧ F.permUse ≤ 3 then F.permUse else 0,
    -- TrueType fonts have no font matrix of their own
    fontMatrix := match F.outline.kind with
      | .glyf => ⟨['U'], some F.unitsPerEm⟩
      | .cff => F.fontMatrix,
    -- non-positive heights are not stored; zero means "measure the glyph for H / x"
    capHeight := heightFallback cap0 o o.gidH,
    xHeight := heightFallback xh0 o o.gidX,
    -- 16.16 fixed point in the post table
    italicAngle := ⟨toInt32 F.italicAngle.round16, 16⟩,
    underlinePosition := Dy.ofInt (toInt16 F.underlinePosition.round),
    underlineThickness := Dy.ofInt (toInt16 F.underlineThickness.round),
    -- style flags are re-derived from head/OS-2/post and the subfamily *string*
    isItalic := isItalic,
    isBold := isBold,
    isRegular := F.isRegular && !isItalic && !isBold,
    isScript := F.isScript && !F.isSerif,
    outline := o,
    -- a proportional font without GSUB gets the standard f-ligatures
    gsub := match F.gsub with
      | some g => some g
      | none => if !isFixedPitch o.widthList && o.hasBest then o.stdLig else none }

/-- font values with one advance width per glyph and a version that fits its 32-bit field (what
the Go types cannot express) -/
def InDomain (F : FontMeta) : Prop :=
  (∀ l, F.outline.widths = some l → l.length = F.outline.numGlyphs) ∧
  F.version < 4294967296

instance (F : FontMeta) : Decidable (InDomain F) := by
  unfold InDomain
  cases h : F.outline.widths with
  | none =>
    exact decidable_of_iff (F.version < 4294967296)
      ⟨fun h2 => ⟨(by intro l hl; cases hl), h2⟩, fun h2 => h2.2⟩
  | some l0 =>
    exact decidable_of_iff (l0.length = F.outline.numGlyphs ∧ F.version < 4294967296)
      ⟨fun h2 => ⟨(by intro l hl; cases hl; exact h2.1), h2.2⟩, fun h2 => ⟨h2.1 l0 rfl, h2.2⟩⟩

end SfntV.Font
