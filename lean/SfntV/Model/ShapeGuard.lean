/-
Decidable hypotheses of the C07 theorems: which lookup lists are `Guarded` (every
coverage index stays inside the array it indexes — what the reader establishes by pruning —
and no positioning value uses an unimplemented field) and which contain contextual
subtables.  Core-only: the driver evaluates these on every case.
-/
import SfntV.Model.ShapeEngine

namespace SfntV.Shape

/-- all coverage indices are below `n` -/
def covBelow (c : Cov) (n : Nat) : Bool := c.all fun e => e.2 < n

def valueOk : Option ValueRec → Bool
  | none => true
  | some v => !v.unimpl

def pairOk : Option PairAdj → Bool
  | none => false
  | some pa => valueOk pa.first && valueOk pa.second

/-- The index guards that `apply` relies on and that `gtab.Read` establishes
(`cov.Prune(len(...))` in the readers; `glyphCount < 1` is rejected for context format 3).
Each conjunct is one `panic` site of the model; all were run on the real code. -/
def Subtable.guarded : Subtable → Bool
  | .gsub11 _ _ => true
  | .gsub12 cov subst => covBelow cov subst.length
  | .gsub21 cov repl => covBelow cov repl.length
  | .gsub31 cov alts => covBelow cov alts.length
  | .gsub41 cov ligs => covBelow cov ligs.length
  | .gsub81 input _ _ subst => covBelow input subst.length
  | .ctx1 cov rules => covBelow cov rules.length
  | .ctx2 _ _ _ => true
  | .ctx3 input _ => !input.isEmpty
  | .chain1 cov rules => covBelow cov rules.length
  | .chain2 _ _ _ _ _ => true
  | .chain3 _ _ _ _ => true
  | .gpos11 _ adj => valueOk adj
  | .gpos12 cov adj => covBelow cov adj.length && adj.all valueOk
  | .gpos21 pairs => pairs.all fun e => pairOk e.2
  | .gpos22 _ _ _ adj => adj.all fun row => row.all pairOk
  | .gpos31 cov recs => covBelow cov recs.length
  | .gpos41 markCov baseCov marks bases _ => covBelow markCov marks.length && covBelow baseCov bases.length
  | .gpos61 markCov baseCov marks bases => covBelow markCov marks.length && covBelow baseCov bases.length

/-- subtables that push onto the stack of nested actions -/
def Subtable.contextual : Subtable → Bool
  | .ctx1 _ _ | .ctx2 _ _ _ | .ctx3 _ _ | .chain1 _ _ | .chain2 _ _ _ _ _ | .chain3 _ _ _ _ => true
  | _ => false

def Lookup.guarded (lk : Lookup) : Bool := lk.subtables.all Subtable.guarded
def Lookup.simple (lk : Lookup) : Bool := lk.subtables.all fun s => !s.contextual

/-- hypothesis of `C07_no_panic`: every lookup is guarded -/
def guardedLL (ll : LookupList) : Bool := ll.all Lookup.guarded
/-- no contextual subtable anywhere in the lookup list -/
def simpleLL (ll : LookupList) : Bool := ll.all Lookup.simple

/-- a chained context format 3 has at least one input coverage (the reader rejects 0) -/
def Subtable.chain3Ok : Subtable → Bool
  | .chain3 _ input _ _ => !input.isEmpty
  | _ => true

/-- hypothesis of `C07_no_panic`: `guardedLL` and every chained context format 3 has a
non-empty input sequence — both established by the reader -/
def readerShapedLL (ll : LookupList) : Bool :=
  guardedLL ll && ll.all fun lk => lk.subtables.all Subtable.chain3Ok

/-- subtables that never change the length of the sequence (everything except the multiple
and the ligature substitution) -/
def Subtable.fixedLen : Subtable → Bool
  | .gsub21 _ _ | .gsub41 _ _ => false
  | _ => true

/-- subtables that never merge glyphs (everything except the ligature substitution) -/
def Subtable.mergeFree : Subtable → Bool
  | .gsub41 _ _ => false
  | _ => true

def Lookup.mergeFree (lk : Lookup) : Bool := lk.subtables.all Subtable.mergeFree

/-- the nested actions a subtable can put on the stack -/
def Subtable.actions : Subtable → List Action
  | .ctx1 _ rules | .ctx2 _ _ rules | .chain1 _ rules | .chain2 _ _ _ _ rules =>
    rules.flatMap fun rs => rs.flatMap fun r => r.actions
  | .ctx3 _ acts | .chain3 _ _ _ acts => acts
  | _ => []

/-- the lookup a nested action refers to is absent or contains no ligature substitution -/
def actOK (ll : LookupList) (act : Action) : Bool :=
  match ll[act.lookup]? with
  | none => true
  | some lk => lk.mergeFree

/-- no nested action of any contextual subtable runs a lookup with a ligature substitution
(the nested lookup may be contextual itself, and may insert glyphs: GSUB 2.1) -/
def nestedMergeFreeLL (ll : LookupList) : Bool :=
  ll.all fun lk => lk.subtables.all fun s => s.actions.all (actOK ll)

/-- the class of cases covered by the no-panic theorems: guarded, and either no contextual
subtable (`C07_no_panic_partial`) or no ligature substitution as a nested action
(`C07_no_panic_nested_mergefree`) -/
def guardedCase (ll : LookupList) (_lookups : List Nat) : Bool :=
  guardedLL ll && (simpleLL ll || nestedMergeFreeLL ll)

end SfntV.Shape
