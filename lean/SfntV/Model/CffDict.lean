/-
Model of cff/dict.go: DICT operand encoding (`cffDict.encode`: five integer forms, nibble-coded
reals via `encodeFloat`) and decoding (`decodeDict`, `decodeFloat`).  Property C13.
Core-only: linked into the driver.

Reals are modelled exactly, as decimals `± mant · 10^exp` (DESIGN §4: no floats across the tie).
`strconv.ParseFloat` is modelled by its grammar and by the exact decimal value; the rounding to
float64 is not modelled (the harness compares through the shortest decimal that identifies the
float64, which equals the exact decimal for values of at most 15 significant digits).
-/
import SfntV.Prelude.Bytes
import SfntV.Prelude.Outcome

namespace SfntV.Cff
open SfntV

/-- a DICT operand as the Go code holds it: `int32`, `float64` (here: exact decimal), `string` -/
inductive Operand where
  | int (v : Int)
  | real (neg : Bool) (mant : Nat) (exp : Int)
  | str (s : String)
deriving Repr, DecidableEq

/-! ## integers: `cffDict.encode`, `case int32` -/

/-- the five size classes; `a` is an `int32` -/
def encodeInt (a : Int) : Bytes :=
  if -107 ≤ a ∧ a ≤ 107 then [UInt8.ofNat (a + 139).toNat]
  else if 108 ≤ a ∧ a ≤ 1131 then
    let y := (a - 108).toNat
    [UInt8.ofNat (y / 256 + 247), UInt8.ofNat (y % 256)]
  else if -1131 ≤ a ∧ a ≤ -108 then
    let y := (-108 - a).toNat
    [UInt8.ofNat (y / 256 + 251), UInt8.ofNat (y % 256)]
  else if -32768 ≤ a ∧ a ≤ 32767 then
    let u := (a % 65536).toNat            -- uint16(a)
    [28, UInt8.ofNat (u / 256), UInt8.ofNat (u % 256)]
  else
    let u := (a % 4294967296).toNat       -- uint32(a)
    [29, UInt8.ofNat (u / 16777216), UInt8.ofNat (u / 65536 % 256), UInt8.ofNat (u / 256 % 256),
     UInt8.ofNat (u % 256)]

/-! ## reals: `encodeFloat` from the point "now i contains all the digits" -/

/-- `for i%10 == 0 { i /= 10 }` (fuel: number of digits; `i ≠ 0`) -/
def stripZeros : Nat → Nat → Nat
  | 0, i => i
  | fuel+1, i => if i % 10 = 0 ∧ i ≠ 0 then stripZeros fuel (i / 10) else i

/-- `itoaBinary`: decimal digits, most significant first; empty for 0 -/
def digitsAux : Nat → Nat → List Nat → List Nat
  | 0, _, acc => acc
  | fuel+1, x, acc => if x = 0 then acc else digitsAux fuel (x / 10) (x % 10 :: acc)

def digitsOf (x : Nat) : List Nat := digitsAux (x + 1) x []

/-- the nibble string (without terminator) written for `± 0.d₁d₂… · 10^l`, where `i` is the
integer `d₁d₂…d₉` chosen by the float computation -/
def realNibbles (neg : Bool) (i : Nat) (l : Int) : List Nat :=
  let head0 : List Nat := if neg then [14] else []
  let digits := digitsOf (stripZeros 20 i)
  let m : Int := digits.length
  if l > m + 2 then head0 ++ (digits ++ [11] ++ digitsOf (l - m).toNat)
  else if l = m + 2 then head0 ++ (digits ++ [0, 0])
  else if l = m + 1 then head0 ++ (digits ++ [0])
  else if l = m then head0 ++ digits
  else if l > 0 then (head0 ++ digits.take l.toNat ++ [10]) ++ digits.drop l.toNat
  else if l = 0 then (head0 ++ [10]) ++ digits
  else if l = -1 then (head0 ++ [10, 0]) ++ digits
  else head0 ++ (digits ++ [12] ++ digitsOf (-l + m).toNat)

/-- two nibbles per byte, terminated by `f` (a lone `ff` if the count is even) -/
def packNibbles : List Nat → Bytes
  | a :: b :: rest => UInt8.ofNat (a * 16 + b) :: packNibbles rest
  | [a] => [UInt8.ofNat (a * 16 + 15)]
  | [] => [0xff]

/-- `encodeFloat` on the 9-digit decimal `i · 10^(l-9)`, `10^8 ≤ i < 10^9` (or zero: `i = 0`) -/
def encodeReal (neg : Bool) (i : Nat) (l : Int) : Bytes :=
  if i = 0 then [0x0f] else packNibbles (realNibbles neg i l)

/-! ## `decodeFloat` -/

/-- the nibbles up to the terminator `f`, and the bytes after the byte holding the terminator -/
def floatNibbles : Bytes → Option (List Nat × Bytes)
  | [] => none
  | b :: rest =>
    let hi := b.toNat / 16
    let lo := b.toNat % 16
    if hi = 15 then some ([], rest)
    else if lo = 15 then some ([hi], rest)
    else match floatNibbles rest with
      | some (ns, r) => some (hi :: lo :: ns, r)
      | none => none

/-- The decimal string built by `decodeFloat`, over the alphabet `0`–`9`, `.`, `e`, `-`: a
character is modelled by a code — the digit itself, 10 for `.`, 11 for `e`, 14 for `-` (the
codes of the nibbles that produce them); nibble `c` gives the two characters `e-`. -/
def nibChars (n : Nat) : List Nat := if n = 12 then [11, 14] else [n]

def isDig (c : Nat) : Bool := c < 10

/-- digits prefix as a number, count, rest -/
def takeDigits : List Nat → Nat → Nat → Nat × Nat × List Nat
  | c :: cs, acc, n => if isDig c then takeDigits cs (acc * 10 + c) (n + 1) else (acc, n, c :: cs)
  | [], acc, n => (acc, n, [])

/-- the grammar `strconv.ParseFloat` accepts over this alphabet, after the optional sign:
digits with an optional `.`, at least one digit, optional `e[-]digits`; the exact value
`(mant, exp)`; `none` = syntax error -/
def parseUnsigned (s1 : List Nat) : Option (Nat × Int) :=
  let (ip, nip, s2) := takeDigits s1 0 0
  let (mant, nfrac, ndig, s3) := match s2 with
    | 10 :: r =>
      let (m, nf, r') := takeDigits r ip 0
      (m, nf, nip + nf, r')
    | _ => (ip, 0, nip, s2)
  if ndig = 0 then none
  else match s3 with
    | [] => some (mant, -(nfrac : Int))
    | 11 :: r =>
      let (eneg, r1) := match r with
        | 14 :: r' => (true, r')
        | _ => (false, r)
      let (e, ne, r2) := takeDigits r1 0 0
      if ne = 0 ∨ r2 ≠ [] then none
      else some (mant, (if eneg then -(e : Int) else (e : Int)) - (nfrac : Int))
    | _ => none

def parseDec (s : List Nat) : Option (Bool × Nat × Int) :=
  match s with
  | c :: r =>
    if c = 14 then (parseUnsigned r).map fun v => (true, v.1, v.2)
    else (parseUnsigned s).map fun v => (false, v.1, v.2)
  | [] => (parseUnsigned s).map fun v => (false, v.1, v.2)

def numDigits (x : Nat) : Nat := (digitsOf x).length

/-- strip trailing decimal zeros of the mantissa (`0` becomes `+0·10^0`) -/
def normReal (neg : Bool) (m : Nat) (e : Int) : Bool × Nat × Int :=
  if m = 0 then (false, 0, 0)
  else
    let m' := stripZeros (numDigits m) m
    (neg, m', e + ((numDigits m : Int) - (numDigits m' : Int)))

/-- float64 overflow: the decimal rounds to ±Inf, i.e. is at least `2^1024 - 2^970` -/
def overflowBound : Nat := 2 ^ 1024 - 2 ^ 970

/-- compare `m · 10^e` with a natural number `t`: is it `≥ t` / `> t`? (only for moderate `e`) -/
def decGe (m : Nat) (e : Int) (t : Nat) : Bool :=
  if e ≥ 0 then m * 10 ^ e.toNat ≥ t else m ≥ t * 10 ^ (-e).toNat
def decGt (m : Nat) (e : Int) (t : Nat) : Bool :=
  if e ≥ 0 then m * 10 ^ e.toNat > t else m > t * 10 ^ (-e).toNat

/-- what `decodeFloat` makes of the exact decimal `± m·10^e` delivered by `ParseFloat`: a range
error if it rounds to ±Inf, then the clamps `|x| > 1e300 → ±1e300`, `|x| < 1e-300 → 0`; the
result is normalised (no trailing zeros in the mantissa). -/
def clampValue (v : Bool × Nat × Int) : Outcome (Bool × Nat × Int) :=
  let (neg, m, e) := v
  if m = 0 then .ok (false, 0, 0)
  else
    let mag : Int := (numDigits m : Int) + e      -- 10^(mag-1) ≤ value < 10^mag
    if mag > 320 then .err "other"
    else if mag < -320 then .ok (false, 0, 0)
    else if decGe m e overflowBound then .err "other"
    else if decGt m e (10 ^ 300) then .ok (neg, 1, 300)
    else if !(decGe m (e + 300) 1) then .ok (false, 0, 0)   -- m·10^e < 10^-300
    else .ok (normReal neg m e)

/-- value delivered by `decodeFloat` for the decimal string `s`: `ParseFloat` (syntax error or
exact decimal), then `clampValue`. -/
def floatValue (s : List Nat) : Outcome (Bool × Nat × Int) :=
  match parseDec s with
  | none => .err "other"
  | some v => clampValue v

/-- `decodeFloat`: operand and remaining bytes -/
def decodeReal (buf : Bytes) : Outcome (Operand × Bytes) :=
  match floatNibbles buf with
  | none => .err "other"          -- "incomplete float"
  | some (ns, rest) =>
    if ns.any (· = 13) then .err "other"   -- "unsupported float format"
    else match floatValue (ns.flatMap nibChars) with
      | .ok (neg, m, e) => .ok (.real neg m e, rest)
      | .err e => .err e
      | .panic s => .panic s

/-! ## `decodeDict` -/

inductive Tok where
  | operand (o : Operand)
  | op (code : Nat)
deriving Repr, DecidableEq

def toI16 (u : Nat) : Int := if u < 32768 then (u : Int) else (u : Int) - 65536
def toI32 (u : Nat) : Int := if u < 2147483648 then (u : Int) else (u : Int) - 4294967296

/-- one iteration of the `for len(buf) > 0` loop: the token and the remaining bytes -/
def dictStep : Bytes → Outcome (Tok × Bytes)
  | [] => .err "invalid"
  | b0 :: rest =>
    let v := b0.toNat
    if v = 12 then
      match rest with
      | b1 :: r => .ok (.op (12 * 256 + b1.toNat), r)
      | [] => .err "invalid"
    else if v ≤ 21 then .ok (.op v, rest)
    else if v ≤ 27 then .err "invalid"
    else if v = 28 then
      match rest with
      | b1 :: b2 :: r => .ok (.operand (.int (toI16 (b1.toNat * 256 + b2.toNat))), r)
      | _ => .err "invalid"
    else if v = 29 then
      match rest with
      | b1 :: b2 :: b3 :: b4 :: r =>
        .ok (.operand (.int (toI32 (((b1.toNat * 256 + b2.toNat) * 256 + b3.toNat) * 256 + b4.toNat))), r)
      | _ => .err "invalid"
    else if v = 30 then
      match decodeReal rest with
      | .ok (o, r) => .ok (.operand o, r)
      | .err e => .err e
      | .panic s => .panic s
    else if v = 31 then .err "invalid"
    else if v ≤ 246 then .ok (.operand (.int ((v : Int) - 139)), rest)
    else if v ≤ 250 then
      match rest with
      | b1 :: r => .ok (.operand (.int ((v : Int) * 256 + b1.toNat + (108 - 247 * 256))), r)
      | [] => .err "invalid"
    else if v ≤ 254 then
      match rest with
      | b1 :: r => .ok (.operand (.int (-(v : Int) * 256 - b1.toNat - (108 - 251 * 256))), r)
      | [] => .err "invalid"
    else .err "invalid"

/-- the operators whose operands are SIDs (`dictOp.isString`) -/
def isStringOp (op : Nat) : Bool :=
  op = 0x0000 ∨ op = 0x0001 ∨ op = 0x0C00 ∨ op = 0x0002 ∨ op = 0x0003 ∨ op = 0x0004 ∨
  op = 0x0C15 ∨ op = 0x0C16 ∨ op = 0x0C1E ∨ op = 0x0C26

def opROS : Nat := 0x0C1E
def opSyntheticBase : Nat := 0x0C14

/-- `cffStrings.get` with `std` the standard strings and `custom` the String INDEX -/
def stringsGet (std custom : Array String) (i : Int) : Option String :=
  if i < 0 then none
  else if i.toNat < std.size then std[i.toNat]?
  else custom[i.toNat - std.size]?

/-- is the decimal `m·10^e` an integer in the int32 range?  (`idx = int32(x); float64(idx) == x`;
Go's conversion of an out-of-range float is implementation-defined — amd64 gives MinInt32,
so the comparison fails for everything except -2^31 itself, which is negative and rejected by
`get`.) -/
def realAsIndex (neg : Bool) (m : Nat) (e : Int) : Option Int :=
  if e < 0 then (if m = 0 then some 0 else none)   -- normalised mantissa: not an integer
  else if e > 12 then none
  else
    let v : Int := (m * 10 ^ e.toNat : Nat)
    let v := if neg then -v else v
    if -2147483648 ≤ v ∧ v ≤ 2147483647 then some v else none

/-- `flush`: convert SIDs to strings for string-valued operators -/
def flushArgs (std custom : Array String) (op : Nat) (stack : List Operand) : Outcome (List Operand) :=
  if isStringOp op then
    let l := if op = opROS ∧ stack.length > 2 then 2 else stack.length
    let conv : Operand → Outcome Operand := fun o =>
      let idx : Option Int := match o with
        | .int v => some v
        | .real neg m e => realAsIndex neg m e
        | .str _ => none
      match idx with
      | none => .err "other"
      | some i => match stringsGet std custom i with
        | some s => .ok (.str s)
        | none => .err "other"
    let rec go : List Operand → Outcome (List Operand)
      | [] => .ok []
      | o :: os => match conv o with
        | .ok o' => (match go os with
          | .ok r => .ok (o' :: r)
          | e => e)
        | .err e => .err e
        | .panic s => .panic s
    match go (stack.take l) with
    | .ok r => .ok (r ++ stack.drop l)
    | e => e
  else .ok stack

/-- `res[op] = stack` on an association list (later entries replace earlier ones) -/
def dictSet (d : List (Nat × List Operand)) (op : Nat) (args : List Operand) : List (Nat × List Operand) :=
  (d.filter (·.1 ≠ op)) ++ [(op, args)]

/-- `decodeDict`; fuel = number of bytes (every iteration consumes at least one) -/
def decodeDictAux (std custom : Array String) :
    Nat → Bytes → List Operand → List (Nat × List Operand) → Outcome (List (Nat × List Operand))
  | _, [], stack, res => if stack.length > 0 then .err "invalid" else .ok res
  | 0, _ :: _, _, _ => .err "fuel"
  | fuel+1, buf, stack, res =>
    match dictStep buf with
    | .err e => .err e
    | .panic s => .panic s
    | .ok (.operand o, r) => decodeDictAux std custom fuel r (stack ++ [o]) res
    | .ok (.op code, r) =>
      match flushArgs std custom code stack with
      | .ok args => decodeDictAux std custom fuel r [] (dictSet res code args)
      | .err e => .err e
      | .panic s => .panic s

def decodeDict (std custom : Array String) (buf : Bytes) : Outcome (List (Nat × List Operand)) :=
  decodeDictAux std custom buf.length buf [] []

/-- `sortedKeys`: ROS first, SyntheticBase before it, the rest ascending -/
def keyRank (op : Nat) : Int :=
  if op = opROS then -1 else if op = opSyntheticBase then -2 else op

/-- insertion into a list sorted by rank (after the entries of equal rank) -/
def insertByRank (e : Nat × List Operand) : List (Nat × List Operand) → List (Nat × List Operand)
  | [] => [e]
  | x :: xs => if keyRank e.1 < keyRank x.1 then e :: x :: xs else x :: insertByRank e xs

/-- `sort.Slice(keys, conv(keys[i]) < conv(keys[j]))` (the keys of a map are distinct, so the
order is determined); a structural insertion sort, so that it evaluates in the kernel -/
def sortDict (d : List (Nat × List Operand)) : List (Nat × List Operand) :=
  d.foldl (fun acc e => insertByRank e acc) []

/-! ## `cffDict.encode` for integer and real operands

Reals are given as the 9-digit decimal `(neg, i, l)` produced by the float computation
(`real neg i l` here means `± 0.i · 10^l`, see `encodeReal`). Strings are not modelled on
this side. -/

def encodeOperand : Operand → Bytes
  | .int v => encodeInt v
  | .real neg i l => 0x1e :: encodeReal neg i l
  | .str _ => []

def encodeOp (op : Nat) : Bytes :=
  if op > 255 then [12, UInt8.ofNat op] else [UInt8.ofNat op]

def encodeDict (d : List (Nat × List Operand)) : Bytes :=
  (sortDict d).flatMap fun e => e.2.flatMap encodeOperand ++ encodeOp e.1

end SfntV.Cff
