/-
C02 — checked-index models of the three CFF "set" readers with cost counters:
`readCharset` (cff/charset.go:28-93), `readEncoding` (cff/encoding.go:29-120) and `readFDSelect`
(cff/fdselect.go:31-100) together with the LAZY ACCESSOR it returns (the closure
`func(gid glyph.ID) int`, modelled as the data it captures, `FdSel`, plus the checked operation
`lookup`).  The parser is a plain byte view (C17): every reader is called on a fresh parser at
position 0 (hooks `VerifReadCharset` / `VerifReadEncoding` / `VerifReadFDSelect`; `cff.Read` seeks
to the offset first, which only shifts the view).  Error classes as in the value-level models of
C13 (`Cff.readCharset`, `Cff.readEncoding`, `Cff.readFDSelect`): "eof" / "invalid" / "unsupported"
/ "other" (`fmt.Errorf`).  Core-only.
-/
import SfntV.Model.TotalBase

namespace SfntV.Total.CffSets
open SfntV SfntV.Total

/-! ## parser reads -/

/-- `p.ReadBytes(n)` with constant `n ≥ 1` at `pos`; I/O errors are the class "eof" -/
def rdBytes (site : String) (b : Bytes) (pos n : Nat) : Outcome Bytes :=
  match readBytes site b pos n with
  | .err _ => .err "eof"
  | r => r

/-- `p.ReadUint8()` (parser.go:111-117: `ReadBytes(1)`, `buf[0]`) -/
def u8 (site : String) (b : Bytes) (pos : Nat) : Outcome Nat := do
  let w ← rdBytes site b pos 1
  let v ← idx site w 0
  pure v.toNat

/-- `p.ReadUint16()` -/
def u16 (site : String) (b : Bytes) (pos : Nat) : Outcome Nat := do
  let w ← rdBytes site b pos 2
  w16 site w 0

/-- `io.ReadFull(p, buf)` with `len(buf) = n` (parser.go:92-108 `Read`: chunks of at most 1024
bytes through `ReadBytes`, so no panic); fails iff fewer than `n` bytes remain; nothing is read
for `n = 0` -/
def pRead (b : Bytes) (pos n : Nat) : Outcome Bytes :=
  if n = 0 then .ok []
  else if pos + n ≤ b.length then .ok ((b.drop pos).take n) else .err "eof"

/-- checked store `xs[i] = v` -/
def setAt (site : String) (xs : List α) (i : Nat) (v : α) : Outcome (List α) :=
  if i < xs.length then .ok (xs.set i v) else .panic site

/-- `make([]T, n)` with `n` a Go `int` supplied by the caller: panics ("makeslice: len out of
range") for negative `n` and beyond the address space -/
def mkSliceInt (site : String) (n : Int) (c : Cost) : Outcome Cost :=
  if n < 0 ∨ n ≥ 2 ^ 47 then .panic site else .ok (c.mem n.toNat)

/-! ## `readCharset` -/

/-- format 0, charset.go:41-47: `k` names left, parser at `pos`.  The appends stay within the
capacity `nGlyphs` allocated at charset.go:38 -/
def names0 (b : Bytes) : Nat → Nat → Cost → Outcome (List Int × Cost)
  | 0, _, c => .ok ([], c)
  | k+1, pos, c => do
    let xi ← u16 "charset.go:42#ReadUint16" b pos
    let (l, c) ← names0 b k (pos + 2) c.tick
    .ok ((xi : Int) :: l, c)

/-- the inner loops charset.go:58-64 and 76-82 (`for i := int32(0); i < int32(nLeft)+1; i++`):
`k` iterations left, `i` the loop variable, `len` = `len(charset)`, `n` = `nGlyphs` = the
capacity: an append beyond it grows the slice (charged 1 per element) -/
def run (n first : Nat) : Nat → Nat → Nat → Cost → Outcome (List Int × Cost)
  | 0, _, _, c => .ok ([], c)
  | k+1, i, len, c =>
    if first + i > 0xFFFF then .err "other" else do
    let c := if len ≥ n then (c.tick).mem 1 else c.tick
    let (l, c) ← run n first k (i + 1) (len + 1) c
    .ok (((first + i : Nat) : Int) :: l, c)

/-- the outer loops of formats 1 and 2 (`for len(charset) < nGlyphs`), `w` = width of the
`nLeft` field = the format.  Every range appends at least one name, so `fuel = nGlyphs` is never
exhausted (`ranges_fuel`); result: the names appended and the parser position afterwards. -/
def ranges (b : Bytes) (w n : Nat) : Nat → Nat → Nat → Cost → Outcome ((List Int × Nat) × Cost)
  | 0, len, pos, c => if len < n then .err "fuel" else .ok (([], pos), c)
  | fuel+1, len, pos, c =>
    if len < n then do
      let first ← u16 (if w = 1 then "charset.go:50#ReadUint16" else "charset.go:68#ReadUint16") b pos
      let nLeft ← (if w = 1 then u8 "charset.go:54#ReadUint8" b (pos + 2)
                   else u16 "charset.go:72#ReadUint16" b (pos + 2))
      let (l1, c) ← run n first (nLeft + 1) 0 len (c.tick 2)
      let ((l2, pos'), c) ← ranges b w n fuel (len + (nLeft + 1)) (pos + 2 + w) c
      .ok ((l1 ++ l2, pos'), c)
    else .ok (([], pos), c)

/-- `readCharset(p, nGlyphs)`, `nGlyphs` a Go `int`; value = the names (leading 0 included) and
the parser position afterwards -/
def readCharset (b : Bytes) (nGlyphs : Int) : Outcome ((List Int × Nat) × Cost) :=
  if nGlyphs < 1 ∨ nGlyphs ≥ 0x10000 then .err "other" else
  let n := nGlyphs.toNat
  do
  let format ← u8 "charset.go:33#ReadUint8" b 0
  let c ← mkSlice "charset.go:38#make([]int32, 1, nGlyphs)" n Cost.zero.tick
  if format = 0 then do
    let (l, c) ← names0 b (n - 1) 1 c
    .ok ((0 :: l, 1 + 2 * (n - 1)), c)
  else if format = 1 ∨ format = 2 then do
    let ((l, pos), c) ← ranges b format n n 1 1 c
    -- charset.go:88 `len(charset) != nGlyphs`
    if 1 + l.length ≠ n then .err "other" else .ok ((0 :: l, pos), c)
  else .err "other"

/-! ## `readEncoding` -/

/-- format 0, encoding.go:51-57 `for _, c := range codes`; `cur` = `currentGid` (uint16) -/
def codes0 : List UInt8 → List Nat → Nat → Cost → Outcome ((List Nat × Nat) × Cost)
  | [], res, cur, c => .ok ((res, cur), c)
  | x :: rest, res, cur, c => do
    let v ← idx "encoding.go:52#res[c]" res x.toNat
    if v ≠ 0 then .err "invalid" else do
    let res ← setAt "encoding.go:55#res[c]" res x.toNat cur
    codes0 rest res ((cur + 1) % 65536) c.tick

/-- format 1, encoding.go:75-83 `for j := int(first); j <= int(first+nLeft); j++`: `k`
iterations left; `nCs` = `len(charset)` -/
def range1 (nCs : Nat) : Nat → Nat → List Nat → Nat → Cost → Outcome ((List Nat × Nat) × Cost)
  | 0, _, res, cur, c => .ok ((res, cur), c)
  | k+1, j, res, cur, c =>
    if cur ≥ nCs then .err "invalid" else do
    let v ← idx "encoding.go:78#res[j]" res j
    if v ≠ 0 then .err "invalid" else do
    let res ← setAt "encoding.go:81#res[j]" res j cur
    range1 nCs k (j + 1) res ((cur + 1) % 65536) c.tick

/-- format 1, encoding.go:63-84: `k` ranges left; `first+nLeft` is a uint8 sum (it cannot wrap
behind the check of line 72) -/
def ranges1 (b : Bytes) (nCs : Nat) :
    Nat → Nat → List Nat → Nat → Cost → Outcome ((List Nat × Nat × Nat) × Cost)
  | 0, pos, res, cur, c => .ok ((res, cur, pos), c)
  | k+1, pos, res, cur, c => do
    let first ← u8 "encoding.go:64#ReadUint8" b pos
    let nLeft ← u8 "encoding.go:68#ReadUint8" b (pos + 1)
    if first + nLeft > 255 then .err "invalid" else do
    let last := (first + nLeft) % 256
    let ((res, cur), c) ← range1 nCs (last + 1 - first) first res cur (c.tick 2)
    ranges1 b nCs k (pos + 2) res cur c

/-- encoding.go:90-93 and 109: `lookup[uint16(sid)] = glyph.ID(gid)` over the charset, then
`lookup[sid]`: the last glyph with that SID (mod 2^16), 0 if there is none.  Map operations
cannot panic. -/
def sidLookupGo : List Int → Nat → Nat → Nat → Nat
  | [], _, _, found => found
  | s :: rest, sid, gid, found =>
    sidLookupGo rest sid (gid + 1) (if (s % 65536).toNat = sid then gid % 65536 else found)

def sidLookup (charset : List Int) (sid : Nat) : Nat := sidLookupGo charset sid 0 0

/-- the supplement loop encoding.go:98-116: `k` entries left -/
def sups (b : Bytes) (charset : List Int) :
    Nat → Nat → List Nat → Nat → Cost → Outcome (List Nat × Cost)
  | 0, _, res, _, c => .ok (res, c)
  | k+1, pos, res, cur, c => do
    let code ← u8 "encoding.go:99#ReadUint8" b pos
    let v ← idx "encoding.go:102#res[code]" res code
    if v ≠ 0 then .err "invalid" else do
    let sid ← u16 "encoding.go:105#ReadUint16" b (pos + 1)
    let gid := sidLookup charset sid
    if gid ≥ cur then .err "invalid" else do
    let res ← (if gid ≠ 0 then setAt "encoding.go:114#res[code]" res code gid else .ok res)
    sups b charset k (pos + 3) res cur (c.tick 2)

/-- the primary part `switch format & 127`: the vector, `currentGid` and the parser position -/
def primary (b : Bytes) (nCs format : Nat) (c : Cost) : Outcome ((List Nat × Nat × Nat) × Cost) :=
  let res0 := List.replicate 256 0
  if format % 128 = 0 then do
    let nCodes ← u8 "encoding.go:39#ReadUint8" b 1
    if nCodes ≥ nCs then .err "invalid" else do
    let c ← mkSlice "encoding.go:46#make([]byte, nCodes)" nCodes c.tick
    let codes ← pRead b 2 nCodes
    let ((res, cur), c) ← codes0 codes res0 1 c.tick
    .ok ((res, cur, 2 + nCodes), c)
  else if format % 128 = 1 then do
    let nRanges ← u8 "encoding.go:59#ReadUint8" b 1
    ranges1 b nCs nRanges 2 res0 1 c.tick
  else .err "unsupported"

/-- `readEncoding(p, charset)`; the map `lookup` of the supplement branch is charged one step
and one entry per charset element (an upper bound of the entries created) -/
def readEncoding (b : Bytes) (charset : List Int) : Outcome (List Nat × Cost) := do
  let format ← u8 "encoding.go:30#ReadUint8" b 0
  let c ← mkSlice "encoding.go:35#make([]glyph.ID, 256)" 256 Cost.zero.tick
  let ((res, cur, pos), c) ← primary b charset.length format c
  if format ≥ 128 then do
    let c := (c.tick charset.length).mem charset.length
    let nSups ← u8 "encoding.go:94#ReadUint8" b pos
    sups b charset nSups (pos + 1) res cur c.tick
  else .ok (res, c)

/-! ## `readFDSelect` and the accessor it returns -/

/-- what the returned closure captures: format 0 `buf`; format 3 `nRanges`, `end`, `fdIdx` -/
inductive FdSel where
  | f0 (buf : Bytes)
  | f3 (nRanges : Nat) (ends fdIdx : List Nat)
deriving Repr, DecidableEq

/-- fdselect.go:44-48 `for i := 0; i < nGlyphs; i++ { if int(buf[i]) >= nPrivate …` -/
def check0 (buf : Bytes) (nPrivate : Int) : Nat → Nat → Cost → Outcome Cost
  | 0, _, c => .ok c
  | k+1, i, c => do
    let v ← idx "fdselect.go:45#buf[i]" buf i
    if (v.toNat : Int) ≥ nPrivate then .err "invalid" else check0 buf nPrivate k (i + 1) c.tick

/-- the range loop fdselect.go:65-83: `k` ranges left, `i` the index; value = (`end` without the
sentinel, `fdIdx`); every append is charged one element -/
def ranges3 (b : Bytes) (nPrivate : Int) :
    Nat → Nat → Nat → Nat → Cost → Outcome ((List Nat × List Nat) × Cost)
  | 0, _, _, _, c => .ok (([], []), c)
  | k+1, i, pos, prev, c => do
    let first ← u16 "fdselect.go:66#ReadUint16" b pos
    if (i > 0 ∧ first ≤ prev) ∨ (i = 0 ∧ first ≠ 0) then .err "invalid" else do
    let fd ← u8 "fdselect.go:72#ReadUint8" b (pos + 2)
    if (fd : Int) ≥ nPrivate then .err "invalid" else do
    let c := (c.tick 2).mem (if i > 0 then 2 else 1)
    let ((es, fs), c) ← ranges3 b nPrivate k (i + 1) (pos + 3) first c
    .ok ((if i > 0 then first :: es else es, fd :: fs), c)

/-- `readFDSelect(p, nGlyphs, nPrivate)`, both Go `int`s -/
def readFDSelect (b : Bytes) (nGlyphs nPrivate : Int) : Outcome (FdSel × Cost) := do
  let format ← u8 "fdselect.go:32#ReadUint8" b 0
  let c := Cost.zero.tick
  if format = 0 then do
    let c ← mkSliceInt "fdselect.go:39#make([]uint8, nGlyphs)" nGlyphs c
    let n := nGlyphs.toNat
    let buf ← pRead b 1 n
    let c ← check0 buf nPrivate n 0 (c.tick (n / 1024 + 1))
    .ok (.f0 buf, c)
  else if format = 3 then do
    let nRanges ← u16 "fdselect.go:53#ReadUint16" b 1
    if nGlyphs > 0 ∧ nRanges = 0 then .err "invalid" else do
    let ((es, fs), c) ← ranges3 b nPrivate nRanges 0 3 0 c.tick
    let sentinel ← u16 "fdselect.go:84#ReadUint16" b (3 + 3 * nRanges)
    if (sentinel : Int) ≠ nGlyphs then .err "invalid" else
    -- `end = append(end, glyph.ID(nGlyphs))`, `nGlyphs = sentinel < 2^16`
    .ok (.f3 nRanges (es ++ [sentinel]) fs, (c.tick).mem 1)
  else .err "unsupported"

/-- `sort.Search(n, func(i int) bool { return gid < end[i] })`: the binary search of the
standard library (`h := int(uint(i+j) >> 1)`) with the checked predicate; `j - i` shrinks in
every round, so `fuel = n + 1` is never exhausted -/
def search (ends : List Nat) (gid : Nat) : Nat → Nat → Nat → Outcome Nat
  | 0, i, _ => .ok i
  | fuel+1, i, j =>
    if i < j then do
      let h := (i + j) / 2
      let e ← idx "fdselect.go:94#end[i]" ends h
      if gid < e then search ends gid fuel i h else search ends gid fuel (h + 1) j
    else .ok i

/-- the returned closure applied to `gid` (a `glyph.ID`, i.e. `gid < 65536`) -/
def lookup : FdSel → Nat → Outcome Nat
  | .f0 buf, gid => do
    let v ← idx "fdselect.go:50#buf[gid]" buf gid
    pure v.toNat
  | .f3 n ends fdIdx, gid => do
    let i ← search ends gid (n + 1) 0 n
    idx "fdselect.go:95#fdIdx[idx]" fdIdx i

/-- all lookups `fn(0), …, fn(n-1)` -/
def lookups (fn : FdSel) : List Nat → Outcome (List Nat)
  | [] => .ok []
  | g :: gs => do
    let v ← lookup fn g
    let l ← lookups fn gs
    .ok (v :: l)

end SfntV.Total.CffSets
