/-
C02 — checked-index model of cff `readIndex` (cff/index.go:41-90) with cost counters.  The parser
is a plain byte view (C17): the position is explicit, `p.Size()` is the length of the input.
`readIndexAt` adds `pos < 4 → error` and a seek (which cannot fail on an in-memory reader) in
front.  Error classes as in the value-level model of C13 (`Cff.readIndex`): "eof" / "invalid".
Core-only.
-/
import SfntV.Model.TotalName

namespace SfntV.Total.NameCff
open SfntV SfntV.Total

/-- `p.ReadBytes(n)` at `pos`, `n` not a constant: `ReadBytes(0)` succeeds at every position
(parser.go:177 the refill loop is not entered), otherwise as `readBytes` (panic site
parser.go:170 `n > 1024`; I/O error at the end of the input) -/
def rdBytes (site : String) (b : Bytes) (pos n : Nat) : Outcome Bytes :=
  if n = 0 then .ok [] else
  match readBytes site b pos n with
  | .err _ => .err "eof"
  | r => r

/-- index.go:64-67 `var offs uint32; for _, x := range blob { offs = offs<<8 | uint32(x) }`
(bytes beyond the fourth-last are shifted out) -/
def offsOf (blob : Bytes) : Nat := blob.foldl (fun a x => (a * 256 + x.toNat) % 4294967296) 0

/-- the offsets loop index.go:58-76: `k` offsets still to read, parser at `pos`, `prev` =
`prevOffset`.  `offs-1` cannot wrap: `offs ≥ prevOffset ≥ 1`.  `append` charged 1 per element. -/
def readOffsets (b : Bytes) (offSize : Nat) : Nat → Nat → Nat → Cost → Outcome (List Nat × Cost)
  | 0, _, _, c => .ok ([], c)
  | k+1, pos, prev, c => do
    let blob ← rdBytes "index.go:59#p.ReadBytes(int(offSize))" b pos offSize
    let offs := offsOf blob
    if offs < prev ∨ offs ≥ b.length then .err "invalid" else
    let (l, c) ← readOffsets b offSize k (pos + offSize) offs ((c.tick).mem 1)
    .ok ((offs - 1) :: l, c)

/-- `p.Read(buf)` with `len(buf) = n` (parser.go:92-110): chunks of at most 1024 bytes through
`ReadBytes` (so no panic); fails iff fewer than `n` bytes remain; nothing is read for `n = 0` -/
def pRead (b : Bytes) (pos n : Nat) : Outcome Bytes :=
  if n = 0 then .ok []
  else if pos + n ≤ b.length then .ok ((b.drop pos).take n) else .err "eof"

/-- index.go:85-87 `for i := 0; i < int(count); i++ { res[i] = buf[offsets[i]:offsets[i+1]] }`;
`n` = `len(res)` -/
def items (buf : Bytes) (offsets : List Nat) (n : Nat) : Nat → Nat → Cost → Outcome (List Bytes × Cost)
  | 0, _, c => .ok ([], c)
  | k+1, i, c => do
    let a ← idx "index.go:86#offsets[i]" offsets i
    let e ← idx "index.go:86#offsets[i+1]" offsets (i + 1)
    let s ← slice "index.go:86#buf[offsets[i]:offsets[i+1]]" buf a e
    if i ≥ n then .panic "index.go:86#res[i]" else
    let (l, c) ← items buf offsets n k (i + 1) c.tick
    .ok (s :: l, c)

/-- `readIndex` with the parser at `pos`; value = the items and the parser position afterwards -/
def readIndex (b : Bytes) (pos : Nat) : Outcome ((List Bytes × Nat) × Cost) := do
  let w ← rdBytes "index.go:42#ReadUint16" b pos 2
  let count ← w16 "index.go:42#ReadUint16" w 0
  let c := Cost.zero.tick
  if count = 0 then .ok (([], pos + 2), c) else
  let w1 ← rdBytes "index.go:50#ReadUint8" b (pos + 2) 1
  let os ← idx "index.go:50#ReadUint8" w1 0
  let offSize := os.toNat
  let c := c.tick
  let (offsets, c) ← readOffsets b offSize (count + 1) (pos + 3) 1 c
  let total ← idx "index.go:78#offsets[count]" offsets count
  -- allocated BEFORE the data is read; `total < p.Size()` by the check in the offsets loop
  let c ← mkSlice "index.go:78#make([]byte, offsets[count])" total c
  let pos' := pos + 3 + (count + 1) * offSize
  let buf ← pRead b pos' total
  let c := c.tick (total / 1024 + 1)
  let c ← mkSlice "index.go:84#make([][]byte, count)" count c
  let (res, c) ← items buf offsets count count 0 c
  .ok ((res, pos' + total), c)

/-- `readIndexAt(p, pos, name)` (index.go:29-39), `pos` an int32: `pos < 4` is the error
`errors.New("cff: missing … INDEX")` (class "other"); `p.SeekPos(int64(pos))` on an in-memory
reader fails only for negative positions, which are excluded here; then `readIndex`.  No index /
slice / make site of its own (the inventory `cff.readIndexAt.json` is empty). -/
def readIndexAt (b : Bytes) (pos : Int) : Outcome ((List Bytes × Nat) × Cost) :=
  if pos < 4 then .err "other" else readIndex b pos.toNat

end SfntV.Total.NameCff
