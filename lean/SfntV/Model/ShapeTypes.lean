/-
Data types of the shaping engine model (properties C06/C07): glyph sequences, coverage
tables, class definitions, GDEF, lookup lists and the lookup-flag filter `keep`
(opentype/gtab/filter.go).  Core-only: linked into the driver.

Conventions
* glyph ids, runes, indices are unbounded `Nat`; the only wrapping arithmetic in this area is
  `seq[a].GID += l.Delta` (uint16) in GSUB 1.1 and the `funit.Int16` additions of GPOS.
* a Go map is an association list; the first entry for a key counts (the harness sends
  maps with distinct keys, sorted by key).
* tables are arbitrary structures: nothing relates coverage indices to the lengths of the
  arrays they index, nothing bounds lookup, sequence, class or filtering-set indices.
  Go pointers are assumed non-nil (`*LookupTable`, `*LookupMetaInfo`, `*SeqRule`, …): the
  reader never delivers nil there.
-/
import SfntV.Prelude.Outcome
import SfntV.Generated.Shape

namespace SfntV.Shape
open SfntV

/-- `glyph.Info`: glyph id, the runes the glyph stands for, and the positioning fields
(`funit.Int16` values, kept in the int16 range by `wrap16`). -/
structure Glyph where
  gid : Nat
  text : List Nat
  xoff : Int := 0
  yoff : Int := 0
  adv : Int := 0
deriving Repr, DecidableEq, Inhabited

/-- `coverage.Table` = `map[glyph.ID]int`: glyph id ↦ coverage index -/
abbrev Cov := List (Nat × Nat)
/-- `coverage.Set` = `map[glyph.ID]bool` -/
abbrev GSet := List (Nat × Bool)
/-- `classdef.Table` = `map[glyph.ID]uint16`, absent = class 0 -/
abbrev ClassDef := List (Nat × Nat)

/-- `idx, ok := cov[gid]` -/
def covGet (c : Cov) (g : Nat) : Option Nat := c.lookup g
/-- `cov.Contains(gid)` / `_, ok := cov[gid]` -/
def covHas (c : Cov) (g : Nat) : Bool := (c.lookup g).isSome
/-- `_, ok := set[gid]` (presence of the key, as `Gsub1_1.apply` tests it) -/
def setHas (s : GSet) (g : Nat) : Bool := (s.lookup g).isSome
/-- `set[gid]` (the stored value, `false` when absent) -/
def setVal (s : GSet) (g : Nat) : Bool := (s.lookup g).getD false
/-- `classdef[gid]` -/
def classOf (c : ClassDef) (g : Nat) : Nat := (c.lookup g).getD 0

/-- `gdef.Table`.  A nil `*gdef.Table`, a nil `GlyphClass` map and an empty one behave
identically in `newKeepFunc`/`Keep` (every glyph has class 0 and is kept), likewise a nil and
an empty `MarkAttachClass`; after the repair of §9 #13 also a nil and an empty
`MarkGlyphSets`.  So the model has no nil cases. -/
structure Gdef where
  glyphClass : ClassDef := []
  markAttach : ClassDef := []
  markSets : List GSet := []
deriving Repr, Inhabited

/-- `SeqLookup`: nested action of a contextual rule -/
structure Action where
  seqIdx : Nat
  lookup : Nat
deriving Repr, DecidableEq, Inhabited

/-- `Ligature` of GSUB 4.1: components after the first, and the ligature glyph -/
structure Lig where
  comps : List Nat
  out : Nat
deriving Repr, DecidableEq, Inhabited

/-- `SeqRule`, `ClassSeqRule` (back = look = []), `ChainedSeqRule`, `ChainedClassSeqRule`:
glyph ids (format 1) or class values (format 2) -/
structure Rule where
  back : List Nat := []
  input : List Nat := []
  look : List Nat := []
  actions : List Action := []
deriving Repr, DecidableEq, Inhabited

/-- `GposValueRecord` restricted to what `Apply` implements.  `unimpl` is true when one of
`YAdvance`, the device offsets … is non-zero: `Apply` then panics with "not implemented"
(excluded from C07's domain by the property text). -/
structure ValueRec where
  xPlacement : Int := 0
  yPlacement : Int := 0
  xAdvance : Int := 0
  unimpl : Bool := false
deriving Repr, DecidableEq, Inhabited

/-- `PairAdjust` of GPOS 2 (`First`, `Second` may be nil) -/
structure PairAdj where
  first : Option ValueRec := none
  second : Option ValueRec := none
deriving Repr, DecidableEq, Inhabited

/-- `anchor.Table` -/
structure Anchor where
  x : Int := 0
  y : Int := 0
deriving Repr, DecidableEq, Inhabited

/-- `markarray.Record` -/
structure MarkRec where
  cls : Nat := 0
  x : Int := 0
  y : Int := 0
deriving Repr, DecidableEq, Inhabited

/-- `EntryExitRecord` of GPOS 3.1 -/
structure EntryExit where
  entry : Anchor := {}
  exit : Anchor := {}
deriving Repr, DecidableEq, Inhabited

/-- subtables (one constructor per Go type) -/
inductive Subtable where
  | gsub11 (cov : GSet) (delta : Nat)
  | gsub12 (cov : Cov) (subst : List Nat)
  | gsub21 (cov : Cov) (repl : List (List Nat))
  | gsub31 (cov : Cov) (alts : List (List Nat))
  | gsub41 (cov : Cov) (ligs : List (List Lig))
  | gsub81 (input : Cov) (back look : List Cov) (subst : List Nat)
  | ctx1 (cov : Cov) (rules : List (List Rule))
  | ctx2 (cov : Cov) (cls : ClassDef) (rules : List (List Rule))
  | ctx3 (input : List GSet) (actions : List Action)
  | chain1 (cov : Cov) (rules : List (List Rule))
  | chain2 (cov : Cov) (bcls icls lcls : ClassDef) (rules : List (List Rule))
  | chain3 (back input look : List GSet) (actions : List Action)
  | gpos11 (cov : Cov) (adj : Option ValueRec)
  | gpos12 (cov : Cov) (adj : List (Option ValueRec))
  /-- `Gpos2_1 = map[glyph.Pair]*PairAdjust`; `none` is a nil pointer stored in the map -/
  | gpos21 (pairs : List ((Nat × Nat) × Option PairAdj))
  | gpos22 (cov : GSet) (cls1 cls2 : ClassDef) (adj : List (List (Option PairAdj)))
  | gpos31 (cov : Cov) (recs : List EntryExit)
  /-- `gclass` is the GDEF glyph class definition `Gpos4_1.apply` reads through `ctx.gdef` (to skip
  marks when it looks for the base glyph); the driver copies it from the GDEF table of the case -/
  | gpos41 (markCov baseCov : Cov) (marks : List MarkRec) (bases : List (List Anchor)) (gclass : ClassDef)
  | gpos61 (mark1Cov mark2Cov : Cov) (marks1 : List MarkRec) (marks2 : List (List Anchor))
deriving Repr, Inhabited

/-- `LookupTable` with the parts of `LookupMetaInfo` that `apply` reads -/
structure Lookup where
  flags : Nat := 0
  markSet : Nat := 0
  subtables : List Subtable := []
deriving Repr, Inhabited

abbrev LookupList := List Lookup

/-- the lookup list as `Context.Apply` sees it together with the GDEF table of the context: every
GPOS 4.1 subtable carries the glyph class definition it will read through `ctx.gdef` -/
def Subtable.withGdefClasses (gc : ClassDef) : Subtable → Subtable
  | .gpos41 a b c d _ => .gpos41 a b c d gc
  | s => s

def resolveLL (gc : ClassDef) (ll : LookupList) : LookupList :=
  ll.map fun lk => { lk with subtables := lk.subtables.map (Subtable.withGdefClasses gc) }

/-! ## the filter (filter.go) -/

def hasBit (flags bit : Nat) : Bool := flags &&& bit != 0

/-- `newKeepFunc(meta, gdef).Keep(gid)` — REPAIRED code (§9 #13): a mark filtering set index
outside `MarkGlyphSets` keeps no mark (before the repair `MarkGlyphSets[set]` panicked). -/
def keep (gd : Gdef) (flags markSet : Nat) (gid : Nat) : Bool :=
  if flags == 0 then true else
  let cls := classOf gd.glyphClass gid
  if cls == Gen.shapeClassBase then !hasBit flags Gen.shapeFlagIgnoreBase
  else if cls == Gen.shapeClassLigature then !hasBit flags Gen.shapeFlagIgnoreLigatures
  else if cls == Gen.shapeClassMark then
    if hasBit flags Gen.shapeFlagIgnoreMarks then false
    else if hasBit flags Gen.shapeFlagUseMarkFilteringSet then
      match gd.markSets[markSet]? with
      | some s => setVal s gid
      | none => false
    else if flags &&& Gen.shapeFlagMarkAttachTypeMask != 0 then
      classOf gd.markAttach gid == (flags &&& Gen.shapeFlagMarkAttachTypeMask) >>> 8
    else true
  else true

def Lookup.keep (gd : Gdef) (lk : Lookup) : Nat → Bool := Shape.keep gd lk.flags lk.markSet

/-! ## engine state (layout.go) -/

/-- `nested`: one matched contextual rule whose actions are still being run.  Positions are
`Int` because the Go code computes them with unchecked `int` arithmetic. -/
structure Nested where
  inputPos : List Int
  actions : List Action
  endPos : Int
deriving Repr, DecidableEq, Inhabited

/-- the mutable part of `Context`: `seq` and `stack` (top of the Go stack = head of the list) -/
structure St where
  seq : List Glyph
  stack : List Nested
deriving Repr, DecidableEq, Inhabited

/-- the runes of a sequence, in order -/
def textOf (s : List Glyph) : List Nat := s.flatMap (·.text)

/-- `funit.Int16` addition wraps -/
def wrap16 (x : Int) : Int := (x + 32768) % 65536 - 32768

end SfntV.Shape
