/-
C02 (decoders are total): checked-index models of the cmap table directory and the small
subtable decoders of /repo/cmap:

* `cmap.Decode` (cmap.go:47-142): version, numTables, per record platform / encoding / offset
  checks, per-format length and language extraction, the "disjoint or identical" check
  (`sort.Search` + `slices.Insert`), `res[key] = data[o:o+length]`;
* `Table.Get` (cmap.go:207-228) with the `decoders` map (subtable.go:53-63) as a partial function
  (the call of a missing entry is the call of a nil func);
* `decodeFormat0`, `Format0.Lookup`, `Format0.CodeRange` (format0.go);
* `decodeFormat6` (format6.go), `Format4.Lookup` / `Format4.CodeRange` on its result (format4.go).

Every Go index / slice expression is a checked operation with the site label of
Generated/sites.json; results carry the cost counters of TotalBase.  The value-level models
`SfntV.CmapTable` / `SfntV.Cmap06` (property C09) are imported read-only (types `Key`, `Seg`,
helpers `sub32`, `hdrKind`, `insertAt`, `tableGet`); Proofs/TotalCmapDir relates the two.
Core-only: linked into the driver.
-/
import SfntV.Model.TotalBase
import SfntV.Model.CmapTable

namespace SfntV.Total.CmapDir
open SfntV SfntV.Total
open SfntV.CmapTable (Key Seg Table sub32 hdrKind HdrKind insertAt tableGet)

/-- checked slice expression `xs[a:b]` -/
def slice (site : String) (xs : List α) (a b : Nat) : Outcome (List α) :=
  if a ≤ b ∧ b ≤ xs.length then .ok ((xs.drop a).take (b - a)) else .panic site

/-! ## `cmap.Decode` -/

/-- `sort.Search(len(segs), func(i int) bool { return o <= segs[i].start })` (cmap.go:121-123):
the binary search of package sort, `i, j := 0, n; for i < j { h := int(uint(i+j) >> 1); … }`.
Returns the index and the number of calls of the closure. -/
def search (o : Nat) (segs : List Seg) : Nat → Nat → Nat → Nat → Outcome (Nat × Nat)
  | 0, i, _, p => .ok (i, p)
  | fuel+1, i, j, p =>
    if i < j then do
      let h := (i + j) / 2
      let s ← idx "cmap.go:122#segs[i]" segs h
      if o ≤ s.start then search o segs fuel i h (p + 1) else search o segs fuel (h + 1) j (p + 1)
    else .ok (i, p)

/-- cmap.go:120-130, the "disjoint or identical" check.  Cost: one step per probe of the binary
search, and `slices.Insert` is charged with the number of elements it moves plus one allocated
element. -/
def overlap (segs : List Seg) (o length : Nat) (c : Cost) : Outcome (List Seg × Cost) := do
  let (i, probes) ← search o segs (segs.length + 1) 0 segs.length 0
  let c := c.tick probes
  -- idx == len(segs) || o != segs[idx].start
  let differs ← (if i = segs.length then pure true else do
      let s ← idx "cmap.go:124#segs[idx]" segs i
      pure (decide (o ≠ s.start)) : Outcome Bool)
  if !differs then .ok (segs, c) else
  -- idx > 0 && o < segs[idx-1].end
  let bad1 ← (if i > 0 then do
      let s ← idx "cmap.go:125#segs[idx-1]" segs (i - 1)
      pure (decide (o < s.stop))
    else pure false : Outcome Bool)
  -- || idx < len(segs) && o+length > segs[idx].start
  let bad ← (if bad1 then pure true else if i < segs.length then do
      let s ← idx "cmap.go:126#segs[idx]" segs i
      pure (decide ((o + length) % 4294967296 > s.start))
    else pure false : Outcome Bool)
  if bad then .err "malformed" else
  -- slices.Insert(segs, idx, seg{o, o + length}) panics for idx > len(segs)
  if i > segs.length then .panic "cmap.go:129#slices.Insert(segs, idx, …)" else
  .ok (insertAt segs i ⟨o, (o + length) % 4294967296⟩, (c.tick (segs.length - i)).mem 1)

/-- cmap.go:86-111: `length`, `language`, `checkLength` of the subtable at `o` -/
def lenLang (b : Bytes) (eod o : Nat) (k : HdrKind) : Outcome (Nat × Nat × Nat) :=
  match k with
  | .len16 => do
    let len ← w16 "cmap.go:92#data[o+2],data[o+3]" b (o + 2)
    let lang ← w16 "cmap.go:93#data[o+4],data[o+5]" b (o + 4)
    pure (len, lang, 10)
  | .len32 =>
    if o > sub32 eod 12 then .err "malformed" else do
    let len ← w32 "cmap.go:99#data[o+4..o+7]" b (o + 4)
    let lang ← w16 "cmap.go:103#data[o+10],data[o+11]" b (o + 10)
    pure (len, lang, 12)
  | .len14 => do
    let len ← w32 "cmap.go:105#data[o+2..o+5]" b (o + 2)
    pure (len, 0, 10)
  | .bad => .err "malformed"

/-- body of the loop cmap.go:71-138 for record `i` -/
def record (b : Bytes) (eoh eod i : Nat) (segs : List Seg) (c : Cost) :
    Outcome ((Key × Bytes) × List Seg × Cost) := do
  let p ← w16 "cmap.go:72#data[4+i*8],data[5+i*8]" b (4 + i * 8)
  if p > 4 then .err "malformed" else
  let e ← w16 "cmap.go:76#data[6+i*8],data[7+i*8]" b (6 + i * 8)
  let o ← w32 "cmap.go:78#data[8+i*8..11+i*8]" b (8 + i * 8)
  if o < eoh ∨ o > sub32 eod 10 then .err "malformed" else
  let format ← w16 "cmap.go:88#data[o],data[o+1]" b o
  let (length, language, checkLength) ← lenLang b eod o (hdrKind format)
  if length < checkLength ∨ length > sub32 eod o then .err "malformed" else
  let language := if p ≠ 1 then 0 else language
  let (segs', c) ← overlap segs o length c
  let d ← slice "cmap.go:137#data[o : o+length]" b o ((o + length) % 4294967296)
  -- res[key] = …: at most one new map entry
  pure ((⟨p, e, language⟩, d), segs', c.mem 1)

/-- `for i := 0; i < numTables; i++`: first argument = `numTables - i`.  The result lists the
map writes `res[key] = …` in record order (later writes win). -/
def loop (b : Bytes) (eoh eod : Nat) : Nat → Nat → List Seg → Cost → Outcome (Table × Cost)
  | 0, _, _, c => .ok ([], c)
  | k+1, i, segs, c => do
    let (kd, segs', c) ← record b eoh eod i segs c.tick
    let (r, c) ← loop b eoh eod k (i + 1) segs' c
    pure (kd :: r, c)

/-- `cmap.Decode(data)` -/
def decode (b : Bytes) : Outcome (Table × Cost) := do
  if b.length < 4 ∨ b.length > 4294967295 then .err "malformed" else
  let version ← w16 "cmap.go:53#data[0],data[1]" b 0
  if version ≠ 0 then .err "version" else
  let n ← w16 "cmap.go:57#data[2],data[3]" b 2
  if b.length < 4 + 8 * n then .err "malformed" else
  -- make(Table)
  loop b ((4 + 8 * n) % 4294967296) b.length n 0 [] (Cost.zero.tick.mem 1)

/-! ## format 0 -/

/-- `decodeFormat0(data, nil)` (format0.go:28-50, the branch `code2rune == nil`): a `*Format0`.
The copy into the `[256]byte` array is charged with 256 steps and 256 elements. -/
def decodeFormat0 (data : Bytes) : Outcome (Bytes × Cost) := do
  let d ← slice "format0.go:29#data[6:]" data 6 data.length
  if d.length ≠ 256 then .err "length" else
  -- res := &Format0{}; copy(res.Data[:], data): res.Data[:] slices a [256]byte array
  .ok (d, (Cost.zero.tick 256).mem 256)

/-- the loop format0.go:38-42, `for c, gid := range data { if gid != 0 { res[uint16(code2rune(c))] =
glyph.ID(gid) } }`: a `range` over the slice has no index expression and the map write cannot
panic, so the loop is a pure function; it lists the map writes in loop order (`c` = index of the
head of the remaining bytes). -/
def loop0 (c2r : Nat → Nat) : Bytes → Nat → Cost → List (Nat × Nat) × Cost
  | [], _, c => ([], c)
  | g :: rest, i, c =>
    let r := loop0 c2r rest (i + 1) (if g.toNat ≠ 0 then c.tick.mem 1 else c.tick)
    (if g.toNat ≠ 0 then ((c2r i) % 65536, g.toNat) :: r.1 else r.1, r.2)

/-- `decodeFormat0(data, code2rune)` with `code2rune != nil` (format0.go:28-44, since repair
0c896bc): the same slice and length check, then a unicode-indexed `Format4` map; `c2r` = the
code-to-rune function, taken as given (as in `decodeFormat6`). -/
def decodeFormat0C2r (c2r : Nat → Nat) (data : Bytes) : Outcome (List (Nat × Nat) × Cost) := do
  let d ← slice "format0.go:29#data[6:]" data 6 data.length
  if d.length ≠ 256 then .err "length" else
  -- res := Format4{}
  .ok (loop0 c2r d 0 (Cost.zero.mem 1))

/-- `Format0.Lookup(r)` (format0.go:58-63, as repaired: `if r < 0 || r > 255 { return 0 }`) for a
rune `r` (an `int32`) -/
def lookup0 (d : Bytes) (r : Int) : Outcome Nat :=
  if r < 0 ∨ r > 255 then .ok 0 else do
    let v ← idx "format0.go:62#cmap.Data[r]" d r.toNat
    pure v.toNat

/-- `Format0.Lookup(r)` BEFORE the repair: the guard `r > 255` did not exclude negative runes
(kept as documentation of the finding C02-format0-lookup-negative). -/
def lookup0Old (d : Bytes) (r : Int) : Outcome Nat :=
  if r > 255 then .ok 0 else
  match r with
  | .ofNat n => do
    let v ← idx "format0.go:54#cmap.Data[r]" d n
    pure v.toNat
  | .negSucc _ => .panic "format0.go:54#cmap.Data[r]"

/-- `Format0.CodeRange()` -/
def codeRange0 : Int × Int := (0, 255)

/-! ## format 6 -/

/-- the loop format6.go:43-48; `arr` = `data[10:]`; first argument = `count - i`.  The result
lists the map writes in loop order. -/
def loop6 (c2r : Nat → Nat) (arr : Bytes) (firstCode : Nat) :
    Nat → Nat → Cost → Outcome (List (Nat × Nat) × Cost)
  | 0, _, c => .ok ([], c)
  | n+1, i, c => do
    let gid ← w16 "format6.go:44#data[2*i],data[2*i+1]" arr (2 * i)
    let (rest, c') ← loop6 c2r arr firstCode n (i + 1) (if gid ≠ 0 then c.tick.mem 1 else c.tick)
    -- res[uint16(code2rune(i+firstCode))] = gid
    pure (if gid ≠ 0 then ((c2r (i + firstCode)) % 65536, gid) :: rest else rest, c')

/-- `decodeFormat6(data, code2rune)` (format6.go:24-50); `c2r` = the code-to-rune function
(`unicode` = identity when the argument is nil), taken as given. -/
def decodeFormat6 (c2r : Nat → Nat) (data : Bytes) : Outcome (List (Nat × Nat) × Cost) := do
  if data.length < 10 then .err "malformed-subtable" else
  let firstCode ← w16 "format6.go:29#data[6],data[7]" data 6
  let count ← w16 "format6.go:30#data[8],data[9]" data 8
  -- len(data) == 10+2*count+2 && data[10+2*count] == 0 && data[10+2*count+1] == 0
  let data ← (if data.length = 10 + 2 * count + 2 then do
      let x ← idx "format6.go:33#data[10+2*count]" data (10 + 2 * count)
      if x ≠ 0 then pure data else
      let y ← idx "format6.go:33#data[10+2*count+1]" data (10 + 2 * count + 1)
      if y ≠ 0 then pure data else
      slice "format6.go:34#data[:10+2*count]" data 0 (10 + 2 * count)
    else pure data : Outcome Bytes)
  if data.length ≠ 10 + 2 * count ∨ firstCode + count > 0x10000 then .err "malformed-subtable" else
  let arr ← slice "format6.go:40#data[10:]" data 10 data.length
  -- make(Format4)
  loop6 c2r arr firstCode count 0 ((Cost.zero.tick 2).mem 1)

/-- `Format4.Lookup(r)` (format4.go:101-106) on the list of map writes: a map read, no panic -/
def lookup16 (ws : List (Nat × Nat)) (r : Int) : Nat :=
  if r < 0 ∨ r > 0xFFFF then 0 else SfntV.Cmap06.lastWrite ws r.toNat

/-- `Format4.CodeRange()` (format4.go:162-176) on the list of map writes (all with gid ≠ 0) -/
def codeRange16 (ws : List (Nat × Nat)) : Nat × Nat :=
  match ws with
  | [] => (0, 0)
  | _ => (ws.foldl (fun m w => if w.1 < m then w.1 else m) 2147483647,
          ws.foldl (fun m w => if w.1 > m then w.1 else m) 0)

/-! ## `Table.Get` -/

/-- a decoded subtable: formats 0 and 6 as modelled here, formats 4 and 12 as delivered by the
decoders passed as parameters -/
inductive Sub where
  | f0 (data : Bytes)
  | m16 (writes : List (Nat × Nat))
  | ext (format : Nat)
deriving Repr, DecidableEq

/-- a subtable decoder: bytes, "code2rune ≠ nil" ↦ outcome -/
abbrev Dec (σ : Type) := Bytes → Bool → Outcome σ

/-- `Table.Get(key)` (cmap.go:207-228); `decoders` = the Go map `decoders` as a partial function
(`none` = no entry: `decoders[format]` is then a nil func, and calling it panics) -/
def get {σ : Type} (decoders : Nat → Option (Dec σ)) (t : Table) (key : Key) : Outcome σ :=
  match tableGet t key with
  | none => .err "nosuch"
  | some data =>
    if key.p = 1 ∧ key.e ≠ 0 then .err "macenc" else do
    let format ← w16 "cmap.go:225#data[0],data[1]" data 0
    match decoders format with
    | none => .panic "cmap.go:227#decode(nil)"
    | some dec => dec data (decide (key.p = 1))

def macRoman (code : Nat) : Nat := SfntV.CmapTable.macRoman code

/-- subtable.go:53-63, the `decoders` map; `dec4` / `dec12` stand for `decodeFormat4` /
`decodeFormat12` -/
def decoders (dec4 dec12 : Dec Sub) (format : Nat) : Option (Dec Sub) :=
  if format = 0 then some fun d mac =>
    if mac then do
      let (w, _) ← decodeFormat0C2r macRoman d
      pure (.m16 w)
    else do
      let (x, _) ← decodeFormat0 d
      pure (.f0 x)
  else if format = 4 then some dec4
  else if format = 6 then some fun d mac => do
    let (w, _) ← decodeFormat6 (if mac then macRoman else id) d
    pure (.m16 w)
  else if format = 12 then some dec12
  else if format = 2 ∨ format = 8 ∨ format = 10 ∨ format = 13 ∨ format = 14 then
    some fun _ _ => .err "unsupported"
  else none

end SfntV.Total.CmapDir
