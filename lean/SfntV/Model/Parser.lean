/-
Model of parser/parser.go (the buffered reader shared by all table decoders) and the
plain-byte-view specification it is proved to refine (property C17).
Core-only: linked into the driver.
-/
import SfntV.Prelude.Bytes
import SfntV.Generated.Parser

namespace SfntV.Parser
open SfntV

def bufferSize : Nat := Gen.bufferSize

/-- The underlying reader's short-read behaviour: the `i`-th `Read` call that can deliver
data (wanted `w ≥ 1` bytes, `a ≥ 1` available) delivers between 1 and `min w a` bytes. -/
structure Oracle where
  give : Nat → Nat → Nat → Nat
  pos  : ∀ i w a, 1 ≤ w → 1 ≤ a → 1 ≤ give i w a ∧ give i w a ≤ w ∧ give i w a ≤ a

/-- Parser state.  `input` is the whole file; `rd` is the position of the underlying reader;
`calls` counts delivering reads (index into the oracle). -/
structure P where
  input : Bytes
  from_ : Nat
  pos   : Nat
  used  : Nat
  buf   : Bytes
  rd    : Nat
  calls : Nat

def P.init (input : Bytes) : P := ⟨input, 0, 0, 0, [], 0, 0⟩
def P.cursor (p : P) : Nat := p.from_ + p.pos

inductive Res (α : Type) where
  | ok : α → Res α
  | eof : Res α
deriving DecidableEq, Repr

/-- `copy(p.buf, p.buf[p.pos:p.used]); p.from += p.pos; p.pos = 0; p.used = k` -/
def compact (p : P) : P :=
  { p with from_ := p.from_ + p.pos, pos := 0, used := p.used - p.pos, buf := p.buf.drop p.pos }

/-- one iteration of the refill loop of `ReadBytes`; `none` = the reader reports EOF -/
def refill (o : Oracle) (p : P) : Option P :=
  let q := compact p
  let avail := q.input.length - q.rd
  if avail = 0 then none
  else
    let l := o.give q.calls (bufferSize - q.used) avail
    some { q with used := q.used + l, buf := q.buf ++ (q.input.drop q.rd).take l,
                  rd := q.rd + l, calls := q.calls + 1 }

/-- `ReadBytes(n)` for `n ≤ bufferSize`; the `for p.pos+n > p.used` loop as fuelled recursion -/
def readBytes (o : Oracle) (n : Nat) : Nat → P → P × Res Bytes
  | 0, p => (p, .eof)
  | fuel+1, p =>
    if p.pos + n ≤ p.used then
      ({ p with pos := p.pos + n }, .ok ((p.buf.drop p.pos).take n))
    else
      match refill o p with
      | none => (compact p, .eof)
      | some p' => readBytes o n fuel p'

/-- `SeekPos` (the underlying Seek to a non-negative offset always succeeds) -/
def seekPos (filePos : Nat) (p : P) : P :=
  if p.from_ ≤ filePos ∧ filePos ≤ p.from_ + p.used then { p with pos := filePos - p.from_ }
  else { p with from_ := filePos, pos := 0, used := 0, buf := [], rd := filePos }

inductive Op where
  | seek (p : Nat) | discard (n : Nat) | bytes (n : Nat) | u8 | u16 | i16 | u32
  | u16s | read (n : Nat) | pos | size
deriving Repr

inductive Out where
  | unit
  | num (n : Nat)
  | int (i : Int)
  | data (b : Bytes)
  | nums (l : List Nat)
  /-- bulk `Read` that failed after `b.length` bytes: `(len b, err)` -/
  | short (b : Bytes)
  | eof
deriving DecidableEq, Repr

def toI16 (n : Nat) : Int := if n < 32768 then (n : Int) else (n : Int) - 65536

def fixed (o : Oracle) (n : Nat) (p : P) : P × Out :=
  match readBytes o n (n + 1) p with
  | (p', .ok b) => (p', .num (beVal b))
  | (p', .eof) => (p', .eof)

/-- the body loop of `ReadUint16Slice`: `k` further values -/
def readU16s (o : Oracle) : Nat → P → List Nat → P × Out
  | 0, p, acc => (p, .nums acc.reverse)
  | k+1, p, acc =>
    match fixed o 2 p with
    | (p', .num v) => readU16s o k p' (v :: acc)
    | (p', _) => (p', .eof)

/-- the chunk loop of `Read(buf)`, `rem` bytes still wanted -/
def readBulk (o : Oracle) : Nat → Nat → P → Bytes → P × Out
  | 0, _, p, acc => (p, .short acc)
  | fuel+1, rem, p, acc =>
    if rem = 0 then (p, .data acc)
    else
      let k := min rem bufferSize
      match readBytes o k (k + 1) p with
      | (p', .ok b) => readBulk o fuel (rem - k) p' (acc ++ b)
      | (p', .eof) => (p', .short acc)

/-- the parser's exported methods -/
def implStep (o : Oracle) (p : P) : Op → P × Out
  | .seek q => (seekPos q p, .unit)
  | .discard n => (seekPos (p.cursor + n) p, .unit)
  | .bytes n =>
    match readBytes o n (n + 1) p with
    | (p', .ok b) => (p', .data b)
    | (p', .eof) => (p', .eof)
  | .u8 => fixed o 1 p
  | .u16 => fixed o 2 p
  | .i16 =>
    match fixed o 2 p with
    | (p', .num v) => (p', .int (toI16 v))
    | (p', r) => (p', r)
  | .u32 => fixed o 4 p
  | .u16s =>
    match fixed o 2 p with
    | (p', .num n) => readU16s o n p' []
    | (p', r) => (p', r)
  | .read n => readBulk o (n + 1) n p []
  | .pos => (p, .num p.cursor)
  | .size => (p, .num p.input.length)

/-- `ReadBytes(n)` panics for `n > bufferSize`: outside the property's operation set -/
def Op.ok : Op → Prop
  | .bytes n => n ≤ bufferSize
  | _ => True

instance : DecidablePred Op.ok := fun op => by
  cases op <;> simp only [Op.ok] <;> infer_instance

def implRun (o : Oracle) : P → List Op → List Out
  | _, [] => []
  | p, op :: ops => let r := implStep o p op; r.2 :: implRun o r.1 ops

/-! ## The specification: a cursor over a plain byte slice -/

/-- fixed-size read of `n` bytes at cursor `c`: fails iff non-empty and passing the end -/
def specBytes (input : Bytes) (c n : Nat) : Option Bytes :=
  if n = 0 ∨ c + n ≤ input.length then some ((input.drop c).take n) else none

def specFixed (input : Bytes) (c n : Nat) : Nat × Out :=
  match specBytes input c n with
  | some b => (c + n, .num (beVal b))
  | none => (c, .eof)

def specU16s (input : Bytes) : Nat → Nat → List Nat → Nat × Out
  | 0, c, acc => (c, .nums acc.reverse)
  | k+1, c, acc =>
    match specBytes input c 2 with
    | some b => specU16s input k (c + 2) (beVal b :: acc)
    | none => (c, .eof)

def specBulk (input : Bytes) : Nat → Nat → Nat → Bytes → Nat × Out
  | 0, _, c, acc => (c, .short acc)
  | fuel+1, rem, c, acc =>
    if rem = 0 then (c, .data acc)
    else
      let k := min rem bufferSize
      match specBytes input c k with
      | some b => specBulk input fuel (rem - k) (c + k) (acc ++ b)
      | none => (c, .short acc)

def specStep (input : Bytes) (c : Nat) : Op → Nat × Out
  | .seek p => (p, .unit)
  | .discard n => (c + n, .unit)
  | .bytes n =>
    match specBytes input c n with
    | some b => (c + n, .data b)
    | none => (c, .eof)
  | .u8 => specFixed input c 1
  | .u16 => specFixed input c 2
  | .i16 =>
    match specBytes input c 2 with
    | some b => (c + 2, .int (toI16 (beVal b)))
    | none => (c, .eof)
  | .u32 => specFixed input c 4
  | .u16s =>
    match specBytes input c 2 with
    | some b => specU16s input (beVal b) (c + 2) []
    | none => (c, .eof)
  | .read n => specBulk input (n + 1) n c []
  | .pos => (c, .num c)
  | .size => (c, .num input.length)

def specRun (input : Bytes) : Nat → List Op → List Out
  | _, [] => []
  | c, op :: ops => let r := specStep input c op; r.2 :: specRun input r.1 ops

end SfntV.Parser
