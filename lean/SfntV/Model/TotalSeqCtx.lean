/-
C02 (decoders are total): checked-index models of the sequence-context readers of
opentype/gtab/nested.go as the code stands in the working tree:
`readNested` (33-44), `readSeqContext1` (60-139), `readSeqContext2` (289-385),
`readSeqContext3` (536-575) — GSUB lookup type 5 / GPOS lookup type 7, formats 1, 2, 3.

The readers take `(p *parser.Parser, subtablePos int64)`; the parser is a plain byte view
(theorem C17), so the models take the whole byte string `b`, the parser position `q` at entry
(`readGsubSubtable` has read the format word: `q = subtablePos + 2`, see `gsub5`) and
`pos = subtablePos`.  `p.SeekPos` never fails on an in-memory reader; a read of `n` bytes at `q` is
`readBytes site b q n`.  `coverage.Read` / `coverage.ReadSet` / `classdef.Read` are the checked models
`SfntV.Total.Otl.coverageRead / readSet / classdefRead`; `cov.EncodeLen()` (readSeqContext2, line 375)
is `encInfo` of the value-level model of C08 (`SfntV.Otl.Cov.revOf`, `Cov.encodeLen`: an index outside
`rev` and a non-increasing `rev` are panics there).

Checked sites: every `p.ReadBytes(4)`, `buf[k]`, `make`, the two slice expressions
`seqRuleSetOffsets[:len(cov)]` (77) and `classSeqRuleSetOffsets[:numClasses]` (313), and the index
expressions `res.Rules[i]`, `res.Rules[i][j]`, `cov[i]` (the index is compared with the length of the
slice that was made).  `make([]T, glyphCount-1)` (119, 356) is a `make` with an `Int` argument
(`mkSliceI`: negative = panic) behind the guard `glyphCount == 0 → invalid`.

Rule-set offsets and rule offsets may ALIAS one record; the cost model charges every visit.
Cost: `steps` = parser reads + loop iterations, `alloc` = slice elements + objects (`&SeqRule{}`,
`&SeqContextN{}`) + what the sub-readers allocate; `make` is charged when it happens.

Values: coverage as `(glyph, index)` entries, class definitions as `(glyph, class)` entries, a nil
rule set (offset 0) is `none`.  Core-only: linked into the driver.
-/
import SfntV.Model.TotalOtl
import SfntV.Model.OtlCoverage

namespace SfntV.Total.SeqCtx
open SfntV SfntV.Total SfntV.Total.Otl

abbrev Action := Nat × Nat      -- (SequenceIndex, LookupListIndex)

/-- `SeqRule` / `ClassSeqRule` -/
structure Rule where
  input : List Nat
  actions : List Action
deriving Repr, DecidableEq

abbrev Sets := List (Option (List Rule))

def plus (c d : Cost) : Cost := ⟨c.steps + d.steps, c.alloc + d.alloc⟩

/-- `make([]T, n)` with a Go `int` argument: a negative length panics -/
def mkSliceI (site : String) (n : Int) (c : Cost) : Outcome Cost :=
  if n < 0 then .panic site else mkSlice site n.toNat c

/-- checked slice expression `xs[:n]` (`n ≤ len(xs)`; Go allows up to the capacity, the model is
stricter) -/
def sliceTo (site : String) (xs : List α) (n : Nat) : Outcome (List α) :=
  if n ≤ xs.length then .ok (xs.take n) else .panic site

/-- checked index `xs[i]` on a slice of length `len` whose elements the model does not keep -/
def chk (site : String) (i len : Nat) : Outcome Unit :=
  if i < len then .ok () else .panic site

/-- `for k := range xs { xs[k], err = p.ReadUint16() }`: `n` words from `q` on; returns the words,
the position after them and the cost -/
def u16Loop (site : String) (b : Bytes) :
    Nat → Nat → List Nat → Cost → Outcome (List Nat × Nat × Cost)
  | 0, q, acc, c => .ok (acc.reverse, q, c)
  | n+1, q, acc, c => do
    let v ← readU16 site b q
    u16Loop site b n (q + 2) (v :: acc) c.tick

/-- `p.ReadUint16Slice()` (parser.go:144-158): a count word, `make([]uint16, n)`, `n` words -/
def readU16Slice (b : Bytes) (q : Nat) (c : Cost) : Outcome (List Nat × Nat × Cost) := do
  let n ← readU16 "parser.go:145#ReadUint16" b q
  let c ← mkSlice "parser.go:149#make([]uint16, n)" n c.tick
  u16Loop "parser.go:151#ReadUint16" b n (q + 2) [] c

/-! ## readNested -/

/-- nested.go:35-42 -/
def nestedLoop (b : Bytes) : Nat → Nat → List Action → Cost → Outcome (List Action × Nat × Cost)
  | 0, q, acc, c => .ok (acc.reverse, q, c)
  | n+1, q, acc, c => do
    let buf ← readBytes "nested.go:36#ReadBytes(4)" b q 4
    let si ← w16 "nested.go:40#buf[0],buf[1]" buf 0
    let li ← w16 "nested.go:41#buf[2],buf[3]" buf 2
    -- `res[i]` (40, 41): `i` ranges over `res`
    nestedLoop b n (q + 4) ((si, li) :: acc) c.tick

/-- `readNested(p, seqLookupCount)` with the parser at `q`; returns the actions, the position after
them and the cost -/
def readNested (b : Bytes) (q count : Nat) (c : Cost) : Outcome (List Action × Nat × Cost) := do
  let c ← mkSlice "nested.go:34#make([]SeqLookup, seqLookupCount)" count c
  nestedLoop b count q [] c

/-! ## rules and rule sets (formats 1 and 2 share the shape; `f2` selects the line numbers) -/

def st (f2 : Bool) (s1 s2 : String) : String := if f2 then s2 else s1

/-- one SeqRule / ClassSeqRule at `q` (nested.go:107-134 / 344-372); also returns
`4 + 2*len(inputSequence) + 4*len(actions)` (line 372) -/
def readRule (f2 : Bool) (b : Bytes) (q : Nat) (c : Cost) : Outcome (Rule × Nat × Cost) := do
  let buf ← readBytes (st f2 "nested.go:107#ReadBytes(4)" "nested.go:344#ReadBytes(4)") b q 4
  let c := c.tick
  let gc ← w16 (st f2 "nested.go:111#buf[0],buf[1]" "nested.go:348#buf[0],buf[1]") buf 0
  if gc = 0 then .err "invalid" else
  let lc ← w16 (st f2 "nested.go:118#buf[2],buf[3]" "nested.go:355#buf[2],buf[3]") buf 2
  let c ← mkSliceI (st f2 "nested.go:119#make([]glyph.ID, glyphCount-1)"
    "nested.go:356#make([]uint16, glyphCount-1)") ((gc : Int) - 1) c
  -- `inputSequence[k]` (125 / 362): `k` ranges over `inputSequence`
  let (input, q1, c) ← u16Loop (st f2 "nested.go:121#ReadUint16" "nested.go:358#ReadUint16") b
    ((gc : Int) - 1).toNat (q + 4) [] c
  let (acts, _, c) ← readNested b q1 lc c
  .ok (⟨input, acts⟩, 4 + 2 * input.length + 4 * acts.length, c.mem 1)

/-- `for j, seqRuleOffset := range seqRuleOffsets` (101-135 / 339-373); `i`, `nsets`: index and length
of `res.Rules`, `j`, `nrules`: index and length of `res.Rules[i]` -/
def rulesLoop (f2 : Bool) (b : Bytes) (base i nsets nrules : Nat) :
    List Nat → Nat → List Rule → Nat → Cost → Outcome (List Rule × Nat × Cost)
  | [], _, acc, total, c => .ok (acc.reverse, total, c)
  | o :: os, j, acc, total, c => do
    let (r, sz, c) ← readRule f2 b (base + o) c.tick
    chk (st f2 "nested.go:131#res.Rules[i]" "nested.go:368#res.Rules[i]") i nsets
    chk (st f2 "nested.go:131#res.Rules[i][j]" "nested.go:368#res.Rules[i][j]") j nrules
    rulesLoop f2 b base i nsets nrules os (j + 1) (r :: acc) (total + sz) c

/-- `for i, seqRuleSetOffset := range seqRuleSetOffsets` (85-136 / 324-374); `total` is the running
size of format 2 (computed, and ignored, for format 1) -/
def setsLoop (f2 : Bool) (b : Bytes) (pos nsets : Nat) :
    List Nat → Nat → Sets → Nat → Cost → Outcome (Sets × Nat × Cost)
  | [], _, acc, total, c => .ok (acc.reverse, total, c)
  | o :: os, i, acc, total, c =>
    if o = 0 then setsLoop f2 b pos nsets os (i + 1) (none :: acc) total c.tick else do
    let base := pos + o
    let (offs, _, c) ← readU16Slice b base c.tick
    let c ← mkSlice (st f2 "nested.go:100#make([]*SeqRule, len(seqRuleOffsets))"
      "nested.go:337#make([]*ClassSeqRule, len(seqRuleOffsets))") offs.length c
    chk (st f2 "nested.go:100#res.Rules[i]" "nested.go:337#res.Rules[i]") i nsets
    chk (st f2 "nested.go:100#res.Rules[i]" "nested.go:338#res.Rules[i]") i nsets
    let (rules, total, c) ← rulesLoop f2 b base i nsets offs.length offs 0 []
      (total + 2 + 2 * offs.length) c
    setsLoop f2 b pos nsets os (i + 1) (some rules :: acc) total c

/-! ## readSeqContext1 -/

structure Ctx1 where
  cov : List (Nat × Nat)
  sets : Sets
deriving Repr, DecidableEq

/-- `cov.Prune(size)` (coverage.go:50-60): one pass over the map, the entries with index `≥ size`
are collected and deleted -/
def prune (cov : List (Nat × Nat)) (size : Nat) (c : Cost) : List (Nat × Nat) × Cost :=
  let keep := cov.filter (fun p => p.2 < size)
  let gone := cov.length - keep.length
  (keep, (c.tick (cov.length + gone)).mem gone)

def readSeqContext1 (b : Bytes) (q pos : Nat) : Outcome (Ctx1 × Cost) := do
  let covOff ← readU16 "nested.go:61#ReadUint16" b q
  let (offs, _, c) ← readU16Slice b (q + 2) Cost.zero.tick
  let (cov, cc) ← coverageRead b (pos + covOff)
  let c := plus c cc
  let (cov, offs, c) ←
    (if cov.length > offs.length then
      .ok ((prune cov offs.length c).1, offs, (prune cov offs.length c).2)
    else do
      let offs' ← sliceTo "nested.go:77#seqRuleSetOffsets[:len(cov)]" offs cov.length
      .ok (cov, offs', c) : Outcome (List (Nat × Nat) × List Nat × Cost))
  let c ← mkSlice "nested.go:82#make([][]*SeqRule, len(seqRuleSetOffsets))" offs.length (c.mem 1)
  let (sets, _, c) ← setsLoop false b pos offs.length offs 0 [] 0 c
  .ok (⟨cov, sets⟩, c)

/-! ## readSeqContext2 -/

structure Ctx2 where
  cov : List (Nat × Nat)
  classes : List (Nat × Nat)
  sets : Sets
deriving Repr, DecidableEq

/-- `classDef.NumClasses()` (classdef.go:36-44) -/
def numClasses (es : List (Nat × Nat)) : Nat := (es.foldl (fun m p => max m p.2) 0) + 1

/-- `cov.EncodeLen()` (coverage.go:152-186) of a table given by its entries; charges
`make([]glyph.ID, len(table))` and the three passes -/
def covEncodeLen (es : List (Nat × Nat)) (c : Cost) : Outcome (Nat × Cost) :=
  match SfntV.Otl.Cov.revOf (es.map fun p => (p.1, (p.2 : Int))) with
  | .ok rev =>
    match SfntV.Otl.Cov.encodeLen rev with
    | .ok n => .ok (n, (c.mem es.length).tick (3 * es.length))
    | .err e => .err e
    | .panic s => .panic s
  | .err e => .err e
  | .panic s => .panic s

def readSeqContext2 (b : Bytes) (q pos : Nat) : Outcome (Ctx2 × Cost) := do
  let buf ← readBytes "nested.go:290#ReadBytes(4)" b q 4
  let covOff ← w16 "nested.go:294#buf[0],buf[1]" buf 0
  let cdOff ← w16 "nested.go:295#buf[2],buf[3]" buf 2
  let (offs, _, c) ← readU16Slice b (q + 4) Cost.zero.tick
  let (cov, cc) ← coverageRead b (pos + covOff)
  let (cd, cc2) ← classdefRead b (pos + cdOff)
  let c := (plus (plus c cc) cc2).tick cd.length        -- NumClasses: one pass over the map
  let nc := numClasses cd
  let offs ← (if offs.length > nc then
      sliceTo "nested.go:313#classSeqRuleSetOffsets[:numClasses]" offs nc
    else .ok offs : Outcome (List Nat))
  let c ← mkSlice "nested.go:320#make([][]*ClassSeqRule, seqRuleSetCount)" offs.length (c.mem 1)
  let (sets, total, c) ← setsLoop true b pos offs.length offs 0 [] (8 + 2 * offs.length) c
  let (n, c) ← covEncodeLen cov c
  if total + n > 0xFFFF then .err "invalid" else
  .ok (⟨cov, cd, sets⟩, c)

/-! ## readSeqContext3 -/

structure Ctx3 where
  covs : List (List Nat)
  actions : List Action
deriving Repr, DecidableEq

/-- `for i, offset := range coverageOffsets { cov[i], err = coverage.ReadSet(…) }` (563-568) -/
def covsLoop (b : Bytes) (pos gc : Nat) :
    List Nat → Nat → List (List Nat) → Cost → Outcome (List (List Nat) × Cost)
  | [], _, acc, c => .ok (acc.reverse, c)
  | o :: os, i, acc, c => do
    let (s, cc) ← readSet b (pos + o)
    chk "nested.go:564#cov[i]" i gc
    covsLoop b pos gc os (i + 1) (s :: acc) (plus c.tick cc)

def readSeqContext3 (b : Bytes) (q pos : Nat) : Outcome (Ctx3 × Cost) := do
  let buf ← readBytes "nested.go:537#ReadBytes(4)" b q 4
  let gc ← w16 "nested.go:541#buf[0],buf[1]" buf 0
  if gc < 1 then .err "invalid" else
  let lc ← w16 "nested.go:548#buf[2],buf[3]" buf 2
  let c ← mkSlice "nested.go:549#make([]uint16, glyphCount)" gc Cost.zero.tick
  -- `coverageOffsets[i]` (551): `i` ranges over `coverageOffsets`
  let (offs, q1, c) ← u16Loop "nested.go:551#ReadUint16" b gc (q + 4) [] c
  let (acts, _, c) ← readNested b q1 lc c
  let c ← mkSlice "nested.go:562#make([]coverage.Set, glyphCount)" gc c
  let (covs, c) ← covsLoop b pos gc offs 0 [] c
  .ok (⟨covs, acts⟩, c.mem 1)

/-! ## the dispatch of `readGsubSubtable` for lookup type 5 (gsub.go:30-50) -/

inductive Sub where
  | c1 (v : Ctx1)
  | c2 (v : Ctx2)
  | c3 (v : Ctx3)
deriving Repr, DecidableEq

/-- BEFORE the repair of the dispatcher (/repo 8867078) the `uint16` key
`gsubReaders[10*meta.LookupType+format]` (gsub.go:41) was looked up without a range check: with
lookup type 5 the format words 11, 12, 13 (keys 6_1, 6_2, 6_3), 21 (7_1), 31 (8_1) and, through the
wrap-around, 65497, 65498 (1_1, 1_2), 65507 (2_1), 65517 (3_1), 65527 (4_1) selected ANOTHER
reader.  Kept only to state that finding (`gsub5Old`). -/
def otherKey (format : Nat) : Bool :=
  [61, 62, 63, 71, 81, 11, 12, 21, 31, 41].contains ((50 + format) % 65536)

/-- `readGsubSubtable(p, pos, &LookupMetaInfo{LookupType: 5})`: seek to `pos`, read the format
word, look up the key `10*5 + format` (`uint16`), call the reader with the parser at `pos + 2`.
`old = false` is the code as it is now (gsub.go:41-42
`if !ok || meta.LookupType > 9 || format > 9 { return invalid }`): every format word other than 1,
2, 3 is invalid.  `old = true` is the code before that repair, where a colliding key
(`otherKey`) ran the reader of another lookup type: `err "other-reader"` (outside this model). -/
def gsub5G (old : Bool) (b : Bytes) (pos : Nat) : Outcome (Sub × Cost) := do
  let format ← readU16 "gsub.go:36#ReadUint16" b pos
  if old = false ∧ format > 9 then .err "invalid"
  else if format = 1 then do
    let (v, c) ← readSeqContext1 b (pos + 2) pos
    .ok (.c1 v, c.tick)
  else if format = 2 then do
    let (v, c) ← readSeqContext2 b (pos + 2) pos
    .ok (.c2 v, c.tick)
  else if format = 3 then do
    let (v, c) ← readSeqContext3 b (pos + 2) pos
    .ok (.c3 v, c.tick)
  else if old = true ∧ otherKey format = true then .err "other-reader"
  else .err "invalid"

/-- the dispatcher as it is in the working tree (repaired) -/
def gsub5 (b : Bytes) (pos : Nat) : Outcome (Sub × Cost) := gsub5G false b pos

/-- the dispatcher before the repair (kept only to state the finding) -/
def gsub5Old (b : Bytes) (pos : Nat) : Outcome (Sub × Cost) := gsub5G true b pos

end SfntV.Total.SeqCtx
