/-
C14 — `name.Tables.Choose` (name/tables.go) up to the external language matcher: the order in
which the table keys are handed to `language.NewMatcher`, and the table returned for the index
the matcher answers.  Keys are Go strings = lists of byte codes; a table is represented by the
number of names it has (`len(t.keys())`).  Core-only.
-/
import SfntV.Prelude.Bytes

namespace SfntV.Names

/-- Go `<=` on strings: bytewise lexicographic -/
def lexLe : List Nat → List Nat → Bool
  | [], _ => true
  | _ :: _, [] => false
  | a :: as, b :: bs => if a < b then true else if b < a then false else lexLe as bs

def enUS : List Nat := [101, 110, 45, 85, 83]
def enKey : List Nat := [101, 110]
def enDash : List Nat := [101, 110, 45]

/-- `strings.HasPrefix` -/
def hasPrefix : List Nat → List Nat → Bool
  | _, [] => true
  | [], _ :: _ => false
  | a :: as, b :: bs => a == b && hasPrefix as bs

/-- `pref[key]`: ten per name, a bonus for English -/
def choosePref (e : List Nat × Nat) : Nat :=
  10 * e.2 + (if e.1 = enUS then 55 else if e.1 = enKey ∨ hasPrefix e.1 enDash = true then 5 else 0)

/-- the comparison of `sort.Slice` in `Choose` (as a total preorder: `i` may precede `j`) -/
def chooseLe (a b : List Nat × Nat) : Bool :=
  if choosePref a ≠ choosePref b then choosePref a > choosePref b else lexLe a.1 b.1

/-- the keys in the order in which they become the matcher's tags -/
def chooseOrder (tt : List (List Nat × Nat)) : List (List Nat) := (tt.mergeSort chooseLe).map (·.1)

/-- `Choose`: `none` = `(nil, language.No)` for an empty map; otherwise the key of the table at the
index the matcher answered -/
def choose (tt : List (List Nat × Nat)) (matcherIndex : Nat) : Option (List Nat) :=
  if tt = [] then none else (chooseOrder tt)[matcherIndex]?

end SfntV.Names
