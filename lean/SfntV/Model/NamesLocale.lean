/-
C14 — OpenType script/language tags <-> BCP 47 (opentype/gtab/locale.go: `otfToBCP47`,
`bcp47ToOtf`, after the repair that strips the space padding of short script tags).
String level only: `language.Parse` and the canonical form of the private-use extension are
x/text's (abstract; the Go side reports what they returned).  Strings are lists of byte codes.
Core-only.
-/
import SfntV.Prelude.Bytes

namespace SfntV.Names

/-- `strings.TrimRight(s, " ")` / the `for … lang[len(lang)-1] == ' '` loop -/
def trimSp (s : List Nat) : List Nat := (s.reverse.dropWhile (· == 32)).reverse

def lowerC (c : Nat) : Nat := if 65 ≤ c ∧ c ≤ 90 then c + 32 else c
def upperC (c : Nat) : Nat := if 97 ≤ c ∧ c ≤ 122 then c - 32 else c
/-- `strings.ToUpper` on ASCII -/
def upperS (s : List Nat) : List Nat := s.map upperC
def lowerS (s : List Nat) : List Nat := s.map lowerC

/-- `for len(s) < 4 { s += " " }` -/
def pad4 (s : List Nat) : List Nat := s ++ List.replicate (4 - s.length) 32

/-- the string `otfToBCP47` hands to `language.Parse`; `bcpScript`/`bcpLang` are the table values
(`bcpLang = "und"` for the default language system) -/
def otfTagString (bcpScript bcpLang script lang : List Nat) : List Nat :=
  let t := if bcpLang.contains 45 then bcpLang else bcpLang ++ [45] ++ bcpScript
  let t := t ++ [45, 120, 45] ++ trimSp script
  let l := trimSp lang
  if l = [] then t else t ++ [45] ++ l

/-- `strings.Split(s, "-")` -/
def splitDash : List Nat → List (List Nat)
  | [] => [[]]
  | c :: rest =>
    if c = 45 then [] :: splitDash rest
    else
      match splitDash rest with
      | h :: t => (c :: h) :: t
      | [] => [[c]]

def dflt : List Nat := [100, 102, 108, 116]
def DFLT : List Nat := [68, 70, 76, 84]

/-- the branch of `bcp47ToOtf` for a tag with an `x` extension; `ext` = `ext.String()` -/
def extToOtf (ext : List Nat) : Option (List Nat × List Nat) :=
  let m := splitDash ext
  if m.length < 2 ∨ m.length > 3 then none else
  let script := m.getD 1 []
  let script := if script = dflt then DFLT else script
  let script := pad4 script
  let lang := if m.length > 2 then pad4 (upperS (m.getD 2 [])) else []
  some (script, lang)

/-- what x/text reports as `tag.Extension('x').String()` for the tag built by `otfToBCP47`:
the private-use subtags in lower case (assumption about x/text, checked by correspondence) -/
def extString (script lang : List Nat) : List Nat :=
  [120, 45] ++ lowerS (trimSp script) ++
    (if trimSp lang = [] then [] else [45] ++ lowerS (trimSp lang))

end SfntV.Names
