/-
C14 — OpenType script/language tags <-> BCP 47 (opentype/gtab/locale.go: `otfToBCP47`,
`bcp47ToOtf`, after the repair that strips the space padding of short script tags).
String level only: `language.Parse` and the canonical form of the private-use extension are
x/text's (abstract; the Go side reports what they returned).  Strings are lists of byte codes.
Core-only.
-/
import SfntV.Prelude.Bytes
import SfntV.Model.NamesChoose

namespace SfntV.Names

/-- `strings.TrimRight(s, " ")` / the `for … lang[len(lang)-1] == ' '` loop -/
def trimSp (s : List Nat) : List Nat := (s.reverse.dropWhile (· == 32)).reverse

def lowerC (c : Nat) : Nat := if 65 ≤ c ∧ c ≤ 90 then c + 32 else c
def upperC (c : Nat) : Nat := if 97 ≤ c ∧ c ≤ 122 then c - 32 else c
/-- `strings.ToUpper` on ASCII -/
def upperS (s : List Nat) : List Nat := s.map upperC
def lowerS (s : List Nat) : List Nat := s.map lowerC

/-- `for len(s) < 4 { s += " " }` -/
def pad4 (s : List Nat) : List Nat := s ++ List.replicate (4 - s.length) 32

/-- the string `otfToBCP47` hands to `language.Parse`; `bcpScript`/`bcpLang` are the table values
(`bcpLang = "und"` for the default language system) -/
def otfTagString (bcpScript bcpLang script lang : List Nat) : List Nat :=
  let t := if bcpLang.contains 45 then bcpLang else bcpLang ++ [45] ++ bcpScript
  let t := t ++ [45, 120, 45] ++ trimSp script
  let l := trimSp lang
  if l = [] then t else t ++ [45] ++ l

/-- `strings.Split(s, "-")` -/
def splitDash : List Nat → List (List Nat)
  | [] => [[]]
  | c :: rest =>
    if c = 45 then [] :: splitDash rest
    else
      match splitDash rest with
      | h :: t => (c :: h) :: t
      | [] => [[c]]

def dflt : List Nat := [100, 102, 108, 116]
def DFLT : List Nat := [68, 70, 76, 84]

/-- the branch of `bcp47ToOtf` for a tag with an `x` extension; `ext` = `ext.String()` -/
def extToOtf (ext : List Nat) : Option (List Nat × List Nat) :=
  let m := splitDash ext
  if m.length < 2 ∨ m.length > 3 then none else
  let script := m.getD 1 []
  let script := if script = dflt then DFLT else script
  let script := pad4 script
  let lang := if m.length > 2 then pad4 (upperS (m.getD 2 [])) else []
  some (script, lang)

/-- what x/text reports as `tag.Extension('x').String()` for the tag built by `otfToBCP47`:
the private-use subtags in lower case (assumption about x/text, checked by correspondence) -/
def extString (script lang : List Nat) : List Nat :=
  [120, 45] ++ lowerS (trimSp script) ++
    (if trimSp lang = [] then [] else [45] ++ lowerS (trimSp lang))

/-! ### tags without the `-x-` extension (the branch repaired in a8e5c74) -/

/-- Go `<` on strings -/
def lexLt (a b : List Nat) : Bool := !lexLe b a

/-- one iteration of `for key, val := range tbl { if val == bcp && (cur == "" || key < cur) { cur = key } }` -/
def stepRev (val : List Nat) (cur : List Nat) (p : List Nat × List Nat) : List Nat :=
  if p.2 = val ∧ (cur = [] ∨ lexLt p.1 cur = true) then p.1 else cur

/-- the reverse lookup in `langBcp47` / `scriptBcp47`; `order` = the map in Go's iteration order -/
def revLookup (order : List (List Nat × List Nat)) (val : List Nat) : List Nat :=
  order.foldl (stepRev val) []

def hani : List Nat := [104, 97, 110, 105]
def ZHP : List Nat := [90, 72, 80, 32]
def ZHS : List Nat := [90, 72, 83, 32]
def ZHT : List Nat := [90, 72, 84, 32]

/-- `bcp47ToOtf` for a tag without `x` extension.  x/text is abstract; the Go side reports
`kind` (1/2/3 = the tag equals `language.Chinese` / `SimplifiedChinese` / `TraditionalChinese`,
0 = none of them), `rawLang` = `tag.Raw()`'s language and `script` = `tag.Script()`. -/
def noExtToOtf (scriptOrder langOrder : List (List Nat × List Nat)) (kind : Nat)
    (rawLang script : List Nat) : List Nat × List Nat :=
  if kind = 1 then (hani, ZHP)
  else if kind = 2 then (hani, ZHS)
  else if kind = 3 then (hani, ZHT)
  else (revLookup scriptOrder script, revLookup langOrder rawLang)

/-- Go map lookup in a table literal -/
def tagGet : List (List Nat × List Nat) → List Nat → Option (List Nat)
  | [], _ => none
  | (k, v) :: rest, x => if k = x then some v else tagGet rest x

def undS : List Nat := [117, 110, 100]

/-- `otfToBCP47` up to `language.Parse`: the string handed to the parser, `none` = the error
"unknown script" / "unknown language" -/
def otfToBCP47Str (scripts langs : List (List Nat × List Nat)) (script lang : List Nat) :
    Option (List Nat) :=
  match tagGet scripts script with
  | none => none
  | some bs =>
    match tagGet langs lang with
    | some bl => some (otfTagString bs bl script lang)
    | none => if lang = [] then some (otfTagString bs undS script lang) else none

/-- what x/text reports about a tag: its `x` extension string, or (kind, raw language, script) -/
inductive TagView where
  | ext (e : List Nat)
  | plain (kind : Nat) (rawLang script : List Nat)

/-- `bcp47ToOtf` on the view of a tag (`none` = the error "invalid x extension") -/
def bcp47ToOtfView (scriptOrder langOrder : List (List Nat × List Nat)) : TagView → Option (List Nat × List Nat)
  | .ext e => extToOtf e
  | .plain k rl sc => some (noExtToOtf scriptOrder langOrder k rl sc)

end SfntV.Names
