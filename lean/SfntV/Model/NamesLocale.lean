/-
C14 — OpenType script/language tags <-> BCP 47 (opentype/gtab/locale.go: `otfToBCP47`,
`bcp47ToOtf`, after the repair that strips the space padding of short script tags).
String level only: `language.Parse` and the canonical form of the private-use extension are
x/text's (abstract; the Go side reports what they returned).  Strings are lists of byte codes.
Core-only.
-/
import SfntV.Prelude.Bytes
import SfntV.Model.NamesChoose

namespace SfntV.Names

/-- `strings.TrimRight(s, " ")` / the `for … lang[len(lang)-1] == ' '` loop -/
def trimSp (s : List Nat) : List Nat := (s.reverse.dropWhile (· == 32)).reverse

def lowerC (c : Nat) : Nat := if 65 ≤ c ∧ c ≤ 90 then c + 32 else c
def upperC (c : Nat) : Nat := if 97 ≤ c ∧ c ≤ 122 then c - 32 else c
/-- `strings.ToUpper` on ASCII -/
def upperS (s : List Nat) : List Nat := s.map upperC
def lowerS (s : List Nat) : List Nat := s.map lowerC

/-- `for len(s) < 4 { s += " " }` -/
def pad4 (s : List Nat) : List Nat := s ++ List.replicate (4 - s.length) 32

/-- the string `otfToBCP47` hands to `language.Parse`; `bcpScript`/`bcpLang` are the table values
(`bcpLang = "und"` for the default language system) -/
def otfTagString (bcpScript bcpLang script lang : List Nat) : List Nat :=
  let t := if bcpLang.contains 45 then bcpLang else bcpLang ++ [45] ++ bcpScript
  let t := t ++ [45, 120, 45] ++ trimSp script
  let l := trimSp lang
  if l = [] then t else t ++ [45] ++ l

/-- `strings.Split(s, "-")` -/
def splitDash : List Nat → List (List Nat)
  | [] => [[]]
  | c :: rest =>
    if c = 45 then [] :: splitDash rest
    else
      match splitDash rest with
      | h :: t => (c :: h) :: t
      | [] => [[c]]

def dflt : List Nat := [100, 102, 108, 116]
def DFLT : List Nat := [68, 70, 76, 84]

/-- the branch of `bcp47ToOtf` for a tag with an `x` extension; `ext` = `ext.String()` -/
def extToOtf (ext : List Nat) : Option (List Nat × List Nat) :=
  let m := splitDash ext
  if m.length < 2 ∨ m.length > 3 then none else
  let script := m.getD 1 []
  let script := if script = dflt then DFLT else script
  let script := pad4 script
  let lang := if m.length > 2 then pad4 (upperS (m.getD 2 [])) else []
  some (script, lang)

/-- what x/text reports as `tag.Extension('x').String()` for the tag built by `otfToBCP47`:
the private-use subtags in lower case (assumption about x/text, checked by correspondence) -/
def extString (script lang : List Nat) : List Nat :=
  [120, 45] ++ lowerS (trimSp script) ++
    (if trimSp lang = [] then [] else [45] ++ lowerS (trimSp lang))

/-! ### tags without the `-x-` extension (the branch repaired in a8e5c74) -/

/-- Go `<` on strings -/
def lexLt (a b : List Nat) : Bool := !lexLe b a

/-- one iteration of `for key, val := range tbl { if val == bcp && (cur == "" || key < cur) { cur = key } }` -/
def stepRev (val : List Nat) (cur : List Nat) (p : List Nat × List Nat) : List Nat :=
  if p.2 = val ∧ (cur = [] ∨ lexLt p.1 cur = true) then p.1 else cur

/-- the reverse lookup in `langBcp47` / `scriptBcp47`; `order` = the map in Go's iteration order -/
def revLookup (order : List (List Nat × List Nat)) (val : List Nat) : List Nat :=
  order.foldl (stepRev val) []

def hani : List Nat := [104, 97, 110, 105]
def ZHP : List Nat := [90, 72, 80, 32]
def ZHS : List Nat := [90, 72, 83, 32]
def ZHT : List Nat := [90, 72, 84, 32]

/-- `bcp47ToOtf` for a tag without `x` extension.  x/text is abstract; the Go side reports
`kind` (1/2/3 = the tag equals `language.Chinese` / `SimplifiedChinese` / `TraditionalChinese`,
0 = none of them), `rawLang` = `tag.Raw()`'s language and `script` = `tag.Script()`. -/
def noExtToOtf (scriptOrder langOrder : List (List Nat × List Nat)) (kind : Nat)
    (rawLang script : List Nat) : List Nat × List Nat :=
  if kind = 1 then (hani, ZHP)
  else if kind = 2 then (hani, ZHS)
  else if kind = 3 then (hani, ZHT)
  else (revLookup scriptOrder script, revLookup langOrder rawLang)

/-- Go map lookup in a table literal -/
def tagGet : List (List Nat × List Nat) → List Nat → Option (List Nat)
  | [], _ => none
  | (k, v) :: rest, x => if k = x then some v else tagGet rest x

def undS : List Nat := [117, 110, 100]

/-- `otfToBCP47` up to `language.Parse`: the string handed to the parser, `none` = the error
"unknown script" / "unknown language" -/
def otfToBCP47Str (scripts langs : List (List Nat × List Nat)) (script lang : List Nat) :
    Option (List Nat) :=
  match tagGet scripts script with
  | none => none
  | some bs =>
    match tagGet langs lang with
    | some bl => some (otfTagString bs bl script lang)
    | none => if lang = [] then some (otfTagString bs undS script lang) else none

/-- what x/text reports about a tag: its `x` extension string, or (kind, raw language, script) -/
inductive TagView where
  | ext (e : List Nat)
  | plain (kind : Nat) (rawLang script : List Nat)

/-- `bcp47ToOtf` on the view of a tag (`none` = the error "invalid x extension") -/
def bcp47ToOtfView (scriptOrder langOrder : List (List Nat × List Nat)) : TagView → Option (List Nat × List Nat)
  | .ext e => extToOtf e
  | .plain k rl sc => some (noExtToOtf scriptOrder langOrder k rl sc)

/-! ### normal form of tags that travel without the extension -/

/-- script tags that share their BCP 47 script with a smaller tag (which is the one that comes back) -/
def scriptTwins : List (List Nat × List Nat) := [
  ([98, 110, 103, 50], [98, 101, 110, 103]),  -- 'bng2' -> 'beng'
  ([100, 101, 118, 97], [100, 101, 118, 50]),  -- 'deva' -> 'dev2'
  ([103, 117, 106, 114], [103, 106, 114, 50]),  -- 'gujr' -> 'gjr2'
  ([103, 117, 114, 117], [103, 117, 114, 50]),  -- 'guru' -> 'gur2'
  ([107, 110, 100, 97], [107, 110, 100, 50]),  -- 'knda' -> 'knd2'
  ([109, 108, 121, 109], [109, 108, 109, 50]),  -- 'mlym' -> 'mlm2'
  ([109, 121, 109, 114], [109, 121, 109, 50]),  -- 'mymr' -> 'mym2'
  ([111, 114, 121, 97], [111, 114, 121, 50]),  -- 'orya' -> 'ory2'
  ([116, 101, 108, 117], [116, 101, 108, 50]),  -- 'telu' -> 'tel2'
  ([116, 109, 108, 50], [116, 97, 109, 108])  -- 'tml2' -> 'taml'
  ]

/-- language tags that share their BCP 47 language with a smaller tag (which is the one that comes back) -/
def langTwins : List (List Nat × List Nat) := [
  ([68, 73, 86, 32], [68, 72, 86, 32]),  -- 'DIV ' -> 'DHV '
  ([72, 89, 69, 48], [72, 89, 69, 32]),  -- 'HYE0' -> 'HYE '
  ([73, 78, 85, 75], [73, 78, 85, 32]),  -- 'INUK' -> 'INU '
  ([73, 82, 84, 32], [73, 82, 73, 32]),  -- 'IRT ' -> 'IRI '
  ([75, 65, 82, 32], [66, 65, 76, 32]),  -- 'KAR ' -> 'BAL '
  ([75, 71, 69, 32], [75, 65, 84, 32]),  -- 'KGE ' -> 'KAT '
  ([75, 72, 83, 32], [75, 72, 75, 32]),  -- 'KHS ' -> 'KHK '
  ([75, 72, 86, 32], [75, 72, 75, 32]),  -- 'KHV ' -> 'KHK '
  ([77, 67, 82, 32], [76, 67, 82, 32]),  -- 'MCR ' -> 'LCR '
  ([77, 76, 82, 32], [77, 65, 76, 32]),  -- 'MLR ' -> 'MAL '
  ([77, 79, 78, 84], [77, 79, 78, 32]),  -- 'MONT' -> 'MON '
  ([78, 72, 67, 32], [78, 67, 82, 32]),  -- 'NHC ' -> 'NCR '
  ([78, 76, 68, 32], [70, 76, 69, 32]),  -- 'NLD ' -> 'FLE '
  ([82, 79, 77, 32], [77, 79, 76, 32]),  -- 'ROM ' -> 'MOL '
  ([83, 65, 89, 32], [67, 72, 80, 32]),  -- 'SAY ' -> 'CHP '
  ([84, 67, 82, 32], [68, 67, 82, 32]),  -- 'TCR ' -> 'DCR '
  ([84, 71, 76, 32], [80, 73, 76, 32]),  -- 'TGL ' -> 'PIL '
  ([84, 79, 68, 32], [75, 76, 77, 32]),  -- 'TOD ' -> 'KLM '
  ([89, 67, 82, 32], [67, 82, 69, 32])  -- 'YCR ' -> 'CRE '
  ]

/-- the tag that comes back for `tag` when it travels as a BCP 47 tag without `-x-` extension -/
def nfTag (twins : List (List Nat × List Nat)) (tag : List Nat) : List Nat :=
  match tagGet twins tag with
  | some t => t
  | none => tag


end SfntV.Names
