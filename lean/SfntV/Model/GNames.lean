/-
C20 — model of glyph-name generation (core-only; linked into the driver).

Mirrors, statement by statement, the REPAIRED `(*Font).MakeGlyphNames` of /repo/names.go
(coverage maps visited in order of increasing glyph ID, glyph IDs outside the font skipped, a
ligature output that already has a name is left alone), `makeVariant`, `EnsureGlyphNames`, and
`(*cff.Outlines).makeNames` of /repo/cff/convert.go.  `MakeGlyphNamesOld` further down mirrors the
code as it was before the repair (map order = the order of the given lists); it is only used to
state and prove what was wrong.

Names are `List Char` (Go strings that are compared for equality only).  A Go `map[string]bool`
that only ever gains `true` entries is the list of its keys.  `names.FromUnicode` and
`names.IsValid` (module seehuhn.de/go/postscript) are abstract function parameters.
-/
namespace SfntV.GNames

abbrev Name := List Char

/-- `%d` -/
def dec (n : Nat) : Name := Nat.toDigits 10 n
/-- `%03d` -/
def pad3 (n : Nat) : Name := List.replicate (3 - (dec n).length) '0' ++ dec n
/-- `fmt.Sprintf("orn%03d", k)` -/
def ornName (k : Nat) : Name := ['o', 'r', 'n'] ++ pad3 k
/-- the `try`-th candidate of `makeVariant`: `basename`, then `basename.1`, `basename.2`, … -/
def variantName (base : Name) (t : Nat) : Name := if t = 0 then base else base ++ '.' :: dec t
/-- the `try`-th candidate of cff `makeNames`: `base`, `base.alt1`, … -/
def altName (base : Name) (t : Nat) : Name :=
  if t = 0 then base else base ++ ['.', 'a', 'l', 't'] ++ dec t
def notdef : Name := ['.', 'n', 'o', 't', 'd', 'e', 'f']

/-- `strings.Join(nn, "_")` -/
def joinU : List Name → Name
  | [] => []
  | [a] => a
  | a :: b :: rest => a ++ '_' :: joinU (b :: rest)

/-- `for used[cand t] { t++ }`: index of the first candidate from `t` on that is not in `used`.
The fuel `used.length + 1` is always enough for injective `cand` (`firstFresh_spec`). -/
def firstFresh (cand : Nat → Name) (used : List Name) : Nat → Nat → Nat
  | 0, t => t
  | fuel + 1, t => if cand t ∈ used then firstFresh cand used fuel (t + 1) else t

/-- glyph-name slice and the `used` map -/
structure St where
  names : List Name
  used : List Name
deriving Repr

def St.nameAt (st : St) (g : Nat) : Name := st.names.getD g []
/-- `glyphNames[g] = nm; used[nm] = true` -/
def St.fill (st : St) (g : Nat) (nm : Name) : St := ⟨st.names.set g nm, nm :: st.used⟩
def St.n (st : St) : Nat := st.names.length

/-- `makeVariant(used, base)` followed by `glyphNames[g] = …` -/
def St.fillVariant (st : St) (g : Nat) (base : Name) : St :=
  st.fill g (variantName base (firstFresh (variantName base) st.used (st.used.length + 1) 0))

/-- names.go:75-82 — drop duplicates (the second and later occurrences, and every name equal to
one seen before) -/
def dedup : List Name → List Name → List Name × List Name
  | [], used => ([], used)
  | nm :: rest, used =>
    if nm ∈ used then
      let r := dedup rest used
      ([] :: r.1, r.2)
    else
      let r := dedup rest (nm :: used)
      (nm :: r.1, r.2)

/-- the outlines as far as names are concerned -/
inductive Outl where
  /-- `*cff.Outlines`: one `Name` per glyph (empty for CID-keyed fonts) -/
  | cff (names : List Name)
  /-- `*glyf.Outlines`: number of glyphs and the `Names` list (used only if it has that length) -/
  | glyf (nGlyphs : Nat) (names : List Name)
deriving Repr

def Outl.numGlyphs : Outl → Nat
  | .cff ns => ns.length
  | .glyf n _ => n

/-- names.go:57-72 -/
def Outl.initNames : Outl → List Name
  | .cff ns => ns
  | .glyf n ns => if ns.length = n then ns else List.replicate n []

/-- `EnsureGlyphNames` (names.go:34-50) -/
def Outl.install : Outl → List Name → Outl
  | .cff _, r => .cff r
  | .glyf n _, r => .glyf n r

/-- the best cmap subtable: code range and lookup -/
structure CMap where
  lo : Nat
  hi : Nat
  lookup : Nat → Nat

/-- names.go:97-108, one rune -/
def cmapStep (fromU : Nat → Name) (cm : CMap) (st : St) (r : Nat) : St :=
  let gid := cm.lookup r
  if gid < st.n ∧ st.nameAt gid = [] then
    let name := fromU r
    if name ∈ st.used then st else st.fill gid name
  else st

def cmapPass (fromU : Nat → Name) (cm : Option CMap) (st : St) : St :=
  match cm with
  | none => st
  | some cm => (List.range' cm.lo (cm.hi + 1 - cm.lo)).foldl (cmapStep fromU cm) st

/-- a GSUB subtable as far as naming is concerned.  Coverage maps are given as lists (in whatever
order the Go map happens to be ranged over); `Table` maps carry the coverage index. -/
inductive Sub where
  | single1 (cov : List Nat) (delta : Nat)
  | single2 (cov : List (Nat × Nat)) (subst : List Nat)
  | alt (cov : List (Nat × Nat)) (alts : List (List Nat))
  | lig (cov : List (Nat × Nat)) (repl : List (List (List Nat × Nat)))
  | other
deriving Repr

/-- insertion sort (structural, so that closed examples evaluate in the kernel); for keys that
are pairwise different — a Go map — every sorting procedure gives the same list -/
def insSorted (le : α → α → Bool) (a : α) : List α → List α
  | [] => [a]
  | b :: l => if le a b then a :: b :: l else b :: insSorted le a l
def isort (le : α → α → Bool) : List α → List α
  | [] => []
  | a :: l => insSorted le a (isort le l)

/-- `Cov.Glyphs()`: keys in increasing order -/
def sortKeys (l : List Nat) : List Nat := isort (fun a b => decide (a ≤ b)) l
def sortCov (l : List (Nat × Nat)) : List (Nat × Nat) := isort (fun a b => decide (a.1 ≤ b.1)) l

/-- body of the Gsub1_1 / Gsub1_2 loops -/
def singleStep (st : St) (o nw : Nat) : St :=
  if o < st.n ∧ nw < st.n then
    if st.nameAt o = [] ∨ st.nameAt nw ≠ [] then st else st.fillVariant nw (st.nameAt o)
  else st

def altStep (o : Nat) (st : St) (nw : Nat) : St :=
  if nw < st.n ∧ st.nameAt nw = [] then st.fillVariant nw (st.nameAt o) else st

/-- one ligature of Gsub4_1; `name` is the (fixed) name of the first glyph -/
def ligStep (name : Name) (st : St) (l : List Nat × Nat) : St :=
  if l.2 < st.n ∧ st.nameAt l.2 = [] then
    if l.1.all (fun g => decide (g < st.n) && decide (st.nameAt g ≠ [])) then
      st.fillVariant l.2 (joinU (name :: l.1.map st.nameAt))
    else st
  else st

/-- the loops over a coverage table that is already in the order of visiting -/
def subStepSorted (st : St) : Sub → St
  | .single1 cov delta => cov.foldl (fun st o => singleStep st o ((o + delta) % 65536)) st
  | .single2 cov subst =>
    cov.foldl (fun st p =>
      match subst[p.2]? with
      | some nw => singleStep st p.1 nw
      | none => st) st
  | .alt cov alts =>
    cov.foldl (fun st p =>
      match alts[p.2]? with
      | some as => if p.1 < st.n ∧ st.nameAt p.1 ≠ [] then as.foldl (altStep p.1) st else st
      | none => st) st
  | .lig cov repl =>
    cov.foldl (fun st p =>
      match repl[p.2]? with
      | some ls => if p.1 < st.n ∧ st.nameAt p.1 ≠ [] then ls.foldl (ligStep (st.nameAt p.1)) st else st
      | none => st) st
  | .other => st

/-- `Cov.Glyphs()` of the repaired code -/
def Sub.norm : Sub → Sub
  | .single1 cov delta => .single1 (sortKeys cov) delta
  | .single2 cov subst => .single2 (sortCov cov) subst
  | .alt cov alts => .alt (sortCov cov) alts
  | .lig cov repl => .lig (sortCov cov) repl
  | .other => .other

/-- names.go:111-… (repaired): all subtables of all lookups, in table order -/
def gsubPass (subs : List Sub) (st : St) : St := (subs.map Sub.norm).foldl subStepSorted st

/-- names.go: the `orn%03d` loop; the state carries the counter `k` -/
def ornStep (s : St × Nat) (i : Nat) : St × Nat :=
  if s.1.nameAt i ≠ [] then s
  else
    let j := firstFresh ornName s.1.used (s.1.used.length + 1) s.2
    (s.1.fill i (ornName j), j + 1)

def ornPass (st : St) : St := ((List.range st.n).foldl ornStep (st, 1)).1

/-- everything the function reads -/
structure Font where
  outl : Outl
  cmap : Option CMap
  /-- `none`: `f.Gsub == nil` -/
  gsub : List Sub

/-- state after the duplicate filter (names.go:57-82) -/
def stage0 (o : Outl) : St :=
  let r := dedup (o.initNames.set 0 notdef) []
  ⟨r.1, r.2⟩
def stage1 (fromU : Nat → Name) (f : Font) : St := cmapPass fromU f.cmap (stage0 f.outl)
def stage2 (fromU : Nat → Name) (f : Font) : St := gsubPass f.gsub (stage1 fromU f)
def stage3 (fromU : Nat → Name) (f : Font) : St := ornPass (stage2 fromU f)

def complete (l : List Name) : Bool := l.all (fun nm => decide (nm ≠ []))

/-- `(*Font).MakeGlyphNames` (repaired).  `none` = the index panic of `glyphNames[0]` for a font
without glyphs. -/
def makeGlyphNames (fromU : Nat → Name) (f : Font) : Option (List Name) :=
  if f.outl.numGlyphs = 0 then none
  else if complete (stage0 f.outl).names then some (stage0 f.outl).names
  else some (stage3 fromU f).names

/-! ## the code before the repair (map order = list order, no bounds checks, ligature outputs
overwritten).  `none` = index panic. -/

def St.fillVariantOld (st : St) (g : Nat) (base : Name) : Option St :=
  if g < st.n then some (st.fillVariant g base) else none

def singleStepOld (st : St) (o nw : Nat) : Option St :=
  if o < st.n ∧ nw < st.n then
    if st.nameAt o = [] ∨ st.nameAt nw ≠ [] then some st else some (st.fillVariant nw (st.nameAt o))
  else none

def foldlM' (f : St → α → Option St) : List α → St → Option St
  | [], st => some st
  | a :: as, st => match f st a with
    | some st' => foldlM' f as st'
    | none => none

def ligStepOld (name : Name) (st : St) (l : List Nat × Nat) : Option St :=
  -- the inner loop stops at the first unnamed input glyph (before looking at later ones)
  let rec scan : List Nat → List Name → Option (Option (List Name))
    | [], acc => some (some acc.reverse)
    | g :: gs, acc =>
      if g < st.n then (if st.nameAt g = [] then some none else scan gs (st.nameAt g :: acc)) else none
  match scan l.1 [] with
  | none => none
  | some none => some st
  | some (some ins) => st.fillVariantOld l.2 (joinU (name :: ins))

def subStepOld (st : St) : Sub → Option St
  | .single1 cov delta => foldlM' (fun st o => singleStepOld st o ((o + delta) % 65536)) cov st
  | .single2 cov subst =>
    foldlM' (fun st p =>
      match subst[p.2]? with
      | some nw => singleStepOld st p.1 nw
      | none => none) cov st
  | .alt cov alts =>
    foldlM' (fun st p =>
      if p.1 < st.n then
        if st.nameAt p.1 = [] then some st else
        match alts[p.2]? with
        | some as => foldlM' (fun st nw =>
            if nw < st.n then (if st.nameAt nw = [] then some (st.fillVariant nw (st.nameAt p.1)) else some st)
            else none) as st
        | none => none
      else none) cov st
  | .lig cov repl =>
    foldlM' (fun st p =>
      if p.1 < st.n then
        if st.nameAt p.1 = [] then some st else
        match repl[p.2]? with
        | some ls => foldlM' (ligStepOld (st.nameAt p.1)) ls st
        | none => none
      else none) cov st
  | .other => some st

def cmapStepOld (fromU : Nat → Name) (cm : CMap) (st : St) (r : Nat) : Option St :=
  let gid := cm.lookup r
  if gid < st.n then
    if st.nameAt gid = [] then
      let name := fromU r
      if name ∈ st.used then some st else some (st.fill gid name)
    else some st
  else none

/-- `MakeGlyphNames` as it was before the repair; the coverage lists are visited as given -/
def makeGlyphNamesOld (fromU : Nat → Name) (f : Font) : Option (List Name) :=
  if f.outl.numGlyphs = 0 then none
  else if complete (stage0 f.outl).names then some (stage0 f.outl).names
  else
    let s1 := match f.cmap with
      | none => some (stage0 f.outl)
      | some cm => foldlM' (cmapStepOld fromU cm) (List.range' cm.lo (cm.hi + 1 - cm.lo)) (stage0 f.outl)
    match s1 with
    | none => none
    | some s1 =>
      match foldlM' subStepOld f.gsub s1 with
      | none => none
      | some s2 => some (ornPass s2).names

/-! ## cff/convert.go `makeNames` (called by `MakeSimple`) -/

/-- convert.go:49-59 -/
def cffKeep (isValid : Name → Bool) : List Name → List Name → List Name × List Name
  | [], used => ([], used)
  | nm :: rest, used =>
    if !isValid nm ∨ nm ∈ used then
      let r := cffKeep isValid rest used
      ([] :: r.1, r.2)
    else
      let r := cffKeep isValid rest (nm :: used)
      (nm :: r.1, r.2)

/-- convert.go:75-93: `some t` = the first try that is valid and unused; `none` = gave up at an
invalid candidate -/
def altSearch (isValid : Name → Bool) (base : Name) (used : List Name) : Nat → Nat → Option Nat
  | 0, _ => none
  | fuel + 1, t =>
    if !isValid (altName base t) then none
    else if altName base t ∈ used then altSearch isValid base used fuel (t + 1)
    else some t

/-- `textBase g` = `none` if `glyphText[g]` is missing or empty, else `FromUnicode(glyphText[g])` -/
def textStep (isValid : Name → Bool) (textBase : Nat → Option Name) (st : St) (g : Nat) : St :=
  if st.nameAt g ≠ [] then st
  else match textBase g with
    | none => st
    | some base =>
      match altSearch isValid base st.used (st.used.length + 1) 0 with
      | none => st
      | some t => st.fill g (altName base t)

/-- `(*cff.Outlines).makeNames`; `hasText = false` models `glyphText == nil`.  `none` = the index
panic of `o.Glyphs[0]` for zero glyphs. -/
def cffMakeNames (isValid : Name → Bool) (textBase : Nat → Option Name) (names : List Name) :
    Option (List Name) :=
  if names.length = 0 then none
  else
    let r := cffKeep isValid (names.set 0 notdef) []
    let st : St := ⟨r.1, r.2⟩
    let st := (List.range st.n).foldl (textStep isValid textBase) st
    some (ornPass st).names

/-! ## `PostScriptName` (font.go): delete every maximal run of characters outside the class -/

/-- `re.ReplaceAllString(name, "")` for a negated character class: keep exactly the code points
for which `keep` holds (the 128-entry table is regenerated from the regexp literal; everything
≥ 128 is deleted) -/
def psFilter (keepTab : List Bool) (s : List Nat) : List Nat :=
  s.filter (fun c => keepTab.getD c false)

end SfntV.GNames
