/-
C10 — model of `(*sfnt.Font).Subset` (/repo/subset.go, after the repairs reported with C10:
cmap read from the ORIGINAL table and built after the glyph list is final, GSUB closure and
composite closure repeated until the glyph list is stable, composite closure records the
component's key, rebuilt GSUB 4.1 subtables are appended, emptied GSUB lookups are
kept so that feature → lookup indices stay valid, GPOS 2.1 pairs are renumbered).

Abstract font: a glyph's outline is an opaque `payload`; composites carry the list of component
glyph ids; Go maps are association lists (most recent binding first) or duplicate-free lists;
the iteration order of Go maps is the explicit parameter `Order`.
Core-only (linked into the driver).
-/
import SfntV.Prelude.Outcome

namespace SfntV.Subset

abbrev Gid := Nat

/-- one glyph: outline (opaque), component references (empty for simple glyphs and for CFF),
advance width, name (opaque id; for CFF both live inside `*cff.Glyph`) -/
structure Glyph where
  payload : Nat
  comps : List Gid
  width : Int
  name : Nat
deriving Repr, DecidableEq, Inhabited

/-- a GSUB 4.1 ligature: `In` (without the first glyph) and `Out` -/
abbrev Lig := List Gid × Gid

/-- the GSUB subtables the subsetter declares supported -/
inductive GsubSub where
  /-- GSUB 1.1: coverage set and constant delta (glyph ids are uint16: `gid + delta` wraps) -/
  | single (cov : List Gid) (delta : Nat)
  /-- GSUB 4.1: first glyph ↦ ligatures starting with it -/
  | ligs (entries : List (Gid × List Lig))
deriving Repr, DecidableEq

/-- rebuilt GSUB subtables: 1.1 becomes 1.2 (from ↦ to), 4.1 stays 4.1 -/
inductive GsubOut where
  | multi (m : List (Gid × Gid))
  | ligs (entries : List (Gid × List Lig))
deriving Repr, DecidableEq

/-- a GPOS 2.1 subtable: (left, right) ↦ adjustment (opaque id) -/
abbrev Pairs := List (Gid × Gid × Nat)

/-- `gtab.Info` as far as the subsetter touches it: feature ↦ lookup indices, lookup ↦ subtables -/
structure Layout (σ : Type) where
  features : List (List Nat)
  lookups : List (List σ)
deriving Repr

/-- a cmap subtable: character code ↦ glyph -/
abbrev CMap := List (Nat × Gid)

structure Font where
  isCFF : Bool
  glyphs : List Glyph
  /-- glyf: `Outlines.Names != nil` -/
  hasNames : Bool
  /-- `CMapTable` (none = nil): key ↦ decoded subtable -/
  cmaps : Option (List (String × CMap))
  /-- CFF: private dictionaries and (CID-keyed only) font matrices, as opaque ids -/
  privates : List Nat
  matrices : List Nat
  /-- `ROS != nil` -/
  cidKeyed : Bool
  /-- CFF: `FDSelect(gid)` for every glyph -/
  fdSelect : List Nat
  /-- CFF: built-in encoding (256 glyph ids), none = nil -/
  encoding : Option (List Gid)
  gidToCID : Option (List Nat)
  gsub : Option (Layout GsubSub)
  gpos : Option (Layout Pairs)
deriving Repr

def Font.glyph (f : Font) (g : Gid) : Glyph := f.glyphs.getD g default

/-- the subset as `Subset` returns it; `order` is the subsetter's final `s.glyphs` (old glyph id of
every new glyph) — not stored in the Go result, used to state the theorems -/
structure Sub where
  order : List Gid
  glyphs : List Glyph
  hasNames : Bool
  cmaps : Option (List (String × CMap))
  privates : List Nat
  matrices : List Nat
  fdSelect : List Nat
  encoding : Option (List Gid)
  gidToCID : Option (List Nat)
  gsub : Option (Layout GsubOut)
  gpos : Option (Layout Pairs)
deriving Repr

/-! ## the subsetter state (subset.go: `type subsetter`) -/

/-- Go `map[glyph.ID]glyph.ID`; a later binding shadows earlier ones -/
abbrev GMap := List (Gid × Gid)

structure St where
  glyphs : List Gid
  newGid : GMap
deriving Repr

/-- `for newgid, oldGid := range glyphs { s.newGid[oldGid] = newgid }` -/
def initMap : List Gid → Nat → GMap → GMap
  | [], _, m => m
  | g :: gs, i, m => initMap gs (i + 1) ((g, i) :: m)

def St.init (glyphs : List Gid) : St := ⟨glyphs, initMap glyphs 0 []⟩

/-- `hasOldGid` -/
def St.has (s : St) (g : Gid) : Bool := (s.newGid.lookup g).isSome

/-- `s.glyphs = append(s.glyphs, g); s.newGid[g] = len(s.glyphs)-1` -/
def St.push (s : St) (g : Gid) : St := ⟨s.glyphs ++ [g], (g, s.glyphs.length) :: s.newGid⟩

/-- `getNewGid`: the new index of `g`, appending it if it is not there yet -/
def St.getNewGid (s : St) (g : Gid) : St × Gid :=
  match s.newGid.lookup g with
  | some n => (s, n)
  | none => (s.push g, s.glyphs.length)

def getMany (s : St) : List Gid → St × List Gid
  | [] => (s, [])
  | g :: gs =>
    let r := s.getNewGid g
    let rr := getMany r.1 gs
    (rr.1, r.2 :: rr.2)

/-! ## iteration order of Go maps -/

/-- a GSUB rule as `SubsetGsub` step 1 lists it -/
structure Rule where
  ins : List Gid
  outs : List Gid
deriving Repr, DecidableEq

/-- the order in which the `range` loops over coverage maps and `pop(todo)` deliver their keys, for
every round of the outer loop of `Subset` -/
structure Order where
  /-- round `k`: permutation of the rule list built in step 1 of `addGsubGlyphs` -/
  rules : Nat → List Rule → List Rule
  /-- round `k`: the keys returned by the successive `pop(todo)` calls of `addComponents` -/
  pops : List (List Gid)

/-! ## SubsetGsub -/

def rulesOfSub : GsubSub → List Rule
  | .single cov d => cov.map fun g => ⟨[g], [(g + d) % 65536]⟩
  | .ligs es => es.flatMap fun e => e.2.map fun lig => ⟨e.1 :: lig.1, [lig.2]⟩

/-- step 1: all rules, in table order -/
def rulesOf (l : Layout GsubSub) : List Rule :=
  l.lookups.flatMap fun subs => subs.flatMap rulesOfSub

/-- number of input glyphs (with multiplicity) that are not in the subset -/
def missing (m : GMap) (ins : List Gid) : Nat :=
  (ins.filter fun g => (m.lookup g).isNone).length

/-- `for _, gid := range r.out { if !s.hasOldGid(gid) { s.getNewGid(gid); added[gid] = {} } }` -/
def addOuts (s : St) (added : List Gid) : List Gid → St × List Gid
  | [] => (s, added)
  | g :: gs =>
    if s.has g then addOuts s added gs
    else addOuts (s.getNewGid g).1 (g :: added) gs

/-- the `pos` loop: rules with `nMissing == 0` fire and are removed -/
def sweep (s : St) (added : List Gid) : List (Int × Rule) → St × List Gid × List (Int × Rule)
  | [] => (s, added, [])
  | r :: rs =>
    if r.1 = 0 then
      let sa := addOuts s added r.2.outs
      sweep sa.1 sa.2 rs
    else
      let res := sweep s added rs
      (res.1, res.2.1, r :: res.2.2)

/-- `for _, in := range r.in { if added[in] { nMissing-- } }` -/
def dec (added : List Gid) (r : Int × Rule) : Int × Rule :=
  (r.1 - Int.ofNat (r.2.ins.filter fun g => added.contains g).length, r.2)

/-- step 2, the `for needsRun` loop; `none` = fuel exhausted (never happens with
`fuel > rules.length`, see `gsubLoop_total`) -/
def gsubLoop : Nat → St → List (Int × Rule) → Option St
  | 0, _, _ => none
  | fuel + 1, s, rules =>
    let res := sweep s [] rules
    let rest := res.2.2.map (dec res.2.1)
    if rest.any (fun r => r.1 == 0) then gsubLoop fuel res.1 rest else some res.1

/-- step 3, GSUB 1.1 → 1.2 -/
def subSingle (s : St) (delta : Nat) : List Gid → St × List (Gid × Gid)
  | [] => (s, [])
  | g :: rest =>
    match s.newGid.lookup g with
    | none => subSingle s delta rest
    | some nf =>
      let r := s.getNewGid ((g + delta) % 65536)
      let rr := subSingle r.1 delta rest
      (rr.1, (nf, r.2) :: rr.2)

/-- step 3, the `ligLoop` -/
def subLigs (s : St) : List Lig → St × List Lig
  | [] => (s, [])
  | lig :: rest =>
    if lig.1.all s.has then
      let r := s.getNewGid lig.2
      let r2 := getMany r.1 lig.1
      let rr := subLigs r2.1 rest
      (rr.1, (r2.2, r.2) :: rr.2)
    else subLigs s rest

def subEntries (s : St) : List (Gid × List Lig) → St × List (Gid × List Lig)
  | [] => (s, [])
  | e :: rest =>
    match s.newGid.lookup e.1 with
    | none => subEntries s rest
    | some nf =>
      let r := subLigs s e.2
      let rr := subEntries r.1 rest
      if r.2.isEmpty then rr else (rr.1, (nf, r.2) :: rr.2)

/-- one subtable; `none` = `len(sNew.Cov) == 0`, nothing appended -/
def subGsubSub (s : St) : GsubSub → St × Option GsubOut
  | .single cov d =>
    let r := subSingle s d cov
    (r.1, if r.2.isEmpty then none else some (.multi r.2))
  | .ligs es =>
    let r := subEntries s es
    (r.1, if r.2.isEmpty then none else some (.ligs r.2))

def subSubtables (s : St) : List GsubSub → St × List GsubOut
  | [] => (s, [])
  | t :: ts =>
    let r := subGsubSub s t
    let rr := subSubtables r.1 ts
    (rr.1, match r.2 with | some x => x :: rr.2 | none => rr.2)

/-- every lookup is kept (repair), possibly without subtables -/
def subLookups (s : St) : List (List GsubSub) → St × List (List GsubOut)
  | [] => (s, [])
  | l :: ls =>
    let r := subSubtables s l
    let rr := subLookups r.1 ls
    (rr.1, r.2 :: rr.2)

/-- `addGsubGlyphs`: steps 1 and 2 for one round, the rules delivered in the order `ro` -/
def gsubClose (ro : List Rule → List Rule) (s : St) (l : Layout GsubSub) : Option St :=
  let rules := ro (rulesOf l)
  gsubLoop (rules.length + 1) s (rules.map fun r => (Int.ofNat (missing s.newGid r.ins), r))

/-! ## addComponents: composite closure -/

/-- the inner loop over the components of a popped glyph; `todo` is a Go map used as a set: here a
list read only through `contains` and `filter`, so repetitions are immaterial -/
def addComps (s : St) (todo : List Gid) : List Gid → St × List Gid
  | [] => (s, todo)
  | c :: cs =>
    if s.has c then addComps s todo cs
    else addComps (s.push c) (todo ++ [c]) cs

/-- `for len(todo) > 0 { oldGid := pop(todo); … }` driven by the keys `pop` returns; `none` = the
list of keys is not a run of the loop (a key not in `todo`, or too few / too many keys) -/
def closeGlyf (f : Font) : List Gid → St → List Gid → Option St
  | [], s, todo => if todo.isEmpty then some s else none
  | p :: ps, s, todo =>
    if todo.contains p then
      let r := addComps s (todo.filter (· != p)) (f.glyph p).comps
      closeGlyf f ps r.1 r.2
    else none

/-- `FixComponents(s.newGid)`: a missing key reads as 0 -/
def fixComponents (m : GMap) (g : Glyph) : Glyph :=
  { g with comps := g.comps.map fun c => (m.lookup c).getD 0 }

/-! ## SubsetCFF -/

structure PrivAcc where
  pIdxMap : List (Nat × Nat)
  privates : List Nat
  matrices : List Nat
deriving Repr

/-- the loop that collects the private dictionaries that are used -/
def privLoop (f : Font) : List Gid → PrivAcc → PrivAcc
  | [], a => a
  | g :: gs, a =>
    let p := f.fdSelect.getD g 0
    match a.pIdxMap.lookup p with
    | some _ => privLoop f gs a
    | none =>
      privLoop f gs
        ⟨(p, a.privates.length) :: a.pIdxMap, a.privates ++ [f.privates.getD p 0],
         if f.cidKeyed then a.matrices ++ [f.matrices.getD p 0] else a.matrices⟩

def subFdSelect (f : Font) (a : PrivAcc) (glyphs : List Gid) : List Nat :=
  if a.privates.length = 1 then glyphs.map fun _ => 0
  else glyphs.map fun g => (a.pIdxMap.lookup (f.fdSelect.getD g 0)).getD 0

/-! ## cmap, GPOS -/

def subCMap (m : GMap) (c : CMap) : CMap :=
  c.filterMap fun e => (m.lookup e.2).map fun n => (e.1, n)

def subPairs (m : GMap) (ps : Pairs) : Pairs :=
  ps.filterMap fun p =>
    match m.lookup p.1, m.lookup p.2.1 with
    | some l, some r => some (l, r, p.2.2)
    | _, _ => none

/-! ## Subset -/

/-- one call of `addGsubGlyphs` (nothing to do without a GSUB table) -/
def gsubRound (f : Font) (ro : List Rule → List Rule) (s : St) : Option St :=
  match f.gsub with
  | none => some s
  | some l => gsubClose ro s l

/-- one call of `addComponents` (TrueType outlines only) with the `pop` results `ps` -/
def glyfRound (f : Font) (ps : List Gid) (s : St) : Option St :=
  if f.isCFF then some s else closeGlyf f ps s s.glyphs

/-- the outer loop of `Subset`: `addGsubGlyphs` and `addComponents` are repeated until a round adds
no glyph; round `k` uses the rule order `ro k` and the `pop` results `pss[k]`.  `none` = the oracle is
not a run of the code (an illegal or missing `pop` sequence) -/
def closeAll (f : Font) (ro : Nat → List Rule → List Rule) : Nat → List (List Gid) → St → Option St
  | _, [], _ => none
  | k, ps :: rest, s =>
    match gsubRound f (ro k) s with
    | none => none
    | some s1 =>
      match glyfRound f ps s1 with
      | none => none
      | some s2 =>
        if s2.glyphs.length = s.glyphs.length then some s2 else closeAll f ro (k + 1) rest s2

/-- the result record as a function of the final subsetter state -/
def assemble (f : Font) (s : St) (gsub : Option (Layout GsubOut)) : Sub :=
  let acc : PrivAcc := if f.isCFF then privLoop f s.glyphs ⟨[], [], []⟩ else ⟨[], [], []⟩
  { order := s.glyphs
    glyphs := s.glyphs.map fun g =>
      if f.isCFF then f.glyph g else fixComponents s.newGid (f.glyph g)
    hasNames := f.hasNames
    cmaps := f.cmaps.map fun t => t.map fun kc => (kc.1, subCMap s.newGid kc.2)
    privates := acc.privates
    matrices := acc.matrices
    fdSelect := if f.isCFF then subFdSelect f acc s.glyphs else []
    encoding := if f.isCFF then
        f.encoding.map fun e => e.map fun g => (s.newGid.lookup g).getD 0
      else none
    gidToCID := if f.isCFF then
        f.gidToCID.map fun t => s.glyphs.map fun g => t.getD g 0
      else none
    gsub := gsub
    gpos := f.gpos.map fun l => ⟨l.features, l.lookups.map fun subs => subs.map (subPairs s.newGid)⟩ }

/-- step 3 (`SubsetGsub`): rebuild the lookups; the state is threaded because the code calls
`getNewGid` (which appends nothing here, see `subLookups_closed`) -/
def rebuildGsub (s : St) : Option (Layout GsubSub) → St × Option (Layout GsubOut)
  | none => (s, none)
  | some l =>
    let r := subLookups s l.lookups
    (r.1, some ⟨l.features, r.2⟩)

/-- `(*Font).Subset(glyphs)`; `.err "order"` = `o` is not a run of the code on this input;
`.panic` = an index out of range (a glyph id ≥ the number of glyphs reaches the outlines) -/
def subset (f : Font) (glyphs : List Gid) (o : Order) : Outcome Sub :=
  match closeAll f o.rules 0 o.pops (St.init glyphs) with
  | none => .err "order"
  | some sc =>
    let r := rebuildGsub sc f.gsub
    if r.1.glyphs.any (fun g => decide (f.glyphs.length ≤ g)) then .panic "index out of range"
    else .ok (assemble f r.1 r.2)

/-- the condition of the CFF writer (cff/encoding.go: "encoded glyphs not contiguous"): the glyphs
that carry a code are exactly 1 … maxGid -/
def encodingContiguous (enc : List Gid) : Bool :=
  let used := enc.filter (· != 0)
  let maxGid := used.foldl max 0
  (List.range' 1 maxGid).all fun g => used.contains g

end SfntV.Subset
