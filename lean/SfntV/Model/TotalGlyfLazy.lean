/-
C02 (decoders are total), lazy part for TrueType glyphs: checked-index models of
`(*SimpleGlyph).Decode` (glyf/simple.go:47-173, the repaired code), `decodeGlyphComposite`
(glyf/composite.go:151-211) and `(*Glyph).Components` (glyf/composite.go:293-309).

Every Go index expression, slice expression and `make` of these functions is a checked operation
(`idx`, `idxA`, `slice`, `sliceFrom`, `chk`, `mkSlice`) carrying the label `file.go:line#expr` of the
site inventory.  `Decode` is modelled for EVERY `SimpleGlyph` value (any `NumContours`, any
`Encoded`), not only those accepted by `removePadding`.  Core-only: linked into the driver.

Cost: `steps` = loop iterations + byte/word reads, `alloc` = slice elements + objects.
-/
import SfntV.Model.TotalBase
import SfntV.Model.Glyf

namespace SfntV.Total.GlyfLazy
open SfntV SfntV.Total
open SfntV.Glyf (bit wrap16 Point GlyphInfo Component compSkip flagOnCurve flagXShortVec
  flagYShortVec flagRepeat flagXSameOrPos flagYSameOrPos FlagMoreComponents FlagWeHaveInstructions)

/-! ## checked operations -/

/-- `xs[a:b]` on a slice whose capacity equals its length (panic unless `a ≤ b ≤ len`) -/
def slice (site : String) (xs : List α) (a b : Nat) : Outcome (List α) :=
  if a ≤ b ∧ b ≤ xs.length then .ok ((xs.drop a).take (b - a)) else .panic site

/-- `xs[a:]` -/
def sliceFrom (site : String) (xs : List α) (a : Nat) : Outcome (List α) :=
  if a ≤ xs.length then .ok (xs.drop a) else .panic site

/-- bounds check of the store `xs[i] = v` into a slice of length `n` (the stores of the modelled
loops happen at `i = 0, 1, 2, …` in order, so the stored values are collected as a list) -/
def chk (site : String) (n i : Nat) : Outcome Unit :=
  if i < n then .ok () else .panic site

/-- checked index into an array (`xx[j]`, `yy[j]`, `ff[j]` of the contour loop: constant-time) -/
def idxA (site : String) (xs : Array α) (i : Nat) : Outcome α :=
  match xs[i]? with
  | some v => .ok v
  | none => .panic site

def errInvalid : String := "invalid"

/-! ## `(*SimpleGlyph).Decode` -/

/-- simple.go:55-57 `for i := 0; i < numContours; i++ { endPtsOfContours[i] = uint16(buf[2*i])<<8 | uint16(buf[2*i+1]) }`;
`k` = iterations left -/
def endLoop (buf : Bytes) (n : Nat) : Nat → Nat → Outcome (List Nat)
  | 0, _ => .ok []
  | k+1, i => do
    let hi ← idx "simple.go:56#buf[2*i]" buf (2 * i)
    let lo ← idx "simple.go:56#buf[2*i+1]" buf (2 * i + 1)
    chk "simple.go:56#endPtsOfContours[i]" n i
    let rest ← endLoop buf n k (i + 1)
    pure (be hi lo :: rest)

/-- simple.go:88-92 `for count > 0 && i < numPoints { ff[i] = flags; i++; count-- }`: the copies
written and the new `i` -/
def repLoop (np f : Nat) : Nat → Nat → Outcome (List Nat × Nat)
  | 0, i => .ok ([], i)
  | c+1, i =>
    if i < np then do
      chk "simple.go:89#ff[i]" np i
      let (r, i') ← repLoop np f c (i + 1)
      pure (f :: r, i')
    else .ok ([], i)

/-- simple.go:74-94 the flag loop `for i < numPoints { … }`; every iteration increases `i`, so
`numPoints` iterations (`fuel`) suffice.  Result: flags written, remaining buffer, final `i`, steps. -/
def flagLoop (np : Nat) : Nat → Bytes → Nat → Outcome (List Nat × Bytes × Nat × Nat)
  | 0, buf, i => .ok ([], buf, i, 0)
  | fuel+1, buf, i =>
    if i < np then
      if buf.length < 1 then .err errInvalid else do
      let fl ← idx "simple.go:78#buf[0]" buf 0
      let buf ← sliceFrom "simple.go:79#buf[1:]" buf 1
      chk "simple.go:80#ff[i]" np i
      let f := fl.toNat
      if bit f flagRepeat then
        if buf.length < 1 then .err errInvalid else do
        let cnt ← idx "simple.go:86#buf[0]" buf 0
        let buf ← sliceFrom "simple.go:87#buf[1:]" buf 1
        let (r, i') ← repLoop np f cnt.toNat (i + 1)
        let (fs, b, i'', s) ← flagLoop np fuel buf i'
        pure (f :: r ++ fs, b, i'', s + 3 + r.length)
      else do
        let (fs, b, i'', s) ← flagLoop np fuel buf (i + 1)
        pure (f :: fs, b, i'', s + 2)
    else .ok ([], buf, i, 0)

/-- the site labels of one coordinate loop -/
structure CoordSites where
  s0 : String   -- short: buf[0]
  s1 : String   -- short: buf[1:]
  l0 : String   -- long: buf[0]
  l1 : String   -- long: buf[1]
  l2 : String   -- long: buf[2:]
  w  : String   -- xx[i] = x

def xSites : CoordSites :=
  ⟨"simple.go:107#buf[0]", "simple.go:108#buf[1:]", "simple.go:118#buf[0]", "simple.go:118#buf[1]",
   "simple.go:119#buf[2:]", "simple.go:122#xx[i]"⟩
def ySites : CoordSites :=
  ⟨"simple.go:133#buf[0]", "simple.go:134#buf[1:]", "simple.go:144#buf[0]", "simple.go:144#buf[1]",
   "simple.go:145#buf[2:]", "simple.go:148#yy[i]"⟩

/-- one iteration body of simple.go:102-123 (x) / 128-149 (y) up to the store: the new running
coordinate (`funit.Int16` arithmetic wraps), the remaining buffer and the number of reads -/
def coordStep (st : CoordSites) (short same : Nat) (f : Nat) (buf : Bytes) (x : Int) :
    Outcome (Int × Bytes × Nat) :=
  if bit f short then
    if buf.length < 1 then .err errInvalid else do
    let b ← idx st.s0 buf 0
    let buf' ← sliceFrom st.s1 buf 1
    pure (if bit f same then wrap16 (x + b.toNat) else wrap16 (x - b.toNat), buf', 1)
  else if !bit f same then
    if buf.length < 2 then .err errInvalid else do
    let b0 ← idx st.l0 buf 0
    let b1 ← idx st.l1 buf 1
    let buf' ← sliceFrom st.l2 buf 2
    pure (wrap16 (x + wrap16 (b0.toNat * 256 + b1.toNat)), buf', 1)
  else pure (x, buf, 0)

/-- `for i, flags := range ff { …; xx[i] = x }` (`n` = `len(xx)`); result: coordinates, remaining
buffer, steps -/
def coordLoop (st : CoordSites) (short same n : Nat) :
    List Nat → Nat → Bytes → Int → Outcome (List Int × Bytes × Nat)
  | [], _, buf, _ => .ok ([], buf, 0)
  | f :: fs, i, buf, x => do
    let (x', buf', s) ← coordStep st short same f buf x
    chk st.w n i
    let (xs, r, s') ← coordLoop st short same n fs (i + 1) buf' x'
    pure (x' :: xs, r, s + s' + 1)

/-- simple.go:159-161 `for j := start; j < end; j++ { pp[j-start] = Point{xx[j], yy[j], ff[j]&flagOnCurve != 0} }`;
`len` = `len(pp)`, `k` = iterations left -/
def ptLoop (xx yy : Array Int) (ff : Array Nat) (start len : Nat) : Nat → Nat → Outcome (List Point)
  | 0, _ => .ok []
  | k+1, j => do
    let x ← idxA "simple.go:160#xx[j]" xx j
    let y ← idxA "simple.go:160#yy[j]" yy j
    let f ← idxA "simple.go:160#ff[j]" ff j
    chk "simple.go:160#pp[j-start]" len (j - start)
    let rest ← ptLoop xx yy ff start len k (j + 1)
    pure (⟨x, y, bit f flagOnCurve⟩ :: rest)

/-- simple.go:153-165 the contour loop with the repaired guard `end < start || end > numPoints`;
`k` = iterations left -/
def contourLoop (xx yy : Array Int) (ff : Array Nat) (endPts : List Nat) (np nc : Nat) :
    Nat → Nat → Nat → Cost → Outcome (List (List Point) × Cost)
  | 0, _, _, c => .ok ([], c)
  | k+1, i, start, c => do
    let e ← idx "simple.go:154#endPtsOfContours[i]" endPts i
    let end_ := e + 1
    if end_ < start ∨ end_ > np then .err errInvalid else do
    let c ← mkSlice "simple.go:158#make([]Point, end-start)" (end_ - start) c
    let pp ← ptLoop xx yy ff start (end_ - start) (end_ - start) start
    chk "simple.go:164#cc[i]" nc i
    let (cs, c) ← contourLoop xx yy ff endPts np nc k (i + 1) end_ (c.tick (1 + (end_ - start)))
    pure (pp :: cs, c)

/-- body of `(*SimpleGlyph).Decode` over `numContours := int(glyph.NumContours)` as an integer -/
def decodeI (nc : Int) (enc : Bytes) : Outcome (GlyphInfo × Cost) :=
  if nc < 0 ∨ enc.length < 2 * nc.toNat + 2 then .err errInvalid else do
  let n := nc.toNat
  let c ← mkSlice "simple.go:54#make([]uint16, numContours)" n Cost.zero
  let endPts ← endLoop enc n n 0
  let c := c.tick (3 * n)
  let buf ← sliceFrom "simple.go:58#buf[2*numContours:]" enc (2 * n)
  let numPoints ←
    (if n > 0 then do
      let e ← idx "simple.go:61#endPtsOfContours[numContours-1]" endPts (n - 1)
      pure (e + 1)
    else pure 0 : Outcome Nat)
  let il ← w16 "simple.go:64#buf[0],buf[1]" buf 0
  let c := c.tick
  if buf.length < 2 + il then .err errInvalid else do
  let instr ← slice "simple.go:68#buf[2 : 2+instructionLength]" buf 2 (2 + il)
  let buf ← sliceFrom "simple.go:69#buf[2+instructionLength:]" buf (2 + il)
  let c ← mkSlice "simple.go:72#make([]byte, numPoints)" numPoints c
  let (ff, buf, i, s) ← flagLoop numPoints numPoints buf 0
  let c := c.tick s
  if i ≠ numPoints then .err errInvalid else do
  let c ← mkSlice "simple.go:100#make([]funit.Int16, numPoints)" numPoints c
  let (xx, buf, s) ← coordLoop xSites flagXShortVec flagXSameOrPos numPoints ff 0 buf 0
  let c := c.tick s
  let c ← mkSlice "simple.go:126#make([]funit.Int16, numPoints)" numPoints c
  let (yy, _, s) ← coordLoop ySites flagYShortVec flagYSameOrPos numPoints ff 0 buf 0
  let c := c.tick s
  let c ← mkSlice "simple.go:151#make([]Contour, numContours)" n c
  let (cc, c) ← contourLoop xx.toArray yy.toArray ff.toArray endPts numPoints n n 0 0 c
  .ok (⟨cc, instr⟩, c.mem 1)

/-- `(*SimpleGlyph).Decode`: `nc` = `glyph.NumContours` (ANY `int16`), `enc` = `glyph.Encoded`
(ANY bytes) -/
def decode (nc : Int16) (enc : Bytes) : Outcome (GlyphInfo × Cost) := decodeI nc.toInt enc

/-! ## `decodeGlyphComposite` -/

/-- composite.go:155-194 the component loop; every iteration consumes at least 6 bytes, so
`len(data) + 1` iterations (`fuel`) suffice.  Result: components, remaining data,
`weHaveInstructions`, cost. -/
def compLoop : Nat → Bytes → Bool → Cost → Outcome (List Component × Bytes × Bool × Cost)
  | 0, _, _, _ => .err errInvalid
  | fuel+1, data, wh, c =>
    if data.length < 4 then .err errInvalid else do
    let flags ← w16 "composite.go:160#data[0],data[1]" data 0
    let gid ← w16 "composite.go:161#data[2],data[3]" data 2
    let data ← sliceFrom "composite.go:162#data[4:]" data 4
    let wh := wh || bit flags FlagWeHaveInstructions
    let skip := compSkip flags
    if data.length < skip then .err errInvalid else do
    let args ← slice "composite.go:184#data[:skip]" data 0 skip
    let data ← sliceFrom "composite.go:185#data[skip:]" data skip
    let c := (c.tick 3).mem 1          -- one iteration, two reads; one appended component
    if bit flags FlagMoreComponents then do
      let (cs, rest, wh', c') ← compLoop fuel data wh c
      pure (⟨flags, gid, args⟩ :: cs, rest, wh', c')
    else .ok ([⟨flags, gid, args⟩], data, wh, c)

/-- `decodeGlyphComposite(data)`; instructions `none` = nil slice -/
def decodeGlyphComposite (data : Bytes) : Outcome ((List Component × Option Bytes) × Cost) := do
  let (cs, data, wh, c) ← compLoop (data.length + 1) data false Cost.zero
  if wh && decide (data.length ≥ 2) then do
    let L ← w16 "composite.go:197#data[0],data[1]" data 0
    let data ← sliceFrom "composite.go:198#data[2:]" data 2
    let data ← (if data.length > L then slice "composite.go:200#data[:L]" data 0 L else pure data : Outcome Bytes)
    .ok ((cs, some data), (c.tick).mem 1)
  else .ok ((cs, none), c.mem 1)

/-! ## `(*Glyph).Components` -/

/-- the dynamic type of `Glyph.Data` (an `interface{}`): the two types `decodeGlyph` stores, or
anything else -/
inductive GData where
  | simple (nc : Int) (enc : Bytes)
  | composite (comps : List Component) (instr : Option Bytes)
  | other
deriving Repr

/-- composite.go:302-304 `for i, comp := range d.Components { res[i] = comp.GlyphIndex }` -/
def compIds (n : Nat) : List Component → Nat → Outcome (List Nat)
  | [], _ => .ok []
  | cp :: cs, i => do
    chk "composite.go:303#res[i]" n i
    let rest ← compIds n cs (i + 1)
    pure (cp.gid :: rest)

/-- `(*Glyph).Components`: argument `none` = nil pointer; result `none` = nil slice -/
def components : Option GData → Outcome (Option (List Nat) × Cost)
  | none => .ok (none, Cost.zero)
  | some (.simple _ _) => .ok (none, Cost.zero)
  | some (.composite cs _) => do
    let c ← mkSlice "composite.go:301#make([]glyph.ID, len(d.Components))" cs.length Cost.zero
    let ids ← compIds cs.length cs 0
    .ok (some ids, c.tick cs.length)
  | some .other => .panic "composite.go:307#panic(\"unexpected glyph type\")"

end SfntV.Total.GlyfLazy
