/-
C18 at the level of parser/parser.go: the parser on a source that ends at offset `k` — by EOF
(a truncated file) or by a non-EOF error (a failing reader) — while `Size()` still reports the
length of the complete file.  Extension of Model/Parser (imported, not edited).
Core-only: linked into the driver.
-/
import SfntV.Model.Parser

namespace SfntV.FaultsParser
open SfntV SfntV.Parser

/-- The source delivers `f[0, k)` in pieces chosen by the oracle and then ends.  Whether the
end is `io.EOF` or another error only changes the error value handed through (`ReadBytes`
returns it unchanged, or `io.ErrUnexpectedEOF` for EOF), not the control flow, so the parser
state is that of the parser on `f.take k`. -/
def initAt (f : Bytes) (k : Nat) : P := P.init (f.take k)

/-- the exported methods; `Size()` asks the source, which knows the complete length `flen` -/
def faultStep (o : Oracle) (flen : Nat) (p : P) : Op → P × Out
  | .size => (p, .num flen)
  | op => implStep o p op

def faultRun (o : Oracle) (flen : Nat) : P → List Op → List Out
  | _, [] => []
  | p, op :: ops => let r := faultStep o flen p op; r.2 :: faultRun o flen r.1 ops

/-- the byte view of the same source: a cursor over `f.take k`, `Size() = |f|` -/
def viewStep (f : Bytes) (k c : Nat) : Op → Nat × Out
  | .size => (c, .num f.length)
  | op => specStep (f.take k) c op

def viewRun (f : Bytes) (k : Nat) : Nat → List Op → List Out
  | _, [] => []
  | c, op :: ops => let r := viewStep f k c op; r.2 :: viewRun f k r.1 ops

/-- One past the last byte of the complete file `f` that operation `op` at cursor `c` needs
(0 if it needs none).  For `ReadUint16Slice` the count is read from the file first. -/
def needEnd (f : Bytes) (c : Nat) : Op → Nat
  | .bytes n => if n = 0 then 0 else c + n
  | .read n => if n = 0 then 0 else c + n
  | .u8 => c + 1
  | .u16 => c + 2
  | .i16 => c + 2
  | .u32 => c + 4
  | .u16s => if c + 2 ≤ f.length then c + 2 + 2 * beVal ((f.drop c).take 2) else c + 2
  | _ => 0

/-- an error result: no value, or a bulk read reporting a short count with its error -/
def isErr : Out → Bool
  | .eof => true
  | .short _ => true
  | _ => false

end SfntV.FaultsParser
