/-
C02 (decoders are total): checked-index models of the script-list and feature-list readers of
GSUB/GPOS tables and of the header stage of `readGtab`, as the code stands in the working tree:

* `readLangSysTable`              opentype/gtab/scriptlist.go:171-206
* `ScriptListInfo.readScriptTable` opentype/gtab/scriptlist.go:99-168
* `readScriptList`                opentype/gtab/scriptlist.go:44-96
* `readFeatureList`               opentype/gtab/featurelist.go:50-115
* `readGtab` (header stage)       opentype/gtab/gtab.go:85-162

All readers take `(p *parser.Parser, pos int64)`; the parser is a plain byte view (theorem C17), so
the models take the whole byte string `b` (`p.Size() = b.length`) and the absolute position:
`p.SeekPos(pos)` never fails on an in-memory reader, a read of `n` bytes at position `q` is
`readBytes site b q n`.

Parameters (abstract, the theorems hold for all of them):
* `conv : Bytes → Bytes → Option τ` is `otfToBCP47(script, lang)` (locale.go:26-55: two map lookups
  and `language.Parse`): `none` = the conversion returned an error, in which case
  `readScriptTable` SKIPS the record (scriptlist.go:160-163 `continue`) after having decoded its
  LangSys table.  The default language system has the empty language tag `[]`.
* `srt : List (Bytes × Nat) → List (Bytes × Nat)` is `sort.Slice(·, offset <)` (scriptlist.go:74, 150).
  The library sort is not stable for more than 12 elements, so the order among records with EQUAL
  offsets is unspecified; the no-panic theorems hold for every function `srt`, the cost theorems for
  every length-preserving one.  The comparator's index expressions `entries[i]`, `entries[j]`
  (`records[i]`, `records[j]`) are evaluated by `sort.Slice` with `0 ≤ i, j < len` only.
  (The driver uses the stable merge sort; records with equal offsets decode the same bytes, so with an
  injective `conv` the resulting map does not depend on their order.)
* `ll : Nat → Outcome (λ × Cost)` is `readLookupList(p, pos, sr)` (modelled in TotalOtl*/by the
  lookup-list group), a parameter of `readGtab` only.

Values.  The Go map `ScriptListInfo` is an association list `(tag, features)` NEWEST WRITE FIRST
(`info[tag] = ff` prepends; a map write cannot panic, the map is non-nil: scriptlist.go:87).
Script/LangSys records are `(tag bytes, offset)`.

Cost.  `steps` = parser reads + loop iterations, `alloc` = slice elements appended/made + objects
(`&Features{}`, `&featureRecord{}`, `&Feature{}`, map objects) + one per map WRITE (upper bound of
the entries created).  `make([]FeatureIndex, featureIndexCount)` (scriptlist.go:191) is charged when it
happens, before the reads.  The `O(n log n)` comparisons inside `sort.Slice` are not counted.
Offsets may alias: every VISIT of a script table / LangSys table / feature table is charged.
Core-only: linked into the driver.
-/
import SfntV.Model.TotalBase

namespace SfntV.Total.GtabLists
open SfntV SfntV.Total

def addCost (c d : Cost) : Cost := ⟨c.steps + d.steps, c.alloc + d.alloc⟩

/-- `p.ReadUint16()` at absolute position `q` (parser.go:120-126) -/
def readU16 (site : String) (b : Bytes) (q : Nat) : Outcome Nat := do
  let w ← readBytes site b q 2
  w16 site w 0

/-- checked slice expression `xs[lo:hi]` -/
def slice (site : String) (xs : List α) (lo hi : Nat) : Outcome (List α) :=
  if lo ≤ hi ∧ hi ≤ xs.length then .ok ((xs.drop lo).take (hi - lo)) else .panic site

/-- checked store `xs[i] = v` -/
def setIdx (site : String) (xs : List α) (i : Nat) (v : α) : Outcome (List α) :=
  if i < xs.length then .ok (xs.set i v) else .panic site

/-- `Features` (scriptlist.go:33-36) -/
structure Features where
  required : Nat
  optional : List Nat
deriving Repr, DecidableEq

/-! ## readLangSysTable -/

/-- scriptlist.go:192-200: `n` iterations left, `q` position, `i` loop index, `fi` = featureIndices -/
def langSysLoop (b : Bytes) : Nat → Nat → Nat → List Nat → Cost → Outcome (List Nat × Cost)
  | 0, _, _, fi, c => .ok (fi, c)
  | n+1, q, i, fi, c => do
    let v ← readU16 "scriptlist.go:193#ReadUint16" b q
    if v = 0xFFFF then langSysLoop b n (q + 2) (i + 1) fi c.tick else do
    let fi ← setIdx "scriptlist.go:199#featureIndices[i]" fi i v
    langSysLoop b n (q + 2) (i + 1) fi c.tick

/-- `readLangSysTable(p, pos)` -/
def readLangSysTable (b : Bytes) (pos : Nat) : Outcome (Features × Cost) := do
  let data ← readBytes "scriptlist.go:177#ReadBytes(6)" b pos 6
  let c := Cost.zero.tick
  let lookupOrderOffset ← w16 "scriptlist.go:181#data[0],data[1]" data 0
  let required ← w16 "scriptlist.go:182#data[2],data[3]" data 2
  let count ← w16 "scriptlist.go:183#data[4],data[5]" data 4
  if lookupOrderOffset ≠ 0 then .err "unsupported" else
  let c ← mkSlice "scriptlist.go:191#make([]FeatureIndex, featureIndexCount)" count c
  let (fi, c) ← langSysLoop b count (pos + 6) 0 (List.replicate count 0) c
  .ok (⟨required, fi⟩, c.mem 1)                          -- scriptlist.go:202 `&Features{}`

/-! ## readScriptTable -/

/-- 6-byte (tag, offset) records: `ReadBytes(6)`, `buf[:4]`, `buf[4]`, `buf[5]`, `append`;
`acc` is the list so far in REVERSE order.  Used for scriptlist.go:62-73 (sites `s6 s4 so`) and
scriptlist.go:137-149. -/
def tagRecs (s6 s4 so : String) (b : Bytes) :
    Nat → Nat → List (Bytes × Nat) → Cost → Outcome (List (Bytes × Nat) × Cost)
  | 0, _, acc, c => .ok (acc.reverse, c)
  | n+1, q, acc, c => do
    let buf ← readBytes s6 b q 6
    let tag ← slice s4 buf 0 4
    let off ← w16 so buf 4
    tagRecs s6 s4 so b n (q + 6) ((tag, off) :: acc) (c.tick.mem 1)

/-- scriptlist.go:154-165: the LangSys tables of one script, in the sorted order of the records -/
def scriptLangs (conv : Bytes → Bytes → Option τ) (b : Bytes) (script : Bytes) (pos : Nat) :
    List (Bytes × Nat) → List (τ × Features) → Cost → Outcome (List (τ × Features) × Cost)
  | [], info, c => .ok (info, c)
  | (lang, off) :: rest, info, c => do
    let (ff, d) ← readLangSysTable b (pos + off)
    let c := addCost c.tick d
    match conv script lang with
    | none => scriptLangs conv b script pos rest info c                  -- `continue`
    | some tag => scriptLangs conv b script pos rest ((tag, ff) :: info) (c.mem 1)  -- `info[tag] = ff`

/-- `info.readScriptTable(script, p, pos)`; returns the updated map and the cost of this call -/
def readScriptTable (conv : Bytes → Bytes → Option τ) (srt : List (Bytes × Nat) → List (Bytes × Nat))
    (b : Bytes) (script : Bytes) (pos : Nat) (info : List (τ × Features)) :
    Outcome (List (τ × Features) × Cost) := do
  let data ← readBytes "scriptlist.go:105#ReadBytes(4)" b pos 4
  let c := Cost.zero.tick
  let defaultLangSysOffset ← w16 "scriptlist.go:110#data[0],data[1]" data 0
  let langSysCount ← w16 "scriptlist.go:111#data[2],data[3]" data 2
  -- scriptlist.go:113 `4+6*langSysCount` is uint16 arithmetic
  if defaultLangSysOffset > 0 ∧ defaultLangSysOffset < (4 + 6 * langSysCount) % 65536 then
    .err "invalid" else
  if 8 + langSysCount * 12 > b.length then .err "invalid" else
  let recs0 : List (Bytes × Nat) :=
    if defaultLangSysOffset ≠ 0 then [([], defaultLangSysOffset)] else []
  let c := c.mem recs0.length
  let (records, c) ← tagRecs "scriptlist.go:138#ReadBytes(6)" "scriptlist.go:143#buf[:4]"
    "scriptlist.go:147#buf[4],buf[5]" b langSysCount (pos + 4) recs0 c
  scriptLangs conv b script pos (srt records) info c

/-! ## readScriptList -/

/-- scriptlist.go:88-93 -/
def scripts (conv : Bytes → Bytes → Option τ) (srt : List (Bytes × Nat) → List (Bytes × Nat))
    (b : Bytes) (pos : Nat) :
    List (Bytes × Nat) → List (τ × Features) → Cost → Outcome (List (τ × Features) × Cost)
  | [], info, c => .ok (info, c)
  | (script, off) :: rest, info, c => do
    let (info, d) ← readScriptTable conv srt b script (pos + off) info
    scripts conv srt b pos rest info (addCost c.tick d)

/-- `readScriptList(p, pos)` -/
def readScriptList (conv : Bytes → Bytes → Option τ) (srt : List (Bytes × Nat) → List (Bytes × Nat))
    (b : Bytes) (pos : Nat) : Outcome (List (τ × Features) × Cost) := do
  let scriptCount ← readU16 "scriptlist.go:50#ReadUint16" b pos
  let c := Cost.zero.tick
  if 6 * scriptCount > b.length then .err "invalid" else
  let (entries, c) ← tagRecs "scriptlist.go:63#ReadBytes(6)" "scriptlist.go:69#buf[:4]"
    "scriptlist.go:70#buf[4],buf[5]" b scriptCount (pos + 2) [] c
  let sorted := srt entries
  -- scriptlist.go:78-85 (`len(entries)` is the length after the sort)
  if sorted.any (fun e => e.2 < 2 + 6 * sorted.length) then .err "invalid" else
  let c := (c.tick sorted.length).mem 1                       -- scriptlist.go:87 `ScriptListInfo{}`
  scripts conv srt b pos sorted [] c

/-! ## readFeatureList -/

/-- `Feature` (featurelist.go:36-43) -/
structure Feature where
  tag : Bytes
  lookups : List Nat
deriving Repr, DecidableEq

/-- featurelist.go:101-107; `acc` reversed -/
def featLookups (b : Bytes) : Nat → Nat → List Nat → Cost → Outcome (List Nat × Cost)
  | 0, _, acc, c => .ok (acc.reverse, c)
  | n+1, q, acc, c => do
    let v ← readU16 "featurelist.go:102#ReadUint16" b q
    featLookups b n (q + 2) (v :: acc) (c.tick.mem 1)

/-- featurelist.go:79-112; `total` = totalSize, `acc` reversed -/
def featTables (b : Bytes) (pos : Nat) :
    List (Bytes × Nat) → Nat → List Feature → Cost → Outcome (List Feature × Cost)
  | [], _, acc, c => .ok (acc.reverse, c)
  | (tag, offs) :: rest, total, acc, c => do
    let buf ← readBytes "featurelist.go:84#ReadBytes(4)" b (pos + offs) 4
    let count ← w16 "featurelist.go:89#buf[2],buf[3]" buf 2
    if total > 0xFFFF then .err "invalid" else
    let (lk, c) ← featLookups b count (pos + offs + 4) [] (c.tick 2)
    featTables b pos rest (total + 4 + 2 * count) (⟨tag, lk⟩ :: acc) (c.mem 2)  -- `&Feature{}`, append

/-- `readFeatureList(p, pos)`; a feature record costs 2 allocations (`&featureRecord{}`, append) -/
def readFeatureList (b : Bytes) (pos : Nat) : Outcome (List Feature × Cost) := do
  let featureCount ← readU16 "featurelist.go:56#ReadUint16" b pos
  let (recs, c) ← tagRecs "featurelist.go:66#ReadBytes(6)" "featurelist.go:72#buf[:4]"
    "featurelist.go:73#buf[4],buf[5]" b featureCount (pos + 2) [] Cost.zero.tick
  featTables b pos recs (2 + 6 * recs.length) [] (c.mem recs.length)

/-! ## readGtab: the header stage -/

/-- `Info`: `none` lists are nil (the early return of gtab.go:117-121 leaves them nil and makes an
empty script map) -/
structure Info (τ ι : Type) where
  scriptList : List (τ × Features)
  featureList : Option (List Feature)
  lookupList : Option ι

/-- `readGtab(r, tp, sr)`; `ll pos` is `readLookupList(p, pos, sr)` -/
def readGtab (conv : Bytes → Bytes → Option τ) (srt : List (Bytes × Nat) → List (Bytes × Nat))
    (ll : Nat → Outcome (ι × Cost)) (b : Bytes) : Outcome (Info τ ι × Cost) := do
  -- gtab.go:97 `binary.Read(p, binary.BigEndian, &header)`: 10 bytes, decoded by encoding/binary
  let h ← readFull b 0 10
  let c := Cost.zero.tick
  let major ← w16 "gtab.go:97#binary.Read" h 0
  let minor ← w16 "gtab.go:97#binary.Read" h 2
  let scriptListOffset ← w16 "gtab.go:97#binary.Read" h 4
  let featureListOffset ← w16 "gtab.go:97#binary.Read" h 6
  let lookupListOffset ← w16 "gtab.go:97#binary.Read" h 8
  if major ≠ 1 ∨ minor > 1 then .err "unsupported" else
  let (fvo, endOfHeader, c) ←
    (if minor = 1 then do
      let w ← readBytes "gtab.go:110#ReadUint32" b 10 4
      let v ← w32 "gtab.go:110#ReadUint32" w 0
      pure (v, 14, c.tick)
    else pure (0, 10, c) : Outcome (Nat × Nat × Cost))
  if scriptListOffset = 0 ∨ lookupListOffset = 0 then
    .ok (⟨[], none, none⟩, c.mem 2) else               -- `&Info{}`, `make(ScriptListInfo)`
  let fileSize := b.length
  if [scriptListOffset, featureListOffset, lookupListOffset].any
      (fun o => o < endOfHeader ∨ o ≥ fileSize) then .err "invalid" else
  if (fvo ≠ 0 ∧ fvo < endOfHeader) ∨ fvo ≥ fileSize then .err "invalid" else
  let c := (c.tick 3).mem 1                                  -- the offset loop, `&Info{}`
  let (sl, d1) ← readScriptList conv srt b scriptListOffset
  let (fl, d2) ← readFeatureList b featureListOffset
  let (lk, d3) ← ll lookupListOffset
  .ok (⟨sl, some fl, some lk⟩, addCost (addCost (addCost c d1) d2) d3)

end SfntV.Total.GtabLists
