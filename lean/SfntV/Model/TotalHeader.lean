/-
Checked-index model of `header.Read` (header/tables.go:58-163) with cost counters.  The
value-level model `SfntV.Header.read` (Model/Header.lean, property C03) is imported read-only;
`Proofs/TotalHeader` relates the two.
-/
import SfntV.Model.TotalBase
import SfntV.Model.Header

namespace SfntV.Total.Header
open SfntV SfntV.Total

abbrev Rec := Bytes × Nat × Nat      -- name, offset, length

/-- tables.go:97-104: the four name bytes must be printable ASCII -/
def nameOk (buf : Bytes) : Nat → Nat → Outcome Bool
  | 0, _ => .ok true
  | n+1, i => do
    let x ← idx "tables.go:98#buf[i]" buf i
    if x < 0x20 ∨ x > 0x7e then .ok false else nameOk buf n (i + 1)

/-- the directory loop tables.go:92-126: `fuel` records still to read, record index `i` -/
def records (f : Bytes) : Nat → Nat → List Rec → Cost → Outcome (List Rec × Cost)
  | 0, _, acc, c => .ok (acc.reverse, c)
  | fuel+1, i, acc, c => do
    let buf ← readFull f (12 + 16 * i) 16            -- r.ReadAt(buf[:16], 12+i*16)
    let c := c.tick
    let ok ← nameOk buf 4 0
    if !ok then .err "invalid" else
    let name := buf.take 4                           -- string(buf[:4]): constant slice of [16]byte
    let offset ← w32 "tables.go:106#buf[8..11]" buf 8
    let length ← w32 "tables.go:107#buf[12..15]" buf 12
    if acc.any (fun r => r.1 == name) then .err "invalid" else
    -- h.Toc[name] = …; coverage = append(coverage, …)
    records f fuel (i + 1) ((name, offset, length) :: acc) (c.mem 2)

/-- tables.go:144-151: `for i := 1; i < len(coverage); i++ { coverage[i-1].End > coverage[i].Start }` -/
def overlapScan (cov : List (Nat × Nat)) : Nat → Nat → Cost → Outcome (Bool × Cost)
  | 0, _, c => .ok (false, c)
  | n+1, i, c => do
    let a ← idx "tables.go:145#coverage[i-1]" cov (i - 1)
    let b ← idx "tables.go:145#coverage[i]" cov i
    if a.2 > b.1 then .ok (true, c.tick) else overlapScan cov n (i + 1) c.tick

def read (maxTables : Nat) (f : Bytes) : Outcome ((Nat × List Rec) × Cost) := do
  let buf ← readFull f 0 6                           -- r.ReadAt(buf[:6], 0)
  let c := Cost.zero.tick
  let scaler ← w32 "tables.go:64#buf[0..3]" buf 0
  let n ← w16 "tables.go:65#buf[4],buf[5]" buf 4
  if !SfntV.Header.scalerOk scaler then .err "unsupported" else
  if n > maxTables then .err "invalid" else
  let c ← mkSlice "tables.go:85#make(map[string]Record, numTables)" n c
  let (recs, c) ← records f n 0 [] c
  if recs.isEmpty then .err "invalid" else
  -- sort.Slice(coverage, …): n·(⌊log₂ n⌋+1) comparisons charged
  let cov := (recs.map fun r => (r.2.1, (r.2.1 + r.2.2) % 4294967296)).mergeSort
    (fun a b => if a.1 ≠ b.1 then a.1 < b.1 else a.2 ≤ b.2)
  let c := c.tick (cov.length * (Nat.log2 cov.length + 1))
  let first ← idx "tables.go:138#coverage[0]" cov 0
  if first.1 < 12 then .err "invalid" else
  let (ov, c) ← overlapScan cov (cov.length - 1) 1 c
  if ov then .err "invalid" else
  let last ← idx "tables.go:152#coverage[len(coverage)-1]" cov (cov.length - 1)
  -- r.ReadAt(buf[:1], int64(End)-1): offset -1 is an error of bytes.Reader, not EOF
  if last.2 = 0 then .err "io"
  else if last.2 - 1 ≥ f.length then .err "invalid"
  else .ok ((scaler, recs), c.tick)

end SfntV.Total.Header
