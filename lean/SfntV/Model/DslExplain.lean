/-
C19 — model of opentype/gtab/builder/explain.go (ExplainGsub for GSUB 1–4, explainFlags,
glyph/glyph-list/glyph-set notation, mapping lists with ranges).  Core-only.
Output is the byte string `ExplainGsub` returns.
-/
import SfntV.Model.DslParse

namespace SfntV.Dsl

/-- `string([]rune{r})`: UTF-8, with U+FFFD for surrogates and values above U+10FFFF -/
def utf8Encode (r : Nat) : List Nat :=
  if r < 0x80 then [r]
  else if r < 0x800 then [0xC0 + r / 64, 0x80 + r % 64]
  else if (0xD800 ≤ r && r < 0xE000) || r > 0x10FFFF then [0xEF, 0xBF, 0xBD]
  else if r < 0x10000 then [0xE0 + r / 4096, 0x80 + r / 64 % 64, 0x80 + r % 64]
  else [0xF0 + r / 262144, 0x80 + r / 4096 % 64, 0x80 + r / 64 % 64, 0x80 + r % 64]

/-- `strconv.IsPrint` -/
def isPrint (r : Nat) : Bool := if r < 128 then inR 32 126 r else inRanges Gen.dslPrintRanges r

/-- `fmt.Sprintf("%q", string([]rune{r}))` for a printable rune -/
def quoted (r : Nat) : List Nat :=
  [34] ++ (if r == 34 then [92, 34] else if r == 92 then [92, 92] else utf8Encode r) ++ [34]

def decimalAux : Nat → Nat → List Nat → List Nat
  | 0, _, acc => acc
  | fuel + 1, n, acc =>
    if n < 10 then (48 + n) :: acc else decimalAux fuel (n / 10) ((48 + n % 10) :: acc)

/-- `fmt.Sprintf("%d", n)` -/
def decimal (n : Nat) : List Nat := decimalAux 40 n []

structure Explainer where
  mapped : List (List Nat)
  names : List (List Nat)

/-- `newExplainer`: for every glyph the quoted form of the largest printable rune mapped to it
(the loop runs over the code range in ascending order, later runes overwrite), and the glyph
name or else the glyph id in decimal. -/
def newExplainer (f : Font) : Explainer :=
  let gids := List.range f.numGlyphs
  { mapped := gids.map fun g =>
      let rs := (f.cmap.filter fun p => p.2 == g && g != 0 && isPrint p.1).map (·.1)
      match rs with
      | [] => []
      | r :: more => quoted (more.foldl max r)
    names := gids.map fun g =>
      let n := f.names.getD g []
      if n != [] then n else decimal g }

def Explainer.name (e : Explainer) (g : Nat) : List Nat := e.names.getD g []
def Explainer.map (e : Explainer) (g : Nat) : List Nat := e.mapped.getD g []

def Explainer.writeGlyph (e : Explainer) (g : Nat) : List Nat :=
  if [34] ++ e.name g ++ [34] == e.map g then e.name g
  else if e.map g != [] then e.map g
  else e.name g

def sp : List Nat := [32]

def Explainer.writeGlyphList (e : Explainer) (seq : List Nat) : List Nat :=
  match seq with
  | [] => []
  | [g] => e.writeGlyph g
  | _ =>
    if seq.all fun g => e.map g != [] then
      [34] ++ seq.flatMap (fun g => ((e.map g).drop 1).dropLast) ++ [34]
    else (seq.map e.name).intersperse sp |>.flatten

def Explainer.writeGlyphSet (e : Explainer) (seq : List Nat) : List Nat :=
  [91] ++ e.writeGlyphList seq ++ [93]

/-- explain.go explainFlags over the regenerated table `dslExplainFlagsC` -/
def explainFlags (flags : Nat) : List Nat :=
  Gen.dslExplainFlagsC.flatMap fun e => if flags &&& e.1 != 0 then e.2 else []

abbrev Mapping := List Nat × List Nat

def arrow : List Nat := [32, 45, 62, 32]

/-- length of the run of consecutive single-glyph mappings with constant offset at the head -/
def rangeLenAux (delta : Nat) : Nat → List Mapping → Nat
  | _, [] => 0
  | prev, m :: rest =>
    let from_ := m.1.headD 0
    let to := m.2.headD 0
    if from_ != (prev + 1) % 65536 || to != (from_ + delta) % 65536 then 0
    else 1 + rangeLenAux delta from_ rest

def Explainer.seqMappingsAux (e : Explainer) (useRanges : Bool) :
    Nat → List Mapping → List Nat → List Nat
  | 0, _, _ => []
  | _, [], _ => []
  | fuel + 1, m :: rest, sep =>
    let mm := m :: rest
    let canRange := useRanges && mm.length > 2 && mm.all fun x => x.1.length == 1 && x.2.length == 1
    let rangeLen :=
      if canRange then
        1 + rangeLenAux ((m.2.headD 0 + 65536 - m.1.headD 0) % 65536) (m.1.headD 0) rest
      else 1
    if rangeLen > 2 then
      let lastM := mm.getD (rangeLen - 1) m
      sep ++ e.name (m.1.headD 0) ++ [32, 45, 32] ++ e.name (lastM.1.headD 0) ++ arrow ++
        e.name (m.2.headD 0) ++ [32, 45, 32] ++ e.name (lastM.2.headD 0) ++
        e.seqMappingsAux useRanges fuel (mm.drop rangeLen) [44, 32]
    else
      sep ++ e.writeGlyphList m.1 ++ arrow ++ e.writeGlyphList m.2 ++
        e.seqMappingsAux useRanges fuel rest [44, 32]

/-- `explainSeqMappings` (the mappings arrive stably sorted by their first input glyph) -/
def Explainer.seqMappings (e : Explainer) (mm : List Mapping) (useRanges : Bool) : List Nat :=
  e.seqMappingsAux useRanges mm.length mm sp

/-- `i == 0 ? " " : ", "` then glyph, arrow, right-hand side -/
def entries (items : List (List Nat)) : List Nat :=
  (items.zipIdx.map fun (x, i) => (if i == 0 then sp else [44, 32]) ++ x).flatten

/-- `fmt.Sprintf("%+d", v)` -/
def signed (v : Int) : List Nat :=
  match v with
  | Int.ofNat n => 43 :: decimal n
  | Int.negSucc n => 45 :: decimal (n + 1)

/-- `writeValueRecord` -/
def writeValueRecord : Option VR → List Nat
  | none => [95]
  | some r =>
    let parts :=
      (if r.x != 0 then [[120] ++ signed r.x] else []) ++
      (if r.y != 0 then [[121] ++ signed r.y] else []) ++
      (if r.dx != 0 then [[100, 120] ++ signed r.dx] else []) ++
      (if r.dy != 0 then [[100, 121] ++ signed r.dy] else [])
    if parts.isEmpty then [95] else (parts.intersperse sp).flatten

/-- `writePairAdjust` -/
def writePairAdjust (p : PairAdj) : List Nat :=
  writeValueRecord p.1 ++ (match p.2 with
    | none => []
    | some r => [32, 38, 32] ++ writeValueRecord (some r))

/-- `classdef.Table.Glyphs()[1:]`: for the classes 1 … max, their glyphs in ascending order -/
def classGlyphs (tbl : List (Nat × Nat)) : List (List Nat) :=
  (List.range ((tbl.map (·.2)).foldl max 0)).map fun c =>
    sortUnique ((tbl.filter fun p => p.2 == c + 1).map (·.1))

/-- `first`/`second` class lists: `" A B, C"` -/
def Explainer.classList (e : Explainer) (tbl : List (Nat × Nat)) : List Nat :=
  ((classGlyphs tbl).zipIdx.map fun (gg, i) =>
    (if i > 0 then [44] else []) ++ sp ++ e.writeGlyphList gg).flatten

/-- the part of a GPOS subtable after the header or the `||` separator (`i` = index) -/
def Explainer.gposSubtable (e : Explainer) (i : Nat) : Subtable → List Nat
  | .gpos1_1 cov adj => sp ++ e.writeGlyphSet cov ++ arrow ++ writeValueRecord adj
  | .gpos1_2 cov adj =>
    entries ((cov.zip adj).map fun p => e.writeGlyph p.1 ++ arrow ++ writeValueRecord p.2)
  | .gpos2_1 pairs =>
    entries (pairs.map fun p => e.writeGlyphList [p.1.1, p.1.2] ++ arrow ++ writePairAdjust p.2)
  | .gpos2_2 cov c1 c2 adjust =>
    (if i == 0 then [10, 9] else []) ++ [47] ++ e.writeGlyphList cov ++ [47] ++ [10, 9] ++
      [102, 105, 114, 115, 116] ++ e.classList c1 ++ [59, 10, 9] ++
      [115, 101, 99, 111, 110, 100] ++ e.classList c2 ++ [59] ++
      (adjust.map fun row =>
        [10, 9] ++ ((row.map writePairAdjust).intersperse [44, 32]).flatten ++ [59]).flatten
  | _ => []

def Explainer.gposLookup (e : Explainer) (l : Lookup) : List Nat :=
  let head := [71, 80, 79, 83] ++ decimal l.typ ++ [58] ++ explainFlags l.flags
  (l.subtables.zipIdx.map fun (st, i) =>
      (if i == 0 then head else [32, 124, 124, 10, 9]) ++ e.gposSubtable i st).flatten

/-- `strings.Join(ExplainGpos(font), "\n")` -/
def explainGpos (f : Font) (ls : List Lookup) : List Nat :=
  let e := newExplainer f
  ((ls.map e.gposLookup).intersperse [10]).flatten

def Explainer.subtable (e : Explainer) : Subtable → List Nat
  | .gsub1_1 cov delta =>
    e.seqMappings (cov.map fun g => ([g], [(g + delta) % 65536])) true
  | .gsub1_2 cov subst =>
    e.seqMappings ((cov.zip subst).map fun p => ([p.1], [p.2])) true
  | .gsub2_1 cov repl =>
    entries ((cov.zip repl).map fun p => e.writeGlyph p.1 ++ arrow ++ e.writeGlyphList p.2)
  | .gsub3_1 cov alt =>
    entries ((cov.zip alt).map fun p => e.writeGlyph p.1 ++ arrow ++ e.writeGlyphSet p.2)
  | .gsub4_1 cov repl =>
    e.seqMappings ((cov.zip repl).flatMap fun p => p.2.map fun lig => (p.1 :: lig.1, [lig.2])) false
  | _ => []

def Explainer.lookup (e : Explainer) (l : Lookup) : List Nat :=
  let head := [71, 83, 85, 66] ++ decimal l.typ ++ [58] ++ explainFlags l.flags
  (l.subtables.zipIdx.map fun (st, i) =>
      (if i == 0 then head else [32, 124, 124, 10, 9]) ++ e.subtable st).flatten ++ [10]

/-- `ExplainGsub` -/
def explainGsub (f : Font) (ls : List Lookup) : List Nat :=
  let e := newExplainer f
  ls.flatMap e.lookup

/-- the lookup as `Parse` gives it back: a format 1.2 table whose offsets are all equal is read
as format 1.1 (the language does not say which format is meant) -/
def normVR : Option VR → Option VR
  | some r => if r.x == 0 && r.y == 0 && r.dx == 0 && r.dy == 0 then none else some r
  | none => none

def normPA (p : PairAdj) : PairAdj := (normVR p.1, normVR p.2)

def normSub : Subtable → Subtable
  | .gsub1_2 cov subst =>
    let ds := (cov.zip subst).map fun p => (p.2 + 65536 - p.1) % 65536
    if ds.all (· == ds.headD 0) then .gsub1_1 cov (ds.headD 0) else .gsub1_2 cov subst
  | .gpos1_1 cov adj => .gpos1_1 cov (normVR adj)
  | .gpos1_2 cov adj => .gpos1_2 cov (adj.map normVR)
  | .gpos2_1 pairs => .gpos2_1 (pairs.map fun p => (p.1, normPA p.2))
  | .gpos2_2 cov c1 c2 adjust => .gpos2_2 cov c1 c2 (adjust.map fun row => row.map normPA)
  | s => s

def normalize (ls : List Lookup) : List Lookup :=
  ls.map fun l => { l with subtables := l.subtables.map normSub }

end SfntV.Dsl
