/-
C19 — model of opentype/gtab/builder/explain.go (ExplainGsub for GSUB 1–4, ExplainGpos for
GPOS 1–2, explainFlags, glyph / glyph-list / glyph-set notation, mapping lists with ranges,
value records, class lists).  Core-only.

The printer is modelled as a producer of *pieces*: white space and lexemes (item kind and the
runes of its text).  The text `ExplainGsub` returns is the concatenation of the bytes of the
pieces (`renderBytes`); it is compared byte for byte with the Go output (stream dsl.explain).
Stating the printer this way makes the lexing of its output provable once and for all
(`Proofs/DslLexer`): the lexer turns the rendered pieces back into exactly the lexemes.
-/
import SfntV.Model.DslParse

namespace SfntV.Dsl

inductive Piece where
  /-- blanks and tabs -/
  | ws (rbs : List RB)
  /-- a lexeme: the item kind the lexer is to find, and its text -/
  | tok (typ : Nat) (val : List RB)
deriving Repr, DecidableEq

def Piece.rbs : Piece → List RB
  | .ws r => r
  | .tok _ v => v

def render (ps : List Piece) : List RB := ps.flatMap Piece.rbs

def renderBytes (ps : List Piece) : List Nat := (render ps).flatMap (·.2)

/-- an ASCII character as a rune with its byte -/
def a1 (c : Nat) : RB := (c, [c])

def sp : Piece := .ws [a1 32]
def tab : Piece := .ws [a1 9]
/-- a lexeme with ASCII text -/
def tk (typ : Nat) (s : List Nat) : Piece := .tok typ (ascii s)
def eolP : Piece := tk tEOL [10]
def commaP : Piece := tk tComma [44]
def hyphenP : Piece := tk tHyphen [45]
def semiP : Piece := tk tSemicolon [59]

/-- `string([]rune{r})`: UTF-8, with U+FFFD for surrogates and values above U+10FFFF -/
def utf8Encode (r : Nat) : List Nat :=
  if r < 0x80 then [r]
  else if r < 0x800 then [0xC0 + r / 64, 0x80 + r % 64]
  else if (0xD800 ≤ r && r < 0xE000) || r > 0x10FFFF then [0xEF, 0xBF, 0xBD]
  else if r < 0x10000 then [0xE0 + r / 4096, 0x80 + r / 64 % 64, 0x80 + r % 64]
  else [0xF0 + r / 262144, 0x80 + r / 4096 % 64, 0x80 + r / 64 % 64, 0x80 + r % 64]

/-- `strconv.IsPrint` -/
def isPrint (r : Nat) : Bool := if r < 128 then inR 32 126 r else inRanges Gen.dslPrintRanges r

/-- the text of a printable rune inside `%q` quotes -/
def escRB (r : Nat) : List RB :=
  if r == 34 then [a1 92, a1 34] else if r == 92 then [a1 92, a1 92] else [(r, utf8Encode r)]

/-- a quoted string item for the runes `rs` -/
def strP (rs : List Nat) : Piece := .tok tString (a1 34 :: (rs.flatMap escRB ++ [a1 34]))

def decimalAux : Nat → Nat → List Nat → List Nat
  | 0, _, acc => acc
  | fuel + 1, n, acc =>
    if n < 10 then (48 + n) :: acc else decimalAux fuel (n / 10) ((48 + n % 10) :: acc)

/-- `fmt.Sprintf("%d", n)` -/
def decimal (n : Nat) : List Nat := decimalAux 40 n []

structure Explainer where
  /-- for every glyph the rune whose quoted form `newExplainer` stored, if any -/
  mapped : List (Option Nat)
  /-- glyph names; `[]` = the glyph is written as its number -/
  names : List (List Nat)

/-- `newExplainer`: for every glyph the largest printable rune mapped to it (the loop runs over
the code range in ascending order, later runes overwrite; runes that are not printable are
skipped since the repair of DESIGN §9 #29), and the glyph name or else the glyph id. -/
def newExplainer (f : Font) : Explainer :=
  let gids := List.range f.numGlyphs
  { mapped := gids.map fun g =>
      let rs := (f.cmap.filter fun p => p.2 == g && g != 0 && isPrint p.1).map (·.1)
      match rs with
      | [] => none
      | r :: more => some (more.foldl max r)
    names := gids.map fun g => f.names.getD g [] }

def Explainer.mapOf (e : Explainer) (g : Nat) : Option Nat := (e.mapped.getD g none)
def Explainer.nameOf (e : Explainer) (g : Nat) : List Nat := e.names.getD g []

/-- `ee.names[gid]` as a lexeme: the name (an identifier) or the number -/
def Explainer.nameP (e : Explainer) (g : Nat) : Piece :=
  if e.nameOf g != [] then .tok tIdentifier (decodeUtf8 (e.nameOf g)) else tk tInteger (decimal g)

def Explainer.nameBytes (e : Explainer) (g : Nat) : List Nat :=
  if e.nameOf g != [] then e.nameOf g else decimal g

/-- `writeGlyph`: the bare name if the quoted form is just the name in quotes, else the quoted
rune if there is one, else the name -/
def Explainer.writeGlyph (e : Explainer) (g : Nat) : Piece :=
  match e.mapOf g with
  | some r => if e.nameBytes g == (escRB r).flatMap (·.2) then e.nameP g else strP [r]
  | none => e.nameP g

def Explainer.writeGlyphList (e : Explainer) (seq : List Nat) : List Piece :=
  match seq with
  | [] => []
  | [g] => [e.writeGlyph g]
  | _ =>
    if seq.all fun g => (e.mapOf g).isSome then [strP (seq.filterMap e.mapOf)]
    else (seq.map e.nameP).intersperse sp

def Explainer.writeGlyphSet (e : Explainer) (seq : List Nat) : List Piece :=
  [tk tSquareBracketOpen [91]] ++ e.writeGlyphList seq ++ [tk tSquareBracketClose [93]]

/-- explain.go explainFlags over the regenerated table `dslExplainFlagsC` (each entry is
`" -"` followed by the spelling: `C19_flags_same_spelling`) -/
def explainFlags (flags : Nat) : List Piece :=
  Gen.dslExplainFlagsC.flatMap fun e =>
    if flags &&& e.1 != 0 then [sp, hyphenP, tk tIdentifier (e.2.drop 2)] else []

abbrev Mapping := List Nat × List Nat

def arrow : List Piece := [sp, tk tArrow [45, 62], sp]

/-- length of the run of consecutive single-glyph mappings with constant offset at the head -/
def rangeLenAux (delta : Nat) : Nat → List Mapping → Nat
  | _, [] => 0
  | prev, m :: rest =>
    let from_ := m.1.headD 0
    let to := m.2.headD 0
    if from_ != (prev + 1) % 65536 || to != (from_ + delta) % 65536 then 0
    else 1 + rangeLenAux delta from_ rest

def Explainer.rangeP (e : Explainer) (a b : Nat) : List Piece := [e.nameP a, sp, hyphenP, sp, e.nameP b]

def Explainer.seqMappingsAux (e : Explainer) (useRanges : Bool) :
    Nat → List Mapping → List Piece → List Piece
  | 0, _, _ => []
  | _, [], _ => []
  | fuel + 1, m :: rest, sep =>
    let mm := m :: rest
    let canRange := useRanges && mm.length > 2 && mm.all fun x => x.1.length == 1 && x.2.length == 1
    let rangeLen :=
      if canRange then
        1 + rangeLenAux ((m.2.headD 0 + 65536 - m.1.headD 0) % 65536) (m.1.headD 0) rest
      else 1
    if rangeLen > 2 then
      let lastM := mm.getD (rangeLen - 1) m
      sep ++ e.rangeP (m.1.headD 0) (lastM.1.headD 0) ++ arrow ++ e.rangeP (m.2.headD 0) (lastM.2.headD 0) ++
        e.seqMappingsAux useRanges fuel (mm.drop rangeLen) [commaP, sp]
    else
      sep ++ e.writeGlyphList m.1 ++ arrow ++ e.writeGlyphList m.2 ++
        e.seqMappingsAux useRanges fuel rest [commaP, sp]

/-- `explainSeqMappings` (the mappings arrive stably sorted by their first input glyph) -/
def Explainer.seqMappings (e : Explainer) (mm : List Mapping) (useRanges : Bool) : List Piece :=
  e.seqMappingsAux useRanges mm.length mm [sp]

/-- `i == 0 ? " " : ", "` before every entry -/
def entries : List (List Piece) → List Piece
  | [] => []
  | x :: xs => [sp] ++ x ++ xs.flatMap fun y => [commaP, sp] ++ y

/-- `fmt.Sprintf("%+d", v)` -/
def signed (v : Int) : List Nat :=
  match v with
  | Int.ofNat n => 43 :: decimal n
  | Int.negSucc n => 45 :: decimal (n + 1)

/-- `%d` -/
def plainInt (v : Int) : List Nat :=
  match v with
  | Int.ofNat n => decimal n
  | Int.negSucc n => 45 :: decimal (n + 1)

/-- one record of a cursive-attachment subtable: `glyph: %d,%d to %d,%d` -/
def recP (g : Piece) (r : Int × Int × Int × Int) : List Piece :=
  [g, tk tColon [58], sp, tk tInteger (plainInt r.1), commaP, tk tInteger (plainInt r.2.1),
    sp, tk tIdentifier kwTo, sp, tk tInteger (plainInt r.2.2.1), commaP, tk tInteger (plainInt r.2.2.2)]

/-- `mark glyph: %d@%d,%d;` -/
def markP (g : Piece) (r : Nat × Int × Int) : List Piece :=
  [tk tIdentifier kwMark, sp, g, tk tColon [58], sp, tk tInteger (decimal r.1), tk tAt [64],
    tk tInteger (plainInt r.2.1), commaP, tk tInteger (plainInt r.2.2), semiP]

/-- `base glyph:{ @%d,%d};` -/
def baseP (g : Piece) (as : List (Int × Int)) : List Piece :=
  [tk tIdentifier kwBase, sp, g, tk tColon [58]] ++
    as.flatMap (fun a => [sp, tk tAt [64], tk tInteger (plainInt a.1), commaP, tk tInteger (plainInt a.2)]) ++ [semiP]

/-- `writeValueRecord` -/
def writeValueRecord : Option VR → List Piece
  | none => [tk tIdentifier kwUnderscore]
  | some r =>
    let parts : List (List Piece) :=
      (if r.x != 0 then [[tk tIdentifier kwX, tk tInteger (signed r.x)]] else []) ++
      (if r.y != 0 then [[tk tIdentifier kwY, tk tInteger (signed r.y)]] else []) ++
      (if r.dx != 0 then [[tk tIdentifier kwDx, tk tInteger (signed r.dx)]] else []) ++
      (if r.dy != 0 then [[tk tIdentifier kwDy, tk tInteger (signed r.dy)]] else [])
    if parts.isEmpty then [tk tIdentifier kwUnderscore] else (parts.intersperse [sp]).flatten

/-- `writePairAdjust` -/
def writePairAdjust (p : PairAdj) : List Piece :=
  writeValueRecord p.1 ++ (match p.2 with
    | none => []
    | some r => [sp, tk tAmpersand [38], sp] ++ writeValueRecord (some r))

/-- `classdef.Table.Glyphs()[1:]`: for the classes 1 … max, their glyphs in ascending order -/
def classGlyphs (tbl : List (Nat × Nat)) : List (List Nat) :=
  (List.range ((tbl.map (·.2)).foldl max 0)).map fun c =>
    sortUnique ((tbl.filter fun p => p.2 == c + 1).map (·.1))

/-- `first`/`second` class lists: `" A B, C"` -/
def Explainer.classList (e : Explainer) (tbl : List (Nat × Nat)) : List Piece :=
  match classGlyphs tbl with
  | [] => []
  | gg :: more => [sp] ++ e.writeGlyphList gg ++ more.flatMap fun gg' => [commaP, sp] ++ e.writeGlyphList gg'


/-- `explainNested`: `index@position` separated by spaces -/
def actP (a : Action) : List Piece := [tk tInteger (decimal a.1), tk tAt [64], tk tInteger (decimal a.2)]

def nestedP : List Action → List Piece
  | [] => []
  | a :: rest => actP a ++ rest.flatMap fun b => [sp] ++ actP b

/-- `" | "` -/
def barP : List Piece := [sp, tk tBar [124], sp]

/-- a class reference: `::` for class 0, `:c<n>:` otherwise -/
def classRefP (c : Nat) : List Piece :=
  if c == 0 then [tk tColon [58], tk tColon [58]]
  else [tk tColon [58], tk tIdentifier (99 :: decimal c), tk tColon [58]]

/-- `writeClassList`: every reference preceded by a space -/
def clsListP (l : List Nat) : List Piece := l.flatMap fun c => [sp] ++ classRefP c

/-- texts separated by a comma (the texts start with a space) -/
def commaJoin : List (List Piece) → List Piece
  | [] => []
  | x :: xs => x ++ xs.flatMap fun y => [commaP] ++ y

/-- texts separated by a space -/
def spaceJoin : List (List Piece) → List Piece
  | [] => []
  | x :: xs => x ++ xs.flatMap fun y => [sp] ++ y

/-- the rules of a class-based subtable in the order written: class of the first element with each rule -/
def flatRules : List (List SeqRule) → Nat → List (Nat × SeqRule)
  | [], _ => []
  | rs :: more, c => rs.map (fun r => (c, r)) ++ flatRules more (c + 1)

def flatChRules : List (List ChRule) → Nat → List (Nat × ChRule)
  | [], _ => []
  | rs :: more, c => rs.map (fun r => (c, r)) ++ flatChRules more (c + 1)

/-- `defineClasses`: `keyword :c<i>: = [glyphs]⏎⇥` for the classes 1, 2, … -/
def classDefsP (kw : List Nat) (wgs : List Nat → List Piece) : List (List Nat) → Nat → List Piece
  | [], _ => []
  | gg :: more, i =>
    [tk tIdentifier kw, sp, tk tColon [58], tk tIdentifier (99 :: decimal i), tk tColon [58], sp, tk tEqual [61], sp] ++
      wgs gg ++ [eolP, tab] ++ classDefsP kw wgs more (i + 1)

def Explainer.defineClasses (e : Explainer) (kw : List Nat) (tbl : List (Nat × Nat)) : List Piece :=
  classDefsP kw e.writeGlyphSet (classGlyphs tbl) 1

def Explainer.subtable (e : Explainer) (first : Bool) : Subtable → List Piece
  | .gsub1_1 cov delta =>
    e.seqMappings (cov.map fun g => ([g], [(g + delta) % 65536])) true
  | .gsub1_2 cov subst =>
    e.seqMappings ((cov.zip subst).map fun p => ([p.1], [p.2])) true
  | .gsub2_1 cov repl =>
    entries ((cov.zip repl).map fun p => [e.writeGlyph p.1] ++ arrow ++ e.writeGlyphList p.2)
  | .gsub3_1 cov alt =>
    entries ((cov.zip alt).map fun p => [e.writeGlyph p.1] ++ arrow ++ e.writeGlyphSet p.2)
  | .gsub4_1 cov repl =>
    e.seqMappings ((cov.zip repl).flatMap fun p => p.2.map fun lig => (p.1 :: lig.1, [lig.2])) false
  | .gpos1_1 cov adj => [sp] ++ e.writeGlyphSet cov ++ arrow ++ writeValueRecord adj
  | .gpos1_2 cov adj =>
    entries ((cov.zip adj).map fun p => [e.writeGlyph p.1] ++ arrow ++ writeValueRecord p.2)
  | .gpos2_1 pairs =>
    entries (pairs.map fun p => e.writeGlyphList [p.1.1, p.1.2] ++ arrow ++ writePairAdjust p.2)
  | .gpos2_2 cov c1 c2 adjust =>
    (if first then [eolP, tab] else []) ++ [tk tSlash [47]] ++ e.writeGlyphList cov ++ [tk tSlash [47]] ++
      [eolP, tab, tk tIdentifier kwFirst] ++ e.classList c1 ++ [semiP, eolP, tab, tk tIdentifier kwSecond] ++
      e.classList c2 ++ [semiP] ++
      (adjust.map fun row =>
        [eolP, tab] ++ ((row.map writePairAdjust).intersperse [commaP, sp]).flatten ++ [semiP]).flatten

  | .gpos3_1 cov recs =>
    match (cov.zip recs).map (fun p => recP (e.writeGlyph p.1) p.2) with
    | [] => []
    | r0 :: rest => (if first then [eolP, tab] else []) ++ r0 ++ rest.flatMap (fun r => [semiP, eolP, tab] ++ r)

  | .gpos4_1 marks bases =>
    match marks.map (fun r => markP (e.writeGlyph r.1) r.2) ++ bases.map (fun r => baseP (e.writeGlyph r.1) r.2) with
    | [] => []
    | r0 :: rest => (if first then [eolP, tab] else []) ++ r0 ++ rest.flatMap (fun r => [eolP, tab] ++ r)

  | .ctx1 rules =>
    entries ((rules.flatMap fun p => p.2.map fun r => (p.1 :: r.input, r.actions)).map fun x =>
      e.writeGlyphList x.1 ++ arrow ++ nestedP x.2)
  | .ctx2 cov classes rules =>
    [sp] ++ e.defineClasses kwClass classes ++ [tk tSlash [47]] ++ e.writeGlyphList cov ++ [tk tSlash [47]] ++
      commaJoin ((flatRules rules 0).map fun x => clsListP (x.1 :: x.2.input) ++ arrow ++ nestedP x.2.actions)
  | .ctx3 input actions =>
    spaceJoin (input.map e.writeGlyphSet) ++ arrow ++ nestedP actions
  | .chain1 rules =>
    entries ((rules.flatMap fun p => p.2.map fun r => (p.1, r)).map fun x =>
      e.writeGlyphList x.2.back.reverse ++ barP ++ e.writeGlyphList (x.1 :: x.2.input) ++ barP ++
        e.writeGlyphList x.2.look ++ arrow ++ nestedP x.2.actions)
  | .chain2 cov bcls icls lcls rules =>
    [sp] ++ e.defineClasses kwBacktrackclass bcls ++ e.defineClasses kwInputclass icls ++
      e.defineClasses kwLookaheadclass lcls ++ [tk tSlash [47]] ++ e.writeGlyphList cov ++ [tk tSlash [47]] ++
      commaJoin ((flatChRules rules 0).map fun x =>
        clsListP x.2.back.reverse ++ barP ++ clsListP (x.1 :: x.2.input) ++ barP ++ clsListP x.2.look ++
          arrow ++ nestedP x.2.actions)
  | .chain3 back input look actions =>
    spaceJoin (back.reverse.map e.writeGlyphSet) ++ [sp, tk tBar [124]] ++
      (input.flatMap fun s => [sp] ++ e.writeGlyphSet s) ++ [sp, tk tBar [124]] ++
      (look.flatMap fun s => [sp] ++ e.writeGlyphSet s) ++ arrow ++ nestedP actions

/-- `" ||\n\t"` -/
def orSep : List Piece := [sp, tk tOr [124, 124], eolP, tab]

/-- `"GSUB%d:"` / `"GPOS%d:"`, flags, subtables -/
def Explainer.lookupBody (e : Explainer) (kw : List Nat) (l : Lookup) : List Piece :=
  match l.subtables with
  | [] => []
  | st :: more =>
    [tk tIdentifier (kw ++ decimal l.typ), tk tColon [58]] ++ explainFlags l.flags ++ e.subtable true st ++
      more.flatMap fun st' => orSep ++ e.subtable false st'

/-- the pieces of `ExplainGsub` -/
def explainGsubP (f : Font) (ls : List Lookup) : List Piece :=
  let e := newExplainer f
  ls.flatMap fun l => e.lookupBody [71, 83, 85, 66] l ++ [eolP]

/-- the pieces of `strings.Join(ExplainGpos(font), "\n")` -/
def explainGposP (f : Font) (ls : List Lookup) : List Piece :=
  let e := newExplainer f
  ((ls.map (e.lookupBody [71, 80, 79, 83])).intersperse [eolP]).flatten

/-- `ExplainGsub` -/
def explainGsub (f : Font) (ls : List Lookup) : List Nat := renderBytes (explainGsubP f ls)

/-- `strings.Join(ExplainGpos(font), "\n")` -/
def explainGpos (f : Font) (ls : List Lookup) : List Nat := renderBytes (explainGposP f ls)

def normVR : Option VR → Option VR
  | some r => if r.x == 0 && r.y == 0 && r.dx == 0 && r.dy == 0 then none else some r
  | none => none

def normPA (p : PairAdj) : PairAdj := (normVR p.1, normVR p.2)

/-- the lookup as `Parse` gives it back: a format 1.2 table whose offsets are all equal is read
as format 1.1 (the language does not say which format is meant); an all-zero value record is
read as none -/
def normSub : Subtable → Subtable
  | .gsub1_2 cov subst =>
    let ds := (cov.zip subst).map fun p => (p.2 + 65536 - p.1) % 65536
    if ds.all (· == ds.headD 0) then .gsub1_1 cov (ds.headD 0) else .gsub1_2 cov subst
  | .gpos1_1 cov adj => .gpos1_1 cov (normVR adj)
  | .gpos1_2 cov adj => .gpos1_2 cov (adj.map normVR)
  | .gpos2_1 pairs => .gpos2_1 (pairs.map fun p => (p.1, normPA p.2))
  | .gpos2_2 cov c1 c2 adjust => .gpos2_2 cov c1 c2 (adjust.map fun row => row.map normPA)
  | s => s

def normalize (ls : List Lookup) : List Lookup :=
  ls.map fun l => { l with subtables := l.subtables.map normSub }

end SfntV.Dsl
