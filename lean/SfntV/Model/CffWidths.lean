/-
Model of `(*Font).selectWidths` (cff/write.go, after the repair of defect #19) and of the two
width entries of `makePrivateDict` (cff/font.go).  Property C13.  Core-only.

Widths are exact 16.16 fixed-point numbers: an `Int` in units of 1/65536.
-/
import SfntV.Prelude.Bytes

namespace SfntV.Cff
open SfntV

def fxOne : Int := 65536

/-- `w == math.Trunc(w)` -/
def fxIntegral (w : Int) : Bool := w % fxOne = 0

/-- `math.Round(a/q)` for `q > 0`: nearest integer, halves away from zero -/
def roundHA (a q : Int) : Int :=
  if a ≥ 0 then (2 * a + q) / (2 * q) else -((2 * (-a) + q) / (2 * q))

/-- `widthHist[w]++` on an association list; returns the new count -/
def histInc : List (Int × Nat) → Int → List (Int × Nat) × Nat
  | [], w => ([(w, 1)], 1)
  | (k, c) :: rest, w =>
    if k = w then ((k, c + 1) :: rest, c + 1)
    else
      let (r, n) := histInc rest w
      ((k, c) :: r, n)

/-- the first loop: the most frequent width among the integral widths with `|w| ≤ 32767`
(the first one to reach each new maximal count) -/
def mostFrequent : List Int → List (Int × Nat) → Int → Nat → Int
  | [], _, best, _ => best
  | w :: ws, hist, best, cnt =>
    if w.natAbs > 32767 * 65536 ∨ !fxIntegral w then mostFrequent ws hist best cnt
    else
      let (hist', c) := histInc hist w
      if c > cnt then mostFrequent ws hist' w c else mostFrequent ws hist' best cnt

/-- the two clamps of the nominal width: at least 107 above the smallest and below the largest
non-default width (the one-byte range), then within ±32767 of all of them (the range of a
charstring number; added by the repair) -/
def nomClamp (nom0 mn mx : Int) : Int :=
  let nom1 := if nom0 < mn + 107 * 65536 then mn + 107 * 65536
              else if nom0 > mx - 107 * 65536 then mx - 107 * 65536 else nom0
  if nom1 < mx - 32767 * 65536 then mx - 32767 * 65536
  else if nom1 > mn + 32767 * 65536 then mn + 32767 * 65536 else nom1

/-- `selectWidths`: `(defaultWidth, nominalWidth)`; when no glyph differs from the default width
the nominal width is 0 (after the repair: it used to be `+Inf`, stored through the
implementation-defined conversion `int32(+Inf)`).  The `Option` is kept for the callers; the
result is always `some`. -/
def selectWidths (ws : List Int) : Int × Option Int :=
  match ws with
  | [] => (0, some 0)
  | [w] => if !fxIntegral w then (0, some (roundHA w fxOne * fxOne)) else (w, some w)
  | _ =>
    let d := mostFrequent ws [] 0 0
    let others := ws.filter (· ≠ d)
    match others with
    | [] => (d, some 0)      -- all glyphs use the default width: nominal width 0 (unused)
    | o :: os =>
      let sum := others.foldl (· + ·) 0
      let mn := os.foldl min o
      let mx := os.foldl max o
      let nom0 := roundHA sum (fxOne * ws.length) * fxOne
      (d, some (roundHA (nomClamp nom0 mn mx) fxOne * fxOne))

/-- `makePrivateDict`: `int32(defaultWidth)`, `int32(nominalWidth)` (truncation towards zero),
entries omitted when the float is zero -/
def truncFx (w : Int) : Int := if w ≥ 0 then w / fxOne else -((-w) / fxOne)

end SfntV.Cff
