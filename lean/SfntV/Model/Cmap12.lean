/-
Model of cmap/format12.go (`Format12.Encode`, `decodeFormat12`) as repaired (glyph ids compared
without 16-bit wrap in Encode; decoder bound 0xFFFF on glyph ids), and the OpenType
specification of format 12 lookup (property C09, area `cmapx`).
Core-only: linked into the driver.
-/
import SfntV.Prelude.Bytes
import SfntV.Prelude.Outcome

namespace SfntV.Cmap12
open SfntV

/-- a sequential map group -/
structure Grp where
  start : Nat
  stop  : Nat
  gid   : Nat
deriving Repr, DecidableEq

/-- A Go map `uint32 → glyph.ID` after `maps.Keys` + `sort.Slice`: pairs (code, gid), keys ascending. -/
abbrev KV := List (Nat × Nat)

/-- `cmap[c]` (0 for absent keys) -/
def lookupKV : KV → Nat → Nat
  | [], _ => 0
  | k :: rest, c => if k.1 = c then k.2 else lookupKV rest c

/-! ## `Format12.Encode` -/

/-- The grouping loop.  `s` = `(keys[segStart], cmap[keys[segStart]])`, `p` = entry `i-1`.
`keys[i-1]+1` is uint32 arithmetic; the glyph comparison is `uint32(gid) != uint32(prev)+1`
(repaired: the original compared in uint16, so that 0xFFFF+1 wrapped to 0). -/
def groupAux : (Nat × Nat) → (Nat × Nat) → KV → List Grp
  | s, p, [] => [⟨s.1, p.1, s.2⟩]
  | s, p, k :: rest =>
    if k.1 ≠ (p.1 + 1) % 4294967296 ∨ k.2 ≠ p.2 + 1 then
      ⟨s.1, p.1, s.2⟩ :: groupAux k k rest
    else groupAux s k rest

/-- the unrepaired loop (`cmap[keys[i]] != cmap[keys[i-1]]+1` in uint16), kept for the counterexample -/
def groupAuxOrig : (Nat × Nat) → (Nat × Nat) → KV → List Grp
  | s, p, [] => [⟨s.1, p.1, s.2⟩]
  | s, p, k :: rest =>
    if k.1 ≠ (p.1 + 1) % 4294967296 ∨ k.2 ≠ (p.2 + 1) % 65536 then
      ⟨s.1, p.1, s.2⟩ :: groupAuxOrig k k rest
    else groupAuxOrig s k rest

def group : KV → List Grp
  | [] => []
  | k :: rest => groupAux k k rest

def groupOrig : KV → List Grp
  | [] => []
  | k :: rest => groupAuxOrig k k rest

/-- one 12-byte record; bytes 8, 9 stay zero, the glyph id is written as 16 bits -/
def grpBytes (g : Grp) : Bytes :=
  be32 g.start ++ be32 g.stop ++ [0, 0] ++ be16 g.gid

def header (lang n : Nat) : Bytes :=
  [0, 12, 0, 0] ++ be32 (16 + n * 12) ++ [0, 0] ++ be16 lang ++ be32 n

def encodeGroups (lang : Nat) (gs : List Grp) : Option Bytes :=
  -- `l := uint32(16 + nSegments*12); out := make([]byte, l)`: if the sum does not fit, `out` is too
  -- short and `out[base]` panics
  if 16 + gs.length * 12 ≥ 4294967296 then none
  else some (header lang gs.length ++ gs.flatMap grpBytes)

/-- `Format12.Encode`; `none` = panic (index out of range, only with ≥ 2^32 bytes of output) -/
def encode (m : KV) (lang : Nat) : Option Bytes := encodeGroups lang (group m)

def encodeOrig (m : KV) (lang : Nat) : Option Bytes := encodeGroups lang (groupOrig m)

/-! ## reading -/

/-- `uint32(data[o])<<24 | … | uint32(data[o+3])`; 0 when out of range (callers guard the range) -/
def u32At (b : Bytes) (o : Nat) : Nat :=
  match b.drop o with
  | a :: b :: c :: d :: _ => ((a.toNat * 256 + b.toNat) * 256 + c.toNat) * 256 + d.toNat
  | _ => 0

def u16At (b : Bytes) (o : Nat) : Nat :=
  match b.drop o with
  | a :: b :: _ => a.toNat * 256 + b.toNat
  | _ => 0

/-! ## `decodeFormat12` -/

/-- the three reads of loop iteration `i`, for `i, i+1, …, i+n-1` -/
def readGroups (b : Bytes) : Nat → Nat → List Grp
  | _, 0 => []
  | i, n+1 => ⟨u32At b (16 + i*12), u32At b (16 + i*12 + 4), u32At b (16 + i*12 + 8)⟩ :: readGroups b (i+1) n

/-- glyph-id bound of the decoder (repaired: was 0x10FFFF) -/
def gidMax : Nat := 0xFFFF

/-- the checks of the loop body; `first` = `i == 0`; `size` accumulates in uint32 -/
def checkGroups : Bool → Nat → Nat → List Grp → Bool
  | _, _, _, [] => true
  | first, prevEnd, size, g :: gs =>
    if (!first ∧ g.start ≤ prevEnd) ∨ g.stop < g.start ∨ g.stop = 0xFFFFFFFF ∨ g.gid > gidMax
        ∨ (g.gid + (g.stop - g.start)) % 4294967296 > gidMax then false
    else
      let size' := (size + (g.stop - g.start) + 1) % 4294967296
      if size' > 65536 then false else checkGroups false g.stop size' gs

/-- `for c := start; c <= end; c++ { cmap[c] = glyph.ID(startGlyphID + c - startCharCode) }` -/
def expandOne (g : Grp) : KV :=
  (List.range' g.start (g.stop + 1 - g.start)).map fun c => (c, (g.gid + c - g.start) % 65536)

def expand (gs : List Grp) : KV := gs.flatMap expandOne

inductive Err where
  | malformed | code2rune
deriving Repr, DecidableEq

/-- `decodeFormat12(data, code2rune)`; `c2r` = "code2rune ≠ nil" -/
def decode (b : Bytes) (c2r : Bool := false) : Except Err (List Grp) :=
  if c2r then .error .code2rune else
  if b.length < 16 then .error .malformed else
  let n := u32At b 12
  if b.length ≠ 16 + n * 12 ∨ n > 1000000 then .error .malformed else
  let gs := readGroups b 0 n
  if checkGroups true 0 0 gs then .ok gs else .error .malformed

/-- the decoded Go map as an association list (groups are disjoint, so write order is immaterial) -/
def decodeMap (b : Bytes) : Except Err KV := (decode b).map expand

/-! ## specification -/

/-- OpenType cmap format 12: "uint32 numGroups" at offset 12, followed by "SequentialMapGroup
groups[numGroups]", each "uint32 startCharCode, uint32 endCharCode, uint32 startGlyphID". -/
def specGroups (b : Bytes) : List Grp :=
  (List.range (u32At b 12)).map fun i =>
    ⟨u32At b (16 + 12*i), u32At b (16 + 12*i + 4), u32At b (16 + 12*i + 8)⟩

/-- "startGlyphID: Glyph index corresponding to the starting character code; subsequent
characters are mapped to sequential glyphs" — `glyph = startGlyphID + (c − startCharCode)` for the
group containing `c`; characters in no group map to glyph 0 (missing glyph). -/
def findGroup : List Grp → Nat → Nat
  | [], _ => 0
  | g :: gs, c => if g.start ≤ c ∧ c ≤ g.stop then g.gid + (c - g.start) else findGroup gs c

def specLookup (b : Bytes) (c : Nat) : Nat := findGroup (specGroups b) c

/-- "uint32 length: Byte length of this subtable (including the header)" — a reader that walks the
subtable by its length field sees only the groups that fit into `length` bytes. -/
def specGroupsLen (b : Bytes) : List Grp := (specGroups b).take ((u32At b 4 - 16) / 12)

def specLookupLen (b : Bytes) (c : Nat) : Nat := findGroup (specGroupsLen b) c

/-- "Groups must be sorted by increasing startCharCode … a group's endCharCode must be less than
the startCharCode of the following group": every group starts at or after `lo`, is non-empty, and
the next one starts after its end. -/
def sdFrom : Nat → List Grp → Bool
  | _, [] => true
  | lo, g :: gs => decide (lo ≤ g.start) && decide (g.start ≤ g.stop) && sdFrom (g.stop + 1) gs

def SortedDisjoint (gs : List Grp) : Prop := sdFrom 0 gs = true

end SfntV.Cmap12
