/-
C15 — feature selection: model of `(*gtab.Info).FindLookups` (opentype/gtab/lookup.go) and of
the defaulting of the switch maps in `(*Font).NewLayouter` (layout.go).  Core-only.

Go types → model:
* `ScriptListInfo = map[language.Tag]*Features`  →  `List (String × Option LangSys)`; the list
  order IS the order in which `for tag := range info.ScriptList` delivers the keys (explicit
  parameter), keys distinct (`Dom`); a nil `*Features` is `none`; tags are their `String()`.
* `language.NewMatcher(tags).Match(lang)` → abstract `Matcher`: a function of the tag list handed
  to it (the language asked for is fixed inside), returning an index into that list.
* `FeatureListInfo = []*Feature` → `List Feature`; `FeatureIndex`/`LookupIndex` are `uint16` → `Nat`.
* `includeFeature map[string]bool` → `String → Bool` (missing key = false, nil map = all false).
* `includeLookup map[LookupIndex]bool`, ranged over in random order, filtered, then sorted
  → `toSet` (sorted duplicate-free list); `Proofs/LayoutFind.lean: mapOrder_irrelevant` shows every
  range order gives this list after `sort.Slice`.
-/
namespace SfntV.Layout

/-- `gtab.Features`: `Required` is `0xFFFF` when there is none (any index ≥ number of features
is treated the same by the code). -/
structure LangSys where
  required : Nat
  optional : List Nat
deriving Repr, DecidableEq

/-- `gtab.Feature` -/
structure Feature where
  tag : String
  lookups : List Nat
deriving Repr, DecidableEq

/-- `language.Matcher` as far as `FindLookups` uses it: given the supported tags in the order they
were handed to `NewMatcher`, the index of the chosen one (always a valid index: the Go matcher
returns the index of one of the supported tags, the first one when nothing matches). -/
structure Matcher where
  pick : List String → Nat
  lt : ∀ l, l ≠ [] → pick l < l.length

/-- insert into a strictly ascending list, keeping it strictly ascending -/
def insertU (x : Nat) : List Nat → List Nat
  | [] => [x]
  | y :: r => if x < y then x :: y :: r else if x = y then y :: r else y :: insertU x r

/-- the keys of a Go `map[LookupIndex]bool` filled from `l`, in ascending order -/
def toSet (l : List Nat) : List Nat := l.foldr insertU []

/-- lookups of feature `i`, none if the index is out of range (`if f >= numFeatures`) -/
def featLookups (fl : List Feature) (i : Nat) : List Nat :=
  match fl[i]? with
  | some f => f.lookups
  | none => []

/-- lookups contributed by optional feature index `i` under switches `sw` -/
def optLookups (fl : List Feature) (sw : String → Bool) (i : Nat) : List Nat :=
  match fl[i]? with
  | some f => if sw f.tag then f.lookups else []
  | none => []

/-- everything put into `includeLookup`, in insertion order (with repetitions) -/
def selected (fl : List Feature) (sw : String → Bool) (ls : LangSys) : List Nat :=
  featLookups fl ls.required ++ ls.optional.flatMap (optLookups fl sw)

/-- the part of `FindLookups` after the language system has been chosen -/
def lookupsOf (fl : List Feature) (numLookups : Nat) (sw : String → Bool) (ls : LangSys) : List Nat :=
  toSet ((selected fl sw ls).filter (· < numLookups))

def tagLe (a b : String) : Bool := decide (a ≤ b)

/-- the tag list given to the matcher by the REPAIRED code: keys in range order, then sorted -/
def sortedTags (scripts : List (String × Option LangSys)) : List String :=
  (scripts.map (·.1)).mergeSort tagLe

/-- `info.ScriptList[tag]` -/
def scriptGet (scripts : List (String × Option LangSys)) (tag : String) : Option LangSys :=
  match scripts.find? (·.1 == tag) with
  | some e => e.2
  | none => none

/-- the language system chosen, given the tag list handed to the matcher -/
def chosen (m : Matcher) (scripts : List (String × Option LangSys)) (tags : List String) : Option LangSys :=
  match tags[m.pick tags]? with
  | some t => scriptGet scripts t
  | none => none   -- unreachable for a non-empty tag list (`Matcher.lt`)

/-- `FindLookups` as repaired (tags sorted before `language.NewMatcher`).  `scripts = []` covers
`info == nil || len(info.ScriptList) == 0`. -/
def findLookups (m : Matcher) (scripts : List (String × Option LangSys)) (fl : List Feature)
    (numLookups : Nat) (sw : String → Bool) : List Nat :=
  if scripts.isEmpty then []
  else
    match chosen m scripts (sortedTags scripts) with
    | none => []
    | some ls => lookupsOf fl numLookups sw ls

/-- `FindLookups` as it was before the repair: the matcher sees the keys in map range order. -/
def findLookupsMapOrder (m : Matcher) (scripts : List (String × Option LangSys)) (fl : List Feature)
    (numLookups : Nat) (sw : String → Bool) : List Nat :=
  if scripts.isEmpty then []
  else
    match chosen m scripts (scripts.map (·.1)) with
    | none => []
    | some ls => lookupsOf fl numLookups sw ls

/-- a Go `map[string]bool` literal / argument as association list; missing key = false -/
def switchFn (l : List (String × Bool)) (t : String) : Bool :=
  match l.find? (·.1 == t) with
  | some e => e.2
  | none => false

/-- `NewLayouter`: `if features == nil { features = defaults }` -/
def effective (defaults : List (String × Bool)) : Option (List (String × Bool)) → List (String × Bool)
  | none => defaults
  | some l => l

/-- executable form of the postcondition of `FindLookups` (used by the D stream on the outputs of
the real code): `r` is strictly ascending, and contains exactly the in-range lookups of the required
feature and of the enabled optional features of `ls`. -/
def strictAsc : List Nat → Bool
  | a :: b :: r => a < b && strictAsc (b :: r)
  | _ => true

def postOk (fl : List Feature) (numLookups : Nat) (sw : String → Bool) (ls : LangSys) (r : List Nat) : Bool :=
  strictAsc r && r.all (fun l => l < numLookups && (selected fl sw ls).contains l) &&
    (selected fl sw ls).all (fun l => !(l < numLookups) || r.contains l)

end SfntV.Layout
