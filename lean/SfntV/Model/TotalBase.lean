/-
C02 (decoders are total on untrusted bytes): shared pieces of the checked-index models.
Every Go index / slice / make / type assertion of a modelled function is a checked operation
that yields `panic site`; the models also return a step count and an allocation count.
Core-only: linked into the driver.
-/
import SfntV.Prelude.Bytes
import SfntV.Prelude.Outcome

namespace SfntV.Total
open SfntV

/-- cost counters: `steps` = reads + loop iterations executed, `alloc` = elements allocated
(map entries, slice elements, objects) -/
structure Cost where
  steps : Nat
  alloc : Nat
deriving Repr, DecidableEq

def Cost.zero : Cost := ⟨0, 0⟩
def Cost.tick (c : Cost) (n : Nat := 1) : Cost := { c with steps := c.steps + n }
def Cost.mem (c : Cost) (n : Nat) : Cost := { c with alloc := c.alloc + n }

/-- `parser.Parser.ReadBytes(n)` (and `ReadUint16`/`ReadUint32`, n = 2/4) at absolute position
`pos` of an in-memory reader.  By C17 the parser is a plain byte view: the read yields the
bytes `[pos, pos+n)` or an I/O error at the end of the input; the only panic site is
`n > bufferSize = 1024` (parser.go:170). -/
def readBytes (site : String) (b : Bytes) (pos n : Nat) : Outcome Bytes :=
  if n > 1024 then .panic site
  else if pos + n ≤ b.length then .ok ((b.drop pos).take n) else .err "io"

/-- `io.ReadFull(r, buf[:n])` / `ReaderAt.ReadAt(buf[:n], pos)` on an in-memory reader -/
def readFull (b : Bytes) (pos n : Nat) : Outcome Bytes :=
  if pos + n ≤ b.length then .ok ((b.drop pos).take n) else .err "io"

/-- `uint16(hi)<<8 | uint16(lo)` -/
def be (hi lo : UInt8) : Nat := hi.toNat * 256 + lo.toNat

/-- checked 16-bit big-endian read out of a buffer: `uint16(buf[i])<<8 | uint16(buf[i+1])` -/
def w16 (site : String) (buf : Bytes) (i : Nat) : Outcome Nat := do
  let hi ← idx site buf i
  let lo ← idx site buf (i + 1)
  pure (be hi lo)

/-- checked 32-bit big-endian read out of a buffer -/
def w32 (site : String) (buf : Bytes) (i : Nat) : Outcome Nat := do
  let a ← idx site buf i
  let b ← idx site buf (i + 1)
  let c ← idx site buf (i + 2)
  let d ← idx site buf (i + 3)
  pure (((a.toNat * 256 + b.toNat) * 256 + c.toNat) * 256 + d.toNat)

/-- `make([]T, n)`: Go panics when `n` is negative or beyond the address space; for the sizes
reachable here (`n < 2^32`) it succeeds, so the checked operation only charges the cost. -/
def mkSlice (site : String) (n : Nat) (c : Cost) : Outcome Cost :=
  if n ≥ 2 ^ 47 then .panic site else .ok (c.mem n)

end SfntV.Total
