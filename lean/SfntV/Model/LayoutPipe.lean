/-
C15 — the whole `Layouter` (layout.go) with the real lookup-application engine: the abstract
`Context.Apply` parameters of `Layout.layout` (Model/LayoutLig.lean) are instantiated with
`SfntV.Shape.apply`, the model of `gtab.Context.Apply` (C07).  Core-only.

`NewLayouter`: `FindLookups` on GSUB and GPOS with the (defaulted) switch maps gives the lookup
indices of the two contexts; a nil table gives a nil context.
`Layout(s)`: cmap → GSUB context → advance widths for non-mark glyphs → GPOS context, for EVERY
string, including the empty one and one-glyph results (there is no length guard in the code).
The two contexts live as long as the Layouter: their stacks are threaded through the calls.
-/
import SfntV.Model.ShapeEngine
import SfntV.Model.LayoutLig

namespace SfntV.Layout
open SfntV

/-- one `gtab.Context` of the Layouter: lookup list and the lookup indices chosen by `FindLookups` -/
structure Ctx where
  ll : Shape.LookupList
  lookups : List Nat
deriving Inhabited

/-- the stacks of the two contexts between calls -/
structure LStacks where
  gsub : List Shape.Nested := []
  gpos : List Shape.Nested := []
deriving Inhabited, DecidableEq, Repr

/-- `for _, r := range s { seq = append(seq, glyph.Info{GID: cmap.Lookup(r), Text: []rune{r}}) }` -/
def cmapMap (cmap : Nat → Nat) (s : List Nat) : List Shape.Glyph :=
  s.map fun r => { gid := cmap r, text := [r] }

/-- `font.Gdef.IsMark(gid)`: `GlyphClass[gid] == GlyphClassMark` (false for a nil table) -/
def isMarkGd (gd : Shape.Gdef) (gid : Nat) : Bool :=
  Shape.classOf gd.glyphClass gid == Gen.shapeClassMark

/-- `if !font.Gdef.IsMark(gid) { seq[i].Advance = funit.Int16(font.GlyphWidth(gid)) }` -/
def assignW (gd : Shape.Gdef) (width : Nat → Int) (seq : List Shape.Glyph) : List Shape.Glyph :=
  seq.map fun g => if isMarkGd gd g.gid then g else { g with adv := width g.gid }

/-- `if ctx != nil { seq = ctx.Apply(seq) }` -/
def applyCtx (B : Nat) (c : Option Ctx) (gd : Shape.Gdef) (stack : List Shape.Nested)
    (seq : List Shape.Glyph) : Outcome Shape.St :=
  match c with
  | none => .ok ⟨seq, stack⟩
  | some c => Shape.apply B c.ll gd c.lookups stack seq

/-- `(*Layouter).Layout(s)`; `B` is the engine's nested-action budget -/
def layoutFull (B : Nat) (cmap : Nat → Nat) (gsub gpos : Option Ctx) (gd : Shape.Gdef)
    (width : Nat → Int) (st : LStacks) (s : List Nat) : Outcome (List Shape.Glyph × LStacks) := do
  let a ← applyCtx B gsub gd st.gsub (cmapMap cmap s)
  let b ← applyCtx B gpos gd st.gpos (assignW gd width a.seq)
  pure (b.seq, ⟨a.stack, b.stack⟩)

/-- a history of `Layout` calls on one Layouter; stops at the first panic -/
def layoutHistory (B : Nat) (cmap : Nat → Nat) (gsub gpos : Option Ctx) (gd : Shape.Gdef)
    (width : Nat → Int) : LStacks → List (List Nat) → List (Outcome (List Shape.Glyph))
  | _, [] => []
  | st, s :: ss =>
    match layoutFull B cmap gsub gpos gd width st s with
    | .ok (seq, st') => .ok seq :: layoutHistory B cmap gsub gpos gd width st' ss
    | .err e => [.err e]
    | .panic p => [.panic p]

/-- `gtab.Info` as far as `NewLayouter` uses it -/
structure GInfo where
  scripts : List (String × Option LangSys)
  feats : List Feature
  ll : Shape.LookupList

/-- `NewLayouter` for one table: nil table → nil context; nil switch map → defaults -/
def mkCtx (m : Matcher) (defaults : List (String × Bool)) (info : Option GInfo)
    (sw : Option (List (String × Bool))) : Option Ctx :=
  info.map fun i =>
    ⟨i.ll, findLookups m i.scripts i.feats i.ll.length (switchFn (effective defaults sw))⟩

end SfntV.Layout
