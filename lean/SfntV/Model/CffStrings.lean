/-
Model of cff/strings.go (`cffStrings.lookup`, `cffStrings.get`; `get` itself is `stringsGet` in
Model/CffDict.lean).  Property C13.  Core-only.
-/
import SfntV.Model.CffDict

namespace SfntV.Cff
open SfntV

/-- the last index at which `s` occurs (`rev[s] = i` is overwritten by later duplicates) -/
def lastIdx (l : List String) (s : String) : Option Nat :=
  let rec go : List String → Nat → Option Nat → Option Nat
    | [], _, found => found
    | x :: xs, i, found => go xs (i + 1) (if x = s then some i else found)
  go l 0 none

/-- `ss.lookup(s)`: the SID of `s` and the custom strings afterwards.  The reverse map is built
from the standard strings first and the custom strings second, so a custom entry wins. -/
def stringsLookup (std custom : List String) (s : String) : Nat × List String :=
  match lastIdx custom s with
  | some i => (std.length + i, custom)
  | none =>
    match lastIdx std s with
    | some i => (i, custom)
    | none => (std.length + custom.length, custom ++ [s])

/-- SIDs of a list of strings looked up one after the other (the glyph names in `Write`) -/
def stringsLookupAll (std : List String) : List String → List String → List Nat × List String
  | custom, [] => ([], custom)
  | custom, s :: rest =>
    let (sid, custom') := stringsLookup std custom s
    let (sids, custom'') := stringsLookupAll std custom' rest
    (sid :: sids, custom'')

end SfntV.Cff
