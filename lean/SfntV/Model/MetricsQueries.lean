/-
C12 — the font's own metric queries (font.go, glyf/glyf.go, cff/outlines.go, cff/glyph.go) over
EXACT rationals (`Rat`): `Widths`, `WidthsPDF`, `GlyphWidthPDF`, `GlyphBBox` (`cff.Glyph.Extent`),
`Outlines.GlyphBBoxPDF`, `FontBBoxPDF` (+ `rect.Rect.Extend`), and the writer's handling of
fractional CFF widths (`int(w)`, `funit.Int16(w)`, `math.Abs(width-w) >= 0.5`).  Go evaluates the
same expressions in float64; the correspondence uses inputs on which that evaluation is exact
(dyadic font matrices, integral or dyadic coordinates) or compares after rounding to 2⁻²⁰ with
near-ties counted separately.  Core-only (`Rat` is in core).
-/
import SfntV.Model.MetricsWriter

namespace SfntV.Metrics

/-- a PDF/PostScript transformation matrix `[a b c d e f]` (geom/matrix) -/
structure Mat where
  a : Rat
  b : Rat
  c : Rat
  d : Rat
  e : Rat
  f : Rat
deriving DecidableEq

/-- `Matrix.Apply` -/
def Mat.apply (m : Mat) (x y : Rat) : Rat × Rat := (x * m.a + y * m.c + m.e, x * m.b + y * m.d + m.f)

/-- `Matrix.Mul` (first `m`, then `n`) -/
def Mat.mul (m n : Mat) : Mat :=
  ⟨m.a * n.a + m.b * n.c, m.a * n.b + m.b * n.d, m.c * n.a + m.d * n.c, m.c * n.b + m.d * n.d,
   m.e * n.a + m.f * n.c + n.e, m.e * n.b + m.f * n.d + n.f⟩

def Mat.scale (s : Rat) : Mat := ⟨s, 0, 0, s, 0, 0⟩

/-- geom/rect.Rect -/
structure RectQ where
  llx : Rat
  lly : Rat
  urx : Rat
  ury : Rat
deriving DecidableEq

def RectQ.zero : RectQ := ⟨0, 0, 0, 0⟩
def RectQ.isZero (r : RectQ) : Bool := r.llx == 0 && r.lly == 0 && r.urx == 0 && r.ury == 0

/-- `(*rect.Rect).Extend` -/
def RectQ.extend (r o : RectQ) : RectQ :=
  if o.isZero then r
  else if r.isZero then o
  else ⟨if o.llx < r.llx then o.llx else r.llx, if o.lly < r.lly then o.lly else r.lly,
        if o.urx > r.urx then o.urx else r.urx, if o.ury > r.ury then o.ury else r.ury⟩

/-- the loop shared by glyf `GlyphBBoxPDF` (four corners) and cff `GlyphBBoxPDF` (path points) -/
def ptsBBox (M : Mat) : List (Rat × Rat) → Bool → RectQ → RectQ
  | [], _, bbox => bbox
  | p :: ps, first, bbox =>
    let q := M.apply p.1 p.2
    ptsBBox M ps false
      ⟨if first || q.1 < bbox.llx then q.1 else bbox.llx, if first || q.2 < bbox.lly then q.2 else bbox.lly,
       if first || q.1 > bbox.urx then q.1 else bbox.urx, if first || q.2 > bbox.ury then q.2 else bbox.ury⟩

/-- corner order of glyf `GlyphBBoxPDF`; also the path of the rectangle glyphs the harness builds -/
def corners (e : Rect) : List (Rat × Rat) :=
  [((e.llx : Rat), (e.lly : Rat)), ((e.urx : Rat), (e.lly : Rat)), ((e.urx : Rat), (e.ury : Rat)),
   ((e.llx : Rat), (e.ury : Rat))]

/-- `Outlines.GlyphBBoxPDF(fm, gid)` for a simple (non-CID) font; `none` = nil glyph / empty path -/
def glyphBBoxPDF (fm : Mat) (pts : Option (List (Rat × Rat))) : RectQ :=
  match pts with
  | none => RectQ.zero
  | some l => ptsBBox (fm.mul (Mat.scale 1000)) l true RectQ.zero

/-- font.go `FontBBoxPDF` -/
def fontBBoxPDFLoop : List RectQ → Bool → RectQ → RectQ
  | [], _, bbox => bbox
  | g :: gs, first, bbox =>
    if g.isZero then fontBBoxPDFLoop gs first bbox
    else if first then fontBBoxPDFLoop gs false g
    else fontBBoxPDFLoop gs false (bbox.extend g)

def fontBBoxPDF (fm : Mat) (glyphs : List (Option (List (Rat × Rat)))) : RectQ :=
  fontBBoxPDFLoop (glyphs.map (glyphBBoxPDF fm)) true RectQ.zero

/-- `cff.Glyph.Extent` (= `GlyphBBox` of a CFF font): floor / ceil of the extreme path points -/
def extentLoop : List (Rat × Rat) → Bool → Rat × Rat × Rat × Rat → Rat × Rat × Rat × Rat
  | [], _, acc => acc
  | p :: ps, first, (l, r, t, b) =>
    extentLoop ps false (if first || p.1 < l then p.1 else l, if first || p.1 > r then p.1 else r,
                         if first || p.2 > t then p.2 else t, if first || p.2 < b then p.2 else b)

def extentQ (pts : List (Rat × Rat)) : Rect :=
  let (l, r, t, b) := extentLoop pts true (0, 0, 0, 0)
  ⟨l.floor, b.floor, r.ceil, t.ceil⟩

/-! ## widths -/

/-- `WidthsPDF` of a glyf font: `float64(w) / float64(f.UnitsPerEm)` -/
def widthPDFglyf (w : Int) (upem : Nat) : Rat := (w : Rat) / (upem : Rat)
/-- `GlyphWidthPDF` of a glyf font: `float64(w) / (float64(f.UnitsPerEm) / 1000)` -/
def glyphWidthPDFglyf (w : Int) (upem : Nat) : Rat := (w : Rat) / ((upem : Rat) / 1000)
/-- `WidthsPDF` of a CFF font: `g.Width * f.FontMatrix[0]` -/
def widthPDFcff (w : Rat) (fm : Mat) : Rat := w * fm.a
/-- `GlyphWidthPDF` of a simple CFF font: `q := fm[0]; if |fm[3]| > 1e-6 { q -= fm[1]*fm[2]/fm[3] }`,
result `w * (q * 1000)` -/
def glyphWidthPDFcff (w : Rat) (fm : Mat) : Rat :=
  let q := if (if fm.d < 0 then -fm.d else fm.d) > 1 / 1000000 then fm.a - fm.b * fm.c / fm.d else fm.a
  w * (q * 1000)

/-! ## fractional CFF widths in the writer -/

/-- Go `int(x)` / `funit.Int16(x)` of a float: truncation toward zero -/
def truncQ (x : Rat) : Int := if x ≥ 0 then x.floor else -((-x).floor)

/-- font.go `IsFixedPitch` on arbitrary widths -/
def fixedLoopQ : List Rat → Rat → Bool
  | [], _ => true
  | w :: ws, width =>
    if w = 0 then fixedLoopQ ws width
    else if width = 0 then fixedLoopQ ws w
    else if (if width - w < 0 then -(width - w) else width - w) ≥ 1 / 2 then false
    else fixedLoopQ ws width

def isFixedPitchQ (ws : List Rat) : Bool := if ws.length = 0 then false else fixedLoopQ ws 0

/-- write.go makeOS2 average: `if w > 0 { avg += int(w); count++ }` -/
def avgAccQ : List Rat → Nat × Nat → Nat × Nat
  | [], acc => acc
  | w :: ws, (s, c) => if w > 0 then avgAccQ ws (s + (truncQ w).toNat, c + 1) else avgAccQ ws (s, c)

def avgWidthQ (ws : List Rat) : Int :=
  let (s, c) := avgAccQ ws (0, 0)
  wrap16 (if c > 0 then (s + c / 2) / c else s)

/-- rounding to 2⁻²⁰ for the transport (`math.Round`, half away from zero) -/
def q20 (x : Rat) : Int :=
  let y := x * 1048576
  if y ≥ 0 then (y + 1 / 2).floor else -((-y + 1 / 2).floor)

end SfntV.Metrics
