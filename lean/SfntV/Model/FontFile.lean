/-
C01 — the font file as BYTES: `(*Font).Write` and `sfnt.Read` composed from the byte-level codec
models of the other properties (container: C03 `Header`; head/hhea/hmtx/maxp/OS-2/post: C12
`Metrics`; name: C14 `Names`; glyf/loca: C11 `Glyf`) and from the font-level plumbing of this
property (`derive`, `merge`).  Core-only (linked into the driver).

Stage 2: TrueType outlines, cmap table (C09 `CmapTable`), glyph names in post (C14 `NamesPost`).
Stage 4' (container level): GDEF / GSUB / GPOS are carried as their encoded bytes; their decoders
are parameters (`LayoutDec`), the round trip of C08 enters the theorem as an explicit guard.
-/
import SfntV.Model.FontMerge
import SfntV.Model.Header
import SfntV.Model.MetricsWriter
import SfntV.Model.Os2
import SfntV.Model.NamesTable
import SfntV.Model.Glyf
import SfntV.Model.CmapTable
import SfntV.Model.Cmap4
import SfntV.Model.LayoutLig

namespace SfntV.FontFile
open SfntV SfntV.Font

/-! ## the font value with concrete payloads -/

/-- a TrueType font value: the scalar fields of `sfnt.Font` plus `glyf.Outlines` -/
structure FileFont where
  /-- scalar fields; the `outline` summary inside is ignored (recomputed by `metaOf`) -/
  scalars : FontMeta
  /-- `Outlines.Glyphs` in the model of C11 -/
  glyphs : Glyf.Glyphs
  /-- `Outlines.Widths` (funit.Int16) -/
  widths : List Int
  /-- `Outlines.Maxp`: the 13 uint16 maxima of a version-1.0 maxp table -/
  maxpTtf : List Nat
  /-- `Outlines.Tables`: raw side tables ("cvt ", "fpgm", "prep", "gasp") -/
  sideTables : List (Bytes × Bytes)
  /-- `Font.CMapTable` (`none` = nil map): subtable bytes by key, sorted by (platform, encoding,
  language) -/
  cmap : Option CmapTable.Table
  /-- `Outlines.Names` (`none` = nil slice): glyph names as byte strings -/
  glyphNames : Option (List Names.GName)
  /-- `Font.Gdef/Gsub/Gpos` as the bytes their `Encode()` returns (`none` = nil pointer) -/
  gdef : Option Bytes := none
  gsub : Option Bytes := none
  gpos : Option Bytes := none
deriving Repr, DecidableEq

/-- what `Write` takes from outside the font value -/
structure EnvF where
  env : Env
  /-- `fromAngle(ItalicAngle/180·π)`: caret slope rise and run (float trigonometry, C12 `Caret`) -/
  riseRun : Dy → Int × Int

/-- `Glyph.Rect16` (`funit.Rect16{}` for a nil glyph), from the 16-bit patterns of C11 -/
def rectOf : Option Glyf.Glyph → Metrics.Rect
  | none => ⟨0, 0, 0, 0⟩
  | some g => ⟨Metrics.i16ofNat g.llx, Metrics.i16ofNat g.lly, Metrics.i16ofNat g.urx, Metrics.i16ofNat g.ury⟩

def tokenOfBytes (b : Bytes) : Str := (toHex b).toList

/-- bytes of the encoded glyf table (`[]` if the encoder fails) -/
def glyfBytes (gs : Glyf.Glyphs) : Bytes :=
  match Glyf.encode gs with
  | .ok e => e.glyf
  | _ => []

/-- `decodeFormat4` as used by `Table.Get` (C09) -/
def dec4 (d : Bytes) (mac : Bool) : Outcome (List (Nat × Nat)) := CmapTable.dec4Of Cmap4.decode d mac

/-- `CMapTable.GetBest()`; `none` when the table is nil or has no usable subtable -/
def bestSub (cm : Option CmapTable.Table) : Option CmapTable.Sub :=
  match cm with
  | none => none
  | some t => match CmapTable.getBest dec4 t with
    | .ok s => some s
    | _ => none

/-- token of `standardLigatures(cmapBest)`: the ligature table of C15's model, `none` when no
standard ligature can be formed -/
def stdLigOf (s : CmapTable.Sub) : Option Str :=
  match Layout.standardLigatures s.lookup with
  | some t => some (toString (repr t)).toList
  | none => none

/-- the outline summary of the font-level model, computed from the payload -/
def outlineOf (gs : Glyf.Glyphs) (widths : Option (List Int)) (cm : Option CmapTable.Table)
    (names : Option (List Names.GName)) : Outline :=
  let best := bestSub cm
  { kind := .glyf, numGlyphs := gs.length, widths := widths.map (·.map Dy.ofInt),
    heights := gs.map fun g => (rectOf g).ury,
    glyphs := tokenOfBytes (glyfBytes gs) ++ (toString (repr names)).toList,
    emptyGlyf := (glyfBytes gs).isEmpty,
    cmap := match cm with | some t => tokenOfBytes (CmapTable.encode t) | none => ['-'],
    hasBest := best.isSome,
    gidH := match best with | some s => s.lookup 72 | none => 0,
    gidX := match best with | some s => s.lookup 120 | none => 0,
    stdLig := best.bind stdLigOf }

/-- the `FontMeta` a file font stands for -/
def metaOf (F : FileFont) : FontMeta :=
  { F.scalars with outline := outlineOf F.glyphs (some F.widths) F.cmap F.glyphNames,
                   gdef := F.gdef.map tokenOfBytes, gsub := F.gsub.map tokenOfBytes,
                   gpos := F.gpos.map tokenOfBytes }

/-! ## concrete table records (adapters between the font-level records and the C12/C14 models) -/

def goTime (t : Time) : Metrics.GoTime := ⟨t.sec, t.nsec⟩
def ofGoTime (t : Metrics.GoTime) : Time := ⟨t.sec, t.nsec⟩

/-- the `head.Info` of makeHead (write.go:161-176) -/
def headOf (h : HeadRec) (bbox : Metrics.Rect) (loca : Int) : Metrics.Head :=
  { fontRevision := h.fontRevision, hasYBaseAt0 := true, hasXBaseAt0 := true, isNonlinear := false,
    unitsPerEm := h.unitsPerEm, created := goTime h.created, modified := goTime h.modified, bbox := bbox,
    isBold := h.isBold, isItalic := h.isItalic, hasShadow := false, isCondensed := false,
    isExtended := false, lowestRecPPEM := h.lowestRecPPEM, locaFormat := loca }

def recOfHead (h : Metrics.Head) : HeadRec :=
  { fontRevision := h.fontRevision, unitsPerEm := h.unitsPerEm, created := ofGoTime h.created,
    modified := ofGoTime h.modified, isBold := h.isBold, isItalic := h.isItalic,
    lowestRecPPEM := h.lowestRecPPEM }

/-- fields of `os2.Info` that makeOS2 derives from glyph data and cmap (write.go:203-224) or leaves
at their zero value -/
structure Os2Extra where
  firstCharIndex : Nat
  lastCharIndex : Nat
  winAscent : Int
  winDescent : Int

/-- the `os2.Info` of makeOS2 -/
def os2Of (o : Os2Rec) (x : Os2Extra) : Metrics.Os2 :=
  { weightClass := o.weightClass, widthClass := o.widthClass, isBold := o.isBold, isItalic := o.isItalic,
    isRegular := o.isRegular, isOblique := o.isOblique,
    firstCharIndex := x.firstCharIndex, lastCharIndex := x.lastCharIndex,
    ascent := o.ascent, descent := o.descent, winAscent := x.winAscent, winDescent := x.winDescent,
    lineGap := o.lineGap, capHeight := o.capHeight, xHeight := o.xHeight, avgGlyphWidth := o.avgGlyphWidth,
    sub := List.replicate 10 0, familyClass := o.familyClass, panose := List.replicate 10 0,
    vendor := [], unicodeRange := [0, 0, 0, 0], codePageRange := o.codePageRange, permUse := o.permUse,
    permNoSubsetting := false, permOnlyBitmap := false }

def recOfOs2 (o : Metrics.Os2) : Os2Rec :=
  { weightClass := o.weightClass, widthClass := o.widthClass, isBold := o.isBold, isItalic := o.isItalic,
    isRegular := o.isRegular, isOblique := o.isOblique, ascent := o.ascent, descent := o.descent,
    lineGap := o.lineGap, capHeight := o.capHeight, xHeight := o.xHeight, avgGlyphWidth := o.avgGlyphWidth,
    familyClass := o.familyClass, codePageRange := o.codePageRange, permUse := o.permUse }

/-- the post header makePost writes -/
def postHdrOf (p : PostRec) : Metrics.PostHdr :=
  ⟨toInt32 p.italicAngle.round16, p.underlinePosition, p.underlineThickness, p.isFixedPitch⟩

/-- `post.Read`: `ItalicAngle = float64(n) / 65536` -/
def recOfPostHdr (h : Metrics.PostHdr) : PostRec :=
  ⟨⟨h.italicAngle, 16⟩, h.underlinePosition, h.underlineThickness, h.isFixedPitch⟩

/-- name ids of the twelve strings makeName sets -/
def nameFields (n : NameRec) : List (Nat × Str) :=
  [(0, n.copyright), (1, n.family), (2, n.subfamily), (3, n.identifier), (4, n.fullName), (5, n.version),
   (6, n.postScriptName), (7, n.trademark), (10, n.description), (13, n.license), (14, n.licenseURL),
   (19, n.sampleText)]

/-- the `name.Info` of makeName: the same table under Macintosh "en" and Windows "en-US"
(empty strings are not entered) -/
def nameEntries (n : NameRec) : List Names.Entry :=
  let live := (nameFields n).filter fun p => !p.2.isEmpty
  (live.map fun p => ⟨1, "en", p.1, p.2.map Char.toNat⟩) ++
  (live.map fun p => ⟨3, "en-US", p.1, p.2.map Char.toNat⟩)

def strOfRunes (l : List Nat) : Str := l.map Char.ofNat

/-- the `name.Table` `Read` selects: Windows "en-US" if it has any string, else Macintosh "en"
(the `language.Matcher` of `Tables.Choose` is not modelled; these are the two tables `Write`
emits) -/
def nameRecOf (dec : List Names.Entry) : Option NameRec :=
  let pick (p : Nat) (t : String) : NameRec :=
    let g (i : Nat) : Str := strOfRunes (Names.getVal dec p t i)
    { copyright := g 0, family := g 1, subfamily := g 2, identifier := g 3, fullName := g 4, version := g 5,
      postScriptName := g 6, trademark := g 7, description := g 10, license := g 13, licenseURL := g 14,
      sampleText := g 19 }
  if dec.any (fun e => e.plat == 3 && e.tag == "en-US") then some (pick 3 "en-US")
  else if dec.any (fun e => e.plat == 1 && e.tag == "en") then some (pick 1 "en")
  else none

def natsToBytes (l : List Nat) : Bytes := l.map UInt8.ofNat
def bytesToNats (b : Bytes) : List Nat := b.map (·.toNat)

/-- `cmap.Subtable.CodeRange()` of the decoded subtable (formats 4 and 6 decode to `Format4`,
format 12 to `Format12`, format 0 answers (0, 255)) -/
def codeRangeOf : CmapTable.Sub → Int × Int
  | .f0 _ => (0, 255)
  | .f4 w => Metrics.codeRange4 (w.map fun p => (p.1 : Int))
  | .f6 w => Metrics.codeRange4 (w.map fun p => (p.1 : Int))
  | .f12 gs => Metrics.codeRange12 ((Cmap12.expand gs).map fun p => CmapTable.toRune p.1) true (0, 0)

/-- makeOS2: first / last character index -/
def charIndices (cm : Option CmapTable.Table) : Nat × Nat :=
  match bestSub cm with
  | some s =>
    let r := codeRangeOf s
    ((Metrics.charIndexModel r.1).toNat, (Metrics.charIndexModel r.2).toNat)
  | none => (0, 0)

/-- the post header in the representation of C14's post model (bit patterns) -/
def postHdrN (p : PostRec) : Names.PostHdr :=
  ⟨(toInt32 p.italicAngle.round16 % 4294967296).toNat, (p.underlinePosition % 65536).toNat,
   (p.underlineThickness % 65536).toNat, p.isFixedPitch⟩

def recOfPostHdrN (h : Names.PostHdr) : PostRec :=
  ⟨⟨Metrics.i32ofNat h.angle, 16⟩, Metrics.i16ofNat h.upos, Metrics.i16ofNat h.uthick, h.fixed⟩

/-! ## `(*Font).Write` -/

def tag (s : String) : Bytes := Header.strBytes s

/-- the table map `Write` hands to `header.Write` (write.go:41-98), TrueType branch -/
def writeTables (ef : EnvF) (F : FileFont) : Outcome (List Header.Entry) :=
  let M := metaOf F
  let rects := F.glyphs.map rectOf
  let bbox := Metrics.fontBBoxModel rects
  match Glyf.encode F.glyphs with
  | .err e => .err e
  | .panic s => .panic s
  | .ok enc =>
    let rr := ef.riseRun M.italicAngle
    let hm := deriveHmtx ef.env M
    let info : Metrics.Info :=
      { widths := some hm.widths, extents := some rects, lsb := none,
        ascent := hm.ascent, descent := hm.descent, lineGap := hm.lineGap, caretOffset := 0 }
    match Metrics.encode info rr.1 rr.2 with
    | .err e => .err e
    | .panic s => .panic s
    | .ok (hhea, hmtx) =>
      match Metrics.encodeMaxp ⟨F.glyphs.length, some F.maxpTtf⟩ with
      | .err e => .err e
      | .panic s => .panic s
      | .ok maxp =>
        let win := Metrics.winMetricsModel bbox
        let ci := charIndices F.cmap
        let os2 := Metrics.encodeOs2 (os2Of (deriveOs2 M) ⟨ci.1, ci.2, win.1, win.2⟩)
        let name := natsToBytes (Names.nameEncode (nameEntries (deriveName ef.env M)) 1)
        let post := natsToBytes (Names.postEncode (postHdrN (derivePost M)) F.glyphNames)
        let head := Metrics.encodeHead (headOf (deriveHead M) bbox enc.fmt)
        .ok ([⟨tag "hhea", some hhea⟩, ⟨tag "hmtx", hmtx⟩, ⟨tag "cmap", F.cmap.map CmapTable.encode⟩,
              ⟨tag "OS/2", some os2⟩, ⟨tag "name", some name⟩,
              ⟨tag "post", some post⟩, ⟨tag "glyf", some enc.glyf⟩, ⟨tag "loca", some enc.loca⟩] ++
             F.sideTables.map (fun t => ⟨t.1, some t.2⟩) ++
             [⟨tag "maxp", some maxp⟩, ⟨tag "head", some head⟩,
              ⟨tag "GDEF", F.gdef⟩, ⟨tag "GSUB", F.gsub⟩, ⟨tag "GPOS", F.gpos⟩])

/-- `(*Font).Write`: the bytes of the file -/
def writeFile (ef : EnvF) (F : FileFont) : Outcome Bytes :=
  match writeTables ef F with
  | .err e => .err e
  | .panic s => .panic s
  | .ok ts =>
    match Header.write 0x00010000 ts with
    | .ok w => .ok w.bytes
    | .err e => .err e
    | .panic s => .panic s

/-! ## `sfnt.Read` -/

/-- `dir.ReadTableBytes`: the bytes of a table of the directory (`none` = missing) -/
def tableOf (f : Bytes) (recs : List (Bytes × Nat × Nat)) (name : Bytes) : Option Bytes :=
  match recs.find? (fun r => r.1 == name) with
  | some r => some ((f.drop r.2.1).take r.2.2)
  | none => none

/-- what `Read` returns for a TrueType file: the merged scalar fields and the payloads -/
structure ReadResult where
  font : FontMeta
  glyphs : Glyf.Glyphs
  maxpTtf : Option (List Nat)
  sideTables : List (Bytes × Bytes)
  cmap : Option CmapTable.Table
  glyphNames : Option (List Names.GName)
deriving Repr, DecidableEq

/-- read.go: glyph names are used only if there is one for every glyph (then the first `n`) -/
def namesFor (n : Nat) (names : Option (List Names.GName)) : Option (List Names.GName) :=
  match names with
  | some ns => if ns.length ≥ n then some (ns.take n) else none
  | none => none

/-- `post.Read`: header and glyph names (versions 1.0 and 2.0 carry names: C14; 3.0/4.0 none) -/
def decodePostFull (b : Bytes) : Outcome (PostRec × Option (List Names.GName)) :=
  match Names.postRead (bytesToNats b) with
  | .ok h names => .ok (recOfPostHdrN h, names)
  | .err => .err "malformed"
  | .unsupported => .err "unsupported"

def sideTags : List Bytes := [tag "cvt ", tag "fpgm", tag "prep", tag "gasp"]

/-- lift a table decoder over an optional table -/
def optDecode (t : Option Bytes) (dec : Bytes → Outcome α) : Outcome (Option α) :=
  match t with
  | none => .ok none
  | some b => match dec b with
    | .ok a => .ok (some a)
    | .err e => .err e
    | .panic s => .panic s

/-- decoders of the layout tables (C08: `gdef.Read`, `gtab.Read`); the result is the token under
which the font-level model carries the table -/
structure LayoutDec where
  gdef : Bytes → Outcome Str
  gsub : Bytes → Outcome Str
  gpos : Bytes → Outcome Str

/-- `if dir.Has(name) { … Read … }`: `Has` is false for a missing or zero-length table -/
def hasDecode (t : Option Bytes) (dec : Bytes → Outcome α) : Outcome (Option α) :=
  match t with
  | none => .ok none
  | some b => if b.isEmpty then .ok none else
    match dec b with
    | .ok a => .ok (some a)
    | .err e => .err e
    | .panic s => .panic s

/-- `sfnt.Read` (read.go:62-523) on a TrueType file: directory, table decoders in the order of the
Go code, consistency checks (`readErr`), `merge`.  The caret angle recovered from hhea goes through
float trigonometry (`toAngle`): `caretOf` supplies it.  A `kern` table (only in foreign files) is
not modelled at this level. -/
def readFile (ld : LayoutDec) (caretOf : Int → Int → Int) (f : Bytes) : Outcome ReadResult :=
  match Header.read 280 f with
  | .err e => .err ("header:" ++ e)
  | .panic s => .panic s
  | .ok (sc, recs) =>
    if sc == 0x4F54544F then .err "CFF-not-in-stage-1" else
    let tab := tableOf f recs
    match optDecode (tab (tag "head")) Metrics.decodeHead with
    | .err e => .err ("head:" ++ e) | .panic s => .panic s
    | .ok head =>
    match optDecode (tab (tag "maxp")) Metrics.decodeMaxp with
    | .err e => .err ("maxp:" ++ e) | .panic s => .panic s
    | .ok maxp =>
    match optDecode (tab (tag "OS/2")) Metrics.decodeOs2 with
    | .err e => .err ("OS/2:" ++ e) | .panic s => .panic s
    | .ok os2 =>
    match optDecode (tab (tag "hhea")) (fun hh => Metrics.decode hh (tab (tag "hmtx"))) with
    | .err e => .err ("hmtx:" ++ e) | .panic s => .panic s
    | .ok hm =>
    match (match tab (tag "name") with
           | none => some none
           | some b => (Names.nameDecode (bytesToNats b)).map some) with
    | none => .err "name:malformed"
    | some nameDec =>
    match optDecode (tab (tag "cmap")) CmapTable.decode with
    | .err e => .err ("cmap:" ++ e) | .panic s => .panic s
    | .ok cm =>
    match optDecode (tab (tag "post")) decodePostFull with
    | .err e => .err ("post:" ++ e) | .panic s => .panic s
    | .ok post =>
    match hasDecode (tab (tag "GDEF")) ld.gdef with
    | .err e => .err ("GDEF:" ++ e) | .panic s => .panic s
    | .ok gdef =>
    match hasDecode (tab (tag "GSUB")) ld.gsub with
    | .err e => .err ("GSUB:" ++ e) | .panic s => .panic s
    | .ok gsub =>
    match hasDecode (tab (tag "GPOS")) ld.gpos with
    | .err e => .err ("GPOS:" ++ e) | .panic s => .panic s
    | .ok gpos =>
    if (tab (tag "kern")).isSome then .err "kern-not-modelled" else
    match head, maxp, tab (tag "loca"), tab (tag "glyf") with
    | some h, some mx, some loca, some glyf =>
      match Glyf.decode h.locaFormat loca glyf with
      | .err e => .err ("glyf:" ++ e) | .panic s => .panic s
      | .ok gs =>
        let T : Tables :=
          { scalerCFF := false,
            head := some (recOfHead h),
            hmtx := hm.map fun d => { widths := d.widths, ascent := d.ascent, descent := d.descent,
                                      lineGap := d.lineGap, caret16 := caretOf d.rise d.run },
            maxp := some mx.numGlyphs.toNat,
            os2 := os2.map recOfOs2,
            name := nameDec.bind nameRecOf,
            post := post.map (·.1),
            cff := none,
            outline := outlineOf gs none cm (namesFor gs.length (post.bind (·.2))),
            gdef := gdef, gsub := gsub, gpos := gpos, kern := none }
        match readErr T with
        | some e => .err e
        | none =>
          .ok { font := merge T, glyphs := gs, maxpTtf := mx.ttf, cmap := cm,
                glyphNames := namesFor gs.length (post.bind (·.2)),
                sideTables := sideTags.filterMap fun t =>
                  match tab t with
                  | some b => if b.isEmpty then none else some (t, b)   -- `dir.Has`: zero-length = absent
                  | none => none }
    | none, _, _, _ => .err "missing-head"
    | _, none, _, _ => .err "missing-maxp"
    | _, _, _, _ => .err "no-glyph-data"

/-- the normal form of a file font: what `Read(Write(F))` is -/
def nfFile (F : FileFont) : ReadResult :=
  { font := nf (metaOf F), glyphs := F.glyphs, maxpTtf := some F.maxpTtf, cmap := F.cmap,
    glyphNames := F.glyphNames,
    sideTables := sideTags.filterMap fun t =>
      match F.sideTables.find? (·.1 == t) with
      | some p => if p.2.isEmpty then none else some (t, p.2)
      | none => none }

end SfntV.FontFile
