/-
C19 — model of opentype/gtab/builder/lexer.go (the token machine of the lookup description
language).  Core-only.

The Go lexer walks a UTF-8 string rune by rune (`utf8.DecodeRuneInString`), may un-read the last
rune (`backup`), and sends items `{typ, val, line}` over a channel; here the input is first cut
into runes-with-their-bytes (`RB`), and the state functions of the Go code become the states of a
one-pass machine: a token that ends because the next rune does not belong to it is emitted and the
same rune is then handled as `lexStart` would (`backup` + `return lexStart`).  A NUL byte
(which `next` cannot tell from the end of the input by the rune alone) is an unexpected
character for `lexStart`, ends an identifier or a comment like any other foreign rune, and
makes a string unterminated.
-/
import SfntV.Generated.Dsl

namespace SfntV.Dsl

/-- a decoded rune together with the input bytes it came from -/
abbrev RB := Nat × List Nat

def inR (lo hi b : Nat) : Bool := lo ≤ b && b ≤ hi

/-- `utf8.DecodeRuneInString` on `b0 :: rest`: rune and width.  Invalid or truncated sequences
give U+FFFD of width 1; second-byte ranges as in the standard library's `acceptRanges` (no
overlong forms, no surrogates, nothing above U+10FFFF). -/
def decodeRune1 (b0 : Nat) (rest : List Nat) : Nat × Nat :=
  if b0 < 0x80 then (b0, 1)
  else if b0 < 0xC2 || b0 > 0xF4 then (0xFFFD, 1)
  else
    let lo := if b0 == 0xE0 then 0xA0 else if b0 == 0xF0 then 0x90 else 0x80
    let hi := if b0 == 0xED then 0x9F else if b0 == 0xF4 then 0x8F else 0xBF
    let sz := if b0 < 0xE0 then 2 else if b0 < 0xF0 then 3 else 4
    match rest with
    | [] => (0xFFFD, 1)
    | b1 :: r1 =>
      if !(inR lo hi b1) then (0xFFFD, 1)
      else if sz == 2 then ((b0 % 32) * 64 + b1 % 64, 2)
      else match r1 with
        | [] => (0xFFFD, 1)
        | b2 :: r2 =>
          if !(inR 0x80 0xBF b2) then (0xFFFD, 1)
          else if sz == 3 then ((b0 % 16) * 4096 + (b1 % 64) * 64 + b2 % 64, 3)
          else match r2 with
            | [] => (0xFFFD, 1)
            | b3 :: _ =>
              if !(inR 0x80 0xBF b3) then (0xFFFD, 1)
              else ((b0 % 8) * 262144 + (b1 % 64) * 4096 + (b2 % 64) * 64 + b3 % 64, 4)

/-- the runes of a byte string, each with its bytes; `skip` bytes belong to the previous rune -/
def decodeAux : Nat → List Nat → List RB
  | _, [] => []
  | skip + 1, _ :: rest => decodeAux skip rest
  | 0, b0 :: rest =>
    let rw := decodeRune1 b0 rest
    (rw.1, (b0 :: rest).take rw.2) :: decodeAux (rw.2 - 1) rest

def decodeUtf8 (bs : List Nat) : List RB := decodeAux 0 bs

/-- membership in a Go `unicode.RangeTable` given as (lo, hi, stride) triples -/
def inRanges (tbl : Array (Nat × Nat × Nat)) (r : Nat) : Bool :=
  tbl.any fun t => t.1 ≤ r && r ≤ t.2.1 && (r - t.1) % t.2.2 == 0

/-- `unicode.IsLetter` -/
def isLetter (r : Nat) : Bool :=
  if r < 128 then inR 65 90 r || inR 97 122 r else inRanges Gen.dslLetterRanges r
/-- `unicode.IsDigit` -/
def isDigit (r : Nat) : Bool :=
  if r < 128 then inR 48 57 r else inRanges Gen.dslDigitRanges r
/-- `unicode.IsSpace` -/
def isSpace (r : Nat) : Bool :=
  if r < 128 then inR 9 13 r || r == 32 else inRanges Gen.dslSpaceRanges r

/-! item types, in the iota order of lexer.go (checked against the regenerated list in
`Props/C19.lean`) -/
def tError := 0
def tEOF := 1
def tEOL := 2
def tAmpersand := 3
def tArrow := 4
def tAt := 5
def tBar := 6
def tColon := 7
def tComma := 8
def tEqual := 9
def tHyphen := 10
def tIdentifier := 11
def tInteger := 12
def tOr := 13
def tSemicolon := 14
def tSlash := 15
def tSquareBracketClose := 16
def tSquareBracketOpen := 17
def tString := 18

/-- a lexer item.  For `tError` items `val` is empty and `err` says which of the two lexer
errors it is (`1` unexpected character `erune`, `2` unterminated string). -/
structure Tok where
  typ : Nat
  val : List RB
  line : Nat
  err : Nat := 0
  erune : Nat := 0
deriving Repr, DecidableEq, Inhabited

/-- states of the machine = the Go state functions plus "one rune of `-`/`|` read" -/
inductive LState where
  | start (ws : List RB)            -- lexStart, skipping white space (kept: it is EOF's val)
  | ident (acc : List RB)           -- lexIdentifier
  | str (acc : List RB) (esc : Bool) -- lexString
  | int (acc : List RB)             -- lexInteger
  | comment                         -- lexComment
  | hyphen (h : RB)                 -- lexStart after '-'
  | bar (b : RB)                    -- lexStart after '|'
deriving Repr, DecidableEq

def singleChar (r : Nat) : Option Nat := (Gen.dslSingleCharTokens.find? (·.1 == r)).map (·.2)

/-- `lexStart` looking at rune `c` after the skipped white space `ws` -/
def startStep (ws : List RB) (line : Nat) (c : RB) : List Tok × Option (LState × Nat) :=
  let r := c.1
  if r != 10 && isSpace r then ([], some (.start (ws ++ [c]), line))
  else if r == 10 then ([{ typ := tEOL, val := [c], line := line }], some (.start [], line + 1))
  else if isLetter r || r == 46 || r == 95 then ([], some (.ident [c], line))
  else if r == 34 then ([], some (.str [c] false, line))
  else if inR 48 57 r || r == 43 then ([], some (.int [c], line))
  else match singleChar r with
    | some t => ([{ typ := t, val := [c], line := line }], some (.start [], line))
    | none =>
      if r == 45 then ([], some (.hyphen c, line))
      else if r == 124 then ([], some (.bar c, line))
      else if r == 35 then ([], some (.comment, line))
      else ([{ typ := tError, val := [], line := line, err := 1, erune := r }], none)

/-- one rune in state `st` -/
def step (st : LState) (line : Nat) (c : RB) : List Tok × Option (LState × Nat) :=
  let r := c.1
  match st with
  | .start ws => startStep ws line c
  | .ident acc =>
    if isLetter r || r == 46 || r == 95 || isDigit r then ([], some (.ident (acc ++ [c]), line))
    else
      let (ts, n) := startStep [] line c
      ({ typ := tIdentifier, val := acc, line := line } :: ts, n)
  | .int acc =>
    if inR 48 57 r then ([], some (.int (acc ++ [c]), line))
    else
      let (ts, n) := startStep [] line c
      ({ typ := tInteger, val := acc, line := line } :: ts, n)
  | .str acc esc =>
    if r == 0 || r == 10 then ([{ typ := tError, val := [], line := line, err := 2 }], none)
    else if esc then ([], some (.str (acc ++ [c]) false, line))
    else if r == 92 then ([], some (.str (acc ++ [c]) true, line))
    else if r == 34 then
      ([{ typ := tString, val := acc ++ [c], line := line }], some (.start [], line))
    else ([], some (.str (acc ++ [c]) false, line))
  | .comment =>
    if r == 0 || r == 10 then startStep [] line c else ([], some (.comment, line))
  | .hyphen h =>
    if r == 62 then ([{ typ := tArrow, val := [h, c], line := line }], some (.start [], line))
    else if inR 48 57 r then ([], some (.int [h, c], line))
    else
      let (ts, n) := startStep [] line c
      ({ typ := tHyphen, val := [h], line := line } :: ts, n)
  | .bar b =>
    if r == 124 then ([{ typ := tOr, val := [b, c], line := line }], some (.start [], line))
    else
      let (ts, n) := startStep [] line c
      ({ typ := tBar, val := [b], line := line } :: ts, n)

/-- end of input in state `st` (`next` returns `eof` with width 0) -/
def finish (st : LState) (line : Nat) : List Tok :=
  let eof : Tok := { typ := tEOF, val := [], line := line }
  match st with
  | .start ws => [{ typ := tEOF, val := ws, line := line }]
  | .ident acc => [{ typ := tIdentifier, val := acc, line := line }, eof]
  | .int acc => [{ typ := tInteger, val := acc, line := line }, eof]
  | .str _ _ => [{ typ := tError, val := [], line := line, err := 2 }]
  | .comment => [eof]
  | .hyphen h => [{ typ := tHyphen, val := [h], line := line }, eof]
  | .bar b => [{ typ := tBar, val := [b], line := line }, eof]

/-- the items the lexer goroutine sends before it closes the channel -/
def lexFrom : LState → Nat → List RB → List Tok
  | st, line, [] => finish st line
  | st, line, c :: rest =>
    match step st line c with
    | (ts, none) => ts
    | (ts, some (st', line')) => ts ++ lexFrom st' line' rest

/-- `lex(input)` as the list of items sent -/
def lexRunes (rs : List RB) : List Tok := lexFrom (.start []) 1 rs

def lexBytes (bs : List Nat) : List Tok := lexRunes (decodeUtf8 bs)

/-- ASCII text as runes (for statements and examples) -/
def ascii (s : List Nat) : List RB := s.map fun c => (c, [c])

def Tok.bytes (t : Tok) : List Nat := t.val.flatMap (·.2)
def Tok.runes (t : Tok) : List Nat := t.val.map (·.1)

end SfntV.Dsl
