/-
Model of `Info.Encode` and `gtab.Read`/`readGtab` (/repo/opentype/gtab/gtab.go, as repaired for C08:
a nil list is written as an empty list instead of offset 0; a feature-list or lookup-list offset
above 0xFFFF is refused with a panic).  The three lists enter the encoder as the byte strings their
own encoders produce (`none` = the encoder returned nil, i.e. a nil list).  The reader is the
composition of the header logic with the readers of the three lists; the lookup list is read with
the real GSUB subtable reader for the modelled lookup types 1–4.  Core-only.
-/
import SfntV.Model.OtlScriptList
import SfntV.Model.OtlFeatureList
import SfntV.Model.OtlLookupList
import SfntV.Model.OtlGsub

namespace SfntV.Otl.Gtab
open SfntV SfntV.Otl

/-- a missing list is written as an empty list -/
def listBytes (l : Option Bytes) : Bytes := l.getD [0, 0]

/-- `Info.Encode` -/
def encode (sl fl ll : Option Bytes) : Outcome Bytes :=
  let s := listBytes sl
  let f := listBytes fl
  let l := listBytes ll
  let fo := 10 + s.length
  let lo := fo + f.length
  if fo > 0xFFFF ∨ lo > 0xFFFF then .panic "script and feature lists too large"
  else .ok (wordsToBytes [1, 0, 10, w16 fo, w16 lo] ++ s ++ f ++ l)

/-- the header logic of `readGtab`: `none` = "empty table" (script-list or lookup-list offset 0),
otherwise the three offsets -/
def readHeader (b : Bytes) : Outcome (Option (Nat × Nat × Nat)) :=
  if b.length < 10 then .err eIO
  else
    match bytesToWords b with
    | major :: minor :: so :: fo :: lo :: rest =>
      if major != 1 || minor > 1 then .err eUnsupported
      else if minor == 1 && rest.length < 2 then .err eIO
      else
        let fvo := if minor == 1 then rest.getD 0 0 * 65536 + rest.getD 1 0 else 0
        let endOfHeader := if minor == 1 then 14 else 10
        if so == 0 || lo == 0 then .ok none
        else if [so, fo, lo].any (fun o => o < endOfHeader || o ≥ b.length) then .err eInvalid
        else if (fvo != 0 && fvo < endOfHeader) || fvo ≥ b.length then .err eInvalid
        else .ok (some (so, fo, lo))
    | _ => .err eIO

structure Info where
  scripts : List SL.Entry
  features : Option (List FL.Feature)
  lookups : Option (List (LL.ReadLookup Gsub.Sub))

/-- the real GSUB subtable reader, for the modelled lookup types -/
def gsubLeaf (b : Bytes) (tp p : Nat) : Outcome Gsub.Sub := Gsub.readSubtable tp (b.drop p)

/-- `gtab.Read(r, TypeGsub)` -/
def readGsub (b : Bytes) : Outcome Info :=
  match readHeader b with
  | .ok none => .ok ⟨[], none, none⟩
  | .ok (some (so, fo, lo)) =>
    match SL.readSized b.length (b.drop so) with
    | .ok sl =>
      match FL.read (b.drop fo) with
      | .ok fl =>
        match LL.readLLWith (gsubLeaf (b.drop lo)) (b.drop lo) 7 with
        | .ok ll => .ok ⟨sl, some fl, some ll⟩
        | .err e => .err e
        | .panic s => .panic s
      | .err e => .err e
      | .panic s => .panic s
    | .err e => .err e
    | .panic s => .panic s
  | .err e => .err e
  | .panic s => .panic s

end SfntV.Otl.Gtab
