/-
Models of anchors (/repo/opentype/anchor), mark arrays (/repo/opentype/markarray) and the GPOS
subtable codecs `Gpos2_2` (class pair adjustment), `Gpos3_1` (cursive attachment), `Gpos4_1`
(mark-to-base) and `Gpos6_1` (mark-to-mark; the same layout and Go code as 4.1) — gpos.go, gpos4.go,
gpos6.go as repaired for C08 (offsets above 0xFFFF are refused with a panic).
An anchor is its two 16-bit coordinates (two's complement); `(0, 0)` is the "empty" anchor, written
as offset 0.  Core-only.
-/
import SfntV.Model.OtlGpos
import SfntV.Model.OtlClassDef

namespace SfntV.Otl.GposMark
open SfntV SfntV.Otl

abbrev Anchor := Nat × Nat

def isEmpty (a : Anchor) : Bool := a.1 == 0 && a.2 == 0

/-- `anchor.Table.Append`: always format 1 -/
def anchorWords (a : Anchor) : List Nat := [1, a.1, a.2]

/-- `anchor.Read` at byte offset `off` of `b` -/
def readAnchor (b : Bytes) (off : Nat) : Outcome Anchor :=
  match bytesToWords (b.drop off) with
  | fmt :: x :: y :: _ => if fmt == 0 || fmt > 3 then .err eInvalid else .ok (x, y)
  | _ => .err eIO

structure Mark where
  cls : Nat
  anchor : Anchor
deriving DecidableEq, Repr

def readAnchors (b : Bytes) (pos : Nat) : List Nat → Outcome (List Anchor)
  | [] => .ok []
  | o :: os =>
    match readAnchor b (pos + o) with
    | .ok a =>
      match readAnchors b pos os with
      | .ok r => .ok (a :: r)
      | o' => o'
    | .err e => .err e
    | .panic s => .panic s

def pairs : List Nat → List (Nat × Nat)
  | a :: c :: r => (a, c) :: pairs r
  | _ => []

/-- `markarray.Read(p, pos, numMarks)` -/
def readMarkArray (b : Bytes) (pos numMarks : Nat) : Outcome (List Mark) :=
  match bytesToWords (b.drop pos) with
  | cnt :: ws =>
    let n := min cnt numMarks
    if ws.length < 2 * n then .err eIO
    else
      let recs := pairs (ws.take (2 * n))
      match readAnchors b pos (recs.map (·.2)) with
      | .ok as => .ok ((recs.zip as).map fun q => ⟨q.1.1, q.2⟩)
      | .err e => .err e
      | .panic s => .panic s
  | [] => .err eIO

/-! ### GPOS 4.1 / 6.1 -/

def countMarkClasses (marks : List Mark) (bases : List (List Anchor)) : Nat :=
  match bases with
  | row :: _ => row.length
  | [] => (marks.foldl (fun m r => max m r.cls) 0) + 1

def baseLen (bases : List (List Anchor)) : Nat :=
  2 + (bases.map fun row => (row.map fun a => 2 + (if isEmpty a then 0 else 6)).sum).sum

def encodeLen41 (mcov bcov : List Nat) (marks : List Mark) (bases : List (List Anchor)) : Outcome Nat :=
  match Cov.encodeLen mcov, Cov.encodeLen bcov with
  | .ok n1, .ok n2 => .ok (12 + n1 + n2 + 2 + 10 * marks.length + baseLen bases)
  | _, _ => .panic "invalid coverage table"

/-- offsets of the anchors of the base array (0 for an empty anchor), with the refusal of the repair -/
def baseOffsets : List Anchor → Nat → Outcome (List Nat × Nat)
  | [], offs => .ok ([], offs)
  | a :: as, offs =>
    if isEmpty a then
      match baseOffsets as offs with
      | .ok (r, o) => .ok (0 :: r, o)
      | o' => o'
    else if offs > 0xFFFF then .panic "anchor offset overflow"
    else match baseOffsets as (offs + 6) with
      | .ok (r, o) => .ok (offs :: r, o)
      | o' => o'

def encode41 (mcov bcov : List Nat) (marks : List Mark) (bases : List (List Anchor)) : Outcome Bytes :=
  match Cov.encodeLen mcov, Cov.encodeLen bcov, Cov.encode mcov, Cov.encode bcov with
  | .ok n1, .ok n2, .ok c1, .ok c2 =>
    let markCount := marks.length
    let classCount := countMarkClasses marks bases
    let baseCount := bases.length
    let mcOff := 12
    let bcOff := mcOff + n1
    let maOff := bcOff + n2
    let baOff := maOff + 2 + 10 * markCount
    -- REPAIRED (C08 #19): the reader rejects more than (65536-6-2)/2 anchor offsets
    if baseCount * classCount > 32764 then .panic "too many anchor offsets"
    else if baOff > 0xFFFF then .panic "base array offset overflow"
    else
      let flat := bases.flatMap id
      match baseOffsets flat (2 + 2 * baseCount * classCount) with
      | .ok (offs, _) =>
        .ok (wordsToBytes [1, w16 mcOff, w16 bcOff, w16 classCount, w16 maOff, w16 baOff] ++ c1 ++ c2 ++
          wordsToBytes (w16 markCount ::
            ((marks.zipIdx.flatMap fun q => [q.1.cls, w16 (2 + 4 * markCount + 6 * q.2)]) ++
             marks.flatMap fun m => anchorWords m.anchor)) ++
          wordsToBytes (w16 baseCount :: (offs ++
            (flat.filter fun a => !isEmpty a).flatMap anchorWords)))
      | .err e => .err e
      | .panic s => .panic s
  | _, _, _, _ => .panic "invalid coverage table"

/-- GSUB-style pruning: `if len(cov) > len(xs) { cov.Prune(len(xs)) } else { xs = xs[:len(cov)] }` -/
def pruneA {α} (cov : List (Nat × Nat)) (xs : List α) : List (Nat × Nat) × List α :=
  if cov.length > xs.length then (cov.filter (fun p => p.2 < xs.length), xs)
  else (cov, xs.take cov.length)

def readRow (b : Bytes) (pos : Nat) : List Nat → Outcome (List Anchor)
  | [] => .ok []
  | o :: os =>
    let here : Outcome Anchor := if o == 0 then .ok (0, 0) else readAnchor b (pos + o)
    match here with
    | .ok a =>
      match readRow b pos os with
      | .ok r => .ok (a :: r)
      | o' => o'
    | .err e => .err e
    | .panic s => .panic s

def readRows (b : Bytes) (pos classCount : Nat) : (n : Nat) → List Nat → Outcome (List (List Anchor))
  | 0, _ => .ok []
  | n + 1, offs =>
    match readRow b pos (offs.take classCount) with
    | .ok row =>
      match readRows b pos classCount n (offs.drop classCount) with
      | .ok r => .ok (row :: r)
      | o' => o'
    | .err e => .err e
    | .panic s => .panic s

structure MarkBase where
  mcov : List (Nat × Nat)
  bcov : List (Nat × Nat)
  marks : List Mark
  bases : List (List Anchor)

/-- `readGpos4_1` / `readGpos6_1` -/
def read41 (b : Bytes) : Outcome MarkBase :=
  match bytesToWords b with
  | _ :: mcOff :: bcOff :: classCount :: maOff :: baOff :: _ =>
    match Cov.read (b.drop mcOff) with
    | .ok mcov =>
      match Cov.read (b.drop bcOff) with
      | .ok bcov =>
        match readMarkArray b maOff mcov.length with
        | .ok marks =>
          let pm := pruneA mcov marks
          match bytesToWords (b.drop baOff) with
          | cnt :: ws =>
            let baseCount := if cnt > bcov.length then bcov.length else cnt
            let bcov' := if cnt > bcov.length then bcov else bcov.filter (fun p => p.2 < cnt)
            let numOffsets := baseCount * classCount
            if numOffsets > 32764 then .err eInvalid
            else if ws.length < numOffsets then .err eIO
            else match readRows b baOff classCount baseCount (ws.take numOffsets) with
              | .ok rows => .ok ⟨pm.1, bcov', pm.2, rows⟩
              | .err e => .err e
              | .panic s => .panic s
          | [] => .err eIO
        | .err e => .err e
        | .panic s => .panic s
      | .err e => .err e
      | .panic s => .panic s
    | .err e => .err e
    | .panic s => .panic s
  | _ => .err eIO

/-! ### GPOS 3.1 -/

abbrev EntryExit := Anchor × Anchor

def encodeLen31 (rev : List Nat) (recs : List EntryExit) : Outcome Nat :=
  match Cov.encodeLen rev with
  | .ok n => .ok (6 + 4 * recs.length +
      (recs.map fun r => (if isEmpty r.1 then 0 else 6) + (if isEmpty r.2 then 0 else 6)).sum + n)
  | .err e => .err e
  | .panic s => .panic s

def eeOffsets : List EntryExit → Nat → List Nat × Nat
  | [], total => ([], total)
  | r :: rs, total =>
    let e := if isEmpty r.1 then 0 else w16 total
    let t1 := if isEmpty r.1 then total else total + 6
    let x := if isEmpty r.2 then 0 else w16 t1
    let t2 := if isEmpty r.2 then t1 else t1 + 6
    let rest := eeOffsets rs t2
    (e :: x :: rest.1, rest.2)

def encode31 (rev : List Nat) (recs : List EntryExit) : Outcome Bytes :=
  let oo := eeOffsets recs (6 + 4 * recs.length)
  match Cov.encodeLen rev with
  | .ok _ =>
    if oo.2 > 0xFFFF then .panic "coverage offset overflow"
    else match Cov.encode rev with
      | .ok c =>
        .ok (wordsToBytes ([1, w16 oo.2, w16 recs.length] ++ oo.1 ++
          (recs.zip (pairs oo.1)).flatMap (fun q =>
            (if q.2.1 != 0 then anchorWords q.1.1 else []) ++
            (if q.2.2 != 0 then anchorWords q.1.2 else []))) ++ c)
      | .err e => .err e
      | .panic s => .panic s
  | .err e => .err e
  | .panic s => .panic s

def readEE (b : Bytes) : List (Nat × Nat) → Outcome (List EntryExit)
  | [] => .ok []
  | (eo, xo) :: rest =>
    let en : Outcome Anchor := if eo != 0 then readAnchor b eo else .ok (0, 0)
    match en with
    | .ok e =>
      let ex : Outcome Anchor := if xo != 0 then readAnchor b xo else .ok (0, 0)
      match ex with
      | .ok x =>
        match readEE b rest with
        | .ok r => .ok ((e, x) :: r)
        | o' => o'
      | .err e' => .err e'
      | .panic s => .panic s
    | .err e' => .err e'
    | .panic s => .panic s

/-- `readGpos3_1` -/
def read31 (b : Bytes) : Outcome (List (Nat × Nat) × List EntryExit) :=
  match bytesToWords b with
  | _ :: covOff :: cnt :: ws =>
    if ws.length < 2 * cnt then .err eIO
    else match readEE b (pairs (ws.take (2 * cnt))) with
      | .ok recs =>
        match Cov.read (b.drop covOff) with
        | .ok cov => .ok (Gpos.prune cov recs)
        | .err e => .err e
        | .panic s => .panic s
      | .err e => .err e
      | .panic s => .panic s
  | _ => .err eIO

/-! ### GPOS 2.2 -/

/-- a class definition table as `encode` sees it (result of `Append`, of `AppendLen`) -/
structure ClassPart where
  bytes : Outcome Bytes
  len : Nat

abbrev Row := List (Gpos.VR × Gpos.VR)

def fmt1 (rows : List Row) : Nat := Gpos.orFormat (rows.flatMap fun r => r.map (·.1))
def fmt2 (rows : List Row) : Nat := Gpos.orFormat (rows.flatMap fun r => r.map (·.2))

def class2Count (rows : List Row) : Nat :=
  match rows with
  | r :: _ => r.length
  | [] => 0

def encodeLen22 (cov : List Nat) (c1 c2 : ClassPart) (rows : List Row) : Outcome Nat :=
  match Cov.encodeLen cov with
  | .ok n => .ok (16 + rows.length * class2Count rows *
      (Gpos.vrLen (fmt1 rows) + Gpos.vrLen (fmt2 rows)) + n + c1.len + c2.len)
  | .err e => .err e
  | .panic s => .panic s

def encode22 (cov : List Nat) (c1 c2 : ClassPart) (rows : List Row) : Outcome Bytes :=
  let f1 := fmt1 rows
  let f2 := fmt2 rows
  let n1 := rows.length
  let n2 := class2Count rows
  let covOff := 16 + n1 * n2 * (Gpos.vrLen f1 + Gpos.vrLen f2)
  -- REPAIRED (C08 #18): the reader rejects class1Count * class2Count >= 65536
  if n1 * n2 ≥ 65536 then .panic "too many class pairs"
  else match Cov.encodeLen cov with
  | .ok n =>
    let cd1Off := covOff + n
    let cd2Off := cd1Off + c1.len
    if cd2Off > 0xFFFF then .panic "class definition offset overflow"
    else match Cov.encode cov, c1.bytes, c2.bytes with
      | .ok c, .ok b1, .ok b2 =>
        .ok (wordsToBytes ([2, w16 covOff, f1, f2, w16 cd1Off, w16 cd2Off, w16 n1, w16 n2] ++
          rows.flatMap (fun r => r.flatMap fun p => Gpos.vrWords p.1 f1 ++ Gpos.vrWords p.2 f2)) ++
          c ++ b1 ++ b2)
      | _, _, _ => .panic "panic in a part"
  | .err e => .err e
  | .panic s => .panic s

def readRecs22 (f1 f2 : Nat) : (n : Nat) → List Nat → Outcome (List (Gpos.VR × Gpos.VR))
  | 0, _ => .ok []
  | n + 1, ws =>
    match Gpos.vrRead f1 ws with
    | .ok (v1, r1) =>
      match Gpos.vrRead f2 r1 with
      | .ok (v2, r2) =>
        match readRecs22 f1 f2 n r2 with
        | .ok rs => .ok ((v1, v2) :: rs)
        | o => o
      | .err e => .err e
      | .panic s => .panic s
    | .err e => .err e
    | .panic s => .panic s

def chunk {α} (k : Nat) : (n : Nat) → List α → List (List α)
  | 0, _ => []
  | n + 1, l => l.take k :: chunk k n (l.drop k)

structure Read22 where
  cov : List Nat
  class1 : List (Nat × Nat)
  class2 : List (Nat × Nat)
  rows : List Row

/-- `readGpos2_2` -/
def read22 (b : Bytes) : Outcome Read22 :=
  match bytesToWords b with
  | _ :: covOff :: f1 :: f2 :: cd1Off :: cd2Off :: n1 :: n2 :: ws =>
    if n1 * n2 ≥ 65536 then .err eInvalid
    else match readRecs22 f1 f2 (n1 * n2) ws with
      | .ok recs =>
        match Cov.readSet (b.drop covOff) with
        | .ok cov =>
          match ClassDef.read (b.drop cd1Off) with
          | .ok k1 =>
            match ClassDef.read (b.drop cd2Off) with
            | .ok k2 => .ok ⟨cov, k1, k2, chunk n2 n1 recs⟩
            | .err e => .err e
            | .panic s => .panic s
          | .err e => .err e
          | .panic s => .panic s
        | .err e => .err e
        | .panic s => .panic s
      | .err e => .err e
      | .panic s => .panic s
  | _ => .err eIO

end SfntV.Otl.GposMark
