/-
C01 — font-level plumbing of `sfnt.Font`: types and small helpers.

`FontMeta` is the record of every scalar field of `sfnt.Font` (font.go:55-104) plus an abstract
summary of the outlines / cmap / layout tables.  Strings are `List Char` (`Str`) so that the
kernel can compute with them; the driver converts at the boundary.  Floats are dyadic rationals
`Dy` (every float64 is one) and are never normalised by the model: pass-through values keep the
representation they came in with, computed values have a fixed representation (`⟨n,16⟩` for the
italic angle, `⟨n,0⟩` for integers).  Core-only (linked into the driver).
-/
namespace SfntV.Font

abbrev Str := List Char

/-! ## dyadic rationals (the exact value of a float64) -/

/-- `num / 2^exp` -/
structure Dy where
  num : Int
  exp : Nat
deriving DecidableEq, Repr, Inhabited

def Dy.ofInt (n : Int) : Dy := ⟨n, 0⟩
def Dy.isZero (d : Dy) : Bool := d.num == 0
def Dy.isPos (d : Dy) : Bool := d.num > 0

/-- `math.Round` (half away from zero) of `n / d`, `d > 0` -/
def roundHalfAway (n : Int) (d : Nat) : Int :=
  if n ≥ 0 then ((2 * n.toNat + d) / (2 * d) : Nat) else - (((2 * (-n).toNat + d) / (2 * d) : Nat) : Int)

/-- `math.Round(float64(x))` -/
def Dy.round (x : Dy) : Int := roundHalfAway x.num (2 ^ x.exp)
/-- `math.Round(x * 65536)`; the multiplication by a power of two is exact in float64 -/
def Dy.round16 (x : Dy) : Int := roundHalfAway (x.num * 65536) (2 ^ x.exp)
/-- Go `int(x)`: truncation toward zero -/
def Dy.trunc (x : Dy) : Int := Int.tdiv x.num (2 ^ x.exp)

/-- two's-complement wrap to int16 -/
def wrap16 (n : Int) : Int := (n + 32768) % 65536 - 32768

/-- Go `funit.Int16(f)` for a float64 `f` as compiled on amd64 (CVTTSD2SL, then the low 16
bits; "integer indefinite" 0x80000000 out of int32 range, whose low half is 0).  In range
(`|f| < 32768`) this is plain truncation; the rest is implementation-specific and outside
`InDomain`. -/
def toInt16 (t : Int) : Int :=
  if -2147483648 ≤ t ∧ t < 2147483648 then wrap16 t else 0

/-- Go `int32(f)` for an integral float64 `f` on amd64 -/
def toInt32 (t : Int) : Int :=
  if -2147483648 ≤ t ∧ t < 2147483648 then t else -2147483648

/-- `math.Abs(a-b) >= 0.5` on exact values (font.go:447) -/
def Dy.farApart (a b : Dy) : Bool :=
  2 * (a.num * (2 ^ b.exp : Nat) - b.num * (2 ^ a.exp : Nat)).natAbs ≥ 2 ^ (a.exp + b.exp)

/-! ## strings -/

/-- `strings.Contains(s, p)` -/
def hasInfix (p : Str) : Str → Bool
  | [] => p.isEmpty
  | c :: cs => p.isPrefixOf (c :: cs) || hasInfix p cs

def joinWords : List Str → Str
  | [] => []
  | [w] => w
  | w :: ws => w ++ ' ' :: joinWords ws

def digitChar (n : Nat) : Char := Char.ofNat (48 + n % 10)

/-- decimal digits of `n`, least significant first, at least `fuel` … used with fuel ≥ number of digits -/
def decRev : Nat → Nat → Str
  | 0, _ => []
  | fuel + 1, n => if n < 10 then [digitChar n] else digitChar n :: decRev fuel (n / 10)

/-- `fmt.Sprintf("%d", n)` for `n ≥ 0` -/
def decStr (n : Nat) : Str := (decRev (n + 1) n).reverse

def isDigit (c : Char) : Bool := '0' ≤ c && c ≤ '9'

/-- value of a string of decimal digits -/
def decVal (s : Str) : Nat := s.foldl (fun a c => 10 * a + (c.toNat - 48)) 0

def s_Bold : Str := ['B','o','l','d']
def s_SemiBold : Str := ['S','e','m','i',' ','B','o','l','d']
def s_ExtraBold : Str := ['E','x','t','r','a',' ','B','o','l','d']
def s_Italic : Str := ['I','t','a','l','i','c']
def s_Oblique : Str := ['O','b','l','i','q','u','e']
def s_Regular : Str := ['R','e','g','u','l','a','r']
def s_Normal : Str := ['N','o','r','m','a','l']
def s_Thin : Str := ['T','h','i','n']
def s_ExtraLight : Str := ['E','x','t','r','a',' ','L','i','g','h','t']
def s_Light : Str := ['L','i','g','h','t']
def s_Medium : Str := ['M','e','d','i','u','m']
def s_Black : Str := ['B','l','a','c','k']
def s_VersionSp : Str := ['V','e','r','s','i','o','n',' ']

/-! ## os2.Weight / os2.Width (os2/weight.go) -/

/-- `Weight.String()` -/
def weightString (w : Nat) : Str :=
  if w = 100 then s_Thin else if w = 200 then s_ExtraLight else if w = 300 then s_Light
  else if w = 400 then s_Normal else if w = 500 then s_Medium else if w = 600 then s_SemiBold
  else if w = 700 then s_Bold else if w = 800 then s_ExtraBold else if w = 900 then s_Black
  else decStr w

/-- `Weight.Rounded()` (uint16 arithmetic cannot wrap: `w < 900` in the last branch) -/
def weightRounded (w : Nat) : Nat :=
  if w ≤ 100 then 100 else if w ≥ 900 then 900 else (w + 50) / 100 * 100

/-- `Weight.SimpleString()` -/
def weightSimple (w : Nat) : Str := weightString (weightRounded w)

/-- `strconv.Atoi` restricted to what `WeightFromString` uses: optional sign, decimal digits;
any error gives 0, values outside 0..1000 give 0 -/
def atoiWeight (s : Str) : Nat :=
  let (neg, ds) := match s with
    | '+' :: r => (false, r)
    | '-' :: r => (true, r)
    | r => (false, r)
  if ds.isEmpty || !ds.all isDigit then 0
  else
    let v := decVal ds
    if v > 1000 then 0 else if neg then 0 else v

/-- `os2.WeightFromString` -/
def weightFromString (s : Str) : Nat :=
  if s = s_Thin then 100 else if s = s_ExtraLight then 200 else if s = s_Light then 300
  else if s = s_Normal ∨ s = s_Regular then 400 else if s = s_Medium then 500
  else if s = s_SemiBold then 600 else if s = s_Bold then 700 else if s = s_ExtraBold then 800
  else if s = s_Black then 900 else atoiWeight s

/-- `Width.String()` -/
def widthString (w : Nat) : Str :=
  if w = 1 then "Ultra Condensed".toList else if w = 2 then "Extra Condensed".toList
  else if w = 3 then "Condensed".toList else if w = 4 then "Semi Condensed".toList
  else if w = 5 then s_Normal else if w = 6 then "Semi Expanded".toList
  else if w = 7 then "Expanded".toList else if w = 8 then "Extra Expanded".toList
  else if w = 9 then "Ultra Expanded".toList
  else "Width(".toList ++ decStr w ++ [')']

/-! ## head.Version (head/head.go:209-238) -/

/-- nearest integer to `n/d`, ties to even (what `%.03f` does with an exactly representable value) -/
def roundHalfEven (n d : Nat) : Nat :=
  let q := n / d
  let r := n % d
  if 2 * r < d then q else if 2 * r > d then q + 1 else if q % 2 = 0 then q else q + 1

/-- number of thousandths printed by `Version.String()`: `fmt.Sprintf("%.03f", float64(v)/65536)`;
`v/65536` is exact in float64 and strconv rounds the exact decimal expansion half-to-even -/
def verThousandths (v : Nat) : Nat := roundHalfEven (v * 1000) 65536

def pad3 (n : Nat) : Str := [digitChar (n / 100), digitChar (n / 10), digitChar n]

/-- `Version.String()` -/
def verString (v : Nat) : Str :=
  let k := verThousandths v
  decStr (k / 1000) ++ '.' :: pad3 (k % 1000)

/-- `Version(ver*65536 + 0.5)` for the decimal `n / 10^k`, evaluated exactly
(`floor (n·65536/10^k + 1/2)`) and reduced mod 2^32 as the amd64 float→uint32 conversion does.
The float evaluation agrees with the exact one whenever `k ≤ 6` and the value is below 65536
(distance of `n·65536/10^k + 1/2` from an integer is at least `1/(2·5^k)`). -/
def verOfDecimal (n k : Nat) : Nat := (2 * n * 65536 + 10 ^ k) / (2 * 10 ^ k) % 4294967296

/-- the regular expression `^(?:Version )?(\d+\.?\d+)` and the conversion in `VersionFromString` -/
def verParse (s : Str) : Option Nat :=
  let s := if s_VersionSp.isPrefixOf s then s.drop 8 else s
  let d1 := s.takeWhile isDigit
  let rest := s.dropWhile isDigit
  if d1.isEmpty then none else
  match rest with
  | '.' :: r =>
    let d2 := r.takeWhile isDigit
    if d2.isEmpty then (if d1.length ≥ 2 then some (verOfDecimal (decVal d1) 0) else none)
    else some (verOfDecimal (decVal (d1 ++ d2)) d2.length)
  | _ => if d1.length ≥ 2 then some (verOfDecimal (decVal d1) 0) else none

/-- `Version.Round()`: `math.Round(float64(v)/65536*1000)/1000`, then `math.Round(x*65536)`;
both products are exact in float64 and `k·65536/1000` is never within float error of a tie -/
def verRound (v : Nat) : Nat :=
  let k := (2 * (v * 1000) + 65536) / (2 * 65536)
  (2 * (k * 65536) + 1000) / (2 * 1000) % 4294967296

/-! ## time.Time as (Unix seconds, nanoseconds); head/time.go -/

structure Time where
  sec : Int
  nsec : Nat
deriving DecidableEq, Repr, Inhabited

/-- Unix time of `time.Time{}` (January 1, year 1 UTC) -/
def zeroSec : Int := -62135596800
def Time.zero : Time := ⟨zeroSec, 0⟩
def Time.isZero (t : Time) : Bool := t.sec == zeroSec && t.nsec == 0
/-- `zeroTime` in head/time.go: start of 1904 -/
def epoch1904 : Int := -2082844800

def encodeTime (t : Time) : Int := if t.isZero then 0 else t.sec - epoch1904
def decodeTime (e : Int) : Time := if e = 0 then Time.zero else ⟨epoch1904 + e, 0⟩

/-! ## the font value -/

inductive Kind where
  | glyf | cff
deriving DecidableEq, Repr, Inhabited

/-- `Font.FontMatrix`, opaque: `tok` is "U" for `[1/upem 0 0 1/upem 0 0]` and the six float64 bit
patterns otherwise; `upem` is `uint16(math.Round(1/m[0]))` (`none` when `m[0] == 0`), a float
computation the harness supplies (used by `Read` only when there is no head table) -/
structure FM where
  tok : Str
  upem : Option Nat
deriving DecidableEq, Repr, Inhabited

/-- Abstract summary of `Font.Outlines`, `Font.CMapTable` and the three layout tables.  The
payloads are opaque tokens (the harness uses a hash of the encoded data); their codecs are the
subject of C08/C09/C11/C13. -/
structure Outline where
  kind : Kind
  numGlyphs : Nat
  /-- advance widths; `none` only for `glyf.Outlines{Widths: nil}` -/
  widths : Option (List Dy)
  /-- `glyphHeight(gid)`: URy of each glyph's bounding box -/
  heights : List Int
  /-- opaque glyph data (outlines, names, private dicts, TrueType side tables) -/
  glyphs : Str
  /-- TrueType only: every glyph is blank, so the encoded glyf table has length 0 (accepted by
  `Read` since 3cdbec2; kept as part of the outline summary) -/
  emptyGlyf : Bool
  /-- opaque cmap table; "-" when `CMapTable == nil` -/
  cmap : Str
  /-- `CMapTable.GetBest()` found a subtable -/
  hasBest : Bool
  /-- `cmapBest.Lookup('H')`, `cmapBest.Lookup('x')` (0 when unmapped) -/
  gidH : Nat
  gidX : Nat
  /-- token of `standardLigatures(cmapBest)`, `none` when that returns nil -/
  stdLig : Option Str
deriving DecidableEq, Repr, Inhabited

structure FontMeta where
  familyName : Str
  width : Nat
  weight : Nat
  isRegular : Bool
  isBold : Bool
  isItalic : Bool
  isOblique : Bool
  isSerif : Bool
  isScript : Bool
  codePageRange : Nat
  version : Nat
  creationTime : Time
  modificationTime : Time
  description : Str
  sampleText : Str
  copyright : Str
  trademark : Str
  license : Str
  licenseURL : Str
  permUse : Int
  unitsPerEm : Nat
  fontMatrix : FM
  ascent : Int
  descent : Int
  lineGap : Int
  capHeight : Int
  xHeight : Int
  italicAngle : Dy
  underlinePosition : Dy
  underlineThickness : Dy
  outline : Outline
  gdef : Option Str
  gsub : Option Str
  gpos : Option Str
deriving DecidableEq, Repr, Inhabited

/-- `f.Widths()` (font.go:255-272, with the nil guard of the repaired code): one float per glyph -/
def Outline.widthList (o : Outline) : List Dy :=
  match o.widths with
  | some l => l
  | none => List.replicate o.numGlyphs (Dy.ofInt 0)

/-- `IsFixedPitch` loop (font.go:441-452): `width` is the first non-zero width seen -/
def fixedPitchLoop : Option Dy → List Dy → Bool
  | _, [] => true
  | cur, w :: ws =>
    if w.isZero then fixedPitchLoop cur ws
    else match cur with
      | none => fixedPitchLoop (some w) ws
      | some c => if c.farApart w then false else fixedPitchLoop cur ws

/-- `f.IsFixedPitch()` -/
def isFixedPitch (ws : List Dy) : Bool :=
  if ws.isEmpty then false else fixedPitchLoop none ws

end SfntV.Font
