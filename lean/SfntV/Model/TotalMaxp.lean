/-
Checked-index model of `maxp.Read` (maxp/maxp.go:54-103).
-/
import SfntV.Model.TotalBase

namespace SfntV.Total.Maxp
open SfntV SfntV.Total

structure Info where
  numGlyphs : Nat
  ttf : Option (List Nat)      -- the 13 uint16 fields of TTFInfo, in declaration order
deriving Repr, DecidableEq

/-- the 13 fields: `uint16(buf[2k])<<8 | uint16(buf[2k+1])`, k = 0..12 (maxp.go:82-94) -/
def fields (buf : Bytes) : Nat → Nat → Outcome (List Nat)
  | 0, _ => .ok []
  | n+1, k => do
    let v ← w16 "maxp.go:82-94#buf[2k],buf[2k+1]" buf (2 * k)
    let rest ← fields buf n (k + 1)
    pure (v :: rest)

def read (b : Bytes) : Outcome (Info × Cost) := do
  -- var buf [26]byte; io.ReadFull(r, buf[:6])
  let buf ← readFull b 0 6
  let c := Cost.zero.tick
  let version ← w32 "maxp.go:61#buf[0..3]" buf 0
  if version ≠ 0x00005000 ∧ version ≠ 0x00010000 then .err "invalid" else
  let numGlyphs ← w16 "maxp.go:66#buf[4],buf[5]" buf 4
  if numGlyphs = 0 then .err "invalid" else
  let c := c.mem 1                                   -- &Info{}
  if version = 0x00005000 then .ok (⟨numGlyphs, none⟩, c) else
  -- io.ReadFull(r, buf[:26]) continues after the first 6 bytes
  let buf ← readFull b 6 26
  let c := c.tick
  let fs ← fields buf 13 0
  .ok (⟨numGlyphs, some fs⟩, c.mem 1)                -- &TTFInfo{}

end SfntV.Total.Maxp
