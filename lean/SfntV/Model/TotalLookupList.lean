/-
C02 (decoders are total): checked-index model of `readLookupList`
(/repo/opentype/gtab/lookup.go:169-272), `isExtension` (lookup.go:274-283),
`readExtensionSubtable` (lookup.go:548-560) and the two dispatchers `readGsubSubtable`
(gsub.go:30-50) / `readGposSubtable` (gpos.go:34-54), statement by statement.

The parser is a plain byte view (C17): a read of `n` bytes at position `pos` is `readBytes … b pos n`,
seeks never fail, the position is explicit.  `p.ReadUint16Slice()` (parser.go:144-158) is inlined.

The `subtableReader` argument of `readLookupList` is a parameter `sr : Reader σ`: lookup type (the
value of `meta.LookupType` at the time of the call — the only field of `meta` the real readers
look at) and absolute position ↦ outcome.  What it returns is either an extension record
(`*extensionSubtable`, the only type `readLookupList` can tell apart by its type assertions) or
anything else (`SubV.other`, which includes a nil interface).  Instances: `hookReader` (the reader
plugged in by the verification hook `gtab.VerifReadLookupList`), `gsubReader` / `gposReader` (the
real dispatchers, with the individual subtable readers as one abstract parameter `sub`).

Costs: `steps` = parser reads + loop iterations, `alloc` = elements of `make`/`append`, objects.
`append(subtableOffsets, …)` is charged one element per appended offset (the backing array is reused
between lookups, so this is an upper bound of what Go allocates there).
Core-only.
-/
import SfntV.Model.TotalBase

namespace SfntV.Total.LookupList
open SfntV SfntV.Total

def addCost (c d : Cost) : Cost := ⟨c.steps + d.steps, c.alloc + d.alloc⟩

/-- a decoded subtable, as far as `readLookupList` can see it -/
inductive SubV (σ : Type) where
  /-- `*extensionSubtable{ExtensionLookupType, ExtensionOffset}` -/
  | ext (tp off : Nat)
  | other (v : σ)
deriving Repr, DecidableEq

/-- `subtableReader`: `sr meta.LookupType pos` -/
abbrev Reader (σ : Type) := Nat → Nat → Outcome (SubV σ × Cost)

/-- `LookupTable` (with `Meta` flattened) -/
structure Lookup (σ : Type) where
  type : Nat
  flags : Nat
  mfs : Nat
  subs : List (SubV σ)
deriving Repr, DecidableEq

/-- `xs[i] = v`: the store panics unless `i < len(xs)` -/
def store (site : String) (len i : Nat) : Outcome Unit :=
  if i < len then .ok () else .panic site

/-- `xs[:hi]` -/
def sliceTo (site : String) (xs : List α) (hi : Nat) : Outcome (List α) :=
  if hi ≤ xs.length then .ok (xs.take hi) else .panic site

/-- `p.ReadUint16()` at position `pos` -/
def rd16 (site : String) (b : Bytes) (pos : Nat) : Outcome Nat := do
  let w ← readBytes site b pos 2
  w16 site w 0

/-- `n` consecutive `p.ReadUint16()` starting at `pos` (parser.go:150-156 and lookup.go:211-217);
one step per read -/
def readU16s (site : String) (b : Bytes) : Nat → Nat → Outcome (List Nat × Cost)
  | 0, _ => .ok ([], Cost.zero)
  | n+1, pos => do
    let v ← rd16 site b pos
    let (r, c) ← readU16s site b n (pos + 2)
    .ok (v :: r, c.tick)

/-- lookup.go:548-560 `readExtensionSubtable`; the parser stands at `pos` -/
def readExtensionSubtable {σ : Type} (b : Bytes) (pos : Nat) : Outcome (SubV σ × Cost) := do
  let buf ← readBytes "lookup.go:549#ReadBytes(6)" b pos 6
  let tp ← w16 "lookup.go:553#buf[0],buf[1]" buf 0
  let off ← w32 "lookup.go:554#buf[2],buf[3],buf[4],buf[5]" buf 2
  .ok (.ext tp off, ⟨1, 1⟩)

/-- lookup.go:274-283 `isExtension`; the type assertion has the comma-ok form (no panic) -/
def isExtension {σ : Type} (ss : List (SubV σ)) : Outcome (Option Nat) :=
  if ss.length = 0 then .ok none else do
    let s ← idx "lookup.go:278#ss[0]" ss 0
    match s with
    | .ext tp _ => .ok (some tp)
    | .other _ => .ok none

/-- lookup.go:233-239: `for j, subtableOffset := range subtableOffsets { subtable, err := sr(p,
lookupTablePos+int64(subtableOffset), meta); …; subtables[j] = subtable }` (`n = len(subtables)`) -/
def readSubs {σ : Type} (sr : Reader σ) (tp lp n : Nat) :
    List Nat → Nat → Outcome (List (SubV σ) × Cost)
  | [], _ => .ok ([], Cost.zero)
  | o :: os, j => do
    let (v, d) ← sr tp (lp + o)
    store "lookup.go:238#subtables[j]" n j
    let (r, c) ← readSubs sr tp lp n os (j + 1)
    .ok (v :: r, addCost c.tick d)

/-- lookup.go:249-263: the second pass over an extension lookup.  `subtable.(*extensionSubtable)`
(lookup.go:250) has the comma-ok form; `so` = `subtableOffsets`, `n = len(subtables)` -/
def resolveExt {σ : Type} (sr : Reader σ) (tp lp : Nat) (so : List Nat) (n : Nat) :
    List (SubV σ) → Nat → Outcome (List (SubV σ) × Cost)
  | [], _ => .ok ([], Cost.zero)
  | s :: ss, j =>
    match s with
    | .other _ => .err "invalid"
    | .ext et eo =>
      if et ≠ tp then .err "invalid" else do
      let o ← idx "lookup.go:257#subtableOffsets[j]" so j
      let (v, d) ← sr tp (lp + o + eo)
      store "lookup.go:262#subtables[j]" n j
      let (r, c) ← resolveExt sr tp lp so n ss (j + 1)
      .ok (v :: r, addCost c.tick d)

/-- one iteration of the loop lookup.go:186-270 for the lookup at `lp = pos + offs`; `prev` is
`subtableOffsets` as left by the previous iteration.  Returns the lookup, `subTableCount`, the
new `subtableOffsets` and the cost. -/
def readLookup {σ : Type} (sr : Reader σ) (b : Bytes) (lp numL numS : Nat) (prev : List Nat) :
    Outcome ((Lookup σ × Nat × List Nat) × Cost) := do
  let buf ← readBytes "lookup.go:192#ReadBytes(6)" b lp 6
  let tp ← w16 "lookup.go:196#buf[0],buf[1]" buf 0
  let flags ← w16 "lookup.go:197#buf[2],buf[3]" buf 2
  let cnt ← w16 "lookup.go:198#buf[4],buf[5]" buf 4
  if (numL + 1) + (numS + cnt) > 6000 then .err "invalid" else
  let _ ← sliceTo "lookup.go:210#subtableOffsets[:0]" prev 0
  let (so, c1) ← readU16s "lookup.go:212#ReadUint16" b cnt (lp + 6)
  let (mfs, c2) ←
    (if flags / 16 % 2 = 1 then do                      -- lookupFlag&UseMarkFilteringSet != 0
      let v ← rd16 "lookup.go:220#ReadUint16" b (lp + 6 + 2 * cnt)
      pure (v, Cost.zero.tick)
    else pure (0, Cost.zero) : Outcome (Nat × Cost))
  -- the header read, the appended offsets, &LookupMetaInfo{}
  let c := (addCost (addCost Cost.zero.tick c1) c2).mem (cnt + 1)
  let c ← mkSlice "lookup.go:232#make([]Subtable, subTableCount)" cnt c
  let (subs, c3) ← readSubs sr tp lp cnt so 0
  let c := addCost c c3
  let ext ← isExtension subs
  match ext with
  | none => .ok ((⟨tp, flags, mfs, subs⟩, cnt, so), c.mem 1)       -- &LookupTable{}
  | some et =>
    if et = tp then .err "invalid" else do
    let (subs', c4) ← resolveExt sr et lp so cnt subs 0
    .ok ((⟨et, flags, mfs, subs'⟩, cnt, so), (addCost c c4).mem 1)

/-- lookup.go:186-270: `for i, offs := range lookupOffsets { … res[i] = &LookupTable{…} }`
(`n = len(res)`) -/
def readLookups {σ : Type} (sr : Reader σ) (b : Bytes) (pos n : Nat) :
    List Nat → (i numL numS : Nat) → List Nat → Outcome (List (Lookup σ) × Cost)
  | [], _, _, _, _ => .ok ([], Cost.zero)
  | o :: os, i, numL, numS, prev => do
    let ((l, cnt, so), d) ← readLookup sr b (pos + o) numL numS prev
    store "lookup.go:266#res[i]" n i
    let (r, c) ← readLookups sr b pos n os (i + 1) (numL + 1) (numS + cnt) so
    .ok (l :: r, addCost c d)

/-- lookup.go:169-272 `readLookupList(p, pos, sr)` -/
def readLookupList {σ : Type} (sr : Reader σ) (b : Bytes) (pos : Nat) :
    Outcome (List (Lookup σ) × Cost) := do
  let n ← rd16 "parser.go:145#ReadUint16" b pos
  let c ← mkSlice "parser.go:149#make([]uint16, n)" n Cost.zero.tick
  let (offs, c1) ← readU16s "parser.go:151#ReadUint16" b n (pos + 2)
  let c ← mkSlice "lookup.go:180#make(LookupList, len(lookupOffsets))" offs.length (addCost c c1)
  let (r, c2) ← readLookups sr b pos offs.length offs 0 0 0 []
  .ok (r, addCost c c2)

/-! ### the dispatchers -/

/-- keys of `gsubReaders` (gsub.go:52-66): `10*type + format` -/
def gsubKeys : List Nat := [11, 12, 21, 31, 41, 51, 52, 53, 61, 62, 63, 71, 81]

/-- keys of `gposReaders` (gpos.go:57-73) -/
def gposKeys : List Nat := [11, 12, 21, 22, 31, 41, 51, 61, 71, 72, 73, 81, 82, 83, 91]

/-- the individual subtable readers, abstract: `sub type format pos` for the reader stored under
the key `10*type + format`, called with the parser at `pos + 2` and `subtablePos = pos` -/
abbrev SubReaders (σ : Type) := Nat → Nat → Nat → Outcome (σ × Cost)

/-- `readGsubSubtable` / `readGposSubtable` (gsub.go:30-50 / gpos.go:34-54, as repaired in /repo
8867078): `keys` are the keys of the reader table, `extKey` the key under which
`readExtensionSubtable` is stored (71 / 91).  The key `10*meta.LookupType+format` is still
computed in `uint16` (it wraps), but the guard
`!ok || meta.LookupType > 9 || format > 9` refuses every value for which it could wrap or collide.
The map read has the comma-ok form: a miss is an `InvalidFontError`, never a call of a nil
function; every stored value is a function literal of the static table. -/
def dispatch {σ : Type} (siteRead : String) (keys : List Nat) (extKey : Nat) (sub : SubReaders σ)
    (b : Bytes) (tp pos : Nat) : Outcome (SubV σ × Cost) := do
  let format ← rd16 siteRead b pos
  let key := (10 * tp + format) % 65536
  if !keys.contains key || decide (tp > 9) || decide (format > 9) then .err "invalid"
  else if key = extKey then do
    let (v, d) ← readExtensionSubtable b (pos + 2)
    .ok (v, d.tick)
  else do
    let (v, d) ← sub (key / 10) (key % 10) pos
    .ok (.other v, d.tick)

def gsubReader {σ : Type} (sub : SubReaders σ) (b : Bytes) : Reader σ :=
  dispatch "gsub.go:36#ReadUint16" gsubKeys 71 sub b

def gposReader {σ : Type} (sub : SubReaders σ) (b : Bytes) : Reader σ :=
  dispatch "gpos.go:40#ReadUint16" gposKeys 91 sub b

/-- the dispatchers BEFORE the repair 8867078 (`if !ok { error }` only): the `uint16` key wraps, so
e.g. (type 0, format 71), (type 6560, format 7) and (type 7, format 1) all selected
`readExtensionSubtable`, (type 6554, format 7) the reader of GSUB 1.1.  Kept only to state the
finding C02-lookuplist-ext-ext (`ext_ext_survives`, `dispatch_key_wraps`). -/
def dispatchOld {σ : Type} (siteRead : String) (keys : List Nat) (extKey : Nat) (sub : SubReaders σ)
    (b : Bytes) (tp pos : Nat) : Outcome (SubV σ × Cost) := do
  let format ← rd16 siteRead b pos
  let key := (10 * tp + format) % 65536
  if keys.contains key then
    if key = extKey then do
      let (v, d) ← readExtensionSubtable b (pos + 2)
      .ok (v, d.tick)
    else do
      let (v, d) ← sub (key / 10) (key % 10) pos
      .ok (.other v, d.tick)
  else .err "invalid"

/-- pre-repair `readGsubSubtable` -/
def gsubReaderOld {σ : Type} (sub : SubReaders σ) (b : Bytes) : Reader σ :=
  dispatchOld "gsub.go:36#ReadUint16" gsubKeys 71 sub b

/-- the subtable reader of `gtab.VerifReadLookupList(data, pos, extType)` (verif_export.go): an
extension record for lookup type `extType` (format word 1, then `readExtensionSubtable`), otherwise
`leaf type pos` (the hook itself: `&VerifRef{pos, type}`, no read) -/
def hookReader {σ : Type} (leaf : Nat → Nat → Outcome (σ × Cost)) (b : Bytes) (extType : Nat) :
    Reader σ := fun tp pos =>
  if tp = extType then do
    let format ← rd16 "verif_export.go:49#ReadUint16" b pos
    if format ≠ 1 then .err "invalid" else do
    let (v, d) ← readExtensionSubtable b (pos + 2)
    .ok (v, d.tick)
  else do
    let (v, d) ← leaf tp pos
    .ok (.other v, d)

/-- the hook's leaf: `&VerifRef{Pos: pos, LookupType: meta.LookupType}` -/
def refLeaf : Nat → Nat → Outcome ((Nat × Nat) × Cost) := fun tp pos => .ok ((pos, tp), ⟨0, 1⟩)

end SfntV.Total.LookupList
