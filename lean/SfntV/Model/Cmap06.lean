/-
Models of cmap/format0.go (`decodeFormat0`, `Format0.Lookup`, `Format0.Encode`) and
cmap/format6.go (`decodeFormat6`, repaired: `firstCode+count > 0x10000` is refused), with the
OpenType specification of formats 0 and 6 (property C09, area `cmapx`).  Core-only.
-/
import SfntV.Model.Cmap12

namespace SfntV.Cmap06
open SfntV SfntV.Cmap12

/-! ## format 0 -/

/-- `decodeFormat0`: `data = data[6:]` panics below 6 bytes; exactly 256 bytes must remain.
The `code2rune` argument is never used by the Go code. -/
def decode0 (b : Bytes) : Outcome Bytes :=
  if b.length < 6 then .panic "slice bounds out of range" else
  let d := b.drop 6
  if d.length ≠ 256 then .err "length" else .ok d

/-- `Format0.Lookup(r)` for `r ≥ 0` -/
def lookup0 (d : Bytes) (r : Nat) : Nat :=
  if r > 255 then 0 else (d.getD r 0).toNat

/-- `Format0.Encode` -/
def encode0 (d : Bytes) (lang : Nat) : Bytes := [0, 0] ++ be16 262 ++ be16 lang ++ d

/-- OpenType cmap format 0: "uint8 glyphIdArray[256]: An array that maps character codes to glyph
index values" at offset 6; character codes above 255 are not covered (glyph 0). -/
def spec0 (b : Bytes) (c : Nat) : Nat :=
  if c < 256 then (b.getD (6 + c) 0).toNat else 0

/-- `decodeFormat0` with a non-nil `code2rune` (after repair 0c896bc): the same length checks, then a
unicode-indexed `Format4` map: `for c, gid := range data { if gid != 0 { res[uint16(code2rune(c))] = gid } }`
(the writes in loop order; later writes win). -/
def decode0c2r (c2r : Nat → Nat) (b : Bytes) : Outcome (List (Nat × Nat)) :=
  match decode0 b with
  | .ok d => .ok ((List.range 256).filterMap fun c =>
      let g := (d.getD c 0).toNat
      if g ≠ 0 then some (c2r c % 65536, g) else none)
  | .err e => .err e
  | .panic s => .panic s

/-- A subtable of a platform whose character codes are those of a single-byte encoding
(`c2r` = the character of each code 0..255): the glyph of a Unicode scalar `r` is the glyph of the code
`c < 256` whose character is `r` (the first such code; MacRoman has exactly one, see
`C09_macroman_injective`), glyph 0 if the encoding has no such character. -/
def specRune (c2r : Nat → Nat) (codeGlyph : Nat → Nat) (r : Nat) : Nat :=
  match (List.range 256).find? (fun c => c2r c == r) with
  | some c => codeGlyph c
  | none => 0

/-- format 0 read in rune space -/
def spec0Rune (c2r : Nat → Nat) (b : Bytes) (r : Nat) : Nat := specRune c2r (spec0 b) r

/-! ## format 6 -/

inductive Res6 where
  | ok : List (Nat × Nat) → Res6   -- the writes `res[key] = gid` in loop order (later wins)
  | err : Res6
deriving Repr, DecidableEq

/-- the loop `for i := 0; i < count; i++`; `arr` = `data[10:]` -/
def loop6 (c2r : Nat → Nat) (arr : Bytes) (firstCode : Nat) : Nat → Nat → List (Nat × Nat)
  | _, 0 => []
  | i, n+1 =>
    let gid := u16At arr (2*i)
    let rest := loop6 c2r arr firstCode (i+1) n
    if gid ≠ 0 then ((c2r (i + firstCode)) % 65536, gid) :: rest else rest

/-- `decodeFormat6(data, code2rune)` with `c2r` the code-to-rune function (identity if nil) -/
def decode6 (b : Bytes) (c2r : Nat → Nat := id) : Res6 :=
  if b.length < 10 then .err else
  let firstCode := u16At b 6
  let count := u16At b 8
  -- "some fonts have an excess 0x0000 at the end of the table"
  let b' := if b.length = 10 + 2*count + 2 ∧ u16At b (10 + 2*count) = 0 then b.take (10 + 2*count) else b
  if b'.length ≠ 10 + 2*count ∨ firstCode + count > 0x10000 then .err else
  .ok (loop6 c2r (b'.drop 10) firstCode 0 count)

/-- the unrepaired decoder (no bound on `firstCode+count`; keys wrap as `uint16`) -/
def decode6Orig (b : Bytes) (c2r : Nat → Nat := id) : Res6 :=
  if b.length < 10 then .err else
  let firstCode := u16At b 6
  let count := u16At b 8
  let b' := if b.length = 10 + 2*count + 2 ∧ u16At b (10 + 2*count) = 0 then b.take (10 + 2*count) else b
  if b'.length ≠ 10 + 2*count then .err else
  .ok (loop6 c2r (b'.drop 10) firstCode 0 count)

/-- value of a Go map after the writes `ws` in order (later writes win; absent = 0) -/
def lastWrite : List (Nat × Nat) → Nat → Nat
  | [], _ => 0
  | w :: rest, c =>
    let r := lastWrite rest c
    if r ≠ 0 then r else if w.1 = c then w.2 else 0

/-- `Format4.Lookup(r)` (format 6 decodes into the `Format4` map type), repaired: runes outside
0..0xFFFF give 0 (the original indexed the map with `uint16(r)`) -/
def lookup16 (ws : List (Nat × Nat)) (c : Nat) : Nat :=
  if c < 65536 then lastWrite ws c else 0

/-- OpenType cmap format 6: "uint16 firstCode: First character code of subrange; uint16 entryCount:
Number of character codes in subrange; uint16 glyphIdArray[entryCount]: Array of glyph index values
for character codes in the range" — codes outside [firstCode, firstCode+entryCount) map to glyph 0. -/
def spec6 (b : Bytes) (c : Nat) : Nat :=
  let firstCode := u16At b 6
  let count := u16At b 8
  if firstCode ≤ c ∧ c < firstCode + count then u16At b (10 + 2*(c - firstCode)) else 0

end SfntV.Cmap06
