/-
Model of cmap/cmap.go: `Table.Encode`, `Decode`, `Table.Get`, `Table.GetBest` (property C09,
area `cmapx`).  Panics are outcomes (checked indexing).  Core-only.
-/
import SfntV.Model.Cmap12
import SfntV.Model.Cmap06
import SfntV.Model.Cmap4
import SfntV.Generated.Cmapx

namespace SfntV.CmapTable
open SfntV SfntV.Cmap12 SfntV.Cmap06

structure Key where
  p : Nat
  e : Nat
  l : Nat
deriving Repr, DecidableEq

/-- a Go `map[Key][]byte` as the list of its entries (distinct keys) -/
abbrev Table := List (Key × Bytes)

/-- the `sort.Slice` order of Encode and GetNoLang -/
def keyLt (a b : Key) : Prop :=
  a.p < b.p ∨ (a.p = b.p ∧ (a.e < b.e ∨ (a.e = b.e ∧ a.l < b.l)))

instance (a b : Key) : Decidable (keyLt a b) := by unfold keyLt; exact inferInstance

/-! ## `Table.Encode` -/

structure Ext where
  key  : Key
  offs : Nat
  data : Bytes     -- `nil` (= []) once shared with an earlier entry
deriving Repr, DecidableEq

/-- the `offsLoop`: `prev` = entries `j < i` as (Data after the loop touched it, Offs), in order;
`bytes.Equal(e.Data, ext[j].Data)` for the first such `j`. -/
def assign : List (Bytes × Nat) → Nat → Table → List Ext
  | _, _, [] => []
  | prev, pos, (k, d) :: rest =>
    match prev.find? (fun q => q.1 == d) with
    | some q => ⟨k, q.2, []⟩ :: assign (prev ++ [([], q.2)]) pos rest
    | none => ⟨k, pos, d⟩ :: assign (prev ++ [(d, pos)]) ((pos + d.length) % 4294967296) rest

def recBytes (x : Ext) : Bytes := be16 x.key.p ++ be16 x.key.e ++ be32 x.offs

/-- `Table.Encode` on the entries sorted by `keyLt` (the state after `sort.Slice`). -/
def encode (t : Table) : Bytes :=
  let n := t.length
  let ext := assign [] ((4 + 8*n) % 4294967296) t
  [0, 0] ++ be16 n ++ ext.flatMap recBytes ++ ext.flatMap (·.data)

/-! ## `Decode` -/

def rd8 (b : Bytes) (o : Nat) : Outcome Nat :=
  match b[o]? with
  | some v => .ok v.toNat
  | none => .panic "index out of range"

def rd16 (b : Bytes) (o : Nat) : Outcome Nat :=
  match rd8 b o with
  | .ok x => (match rd8 b (o+1) with
    | .ok y => .ok (x * 256 + y)
    | .err e => .err e
    | .panic s => .panic s)
  | .err e => .err e
  | .panic s => .panic s

def rd32 (b : Bytes) (o : Nat) : Outcome Nat :=
  match rd16 b o with
  | .ok x => (match rd16 b (o+2) with
    | .ok y => .ok (x * 65536 + y)
    | .err e => .err e
    | .panic s => .panic s)
  | .err e => .err e
  | .panic s => .panic s

/-- uint32 subtraction -/
def sub32 (a b : Nat) : Nat := (a % 4294967296 + 4294967296 - b % 4294967296) % 4294967296

structure Seg where
  start : Nat
  stop  : Nat
deriving Repr, DecidableEq

/-- `sort.Search(len(segs), func(i) bool { return o <= segs[i].start })` on the sorted list -/
def searchIdx (o : Nat) : List Seg → Nat
  | [] => 0
  | s :: rest => if o ≤ s.start then 0 else searchIdx o rest + 1

def insertAt (segs : List Seg) (i : Nat) (s : Seg) : List Seg := segs.take i ++ s :: segs.drop i

/-- the "disjoint or identical" check; `none` = errMalformedTable -/
def overlap (segs : List Seg) (o length : Nat) : Option (List Seg) :=
  let i := searchIdx o segs
  if i = segs.length ∨ o ≠ (segs.getD i ⟨0, 0⟩).start then
    if (i > 0 ∧ o < (segs.getD (i-1) ⟨0, 0⟩).stop) ∨
       (i < segs.length ∧ (o + length) % 4294967296 > (segs.getD i ⟨0, 0⟩).start) then none
    else some (insertAt segs i ⟨o, (o + length) % 4294967296⟩)
  else some segs

inductive HdrKind where
  | len16 | len32 | len14 | bad
deriving Repr, DecidableEq

def hdrKind (format : Nat) : HdrKind :=
  if format = 0 ∨ format = 2 ∨ format = 4 ∨ format = 6 then .len16
  else if format = 8 ∨ format = 10 ∨ format = 12 ∨ format = 13 then .len32
  else if format = 14 then .len14
  else .bad

/-- `data[o : o+length]` -/
def slice (b : Bytes) (o length : Nat) : Outcome Bytes :=
  if o + length > b.length then .panic "slice bounds out of range" else .ok ((b.drop o).take length)

/-- `length` and `language` of the subtable at `o` (after the format was read) -/
def lenLang (b : Bytes) (eod o : Nat) (k : HdrKind) : Outcome (Nat × Nat × Nat) :=
  match k with
  | .len16 =>
    (match rd16 b (o+2) with
     | .ok len => (match rd16 b (o+4) with
        | .ok lang => .ok (len, lang, 10)
        | .err e => .err e
        | .panic s => .panic s)
     | .err e => .err e
     | .panic s => .panic s)
  | .len32 =>
    if o > sub32 eod 12 then .err "malformed" else
    (match rd32 b (o+4) with
     | .ok len => (match rd16 b (o+10) with
        | .ok lang => .ok (len, lang, 12)
        | .err e => .err e
        | .panic s => .panic s)
     | .err e => .err e
     | .panic s => .panic s)
  | .len14 =>
    (match rd32 b (o+2) with
     | .ok len => .ok (len, 0, 10)
     | .err e => .err e
     | .panic s => .panic s)
  | .bad => .err "malformed"

/-- body of the loop for record `i` -/
def record (b : Bytes) (eoh eod i : Nat) (segs : List Seg) : Outcome ((Key × Bytes) × List Seg) :=
  match rd16 b (4 + i*8) with
  | .err e => .err e
  | .panic s => .panic s
  | .ok p =>
  if p > 4 then .err "malformed" else
  match rd16 b (6 + i*8) with
  | .err e => .err e
  | .panic s => .panic s
  | .ok e =>
  match rd32 b (8 + i*8) with
  | .err e => .err e
  | .panic s => .panic s
  | .ok o =>
  if o < eoh ∨ o > sub32 eod 10 then .err "malformed" else
  match rd16 b o with
  | .err e => .err e
  | .panic s => .panic s
  | .ok format =>
  match lenLang b eod o (hdrKind format) with
  | .err e => .err e
  | .panic s => .panic s
  | .ok (length, language, checkLength) =>
  if length < checkLength ∨ length > sub32 eod o then .err "malformed" else
  let language := if p ≠ 1 then 0 else language
  match overlap segs o length with
  | none => .err "malformed"
  | some segs' =>
  match slice b o length with
  | .err e => .err e
  | .panic s => .panic s
  | .ok d => .ok ((⟨p, e, language⟩, d), segs')

/-- `for i := 0; i < numTables; i++`; second argument = `numTables - i` -/
def loop (b : Bytes) (eoh eod : Nat) : Nat → Nat → List Seg → Outcome Table
  | _, 0, _ => .ok []
  | i, k+1, segs =>
    match record b eoh eod i segs with
    | .err e => .err e
    | .panic s => .panic s
    | .ok (kd, segs') =>
      match loop b eoh eod (i+1) k segs' with
      | .ok r => .ok (kd :: r)
      | .err e => .err e
      | .panic s => .panic s

/-- `cmap.Decode`: the map writes `res[key] = …` in record order (later writes win) -/
def decode (b : Bytes) : Outcome Table :=
  if b.length < 4 ∨ b.length > 4294967295 then .err "malformed" else
  match rd16 b 0 with
  | .err e => .err e
  | .panic s => .panic s
  | .ok version =>
  if version ≠ 0 then .err "version" else
  match rd16 b 2 with
  | .err e => .err e
  | .panic s => .panic s
  | .ok n =>
  if b.length < 4 + 8*n then .err "malformed" else
  loop b ((4 + 8*n) % 4294967296) b.length 0 n []

/-- `ss[key]` on the list of writes: the last write wins -/
def tableGet : Table → Key → Option Bytes
  | [], _ => none
  | (k, d) :: rest, key =>
    match tableGet rest key with
    | some d' => some d'
    | none => if k = key then some d else none

/-! ## `Table.Get`, `Table.GetBest` -/

/-- a decoded subtable -/
inductive Sub where
  | f0 (data : Bytes)
  | f4 (writes : List (Nat × Nat))
  | f6 (writes : List (Nat × Nat))
  | f12 (groups : List Grp)
deriving Repr, DecidableEq

def Sub.lookup : Sub → Nat → Nat
  | .f0 d, c => lookup0 d c
  | .f4 w, c => if c < 65536 then Cmap4.alistGet w c else 0
  | .f6 w, c => lookup16 w c
  | .f12 gs, c => lookupKV (expand gs) c

/-- `macRoman` of Table.Get: `mac.DecodeOne(byte(code))` — codes are truncated to their low byte -/
def macRoman (code : Nat) : Nat := Gen.macRomanTable.getD (code % 256) 0

/-- `decodeFormat4(data, code2rune)` from its identity-mapping model `dec4id` (Model/Cmap4.lean records the
writes `cmap[uint16(idx)] = c` in loop order with `idx < 65536`): with a non-nil `code2rune` the same
checks run and every write goes to key `uint16(code2rune(idx))` instead. -/
def dec4Of (dec4id : Bytes → Option (List (Nat × Nat))) (d : Bytes) (mac : Bool) :
    Outcome (List (Nat × Nat)) :=
  match dec4id d with
  | none => .err "malformed-subtable"
  | some ws => .ok (if mac then ws.map (fun w => (macRoman w.1 % 65536, w.2)) else ws)

/-- `decoders[format](data, code2rune)`; `dec4` stands for `decodeFormat4` (modelled in
Model/Cmap4.lean); a format without an entry in `decoders` is a call of a nil function. -/
def decodeSub (dec4 : Bytes → Bool → Outcome (List (Nat × Nat))) (format : Nat) (d : Bytes) (mac : Bool) :
    Outcome Sub :=
  if format = 0 then
    (if mac then
      (match decode0c2r macRoman d with
       | .ok w => .ok (.f6 w)
       | .err e => .err e
       | .panic s => .panic s)
     else
      (match decode0 d with
       | .ok x => .ok (.f0 x)
       | .err e => .err e
       | .panic s => .panic s))
  else if format = 4 then
    (match dec4 d mac with
     | .ok x => .ok (.f4 x)
     | .err e => .err e
     | .panic s => .panic s)
  else if format = 6 then
    (match decode6 d (if mac then macRoman else id) with
     | .ok w => .ok (.f6 w)
     | .err => .err "malformed-subtable")
  else if format = 12 then
    (match Cmap12.decode d mac with
     | .ok gs => .ok (.f12 gs)
     | .error .code2rune => .err "code2rune"
     | .error .malformed => .err "malformed-subtable")
  else if format = 2 ∨ format = 8 ∨ format = 10 ∨ format = 13 ∨ format = 14 then .err "unsupported"
  else .panic "nil func"

/-- `Table.Get(key)` -/
def get (dec4 : Bytes → Bool → Outcome (List (Nat × Nat))) (t : Table) (key : Key) : Outcome Sub :=
  match tableGet t key with
  | none => .err "nosuch"
  | some d =>
    if key.p = 1 ∧ key.e ≠ 0 then .err "macenc" else
    match rd16 d 0 with
    | .err e => .err e
    | .panic s => .panic s
    | .ok format => decodeSub dec4 format d (key.p = 1)

/-- the loop of `GetBest` over a candidate list -/
def bestLoop (dec4 : Bytes → Bool → Outcome (List (Nat × Nat))) (t : Table) :
    List (Nat × Nat) → Outcome Sub
  | [] => .err "nosuitable"
  | c :: cs =>
    match get dec4 t ⟨c.1, c.2, 0⟩ with
    | .ok s => .ok s
    | .err _ => bestLoop dec4 t cs
    | .panic s => .panic s

/-- `Table.GetBest()` for a non-nil table, candidate list regenerated from cmap.go -/
def getBest (dec4 : Bytes → Bool → Outcome (List (Nat × Nat))) (t : Table) : Outcome Sub :=
  bestLoop dec4 t Gen.cmapxCandidates

/-! ## `Font.InstallCMap` (write.go) -/

/-- `rune(c)` for a `uint32` -/
def toRune (c : Nat) : Int := if c % 4294967296 < 2147483648 then (c % 4294967296 : Nat) else (c % 4294967296 : Nat) - 4294967296

/-- the `high` result of `Format12.CodeRange` (0 for the empty map; order of iteration immaterial) -/
def codeRangeHigh12 (m : KV) : Int :=
  match m with
  | [] => 0
  | k :: rest => rest.foldl (fun h x => if toRune x.1 > h then toRune x.1 else h) (toRune k.1)

/-- `Font.InstallCMap(s)`: `high` = upper end of `s.CodeRange()`, `sub` = `s.Encode(0)`; both keys
refer to the same bytes -/
def install (high : Int) (sub : Bytes) : Table :=
  if high > 0xFFFF then [(⟨0, 4, 0⟩, sub), (⟨3, 10, 0⟩, sub)]
  else [(⟨0, 3, 0⟩, sub), (⟨3, 1, 0⟩, sub)]

/-! ## specification of `CodeRange` and of `InstallCMap`'s choice of keys -/

/-- "CodeRange returns the smallest and largest code point in the subtable" (subtable.go): over the
code points (as runes) the subtable has entries for; (0, 0) for an empty subtable.  Written with
`min`/`max` over the list, independent of any iteration order. -/
def specCodeRange : List Int → Int × Int
  | [] => (0, 0)
  | k :: rest => (rest.foldl min k, rest.foldl max k)

/-- The keys a Unicode subtable must be filed under: a repertoire that reaches beyond the BMP needs
the full-Unicode encodings (platform 0 encoding 4, platform 3 encoding 10), a BMP-only repertoire the
BMP encodings (0,3) and (3,1). -/
def specInstallKeys (codes : List Int) : List Key :=
  if (specCodeRange codes).2 > 0xFFFF then [⟨0, 4, 0⟩, ⟨3, 10, 0⟩] else [⟨0, 3, 0⟩, ⟨3, 1, 0⟩]

end SfntV.CmapTable
