/-
Models of the contextual lookup subtables (/repo/opentype/gtab/nested.go, as repaired for C08: the
encoders of SeqContext1, SeqContext3, ChainedSeqContext1 (rule-set offsets and, second repair, rule
offsets inside a set) and ChainedSeqContext3 refuse offsets above 0xFFFF with a panic, as those of
SeqContext2 and ChainedSeqContext2 already did):
sequence context formats 1–3 (GSUB type 5 / GPOS type 7) and chained sequence context formats 1–3
(GSUB type 6 / GPOS type 8).  A nil rule set is `none` (written as offset 0).  Core-only.
-/
import SfntV.Model.OtlCoverage
import SfntV.Model.OtlClassDef

namespace SfntV.Otl.Ctx
open SfntV SfntV.Otl

abbrev Action := Nat × Nat      -- (SequenceIndex, LookupListIndex)

def actionWords (as : List Action) : List Nat := as.flatMap fun a => [a.1, a.2]

/-- a rule of a (chained) context, formats 1 and 2; `back`/`look` are empty for the unchained kinds -/
structure Rule where
  back : List Nat
  input : List Nat       -- without the first glyph / class
  look : List Nat
  actions : List Action
deriving DecidableEq, Repr

/-- SeqRule / ClassSeqRule -/
def ruleWords (r : Rule) : List Nat :=
  [w16 (r.input.length + 1), w16 r.actions.length] ++ r.input ++ actionWords r.actions
def ruleLen (r : Rule) : Nat := 4 + 2 * r.input.length + 4 * r.actions.length

/-- ChainedSeqRule / ChainedClassSeqRule -/
def cruleWords (r : Rule) : List Nat :=
  [w16 r.back.length] ++ r.back ++ [w16 (r.input.length + 1)] ++ r.input ++
  [w16 r.look.length] ++ r.look ++ [w16 r.actions.length] ++ actionWords r.actions
def cruleLen (r : Rule) : Nat :=
  8 + 2 * (r.back.length + r.input.length + r.look.length) + 4 * r.actions.length

/-- offsets of the rules inside a rule set (`pos`), optionally with ChainedSeqContext2's refusal -/
def ruleOffsets (rlen : Rule → Nat) (check : Bool) : List Rule → Nat → Outcome (List Nat)
  | [], _ => .ok []
  | r :: rs, pos =>
    if check && pos > 0xFFFF then .panic "ChainedSeqContext2 too large"
    else match ruleOffsets rlen check rs (pos + rlen r) with
      | .ok o => .ok (w16 pos :: o)
      | o => o

def setLen (rlen : Rule → Nat) (rules : List Rule) : Nat := 2 + 2 * rules.length + (rules.map rlen).sum

def setWords (rwords : Rule → List Nat) (rlen : Rule → Nat) (check : Bool) (rules : List Rule) :
    Outcome (List Nat) :=
  match ruleOffsets rlen check rules (2 + 2 * rules.length) with
  | .ok offs => .ok (w16 rules.length :: (offs ++ rules.flatMap rwords))
  | .err e => .err e
  | .panic s => .panic s

/-- offsets of the rule sets (0 for nil), optionally refusing a set that starts above 0xFFFF -/
def setOffsets (rlen : Rule → Nat) (check : Bool) : List (Option (List Rule)) → Nat → Outcome (List Nat × Nat)
  | [], total => .ok ([], total)
  | none :: ss, total =>
    match setOffsets rlen check ss total with
    | .ok (o, t) => .ok (0 :: o, t)
    | o => o
  | some rules :: ss, total =>
    if check && total > 0xFFFF then .panic "too large"
    else match setOffsets rlen check ss (total + setLen rlen rules) with
      | .ok (o, t) => .ok (w16 total :: o, t)
      | o => o

def allSets (rwords : Rule → List Nat) (rlen : Rule → Nat) (check : Bool) :
    List (Option (List Rule)) → Outcome (List Nat)
  | [] => .ok []
  | none :: ss => allSets rwords rlen check ss
  | some rules :: ss =>
    match setWords rwords rlen check rules with
    | .ok w =>
      match allSets rwords rlen check ss with
      | .ok r => .ok (w ++ r)
      | o => o
    | o => o

def optSetLen (rlen : Rule → Nat) (s : Option (List Rule)) : Nat :=
  match s with
  | some r => setLen rlen r
  | none => 0

def setsLen (rlen : Rule → Nat) (sets : List (Option (List Rule))) : Nat := (sets.map (optSetLen rlen)).sum

/-- a class definition table as an encoder sees it -/
structure ClassPart where
  bytes : Outcome Bytes
  len : Nat

/-! ### SeqContext1 -/

def encodeLen1 (rev : List Nat) (sets : List (Option (List Rule))) : Outcome Nat :=
  match Cov.encodeLen rev with
  | .ok n => .ok (6 + 2 * sets.length + setsLen ruleLen sets + n)
  | .err e => .err e
  | .panic s => .panic s

def encode1 (rev : List Nat) (sets : List (Option (List Rule))) : Outcome Bytes :=
  match setOffsets ruleLen false sets (6 + 2 * sets.length), Cov.encodeLen rev with
  | .ok (offs, covOff), .ok _ =>
    if covOff > 0xFFFF then .panic "SeqContext1 too large"
    else match allSets ruleWords ruleLen false sets, Cov.encode rev with
      | .ok w, .ok c => .ok (wordsToBytes ([1, w16 covOff, w16 sets.length] ++ offs ++ w) ++ c)
      | _, _ => .panic "panic"
  | _, _ => .panic "panic"

/-! ### SeqContext2 -/

def encodeLen2 (rev : List Nat) (cd : ClassPart) (sets : List (Option (List Rule))) : Outcome Nat :=
  match Cov.encodeLen rev with
  | .ok n => .ok (8 + 2 * sets.length + n + cd.len + setsLen ruleLen sets)
  | .err e => .err e
  | .panic s => .panic s

def encode2 (rev : List Nat) (cd : ClassPart) (sets : List (Option (List Rule))) : Outcome Bytes :=
  match setOffsets ruleLen false sets (8 + 2 * sets.length), Cov.encodeLen rev with
  | .ok (offs, covOff), .ok n =>
    let cdOff := covOff + n
    if cdOff > 0xFFFF then .panic "classDefOffset too large"
    else match allSets ruleWords ruleLen false sets, Cov.encode rev, cd.bytes with
      | .ok w, .ok c, .ok d =>
        .ok (wordsToBytes ([2, w16 covOff, w16 cdOff, w16 sets.length] ++ offs ++ w) ++ c ++ d)
      | _, _, _ => .panic "panic"
  | _, _ => .panic "panic"

/-! ### SeqContext3 -/

def covOffsets3 (msg : String) : List (List Nat) → Nat → Outcome (List Nat × Nat)
  | [], total => .ok ([], total)
  | c :: cs, total =>
    if total > 0xFFFF then .panic msg
    else match Cov.encodeLen c with
      | .ok n =>
        match covOffsets3 msg cs (total + n) with
        | .ok (r, t) => .ok (w16 total :: r, t)
        | o => o
      | .err e => .err e
      | .panic s => .panic s

def covsBytes : List (List Nat) → Outcome Bytes
  | [] => .ok []
  | c :: cs =>
    match Cov.encode c with
    | .ok b =>
      match covsBytes cs with
      | .ok r => .ok (b ++ r)
      | o => o
    | o => o

def covsLenStep (acc : Outcome Nat) (c : List Nat) : Outcome Nat :=
  match acc, Cov.encodeLen c with
  | .ok a, .ok n => .ok (a + n)
  | _, _ => .panic "invalid coverage table"

def covsLen (cs : List (List Nat)) : Outcome Nat := cs.foldl covsLenStep (.ok 0)

def encodeLen3 (covs : List (List Nat)) (actions : List Action) : Outcome Nat :=
  match covsLen covs with
  | .ok n => .ok (6 + 2 * covs.length + 4 * actions.length + n)
  | .err e => .err e
  | .panic s => .panic s

def encode3 (covs : List (List Nat)) (actions : List Action) : Outcome Bytes :=
  match covOffsets3 "SeqContext3 too large" covs (6 + 2 * covs.length + 4 * actions.length), covsBytes covs with
  | .ok (offs, _), .ok cb =>
    .ok (wordsToBytes ([3, w16 covs.length, w16 actions.length] ++ offs ++ actionWords actions) ++ cb)
  | _, _ => .panic "panic"

/-! ### ChainedSeqContext1 -/

def encodeLenC1 (rev : List Nat) (sets : List (Option (List Rule))) : Outcome Nat :=
  match Cov.encodeLen rev with
  | .ok n => .ok (6 + 2 * sets.length + n + setsLen cruleLen sets)
  | .err e => .err e
  | .panic s => .panic s

def encodeC1 (rev : List Nat) (sets : List (Option (List Rule))) : Outcome Bytes :=
  match Cov.encodeLen rev with
  | .ok n =>
    match setOffsets cruleLen true sets (6 + 2 * sets.length + n) with
    | .ok (offs, _) =>
      match allSets cruleWords cruleLen true sets, Cov.encode rev with
      | .ok w, .ok c =>
        .ok (wordsToBytes ([1, w16 (6 + 2 * sets.length), w16 sets.length] ++ offs) ++ c ++ wordsToBytes w)
      | _, _ => .panic "panic"
    | .err e => .err e
    | .panic s => .panic s
  | .err e => .err e
  | .panic s => .panic s

/-! ### ChainedSeqContext2 -/

def encodeLenC2 (rev : List Nat) (cb ci cl : ClassPart) (sets : List (Option (List Rule))) : Outcome Nat :=
  match Cov.encodeLen rev with
  | .ok n => .ok (12 + 2 * sets.length + n + cb.len + ci.len + cl.len + setsLen cruleLen sets)
  | .err e => .err e
  | .panic s => .panic s

def encodeC2 (rev : List Nat) (cb ci cl : ClassPart) (sets : List (Option (List Rule))) : Outcome Bytes :=
  match Cov.encodeLen rev with
  | .ok n =>
    let covOff := 12 + 2 * sets.length
    let bOff := covOff + n
    let iOff := bOff + cb.len
    let lOff := iOff + ci.len
    match setOffsets cruleLen true sets (lOff + cl.len) with
    | .ok (offs, _) =>
      match Cov.encode rev, cb.bytes, ci.bytes, cl.bytes, allSets cruleWords cruleLen true sets with
      | .ok c, .ok d1, .ok d2, .ok d3, .ok w =>
        .ok (wordsToBytes ([2, w16 covOff, w16 bOff, w16 iOff, w16 lOff, w16 sets.length] ++ offs) ++
          c ++ d1 ++ d2 ++ d3 ++ wordsToBytes w)
      | _, _, _, _, _ => .panic "panic"
    | .err e => .err e
    | .panic s => .panic s
  | .err e => .err e
  | .panic s => .panic s

/-! ### ChainedSeqContext3 -/

def encodeLenC3 (back input look : List (List Nat)) (actions : List Action) : Outcome Nat :=
  match covsLen back, covsLen input, covsLen look with
  | .ok a, .ok b, .ok c =>
    .ok (10 + 2 * back.length + 2 * input.length + 2 * look.length + 4 * actions.length + a + b + c)
  | _, _, _ => .panic "invalid coverage table"

def encodeC3 (back input look : List (List Nat)) (actions : List Action) : Outcome Bytes :=
  let msg := "ChainedSeqContext3 too large"
  match covOffsets3 msg back (10 + 2 * back.length + 2 * input.length + 2 * look.length + 4 * actions.length) with
  | .ok (bo, t1) =>
    match covOffsets3 msg input t1 with
    | .ok (io, t2) =>
      match covOffsets3 msg look t2 with
      | .ok (lo, _) =>
        match covsBytes back, covsBytes input, covsBytes look with
        | .ok b1, .ok b2, .ok b3 =>
          .ok (wordsToBytes ([3, w16 back.length] ++ bo ++ [w16 input.length] ++ io ++ [w16 look.length] ++ lo ++
            [w16 actions.length] ++ actionWords actions) ++ b1 ++ b2 ++ b3)
        | _, _, _ => .panic "panic"
      | .err e => .err e
      | .panic s => .panic s
    | .err e => .err e
    | .panic s => .panic s
  | .err e => .err e
  | .panic s => .panic s

/-! ### readers -/

def takeN (ws : List Nat) (n : Nat) : Outcome (List Nat × List Nat) :=
  if ws.length < n then .err eIO else .ok (ws.take n, ws.drop n)

def pairsOf : List Nat → List Action
  | a :: c :: r => (a, c) :: pairsOf r
  | _ => []

/-- a SeqRule / ClassSeqRule at byte offset `off` -/
def readRule (b : Bytes) (off : Nat) : Outcome Rule :=
  match bytesToWords (b.drop off) with
  | gc :: lc :: ws =>
    if gc == 0 then .err eInvalid
    else match takeN ws (gc - 1) with
      | .ok (input, r1) =>
        match takeN r1 (2 * lc) with
        | .ok (acts, _) => .ok ⟨[], input, [], pairsOf acts⟩
        | .err e => .err e
        | .panic s => .panic s
      | .err e => .err e
      | .panic s => .panic s
  | _ => .err eIO

/-- a counted array: count, then that many words -/
def counted (ws : List Nat) : Outcome (List Nat × List Nat) :=
  match ws with
  | n :: r => takeN r n
  | [] => .err eIO

/-- a ChainedSeqRule / ChainedClassSeqRule at byte offset `off`
(REPAIRED C02-zero-count: an input glyph count of 0 is refused; `inputGlyphCount-1` in `uint16` used to
ask for 65535 glyphs) -/
def readCRule (b : Bytes) (off : Nat) : Outcome Rule :=
  match counted (bytesToWords (b.drop off)) with
  | .ok (back, r1) =>
    match r1 with
    | ic :: r2 =>
      if ic == 0 then .err eInvalid
      else match takeN r2 (ic - 1) with
      | .ok (input, r3) =>
        match counted r3 with
        | .ok (look, r4) =>
          match r4 with
          | lc :: r5 =>
            match takeN r5 (2 * lc) with
            | .ok (acts, _) => .ok ⟨back, input, look, pairsOf acts⟩
            | .err e => .err e
            | .panic s => .panic s
          | [] => .err eIO
        | .err e => .err e
        | .panic s => .panic s
      | .err e => .err e
      | .panic s => .panic s
    | [] => .err eIO
  | .err e => .err e
  | .panic s => .panic s

def readRules (rd : Bytes → Nat → Outcome Rule) (b : Bytes) (base : Nat) : List Nat → Outcome (List Rule)
  | [] => .ok []
  | o :: os =>
    match rd b (base + o) with
    | .ok r =>
      match readRules rd b base os with
      | .ok rs => .ok (r :: rs)
      | o' => o'
    | .err e => .err e
    | .panic s => .panic s

/-- a rule set at byte offset `base` -/
def readSet (rd : Bytes → Nat → Outcome Rule) (b : Bytes) (base : Nat) : Outcome (List Rule) :=
  match counted (bytesToWords (b.drop base)) with
  | .ok (offs, _) => readRules rd b base offs
  | .err e => .err e
  | .panic s => .panic s

def readSets (rd : Bytes → Nat → Outcome Rule) (b : Bytes) : List Nat → Outcome (List (Option (List Rule)))
  | [] => .ok []
  | o :: os =>
    let here : Outcome (Option (List Rule)) :=
      if o == 0 then .ok none
      else match readSet rd b o with
        | .ok r => .ok (some r)
        | .err e => .err e
        | .panic s => .panic s
    match here with
    | .ok s =>
      match readSets rd b os with
      | .ok r => .ok (s :: r)
      | o' => o'
    | .err e => .err e
    | .panic s => .panic s

/-- GSUB-style pruning of coverage against the number of rule sets -/
def pruneC {α} (cov : List (Nat × Nat)) (xs : List α) : List (Nat × Nat) × List α :=
  if cov.length > xs.length then (cov.filter (fun p => p.2 < xs.length), xs)
  else (cov, xs.take cov.length)

inductive Sub where
  | c1 (chained : Bool) (cov : List (Nat × Nat)) (sets : List (Option (List Rule)))
  | c2 (chained : Bool) (cov : List (Nat × Nat)) (classes : List (List (Nat × Nat)))
      (sets : List (Option (List Rule)))
  | c3 (back input look : List (List Nat)) (actions : List Action) (chained : Bool)

/-- `readSeqContext1` -/
def read1 (b : Bytes) : Outcome Sub :=
  match bytesToWords b with
  | _ :: covOff :: ws =>
    match counted ws with
    | .ok (offs, _) =>
      match Cov.read (b.drop covOff) with
      | .ok cov =>
        let pr := pruneC cov offs
        match readSets readRule b pr.2 with
        | .ok sets => .ok (.c1 false pr.1 sets)
        | .err e => .err e
        | .panic s => .panic s
      | .err e => .err e
      | .panic s => .panic s
    | .err e => .err e
    | .panic s => .panic s
  | _ => .err eIO

/-- `classdef.Table.NumClasses` of a decoded table -/
def numClasses (es : List (Nat × Nat)) : Nat := (es.foldl (fun m p => max m p.2) 0) + 1

def covLenOf (cov : List (Nat × Nat)) : Nat :=
  match Cov.encodeLen (cov.map (·.1)) with
  | .ok n => n
  | _ => 0

/-- `readSeqContext2` -/
def read2 (b : Bytes) : Outcome Sub :=
  match bytesToWords b with
  | _ :: covOff :: cdOff :: ws =>
    match counted ws with
    | .ok (offs0, _) =>
      match Cov.read (b.drop covOff) with
      | .ok cov =>
        match ClassDef.read (b.drop cdOff) with
        | .ok cd =>
          let offs := offs0.take (numClasses cd)
          match readSets readRule b offs with
          | .ok sets =>
            if 8 + 2 * offs.length + setsLen ruleLen sets + covLenOf cov > 0xFFFF then .err eInvalid
            else .ok (.c2 false cov [cd] sets)
          | .err e => .err e
          | .panic s => .panic s
        | .err e => .err e
        | .panic s => .panic s
      | .err e => .err e
      | .panic s => .panic s
    | .err e => .err e
    | .panic s => .panic s
  | _ => .err eIO

def readCovSets (b : Bytes) : List Nat → Outcome (List (List Nat))
  | [] => .ok []
  | o :: os =>
    match Cov.readSet (b.drop o) with
    | .ok c =>
      match readCovSets b os with
      | .ok r => .ok (c :: r)
      | o' => o'
    | .err e => .err e
    | .panic s => .panic s

/-- `readSeqContext3` -/
def read3 (b : Bytes) : Outcome Sub :=
  match bytesToWords b with
  | _ :: gc :: lc :: ws =>
    if gc < 1 then .err eInvalid
    else match takeN ws gc with
      | .ok (offs, r1) =>
        match takeN r1 (2 * lc) with
        | .ok (acts, _) =>
          match readCovSets b offs with
          | .ok covs => .ok (.c3 [] covs [] (pairsOf acts) false)
          | .err e => .err e
          | .panic s => .panic s
        | .err e => .err e
        | .panic s => .panic s
      | .err e => .err e
      | .panic s => .panic s
  | _ => .err eIO

/-- the rule sets of `readChainedSeqContext1`, with its running size checks -/
def readSetsC1 (b : Bytes) : List Nat → Nat → Outcome (List (Option (List Rule)))
  | [], _ => .ok []
  | o :: os, total =>
    if o == 0 then
      match readSetsC1 b os total with
      | .ok r => .ok (none :: r)
      | o' => o'
    else
      match counted (bytesToWords (b.drop o)) with
      | .ok (offs, _) =>
        if total > 0xFFFF then .err eInvalid
        else
          -- rules one by one: the size of the set so far is checked after each rule is read
          let rec go (ros : List Nat) (size : Nat) : Outcome (List Rule × Nat) :=
            match ros with
            | [] => .ok ([], size)
            | ro :: rest =>
              match readCRule b (o + ro) with
              | .ok r =>
                if size > 0xFFFF then .err eInvalid
                else match go rest (size + cruleLen r) with
                  | .ok (rs, sz) => .ok (r :: rs, sz)
                  | .err e => .err e
                  | .panic s => .panic s
              | .err e => .err e
              | .panic s => .panic s
          match go offs (2 + 2 * offs.length) with
          | .ok (rules, size) =>
            match readSetsC1 b os (total + size) with
            | .ok r => .ok (some rules :: r)
            | o' => o'
          | .err e => .err e
          | .panic s => .panic s
      | .err e => .err e
      | .panic s => .panic s

/-- `readChainedSeqContext1` -/
def readC1 (b : Bytes) : Outcome Sub :=
  match bytesToWords b with
  | _ :: covOff :: ws =>
    match counted ws with
    | .ok (offs, _) =>
      match Cov.read (b.drop covOff) with
      | .ok cov =>
        let pr := pruneC cov offs
        match readSetsC1 b pr.2 (6 + 2 * pr.2.length + covLenOf pr.1) with
        | .ok sets => .ok (.c1 true pr.1 sets)
        | .err e => .err e
        | .panic s => .panic s
      | .err e => .err e
      | .panic s => .panic s
    | .err e => .err e
    | .panic s => .panic s
  | _ => .err eIO

/-- the size check at the end of `readChainedSeqContext2` -/
def checkC2 : List (Option (List Rule)) → Nat → Bool
  | [], _ => true
  | none :: ss, total => checkC2 ss total
  | some rules :: ss, total =>
    if total > 0xFFFF then false
    else
      let rec pos (rs : List Rule) (p : Nat) : Option Nat :=
        match rs with
        | [] => some p
        | r :: rest => if p > 0xFFFF then none else pos rest (p + cruleLen r)
      match pos rules (2 + 2 * rules.length) with
      | some p => checkC2 ss (total + p)
      | none => false

def appendLenOf (es : List (Nat × Nat)) : Nat :=
  -- `AppendLen` of a decoded table: entries are distinct glyphs with non-zero classes
  let m : ClassDef.Tab := es
  ClassDef.appendLen m

/-- `readChainedSeqContext2` -/
def readC2 (b : Bytes) : Outcome Sub :=
  match bytesToWords b with
  | _ :: covOff :: bOff :: iOff :: lOff :: ws =>
    match counted ws with
    | .ok (offs0, _) =>
      match Cov.read (b.drop covOff) with
      | .ok cov =>
        match ClassDef.read (b.drop bOff) with
        | .ok cb =>
          match ClassDef.read (b.drop iOff) with
          | .ok ci =>
            match ClassDef.read (b.drop lOff) with
            | .ok cl =>
              let offs := offs0.take (numClasses ci)
              match readSets readCRule b offs with
              | .ok sets =>
                if checkC2 sets (12 + 2 * sets.length + covLenOf cov + appendLenOf cb + appendLenOf ci +
                    appendLenOf cl) then .ok (.c2 true cov [cb, ci, cl] sets)
                else .err eInvalid
              | .err e => .err e
              | .panic s => .panic s
            | .err e => .err e
            | .panic s => .panic s
          | .err e => .err e
          | .panic s => .panic s
        | .err e => .err e
        | .panic s => .panic s
      | .err e => .err e
      | .panic s => .panic s
    | .err e => .err e
    | .panic s => .panic s
  | _ => .err eIO

/-- `readChainedSeqContext3` -/
def readC3 (b : Bytes) : Outcome Sub :=
  match bytesToWords b with
  | _ :: ws =>
    match counted ws with
    | .ok (bo, r1) =>
      match counted r1 with
      | .ok (io, r2) =>
        match counted r2 with
        | .ok (lo, r3) =>
          if io.length < 1 then .err eInvalid
          else match r3 with
            | lc :: r4 =>
              match takeN r4 (2 * lc) with
              | .ok (acts, _) =>
                match readCovSets b bo with
                | .ok cb =>
                  match readCovSets b io with
                  | .ok ci =>
                    match readCovSets b lo with
                    | .ok cl => .ok (.c3 cb ci cl (pairsOf acts) true)
                    | .err e => .err e
                    | .panic s => .panic s
                  | .err e => .err e
                  | .panic s => .panic s
                | .err e => .err e
                | .panic s => .panic s
              | .err e => .err e
              | .panic s => .panic s
            | [] => .err eIO
        | .err e => .err e
        | .panic s => .panic s
      | .err e => .err e
      | .panic s => .panic s
    | .err e => .err e
    | .panic s => .panic s
  | [] => .err eIO

/-- `readGsubSubtable` for lookup types 5 and 6 -/
def readSubtable (tp : Nat) (b : Bytes) : Outcome Sub :=
  match bytesToWords b with
  | [] => .err eIO
  | fmt :: _ =>
    if tp == 5 && fmt == 1 then read1 b
    else if tp == 5 && fmt == 2 then read2 b
    else if tp == 5 && fmt == 3 then read3 b
    else if tp == 6 && fmt == 1 then readC1 b
    else if tp == 6 && fmt == 2 then readC2 b
    else if tp == 6 && fmt == 3 then readC3 b
    else .err eInvalid

end SfntV.Otl.Ctx
