/-
Model of `(*Font).Write` (cff/write.go): assembly of the sections and the offset fixed-point
loop; `makeTopDict` (cff/dict.go) and `makePrivateDict` (cff/font.go) for fonts whose
ItalicAngle is 0 and whose font matrices are the defaults (those entries are then omitted;
the float-valued entries are not modelled).  Charstrings and the chosen default/nominal
widths are inputs (property C04 / `selectWidths`).  Property C13.  Core-only.
-/
import SfntV.Model.CffIndex
import SfntV.Model.CffDict
import SfntV.Model.CffCharset
import SfntV.Model.CffFdselect
import SfntV.Model.CffEncoding
import SfntV.Model.CffStrings
import SfntV.Model.CffRead

namespace SfntV.Cff
open SfntV

/-- encoding choice made by `Write` before calling `encodeEncoding` -/
inductive EncChoice where
  | standard            -- len(Encoding)==0 or isStandardEncoding: nothing written
  | expert              -- Encoding = 1
  | custom (enc : List Nat)
deriving Repr

/-- the choice `Write` makes: nothing is written for the Standard encoding (`len(f.Encoding) == 0 ||
isStandardEncoding(...)`), `Encoding = 1` for the Expert encoding, otherwise the vector is encoded -/
def encChoiceOf (T : Tables) (enc : Option (List Nat)) (names : List String) : EncChoice :=
  match enc with
  | none => .standard
  | some e =>
    if e.length = 0 ∨ e = encodingByName T.standardEncRev names then .standard
    else if e = encodingByName T.expertEnc names then .expert
    else .custom e

structure PrivIn where
  blueValues : List Int
  otherBlues : List Int
  blueShift : Int
  blueFuzz : Int
  forceBold : Bool
  blueScale : Rl := (false, 39625, -6)
  stdHW : Rl := Rl.zero
  stdVW : Rl := Rl.zero
deriving Repr

/-- a `float64` DICT operand given by its decimal value (at most nine significant digits):
the nine-digit mantissa and decimal-point position `encodeFloat` derives from it -/
def realOperand (d : Rl) : Operand :=
  if d.2.1 = 0 then .real false 0 0
  else
    let dd := numDigits d.2.1
    .real d.1 (d.2.1 * 10 ^ (9 - dd)) ((dd : Int) + d.2.2)

/-- `math.Abs(x - y) > 10^k` on exact decimals (`k ≤ 0`) -/
def farApart (x y : Rl) (k : Int) : Bool :=
  let s0 := Rl.minExp x y
  let s := if s0 ≤ k then s0 else k
  let diff := (x.scaled s - y.scaled s).natAbs
  decide (diff > 10 ^ (k - s).toNat)

/-- a DICT entry that is present only under a condition -/
def optEntry (c : Bool) (op : Nat) (args : List Operand) : List (Nat × List Operand) :=
  if c then [(op, args)] else []

/-- `setFontMatrix`: the six reals, if some entry differs from the default by more than 1e-5 -/
def fontMatrixNeeded (fm : List Rl) (isCID : Bool) : Bool :=
  (fm.zip (if isCID then identityFM else defaultFM)).any (fun p => farApart p.1 p.2 (-5))

def fontMatrixEntry (fm : List Rl) (isCID : Bool) : List (Nat × List Operand) :=
  optEntry (fontMatrixNeeded fm isCID) 3079 (fm.map realOperand)

structure FontIn where
  fontName : Bytes
  strs : List String          -- Version, Notice, Copyright, FullName, FamilyName, Weight
  isFixedPitch : Bool
  ulPos : Operand             -- what `dictNumber` delivers: int, or real (9-digit form)
  ulThick : Operand
  ulPosDefault : Bool         -- UnderlinePosition == -100 (entry omitted)
  ulThickDefault : Bool
  ros : Option (String × String × Int)
  names : List String         -- simple fonts: glyph names
  cids : List Int             -- CID-keyed fonts: GIDToCID
  enc : EncChoice
  fds : List Int              -- FDSelect values
  privs : List PrivIn
  charStrings : List Bytes
  defWidth : Int              -- int32(defaultWidth), 0 = omitted
  nomWidth : Int
  italicAngle : Rl := Rl.zero
  fontMatrix : Option (List Rl) := none      -- none: the default for the kind of font
  fdMatrices : List (List Rl) := []          -- CID-keyed fonts; missing entries: the default
deriving Repr

/-- `setDeltaF16` (repaired, e13ef76): `int32(x) - prev` with `prev` the previous value as int32 — the
plain difference of two int16 values, as TN5176 "delta" says -/
def deltas : Int → List Int → List Operand
  | _, [] => []
  | prev, x :: xs => .int (x - prev) :: deltas x xs

/-- `setDeltaF16` before the repair: `int32(x - prev)` with the subtraction in `funit.Int16`
arithmetic (the delta wrapped into int16) -/
def deltasOld : Int → List Int → List Operand
  | _, [] => []
  | prev, x :: xs => .int (toI16 ((x - prev) % 65536).toNat) :: deltasOld x xs

/-- `makePrivateDict` without opSubrs -/
def makePrivateDict (p : PrivIn) (dw nw : Int) : List (Nat × List Operand) :=
  optEntry (!p.blueValues.isEmpty) 6 (deltas 0 p.blueValues) ++
  optEntry (!p.otherBlues.isEmpty) 7 (deltas 0 p.otherBlues) ++
  optEntry (decide (p.blueShift ≠ 7)) 3082 [.int p.blueShift] ++
  optEntry (decide (p.blueFuzz ≠ 1)) 3083 [.int p.blueFuzz] ++
  optEntry p.forceBold 3086 [.int 1] ++
  optEntry (farApart p.blueScale (false, 39625, -6) (-6)) 3081 [realOperand p.blueScale] ++
  optEntry (decide (p.stdHW.2.1 ≠ 0)) 10 [realOperand p.stdHW] ++
  optEntry (decide (p.stdVW.2.1 ≠ 0)) 11 [realOperand p.stdVW] ++
  optEntry (decide (dw ≠ 0)) 20 [.int dw] ++
  optEntry (decide (nw ≠ 0)) 21 [.int nw]

/-- string operands become SIDs at encode time (`ss.lookup`); the custom strings grow -/
def resolveArgs (std : List String) : List String → List Operand → List Operand × List String
  | custom, [] => ([], custom)
  | custom, .str s :: rest =>
    let (sid, custom') := stringsLookup std custom s
    let (r, c) := resolveArgs std custom' rest
    (.int sid :: r, c)
  | custom, o :: rest =>
    let (r, c) := resolveArgs std custom rest
    (o :: r, c)

/-- `cffDict.encode(ss)`: operators in `sortedKeys` order, strings looked up on the way -/
def encodeDictS (std : List String) (custom : List String) (d : List (Nat × List Operand)) : Bytes × List String :=
  (sortDict d).foldl (fun (acc : Bytes × List String) e =>
    let (args, c) := resolveArgs std acc.2 e.2
    (acc.1 ++ args.flatMap encodeOperand ++ encodeOp e.1, c)) ([], custom)

def offsSize (i : Int) : Nat :=
  if i < 256 then 1 else if i < 65536 then 2 else if i < 16777216 then 3 else 4

def cumsum (blobs : List Bytes) : List Int :=
  let rec go : List Bytes → Int → List Int
    | [], acc => [acc]
    | b :: bs, acc => acc :: go bs (acc + b.length)
  go blobs 0

def outOk (o : Outcome Bytes) : Bytes := match o with | .ok b => b | _ => []

/-- everything that does not depend on the offsets -/
structure Fixed where
  nameIndex : Bytes
  encoding : Option Bytes     -- section 5, only for a custom encoding
  charsets : Bytes
  fdSelect : Option Bytes
  charStrings : Bytes
  custom0 : List String       -- strings allocated before the loop
  topBase : List (Nat × List Operand)
  privBase : List (List (Nat × List Operand))
  fdBase : List (List (Nat × List Operand))   -- Font DICT entries other than Private
  expert : Bool := false                      -- `topDict[opEncoding] = 1` (Expert encoding)
deriving Repr

/-- section numbers -/
structure Secs where
  enc : Option Nat
  charsets : Nat
  fdSelect : Option Nat
  charStrings : Nat
  fontDictIndex : Nat
  priv0 : Nat                 -- first private DICT; they are consecutive
  subrs : Nat
  num : Nat
deriving Repr

/-- Section numbers.  The Go code leaves out the encoding section (no custom encoding) and the
FDSelect section (simple font); here they are kept as empty sections, which changes neither
the bytes nor any offset. -/
def mkSecs (f : FontIn) : Secs :=
  let np := f.privs.length
  { enc := some 5, charsets := 6, fdSelect := some 7, charStrings := 8, fontDictIndex := 9, priv0 := 10,
    subrs := 10 + np, num := 11 + np }

/-- does `cffIndex.encode` return (rather than panic)? -/
def idxOk (blobs : List Bytes) : Bool :=
  match indexEncode blobs with
  | .ok _ => true
  | _ => false

/-- the part of `Write` before the loop; errors of `encodeEncoding`/`encodeCharset` are returned -/
def prepare (std : List String) (f : FontIn) : Outcome (Fixed × Secs) :=
  let numGlyphs := f.charStrings.length
  -- makeTopDict
  let strOp (op : Nat) (i : Nat) : List (Nat × List Operand) :=
    optEntry (decide (f.strs.getD i "" ≠ "")) op [.str (f.strs.getD i "")]
  let top0 := strOp 0 0 ++ strOp 1 1 ++ strOp 3072 2 ++ strOp 2 3 ++ strOp 3 4 ++ strOp 4 5 ++
    optEntry f.isFixedPitch 3073 [.int 1] ++
    optEntry (decide (f.italicAngle.2.1 ≠ 0)) 3074 [realOperand f.italicAngle] ++
    optEntry (!f.ulPosDefault) 3075 [f.ulPos] ++
    optEntry (!f.ulThickDefault) 3076 [f.ulThick]
  -- ROS strings are looked up first
  let (top1, custom1) : List (Nat × List Operand) × List String := match f.ros with
    | some (r, o, sup) =>
      let (sr, c1) := stringsLookup std [] r
      let (so, c2) := stringsLookup std c1 o
      (top0 ++ [(3102, [.int sr, .int so, .int sup]), (3106, [.int (numGlyphs % 65536)])]
        ++ fontMatrixEntry (f.fontMatrix.getD identityFM) true, c2)
    | none => (top0 ++ fontMatrixEntry (f.fontMatrix.getD defaultFM) false, [])
  -- glyph names
  let (glyphNames, custom2) : List Int × List String := match f.ros with
    | some _ => ([], custom1)
    | none =>
      let (sids, c) := stringsLookupAll std custom1 f.names
      (sids.map fun (n : Nat) => (n : Int), c)
  -- encoding
  let encRes : Outcome (Option Bytes × Bool) :=
    if f.ros.isSome then .ok (none, false)
    else match f.enc with
      | .standard => .ok (none, false)
      | .expert => .ok (none, true)
      | .custom e =>
        match encodeEncoding e glyphNames with
        | .ok b => .ok (some b, false)
        | .err x => .err x
        | .panic s => .panic s
  match encRes with
  | .err x => .err x
  | .panic s => .panic s
  | .ok (encB, expert) =>
    match encodeCharset (if f.ros.isSome then f.cids else glyphNames) with
    | .err x => .err x
    | .panic s => .panic s
    | .ok cs =>
      if !(idxOk [f.fontName] && idxOk f.charStrings) then .panic "cff: too much data for INDEX"
      else
      .ok ({ nameIndex := outOk (indexEncode [f.fontName]), encoding := encB, charsets := cs,
             fdSelect := if f.ros.isSome then some (fdEncode f.fds) else none,
             charStrings := outOk (indexEncode f.charStrings), custom0 := custom2, topBase := top1, expert := expert,
             privBase := f.privs.map fun p => makePrivateDict p f.defWidth f.nomWidth,
             fdBase := (List.range f.privs.length).map fun i =>
               fontMatrixEntry (f.fdMatrices.getD i defaultFM) false },
           mkSecs f)

/-- one pass of the loop body: all blobs as a function of the current offsets -/
def mkBlobs (std : List String) (isCID : Bool) (fx : Fixed) (sc : Secs) (offs : List Int) : List Bytes :=
  let off (i : Nat) : Int := offs.getD i 0
  let header : Bytes := [1, 0, 4, UInt8.ofNat (offsSize (off sc.num))]
  -- private DICTs (they contain no strings)
  let privBlobs : List Bytes := (List.range fx.privBase.length).map fun i =>
    (encodeDictS std [] ((fx.privBase.getD i []) ++ [(19, [.int (off sc.subrs - off (sc.priv0 + i))])])).1
  let pdDesc (i : Nat) : List Operand := [.int ((privBlobs.getD i []).length), .int (off (sc.priv0 + i))]
  let fontDictIndex : Bytes :=
    if isCID then outOk (indexEncode ((List.range fx.privBase.length).map fun i =>
      (encodeDictS std [] ((fx.fdBase.getD i []) ++ [(18, pdDesc i)])).1))
    else []
  let top := fx.topBase ++
    (if isCID then [] else
      -- the loop leaves the descriptor of the last private DICT in the top DICT
      (if fx.privBase.length > 0 then [(18, pdDesc (fx.privBase.length - 1))] else [])) ++
    [(15, [.int (off sc.charsets)])] ++
    (match fx.encoding with
     | some _ => [(16, [.int (off 5)])]
     | none => if fx.expert then [(16, [.int 1])] else []) ++
    [(17, [.int (off sc.charStrings)])] ++
    (match fx.fdSelect with
     | some _ => [(3109, [.int (off 7)]), (3108, [.int (off sc.fontDictIndex)])]
     | none => [])
  let (topData, custom) := encodeDictS std fx.custom0 top
  let stringIndex := outOk (indexEncode (custom.map strToBlob))
  [header, fx.nameIndex, outOk (indexEncode [topData]), stringIndex, [0, 0],
    fx.encoding.getD [], fx.charsets, fx.fdSelect.getD [], fx.charStrings, fontDictIndex] ++ privBlobs ++ [[0, 0]]

/-- do the three INDEX encoders called inside the loop body return (rather than panic)? -/
def mkBlobsFits (std : List String) (isCID : Bool) (fx : Fixed) (sc : Secs) (offs : List Int) : Bool :=
  let off (i : Nat) : Int := offs.getD i 0
  let privBlobs : List Bytes := (List.range fx.privBase.length).map fun i =>
    (encodeDictS std [] ((fx.privBase.getD i []) ++ [(19, [.int (off sc.subrs - off (sc.priv0 + i))])])).1
  let pdDesc (i : Nat) : List Operand := [.int ((privBlobs.getD i []).length), .int (off (sc.priv0 + i))]
  let fdOk : Bool :=
    if isCID then idxOk ((List.range fx.privBase.length).map fun i =>
      (encodeDictS std [] ((fx.fdBase.getD i []) ++ [(18, pdDesc i)])).1)
    else true
  let top := fx.topBase ++
    (if isCID then [] else
      (if fx.privBase.length > 0 then [(18, pdDesc (fx.privBase.length - 1))] else [])) ++
    [(15, [.int (off sc.charsets)])] ++
    (match fx.encoding with
     | some _ => [(16, [.int (off 5)])]
     | none => if fx.expert then [(16, [.int 1])] else []) ++
    [(17, [.int (off sc.charStrings)])] ++
    (match fx.fdSelect with
     | some _ => [(3109, [.int (off 7)]), (3108, [.int (off sc.fontDictIndex)])]
     | none => [])
  let e := encodeDictS std fx.custom0 top
  fdOk && idxOk [e.1] && idxOk (e.2.map strToBlob)

/-- `done`: the first `numSections` entries agree -/
def sameOffs (n : Nat) (a b : List Int) : Bool := a.take n == b.take n

/-- the loop `for { …; if done { break }; offs = newOffs }` with fuel; returns the blobs, the
offsets they were computed from, and the number of passes -/
def writeLoop (mk : List Int → List Bytes) (n : Nat) : Nat → List Int → Nat → Option (List Bytes × List Int × Nat)
  | 0, _, _ => none
  | fuel+1, offs, k =>
    let blobs := mk offs
    let newOffs := cumsum blobs
    if sameOffs n newOffs offs then some (blobs, offs, k + 1)
    else writeLoop mk n fuel newOffs (k + 1)

/-- initial `blobs`: the sections filled in only inside the loop are empty (`nil`) -/
def initialBlobs (fx : Fixed) : List Bytes :=
  [[1, 0, 4, 4], fx.nameIndex, [], [], [0, 0], fx.encoding.getD [], fx.charsets, fx.fdSelect.getD [],
    fx.charStrings, []] ++ fx.privBase.map (fun _ => []) ++ [[0, 0]]

/-- offsets at which every offset operand (and every Subrs operand, a difference of two of them)
takes its longest form (five bytes) -/
def bigOffs (n : Nat) : List Int := (List.range (n + 1)).map fun (i : Nat) => ((i : Int) + 1) * 65536

/-- Fuel for the loop `for { …; if done { break } }`, which has no bound in the Go code.  Only the
offset operands can grow from pass to pass (at most four bytes each: seven in the Top DICT, two in
every Font DICT, one in every Private DICT) and the offSize bytes of two INDEXes; every pass but
the last moves the last section by at least one byte, so `39 + 15·(number of private DICTs)` passes
suffice (`C13_write_converges`) and the fuel is never used up. -/
def writeFuel (fx : Fixed) : Nat := 40 + 15 * fx.privBase.length

/-- `(*Font).Write` after `encodeCharStrings`: the file, and the number of loop passes -/
def writeFont (std : List String) (f : FontIn) : Outcome (Bytes × Nat) :=
  match prepare std f with
  | .err x => .err x
  | .panic s => .panic s
  | .ok (fx, sc) =>
    match writeLoop (mkBlobs std f.ros.isSome fx sc) sc.num (writeFuel fx) (cumsum (initialBlobs fx)) 0 with
    | some (blobs, offs, k) =>
      if mkBlobsFits std f.ros.isSome fx sc offs then .ok (blobs.flatten, k)
      else .panic "cff: too much data for INDEX"
    | none => .err "fuel"

end SfntV.Cff
