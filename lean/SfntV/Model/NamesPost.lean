/-
C14 — glyph names in the "post" table (post/post.go: `Info.Encode`, `Read`; post/names.go:
`isMacRoman`, table `macRoman`).  Core-only.  Bytes are `Nat`s below 256; a glyph name (a Go
string) is the list of its bytes.
-/
import SfntV.Prelude.Bytes
import SfntV.Prelude.Outcome
import SfntV.Generated.Names

namespace SfntV.Names

def u16 (n : Nat) : List Nat := [n / 256 % 256, n % 256]
def u32 (n : Nat) : List Nat := [n / 16777216 % 256, n / 65536 % 256, n / 256 % 256, n % 256]

abbrev GName := List Nat

/-- the scalar fields of `post.Info` as they sit in the table: italic angle as the 32 bits of
`int32(round(angle*65536))`, underline fields as 16-bit patterns -/
structure PostHdr where
  angle : Nat
  upos : Nat
  uthick : Nat
  fixed : Bool
  deriving DecidableEq, Repr

/-- `binary.Write(buf, BigEndian, &postEnc{…})`: 32 bytes -/
def postHeader (version : Nat) (h : PostHdr) : List Nat :=
  u32 version ++ (u32 h.angle ++ (u16 h.upos ++ (u16 h.uthick ++
    (u32 (if h.fixed then 1 else 0) ++ List.replicate 16 0))))

/-- the Go map `mac[name] = i` filled for ascending `i`: the LAST index with that name -/
def macIdx : List GName → GName → Option Nat
  | [], _ => none
  | t :: rest, name =>
    match macIdx rest name with
    | some j => some (j + 1)
    | none => if t = name then some 0 else none

/-- the loop over `info.Names` in `Encode` (version 2): indices and string data;
`k` = `numStrings` so far -/
def postEncodeNames (tbl : List GName) : List GName → Nat → List Nat × List Nat
  | [], _ => ([], [])
  | n :: rest, k =>
    match macIdx tbl n with
    | some j =>
      let r := postEncodeNames tbl rest k
      (j :: r.1, r.2)
    | none =>
      let r := postEncodeNames tbl rest (k + 1)
      ((tbl.length + k) :: r.1, (n.length % 256) :: (n ++ r.2))

/-- `(*post.Info).Encode`; `names = none` is the nil slice -/
def postEncodeWith (tbl : List GName) (h : PostHdr) (names : Option (List GName)) : List Nat :=
  match names with
  | none => postHeader 0x00030000 h
  | some ns =>
    if ns = tbl then postHeader 0x00010000 h
    else
      let r := postEncodeNames tbl ns 0
      postHeader 0x00020000 h ++ (u16 ns.length ++ (r.1.flatMap u16 ++ r.2))

inductive PostRes where
  | ok (h : PostHdr) (names : Option (List GName))
  | err
  | unsupported
  deriving DecidableEq, Repr

def rd16 : List Nat → Option (Nat × List Nat)
  | a :: b :: rest => some (a * 256 + b, rest)
  | _ => none

def rd32 : List Nat → Option (Nat × List Nat)
  | a :: b :: c :: d :: rest => some (((a * 256 + b) * 256 + c) * 256 + d, rest)
  | _ => none

/-- `n` 16-bit words (the loop of `ReadUint16Slice`) -/
def rd16s : Nat → List Nat → Option (List Nat × List Nat)
  | 0, bs => some ([], bs)
  | n + 1, bs =>
    match rd16 bs with
    | none => none
    | some (v, rest) =>
      match rd16s n rest with
      | none => none
      | some (vs, rest') => some (v :: vs, rest')

def rdBytes (n : Nat) (bs : List Nat) : Option (List Nat × List Nat) :=
  if n ≤ bs.length then some (bs.take n, bs.drop n) else none

/-- `for len(names) <= idx { read a Pascal string }`; `cnt` = number of strings still to read -/
def postFill : Nat → List GName → List Nat → Option (List GName × List Nat)
  | 0, names, bs => some (names, bs)
  | cnt + 1, names, bs =>
    match bs with
    | [] => none
    | l :: bs' =>
      match rdBytes l bs' with
      | none => none
      | some (s, rest) => postFill cnt (names ++ [s]) rest

/-- the loop over `glyphNameIndex` in `Read` (version 2) -/
def postReadNames (tbl : List GName) : List Nat → List GName → List Nat → Option (List GName)
  | [], _, _ => some []
  | idx :: is, names, bs =>
    if idx < tbl.length then
      match postReadNames tbl is names bs with
      | none => none
      | some r => some (tbl.getD idx [] :: r)
    else
      let i := idx - tbl.length
      match postFill (i + 1 - names.length) names bs with
      | none => none
      | some (names', bs') =>
        match postReadNames tbl is names' bs' with
        | none => none
        | some r => some (names'.getD i [] :: r)

/-- `post.Read` -/
def postReadWith (tbl : List GName) (data : List Nat) : PostRes :=
  match rd32 data with
  | none => .err
  | some (version, d1) =>
  match rd32 d1 with
  | none => .err
  | some (angle, d2) =>
  match rd16 d2 with
  | none => .err
  | some (upos, d3) =>
  match rd16 d3 with
  | none => .err
  | some (uthick, d4) =>
  match rd32 d4 with
  | none => .err
  | some (fixed, d5) =>
  match rdBytes 16 d5 with
  | none => .err
  | some (_, body) =>
    let h : PostHdr := ⟨angle, upos, uthick, fixed != 0⟩
    if version = 0x00010000 then .ok h (some tbl)
    else if version = 0x00020000 then
      match rd16 body with
      | none => .err
      | some (n, b1) =>
        match rd16s n b1 with
        | none => .err
        | some (idxs, b2) =>
          match postReadNames tbl idxs [] b2 with
          | none => .err
          | some names => .ok h (some names)
    else if version = 0x00030000 || version = 0x00040000 then .ok h none
    else .unsupported

/-- the regenerated table `post.macRoman` as byte strings -/
def postTable : List GName := Gen.postMacRoman.map fun s => s.toUTF8.toList.map UInt8.toNat

def postEncode := postEncodeWith postTable
def postRead := postReadWith postTable

/-! ### the refusals of `Encode` (repair 96a7393) -/

/-- the names that go to the string data (not standard Macintosh names) -/
def postCustom (tbl : List GName) (ns : List GName) : List GName :=
  ns.filter fun n => (macIdx tbl n).isNone

/-- what the format 2.0 table can hold: a 16-bit glyph count, one length byte per custom name,
16-bit name indices `258 + k` -/
def postFits (tbl : List GName) (ns : List GName) : Bool :=
  decide (ns.length ≤ 65535) && (postCustom tbl ns).all (fun n => decide (n.length ≤ 255)) &&
    decide (tbl.length + (postCustom tbl ns).length ≤ 65536)

/-- `(*post.Info).Encode` with its panics ("too many glyph names", "glyph name longer than 255
bytes", "too many non-standard glyph names"): the bytes of `postEncodeWith`, or a loud refusal -/
def postEncodeCheckedWith (tbl : List GName) (h : PostHdr) (names : Option (List GName)) :
    Outcome (List Nat) :=
  match names with
  | none => .ok (postEncodeWith tbl h none)
  | some ns =>
    if ns = tbl then .ok (postEncodeWith tbl h (some ns))
    else if postFits tbl ns = true then .ok (postEncodeWith tbl h (some ns))
    else .panic "post.Encode"

def postEncodeChecked := postEncodeCheckedWith postTable

end SfntV.Names
