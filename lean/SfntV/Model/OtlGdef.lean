/-
Model of `gdef.Table.Encode` and `gdef.Read` (/repo/opentype/gdef/gdef.go, as repaired for C08:
a class-definition / mark-glyph-sets offset above 0xFFFF is refused with a panic).
The two class definition tables enter through what `classdef.Table.Append` / `AppendLen` give for
them (models in OtlClassDef), the mark glyph sets are coverage sets (sorted glyph lists).
Core-only.
-/
import SfntV.Model.OtlCoverage
import SfntV.Model.OtlClassDef

namespace SfntV.Otl.Gdef
open SfntV SfntV.Otl

/-- a class definition table as `Encode` sees it: the result of `Append` and of `AppendLen` -/
structure ClassPart where
  bytes : Outcome Bytes
  len : Nat

def partOff (p : Option ClassPart) (total : Nat) : Nat × Nat :=
  match p with
  | some c => (total, total + c.len)
  | none => (0, total)

def setsLen (sets : List (List Nat)) : Outcome Nat :=
  sets.foldl (fun acc s =>
    match acc, Cov.encodeLen s with
    | .ok a, .ok n => .ok (a + n)
    | .ok _, o => o
    | o, _ => o) (.ok (4 + 4 * sets.length))

/-- the 32-bit offsets of the coverage tables, from the start of the MarkGlyphSets table -/
def setOffsets : List (List Nat) → Nat → Outcome (List Nat)
  | [], _ => .ok []
  | s :: ss, off =>
    match Cov.encodeLen s with
    | .ok n =>
      match setOffsets ss (off + n) with
      | .ok r => .ok (w16 (off / 65536) :: w16 off :: r)
      | o => o
    | .err e => .err e
    | .panic p => .panic p

def setsBytes : List (List Nat) → Outcome Bytes
  | [] => .ok []
  | s :: ss =>
    match Cov.encode s with
    | .ok c =>
      match setsBytes ss with
      | .ok r => .ok (c ++ r)
      | o => o
    | o => o

def outBytes (p : Option ClassPart) : Outcome Bytes :=
  match p with
  | some c => c.bytes
  | none => .ok []

/-- `Table.Encode` -/
def encode (gc mac : Option ClassPart) (sets : Option (List (List Nat))) : Outcome Bytes :=
  let minor := if sets.isSome then 2 else 0
  let total0 := if sets.isSome then 14 else 12
  let g := partOff gc total0
  let m := partOff mac g.2
  let mgsOff := if sets.isSome then m.2 else 0
  -- the sizes of the coverage tables are computed first (`cov.EncodeLen()` may panic)
  match (match sets with
    | some ss => setsLen ss
    | none => .ok 0) with
  | .ok _ =>
    if m.1 > 0xFFFF ∨ mgsOff > 0xFFFF then .panic "GDEF table too large"
    else
      let hdr := wordsToBytes ([1, minor, w16 g.1, 0, 0, w16 m.1] ++ (if sets.isSome then [w16 mgsOff] else []))
      match outBytes gc, outBytes mac with
      | .ok b1, .ok b2 =>
        match sets with
        | none => .ok (hdr ++ b1 ++ b2)
        | some ss =>
          match setOffsets ss (4 + 4 * ss.length), setsBytes ss with
          | .ok offs, .ok cb => .ok (hdr ++ b1 ++ b2 ++ wordsToBytes ([1, w16 ss.length] ++ offs) ++ cb)
          | _, _ => .panic "invalid coverage table"
      | .panic s, _ => .panic s
      | _, .panic s => .panic s
      | .err e, _ => .err e
      | _, .err e => .err e
  | .err e => .err e
  | .panic s => .panic s

structure Read where
  gc : Option (List (Nat × Nat))
  mac : Option (List (Nat × Nat))
  sets : Option (List (List Nat))

def readSets (b : Bytes) (pos : Nat) : List Nat → Outcome (List (List Nat))
  | [] => .ok []
  | off :: offs =>
    match Cov.readSet (b.drop (pos + off)) with
    | .ok s =>
      match readSets b pos offs with
      | .ok r => .ok (s :: r)
      | o => o
    | .err e => .err e
    | .panic s => .panic s

def pairUp : List Nat → List Nat
  | hi :: lo :: r => (hi * 65536 + lo) :: pairUp r
  | _ => []

/-- `if offset != 0 { table, err = classdef.Read(p, int64(offset)) }` -/
def readClassAt (b : Bytes) (off : Nat) : Outcome (Option (List (Nat × Nat))) :=
  if off != 0 then
    match ClassDef.read (b.drop off) with
    | .ok es => .ok (some es)
    | .err e => .err e
    | .panic s => .panic s
  else .ok none

/-- the MarkGlyphSets table at `mgsOff` (0: absent) -/
def readMgs (b : Bytes) (mgsOff : Nat) : Outcome (Option (List (List Nat))) :=
  if mgsOff != 0 then
    match bytesToWords (b.drop mgsOff) with
    | fmt :: cnt :: ws =>
      if fmt != 1 then .err eUnsupported
      else if ws.length < 2 * cnt then .err eIO
      else match readSets b mgsOff (pairUp (ws.take (2 * cnt))) with
        | .ok ss => .ok (some ss)
        | .err e => .err e
        | .panic s => .panic s
    | _ => .err eIO
  else .ok none

/-- `gdef.Read` -/
def read (b : Bytes) : Outcome Read :=
  match bytesToWords b with
  | major :: minor :: gcOff :: _ :: _ :: macOff :: rest =>
    if major != 1 || (minor != 0 && minor != 2 && minor != 3) then .err eUnsupported
    else
      let need := (if minor ≥ 2 then 1 else 0) + (if minor ≥ 3 then 2 else 0)
      if rest.length < need then .err eIO
      else
        let mgsOff := if minor ≥ 2 then rest.getD 0 0 else 0
        match readClassAt b gcOff with
        | .ok gc =>
          match readClassAt b macOff with
          | .ok mac =>
            match readMgs b mgsOff with
            | .ok ss => .ok ⟨gc, mac, ss⟩
            | .err e => .err e
            | .panic s => .panic s
          | .err e => .err e
          | .panic s => .panic s
        | .err e => .err e
        | .panic s => .panic s
  | _ => .err eIO

end SfntV.Otl.Gdef
