/-
Model of glyf/loca.go, glyf/glyf.go (Encode/Decode), glyf/composite.go (decodeGlyph,
decodeGlyphComposite, encodeLen, append, Components, FixComponents) and glyf/simple.go
(removePadding, SimpleGlyph.Decode — the *repaired* code, see DESIGN §9 #6) for property C11.
Core-only: linked into the driver.

Conventions: Go `int16`/`uint16` header fields (bounding box, numberOfContours, component flags,
glyph ids) are carried as their 16-bit patterns `0 ≤ v < 65536` (a bijection with the Go values;
"preserved bit for bit" is equality of patterns).  Point coordinates produced by
`SimpleGlyph.Decode` are `Int` with the wrap of Go's `funit.Int16` arithmetic made explicit.
-/
import SfntV.Prelude.Bytes
import SfntV.Prelude.Outcome

namespace SfntV.Glyf
open SfntV

/-- `f & mask != 0` for a one-bit mask, in arithmetic form -/
def bit (f mask : Nat) : Bool := f / mask % 2 == 1

/-- big-endian 16-bit read at offset `k`; every use is guarded by a length check in the Go code -/
def rd16 (b : Bytes) (k : Nat) : Nat :=
  (b[k]?.getD 0).toNat * 256 + (b[k+1]?.getD 0).toNat

def rd32 (b : Bytes) (k : Nat) : Nat :=
  (((b[k]?.getD 0).toNat * 256 + (b[k+1]?.getD 0).toNat) * 256 + (b[k+2]?.getD 0).toNat) * 256
    + (b[k+3]?.getD 0).toNat

/-! ## loca (glyf/loca.go) -/

def errInvalid : String := "invalid"
def errUnsupported : String := "unsupported"

/-- `encodeLoca`: short format iff the last offset is `≤ 0xFFFF`.  `offs` is never empty in
`Encode` (n+1 entries); on the empty slice the Go code panics (`offs[len(offs)-1]`). -/
def encodeLoca (offs : List Nat) : Outcome (Bytes × Nat) :=
  match offs.getLast? with
  | none => .panic "loca.go:84#offs[len(offs)-1]"
  | some last =>
    if last ≤ 0xffff then .ok (offs.flatMap (fun o => be16 (o / 2)), 0)
    else .ok (offs.flatMap be32, 1)

/-- the 16-bit words of a byte string (a trailing odd byte is ignored, as `n/2` does) -/
def words16 : Bytes → List Nat
  | a :: b :: rest => (a.toNat * 256 + b.toNat) :: words16 rest
  | _ => []

def words32 : Bytes → List Nat
  | a :: b :: c :: d :: rest =>
    (((a.toNat * 256 + b.toNat) * 256 + c.toNat) * 256 + d.toNat) :: words32 rest
  | _ => []

/-- the loop `if pos < prev || pos > len(enc.GlyfData) { return error }; prev = pos` -/
def locaCheck (glyfLen : Nat) : Nat → List Nat → Bool
  | _, [] => true
  | prev, pos :: rest => if pos < prev ∨ pos > glyfLen then false else locaCheck glyfLen pos rest

/-- `decodeLoca` (the format is the Go `int16` value) -/
def decodeLoca (fmt : Int) (loca : Bytes) (glyfLen : Nat) : Outcome (List Nat) :=
  if fmt = 0 then
    if loca.length < 4 ∨ loca.length % 2 ≠ 0 then .err errInvalid
    else
      let offs := (words16 loca).map (2 * ·)
      if locaCheck glyfLen 0 offs then .ok offs else .err errInvalid
  else if fmt = 1 then
    if loca.length < 8 ∨ loca.length % 4 ≠ 0 then .err errInvalid
    else
      let offs := words32 loca
      if locaCheck glyfLen 0 offs then .ok offs else .err errInvalid
  else .err errUnsupported

/-! ## glyphs -/

structure Component where
  flags : Nat
  gid   : Nat
  data  : Bytes
deriving Repr, DecidableEq

inductive GData where
  /-- `SimpleGlyph{NumContours, Encoded}`; `nc` is the 16-bit pattern of the `int16` -/
  | simple (nc : Nat) (enc : Bytes)
  /-- `CompositeGlyph{Components, Instructions}`; `none` = nil slice -/
  | composite (comps : List Component) (instr : Option Bytes)
deriving Repr, DecidableEq

structure Glyph where
  llx : Nat
  lly : Nat
  urx : Nat
  ury : Nat
  data : GData
deriving Repr, DecidableEq

/-- `glyf.Glyphs`: `none` = nil pointer (empty glyph) -/
abbrev Glyphs := List (Option Glyph)

def glyfAlign : Nat := 2

-- simple glyph flags (glyf/simple.go)
def flagOnCurve : Nat := 0x01
def flagXShortVec : Nat := 0x02
def flagYShortVec : Nat := 0x04
def flagRepeat : Nat := 0x08
def flagXSameOrPos : Nat := 0x10
def flagYSameOrPos : Nat := 0x20

-- component flags (glyf/composite.go)
def FlagArg1And2AreWords : Nat := 0x0001
def FlagWeHaveAScale : Nat := 0x0008
def FlagMoreComponents : Nat := 0x0020
def FlagWeHaveAnXAndYScale : Nat := 0x0040
def FlagWeHaveATwoByTwo : Nat := 0x0080
def FlagWeHaveInstructions : Nat := 0x0100

/-! ### encoding (composite.go: encodeLen, append; glyf.go: Encode) -/

def encComp (c : Component) : Bytes := be16 c.flags ++ be16 c.gid ++ c.data

def encInstr : Option Bytes → Bytes
  | none => []
  | some i => be16 i.length ++ i

/-- the bytes `append` writes after the 10-byte header -/
def glyphBody : GData → Bytes
  | .simple _ enc => enc
  | .composite cs ins => cs.flatMap encComp ++ encInstr ins

/-- `numContours` written by `append`: the simple glyph's own value, `-1` for composites -/
def numContWord : GData → Nat
  | .simple nc _ => nc
  | .composite _ _ => 0xFFFF

def glyphHeader (g : Glyph) : Bytes :=
  be16 (numContWord g.data) ++ be16 g.llx ++ be16 g.lly ++ be16 g.urx ++ be16 g.ury

/-- `for x%glyfAlign != 0 { x++ }` on a length -/
def alignUp (n : Nat) : Nat := if n % glyfAlign = 0 then n else n + (glyfAlign - n % glyfAlign)

/-- `for len(buf)%glyfAlign != 0 { buf = append(buf, 0) }` -/
def padBuf (buf : Bytes) : Bytes := buf ++ List.replicate (alignUp buf.length - buf.length) 0

/-- `(*Glyph).encodeLen` -/
def encodeLen : Option Glyph → Nat
  | none => 0
  | some g =>
    alignUp (10 + match g.data with
      | .simple _ enc => enc.length
      | .composite cs ins =>
        (cs.map fun c => 4 + c.data.length).sum + (match ins with | none => 0 | some i => 2 + i.length))

/-- `(*Glyph).append(buf)`: padding is relative to the whole buffer -/
def appendGlyph (buf : Bytes) : Option Glyph → Bytes
  | none => buf
  | some g => padBuf (buf ++ glyphHeader g ++ glyphBody g.data)

/-- the offsets computed by `Encode` -/
def offsets : Nat → Glyphs → List Nat
  | o, [] => [o]
  | o, g :: gs => o :: offsets (o + encodeLen g) gs

structure Encoded where
  glyf : Bytes
  loca : Bytes
  fmt  : Nat
deriving Repr, DecidableEq

/-- `Glyphs.Encode` -/
def encode (gs : Glyphs) : Outcome Encoded :=
  match encodeLoca (offsets 0 gs) with
  | .ok (loca, fmt) => .ok ⟨gs.foldl appendGlyph [], loca, fmt⟩
  | .err e => .err e
  | .panic s => .panic s

/-! ### `removePadding` (simple.go) -/

def xBytes (f : Nat) : Nat :=
  if bit f flagXShortVec then 1 else if !bit f flagXSameOrPos then 2 else 0
def yBytes (f : Nat) : Nat :=
  if bit f flagYShortVec then 1 else if !bit f flagYSameOrPos then 2 else 0

/-- the flag loop of `removePadding`; state `(pos, coordBytes, i)`.  Every iteration increases `i`,
so `numPoints` iterations suffice (`fuel`). -/
def rpWalk (buf : Bytes) (numPoints : Nat) : Nat → Nat → Nat → Nat → Option (Nat × Nat × Nat)
  | 0, pos, coord, i => some (pos, coord, i)
  | fuel+1, pos, coord, i =>
    if i < numPoints then
      match buf[pos]? with
      | none => none
      | some fl =>
        let f := fl.toNat
        if bit f flagRepeat then
          match buf[pos+1]? with
          | none => none
          | some c =>
            rpWalk buf numPoints fuel (pos + 2) (coord + (xBytes f + yBytes f) * (c.toNat + 1))
              (i + (c.toNat + 1))
        else rpWalk buf numPoints fuel (pos + 1) (coord + (xBytes f + yBytes f)) (i + 1)
    else some (pos, coord, i)

/-- the tail of `removePadding`: walk the flags of `np` points starting at `start`, add the
coordinate bytes, check `i != numPoints || pos > len(buf)` -/
def simpleLenAux (buf : Bytes) (np start : Nat) : Option Nat :=
  match rpWalk buf np np start 0 0 with
  | none => none
  | some (p, coord, i) => if i ≠ np ∨ p + coord > buf.length then none else some (p + coord)

/-- length of the simple-glyph description at the start of `buf` (contour ends, instructions,
flags, coordinates), as `removePadding` computes it; `none` = `errInvalidGlyphData` -/
def simpleLen (nc : Nat) (buf : Bytes) : Option Nat :=
  if buf.length < 2 * nc + 2 then none
  else
    simpleLenAux buf (if nc > 0 then rd16 buf (2 * nc - 2) + 1 else 0) (2 * nc + 2 + rd16 buf (2 * nc))

/-- `removePadding`: `glyph.Encoded = buf[:pos]` -/
def removePadding (nc : Nat) (buf : Bytes) : Option Bytes :=
  (simpleLen nc buf).map buf.take

/-! ### `decodeGlyphComposite`, `decodeGlyph` (composite.go) -/

def compSkip (fl : Nat) : Nat :=
  (if bit fl FlagArg1And2AreWords then 4 else 2) +
  (if bit fl FlagWeHaveAScale then 2
   else if bit fl FlagWeHaveAnXAndYScale then 4
   else if bit fl FlagWeHaveATwoByTwo then 8 else 0)

/-- the component loop; every iteration consumes at least 6 bytes (`fuel`) -/
def compLoop : Nat → Bytes → Option (List Component × Bytes)
  | 0, _ => none
  | fuel+1, data =>
    if data.length < 4 then none
    else
      let fl := rd16 data 0
      let gid := rd16 data 2
      let d := data.drop 4
      let skip := compSkip fl
      if d.length < skip then none
      else
        let c : Component := ⟨fl, gid, d.take skip⟩
        if bit fl FlagMoreComponents then
          match compLoop fuel (d.drop skip) with
          | none => none
          | some (cs, rest) => some (c :: cs, rest)
        else some ([c], d.drop skip)

def decodeComposite (data : Bytes) : Option (List Component × Option Bytes) :=
  match compLoop (data.length + 1) data with
  | none => none
  | some (cs, rest) =>
    if cs.any (fun c => bit c.flags FlagWeHaveInstructions) && decide (rest.length ≥ 2) then
      some (cs, some ((rest.drop 2).take (rd16 rest 0)))
    else some (cs, none)

def decodeGlyph (data : Bytes) : Outcome (Option Glyph) :=
  if data.length = 0 then .ok none
  else if data.length < 10 then .err errInvalid
  else
    let numCont := rd16 data 0
    let mk (d : GData) : Glyph := ⟨rd16 data 2, rd16 data 4, rd16 data 6, rd16 data 8, d⟩
    if numCont < 32768 then
      match removePadding numCont (data.drop 10) with
      | none => .err errInvalid
      | some e => .ok (some (mk (.simple numCont e)))
    else
      match decodeComposite (data.drop 10) with
      | none => .err errInvalid
      | some (cs, ins) => .ok (some (mk (.composite cs ins)))

/-- the loop of `Decode` over consecutive offsets -/
def decodeAll (g : Bytes) : List Nat → Outcome Glyphs
  | a :: b :: rest =>
    match decodeGlyph ((g.drop a).take (b - a)) with
    | .ok x =>
      match decodeAll g (b :: rest) with
      | .ok xs => .ok (x :: xs)
      | .err e => .err e
      | .panic s => .panic s
    | .err e => .err e
    | .panic s => .panic s
  | _ => .ok []

/-- `glyf.Decode` -/
def decode (fmt : Int) (loca glyf : Bytes) : Outcome Glyphs :=
  match decodeLoca fmt loca glyf.length with
  | .ok offs => decodeAll glyf offs
  | .err e => .err e
  | .panic s => .panic s

/-! ### `Components`, `FixComponents` -/

/-- `(*Glyph).Components` (`none` = nil slice) -/
def components : Option Glyph → Option (List Nat)
  | none => none
  | some g => match g.data with
    | .simple _ _ => none
    | .composite cs _ => some (cs.map (·.gid))

/-- `(*Glyph).FixComponents(newGid)`; a missing map key gives glyph 0 -/
def fixComponents (newGid : Nat → Nat) : Option Glyph → Option Glyph
  | none => none
  | some g => match g.data with
    | .simple _ _ => some g
    | .composite cs ins =>
      some { g with data := .composite (cs.map fun c => { c with gid := newGid c.gid }) ins }

/-! ## `SimpleGlyph.Decode` (simple.go, repaired: no panic on `NumContours ≤ 0` or
non-monotone `endPtsOfContours`) -/

structure Point where
  x : Int
  y : Int
  on : Bool
deriving Repr, DecidableEq

structure GlyphInfo where
  contours : List (List Point)
  instr : Bytes
deriving Repr, DecidableEq

/-- conversion to `funit.Int16` (two's complement wrap) -/
def wrap16 (v : Int) : Int := (v + 32768) % 65536 - 32768

/-- the flag loop; `n` = `numPoints - i`.  One flag byte stands for itself and, with
REPEAT_FLAG, `min(count, numPoints - i)` further copies. -/
def flagLoop : Nat → Bytes → Nat → Option (List Nat × Bytes)
  | _, buf, 0 => some ([], buf)
  | 0, _, _+1 => none
  | fuel+1, buf, n+1 =>
    match buf with
    | [] => none
    | f :: rest =>
      if bit f.toNat flagRepeat then
        match rest with
        | [] => none
        | c :: rest' =>
          let k := min c.toNat n
          match flagLoop fuel rest' (n - k) with
          | none => none
          | some (fs, b) => some (List.replicate (k + 1) f.toNat ++ fs, b)
      else
        match flagLoop fuel rest n with
        | none => none
        | some (fs, b) => some (f.toNat :: fs, b)

/-- the x (or y) coordinate loop: `short`/`same` are the two flag masks; `x` the running value -/
def coordLoop (short same : Nat) : List Nat → Bytes → Int → Option (List Int × Bytes)
  | [], buf, _ => some ([], buf)
  | f :: fs, buf, x =>
    if bit f short then
      match buf with
      | [] => none
      | b :: rest =>
        let x' := if bit f same then wrap16 (x + b.toNat) else wrap16 (x - b.toNat)
        match coordLoop short same fs rest x' with
        | none => none
        | some (xs, r) => some (x' :: xs, r)
    else if !bit f same then
      match buf with
      | b0 :: b1 :: rest =>
        let x' := wrap16 (x + wrap16 (b0.toNat * 256 + b1.toNat))
        match coordLoop short same fs rest x' with
        | none => none
        | some (xs, r) => some (x' :: xs, r)
      | _ => none
    else
      match coordLoop short same fs buf x with
      | none => none
      | some (xs, r) => some (x :: xs, r)

/-- the contour loop with the repaired range check -/
def contourLoop (pts : List Point) (numPoints : Nat) : List Nat → Nat → Option (List (List Point))
  | [], _ => some []
  | e :: es, start =>
    let end_ := e + 1
    if end_ < start ∨ end_ > numPoints then none
    else
      match contourLoop pts numPoints es end_ with
      | none => none
      | some cs => some ((pts.drop start).take (end_ - start) :: cs)

def mkPoints : List Int → List Int → List Nat → List Point
  | x :: xs, y :: ys, f :: fs => ⟨x, y, bit f flagOnCurve⟩ :: mkPoints xs ys fs
  | _, _, _ => []

/-- `numPoints := 0; if numContours > 0 { numPoints = int(endPtsOfContours[numContours-1]) + 1 }` -/
def numPointsOf (endPts : List Nat) : Nat :=
  match endPts.getLast? with
  | none => 0
  | some e => e + 1

/-- `(*SimpleGlyph).Decode`; `nc` is the `int16` value; `none` = `errInvalidGlyphData` -/
def simpleDecode (nc : Int) (enc : Bytes) : Option GlyphInfo :=
  if nc < 0 then none else
  let n := nc.toNat
  if enc.length < 2 * n + 2 then none else
  let endPts := (words16 (enc.take (2 * n)))
  let buf := enc.drop (2 * n)
  let numPoints := numPointsOf endPts
  let il := rd16 buf 0
  if buf.length < 2 + il then none else
  let instr := (buf.drop 2).take il
  match flagLoop numPoints (buf.drop (2 + il)) numPoints with
  | none => none
  | some (ff, buf1) =>
    match coordLoop flagXShortVec flagXSameOrPos ff buf1 0 with
    | none => none
    | some (xx, buf2) =>
      match coordLoop flagYShortVec flagYSameOrPos ff buf2 0 with
      | none => none
      | some (yy, _) =>
        match contourLoop (mkPoints xx yy ff) numPoints endPts 0 with
        | none => none
        | some cc => some ⟨cc, instr⟩

/-! ## well-formed glyph lists (the domain of the round-trip theorem) -/

/-- a component record whose argument bytes have the size its flags announce -/
def wfComp (c : Component) : Bool :=
  decide (c.flags < 65536) && decide (c.gid < 65536) && decide (c.data.length = compSkip c.flags)

/-- at least one component; MORE_COMPONENTS exactly on the non-last ones -/
def wfComps : List Component → Bool
  | [] => false
  | [c] => wfComp c && !bit c.flags FlagMoreComponents
  | c :: cs => wfComp c && bit c.flags FlagMoreComponents && wfComps cs

def wfData : GData → Bool
  | .simple nc enc => decide (nc < 32768) && decide (simpleLen nc enc = some enc.length)
  | .composite cs ins =>
    wfComps cs && match ins with
      | none => true
      | some i => decide (i.length < 65536) && cs.any (fun c => bit c.flags FlagWeHaveInstructions)

/-- nil, or 16-bit header fields and well-formed data: a simple glyph's bytes are exactly one
simple-glyph description (no trailing bytes), a composite glyph's records match their flags and
instructions are present only if some component announces them -/
def wfGlyph : Option Glyph → Bool
  | none => true
  | some g => decide (g.llx < 65536) && decide (g.lly < 65536) && decide (g.urx < 65536) &&
      decide (g.ury < 65536) && wfData g.data

/-- size of the glyf table `Encode` writes -/
def glyfSize (gs : Glyphs) : Nat := (gs.map encodeLen).sum

/-- executable form of `WFGlyphs` -/
def wfGlyphs (gs : Glyphs) : Bool :=
  !gs.isEmpty && gs.all wfGlyph && decide (glyfSize gs < 4294967296)

end SfntV.Glyf
