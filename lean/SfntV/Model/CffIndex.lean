/-
Model of cff/index.go (`cffIndex.encode`, `readIndex`) and the TN5176 §5 specification of an
INDEX (property C13).  Core-only: linked into the driver.

The parser is used as a plain byte view (that is property C17): a cursor into the file bytes;
a read of `n > 0` bytes beyond the end fails with an I/O error.
-/
import SfntV.Prelude.Bytes
import SfntV.Prelude.Outcome

namespace SfntV.Cff
open SfntV

/-! ## byte-view reads -/

/-- `p.ReadBytes(n)` / `p.Read(buf)` at cursor `c`: the `n` bytes at `c`, or failure (short file).
A read of 0 bytes always succeeds. -/
def rd (data : Bytes) (c n : Nat) : Option Bytes :=
  if n = 0 then some []
  else if c + n ≤ data.length then some ((data.drop c).take n) else none

/-- `k` bytes, big-endian, of `v` (each `byte(v >> 8*(k-j-1))`, i.e. value taken mod 256^k) -/
def beN : Nat → Nat → Bytes
  | 0, _ => []
  | k+1, v => UInt8.ofNat (v / 256 ^ k % 256) :: beN k v

/-! ## `cffIndex.encode` -/

/-- `offSize := 1; for bodyLength+1 >= 1<<(8*offSize) { offSize++ }`; 5 stands for "> 4"
(the loop would continue; the caller panics for every value above 4). -/
def chooseOffSize (bodyLength : Nat) : Nat :=
  if bodyLength + 1 < 256 then 1
  else if bodyLength + 1 < 65536 then 2
  else if bodyLength + 1 < 16777216 then 3
  else if bodyLength + 1 < 4294967296 then 4
  else 5

def bodyLength (blobs : List Bytes) : Nat := (blobs.map List.length).sum

/-- the `count+1` values of `pos` written by the offset loop, starting from `pos` -/
def offsetsFrom (pos : Nat) : List Bytes → List Nat
  | [] => [pos]
  | b :: bs => pos :: offsetsFrom (pos + b.length) bs

def indexEncode (blobs : List Bytes) : Outcome Bytes :=
  if blobs.length ≥ 65536 then .panic "cff: too many items for INDEX"
  else if blobs.length = 0 then .ok [0, 0]
  else
    let os := chooseOffSize (bodyLength blobs)
    if os > 4 then .panic "cff: too much data for INDEX"
    else .ok (be16 blobs.length ++ [UInt8.ofNat os]
              ++ (offsetsFrom 1 blobs).flatMap (beN os) ++ blobs.flatten)

/-! ## `readIndex` -/

/-- the offset loop of `readIndex`: `k` offsets still to read, cursor `c`, `prev = prevOffset`;
returns the list `offs-1`. `size` is `p.Size()`. -/
def readOffsets (data : Bytes) (size offSize : Nat) : Nat → Nat → Nat → Outcome (List Nat)
  | 0, _, _ => .ok []
  | k+1, c, prev =>
    match rd data c offSize with
    | none => .err "eof"
    | some blob =>
      let offs := beVal blob % 4294967296
      if offs < prev ∨ offs ≥ size then .err "invalid"
      else
        match readOffsets data size offSize k (c + offSize) offs with
        | .ok l => .ok ((offs - 1) :: l)
        | e => e

/-- `res[i] = buf[offsets[i]:offsets[i+1]]` -/
def slices (buf : Bytes) : List Nat → List Bytes
  | a :: b :: rest => (buf.drop a).take (b - a) :: slices buf (b :: rest)
  | _ => []

/-- `readIndex` with the parser at cursor `c`; returns the blobs and the cursor afterwards. -/
def readIndex (data : Bytes) (c : Nat) : Outcome (List Bytes × Nat) :=
  match rd data c 2 with
  | none => .err "eof"
  | some cb =>
    let count := beVal cb
    if count = 0 then .ok ([], c + 2)
    else
      match rd data (c + 2) 1 with
      | none => .err "eof"
      | some ob =>
        let offSize := beVal ob
        match readOffsets data data.length offSize (count + 1) (c + 3) 1 with
        | .err e => .err e
        | .panic s => .panic s
        | .ok offsets =>
          let c' := c + 3 + (count + 1) * offSize
          let total := offsets.getLastD 0
          match rd data c' total with
          | none => .err "eof"
          | some buf => .ok (slices buf offsets, c' + total)

/-! ## Specification (Adobe TN5176 §5 "INDEX Data") -/

/-- big-endian number stored in the `n` bytes at `c` -/
def specNum (data : Bytes) (c n : Nat) : Option Nat :=
  if c + n ≤ data.length then some (beVal ((data.drop c).take n)) else none

/-- "An INDEX is an array of variable-sized objects. It comprises a header, an offset array,
and object data. […] Card16 count; OffSize offSize; Offset offset[count+1]; Card8 data[].
Offsets in the offset array are relative to the byte that precedes the object data. Therefore
the first element of the offset array is always 1. […] An object is retrieved by indexing the
offset array and fetching the object at the specified offset. The object's length can be
determined by subtracting its offset from the next offset in the offset array. […] An empty
INDEX is represented by a count field with a 0 value and no additional fields."

Returns the objects and the position of the first byte after the INDEX. -/
def specIndex (data : Bytes) (c : Nat) : Option (List Bytes × Nat) := do
  let count ← specNum data c 2
  if count = 0 then pure ([], c + 2)
  else
    let offSize ← specNum data (c + 2) 1
    if offSize < 1 ∨ offSize > 4 then none
    else
      let offs ← (List.range (count + 1)).mapM fun i => specNum data (c + 3 + i * offSize) offSize
      -- the byte that precedes the object data
      let base := c + 3 + (count + 1) * offSize - 1
      if offs.head? ≠ some 1 then none
      else
        let objs ← (List.range count).mapM fun i =>
          match offs[i]?, offs[i+1]? with
          | some a, some b =>
            if a ≤ b ∧ base + b ≤ data.length then some ((data.drop (base + a)).take (b - a)) else none
          | _, _ => none
        pure (objs, base + offs.getLastD 1)

end SfntV.Cff
