/-
C02 (decoders are total on untrusted bytes): checked-index models, with cost counters, of
  `hmtx.Decode` (hmtx/hmtx.go:89-146), `head.Read` (head/head.go:60-113),
  `os2.Read` (os2/os2.go:79-203) and `post.Read` (post/post.go:46-112).

Conventions (Model/TotalBase): every Go index / slice / make / `p.ReadBytes(n)` of the modelled
functions is a checked operation labelled with the position of the site inventory
(`Tie/<pkg>.<Func>.json`).  `binary.Read(r, BigEndian, &struct)` is `io.ReadFull` of the struct's
size into a private buffer followed by field extraction at constant offsets inside
`encoding/binary` (no index expression of the modelled function is involved): it is modelled as
`readFull` (resp. `readBytes` through the parser) followed by the total readers `Metrics.rdU16`
… applied to that buffer of known length.  The decoded values are the structures of the
value-level models of C12/C14 (`SfntV.Metrics.Decoded`, `Head`, `Os2`), imported read-only, and the
error classes are the ones those models use; `Proofs/TotalMetrics` relates the two.
Core-only: linked into the driver.
-/
import SfntV.Model.TotalBase
import SfntV.Model.Metrics
import SfntV.Model.Os2

namespace SfntV.Total.Metrics
open SfntV SfntV.Total

/-- checked slice expression `xs[a:b]`: Go panics unless `a ≤ b ≤ len(xs)` -/
def slice (site : String) (xs : List α) (a b : Nat) : Outcome (List α) :=
  if a ≤ b ∧ b ≤ xs.length then .ok ((xs.drop a).take (b - a)) else .panic site

/-- `binary.Read(bytes.Reader, …)` of an `n`-byte struct at position `pos`: `io.ReadFull`; a short
read is `io.EOF` / `io.ErrUnexpectedEOF` (class "short") -/
def rdStruct (b : Bytes) (pos n : Nat) : Outcome Bytes :=
  match readFull b pos n with
  | .ok w => .ok w
  | .err _ => .err "short"
  | .panic s => .panic s

/-- a parser read (`p.ReadBytes(n)`, `p.ReadUint8/16()`, `binary.Read(p, …)`) at position `pos`;
`io.ErrUnexpectedEOF` is class "short"; panics for `n > 1024` (parser.go:170) -/
def rdParser (site : String) (b : Bytes) (pos n : Nat) : Outcome Bytes :=
  match readBytes site b pos n with
  | .ok w => .ok w
  | .err _ => .err "short"
  | .panic s => .panic s

/-! ## hmtx.Decode -/

/-- the loop hmtx.go:120-138 `for i := 0; len(hmtxData) > 0; i++`.  `nhm` = numHorMetrics,
`fuel` ≥ len(hmtxData) (every completed iteration consumes at least two bytes), `ws`/`ls` = the
slices `widths`/`lsbs` in reverse.  One step per iteration, one element per `append`. -/
def hmLoop (nhm : Nat) : Nat → Nat → Int → Bytes → List Int → List Int → Cost →
    Outcome ((List Int × List Int) × Cost)
  | fuel, i, prev, data, ws, ls, c =>
    if data.length = 0 then .ok ((ws.reverse, ls.reverse), c) else
    match fuel with
    | 0 => .err "fuel"
    | fuel+1 => do
      let c := c.tick
      let (width, data) ←
        (if i < nhm then
          (if data.length < 2 then Outcome.err "hmtx-short" else do
            let hi ← idx "hmtx.go:126#hmtxData[0]" data 0
            let lo ← idx "hmtx.go:126#hmtxData[1]" data 1
            let d ← slice "hmtx.go:127#hmtxData[2:]" data 2 data.length
            pure (SfntV.Metrics.i16ofNat (be hi lo), d))
        else pure (prev, data) : Outcome (Int × Bytes))
      let c := c.mem 1                                   -- widths = append(widths, width)
      if data.length < 2 then .err "hmtx-short" else
      let hi ← idx "hmtx.go:135#hmtxData[0]" data 0
      let lo ← idx "hmtx.go:135#hmtxData[1]" data 1
      let d ← slice "hmtx.go:136#hmtxData[2:]" data 2 data.length
      -- lsbs = append(lsbs, lsb)
      hmLoop nhm fuel (i + 1) width d (width :: ws) (SfntV.Metrics.i16ofNat (be hi lo) :: ls) (c.mem 1)

/-- `hmtx.Decode(hheaData, hmtxData)`; `hmtx = none` is the nil slice.  The caret angle is
represented by the slope pair (`toAngle` is a float computation without index sites). -/
def hmtxDecode (hhea : Bytes) (hmtx : Option Bytes) : Outcome (SfntV.Metrics.Decoded × Cost) := do
  let h ← rdStruct hhea 0 36                              -- binary.Read(r, BigEndian, hheaEnc)
  let c := Cost.zero.tick
  if SfntV.Metrics.rdU32 h 0 ≠ 0x00010000 then .err "version" else
  if SfntV.Metrics.rdI16 h 32 ≠ 0 then .err "format" else
  let c := c.mem 1                                       -- &Info{…}
  let d : SfntV.Metrics.Decoded :=
    ⟨SfntV.Metrics.rdI16 h 4, SfntV.Metrics.rdI16 h 6, SfntV.Metrics.rdI16 h 8,
     SfntV.Metrics.rdI16 h 18, SfntV.Metrics.rdI16 h 20, SfntV.Metrics.rdI16 h 22, [], []⟩
  match hmtx with
  | none => .ok (d, c)
  | some data =>
    let nhm := SfntV.Metrics.rdU16 h 34
    let ((ws, ls), c) ← hmLoop nhm data.length 0 0 data [] [] c
    if ws.length < nhm then .err "hmtx-short" else
    .ok ({ d with widths := ws, lsb := ls }, c)

/-! ## head.Read -/

/-- `head.Read`: no index, slice or make expression (site inventory `head.Read.json` is empty) -/
def headRead (b : Bytes) : Outcome (SfntV.Metrics.Head × Cost) := do
  let e ← rdStruct b 0 54                                 -- binary.Read(r, BigEndian, enc)
  let c := Cost.zero.tick
  if SfntV.Metrics.rdU32 e 0 ≠ 0x00010000 then .err "unsupported" else
  if SfntV.Metrics.rdU32 e 12 ≠ 0x5F0F3CF5 then .err "invalid" else
  let flags := SfntV.Metrics.rdU16 e 16
  let ms := SfntV.Metrics.rdU16 e 44
  .ok ({
    fontRevision := SfntV.Metrics.rdU32 e 4
    hasYBaseAt0 := SfntV.Metrics.bit flags 0
    hasXBaseAt0 := SfntV.Metrics.bit flags 1
    isNonlinear := SfntV.Metrics.bit flags 2 || SfntV.Metrics.bit flags 4
    unitsPerEm := SfntV.Metrics.rdU16 e 18
    created := SfntV.Metrics.decodeTime (SfntV.Metrics.rdI64 e 20)
    modified := SfntV.Metrics.decodeTime (SfntV.Metrics.rdI64 e 28)
    bbox := ⟨SfntV.Metrics.rdI16 e 36, SfntV.Metrics.rdI16 e 38, SfntV.Metrics.rdI16 e 40,
      SfntV.Metrics.rdI16 e 42⟩
    isBold := SfntV.Metrics.bit ms 0
    isItalic := SfntV.Metrics.bit ms 1
    hasShadow := SfntV.Metrics.bit ms 4
    isCondensed := SfntV.Metrics.bit ms 5
    isExtended := SfntV.Metrics.bit ms 6
    lowestRecPPEM := SfntV.Metrics.rdU16 e 46
    locaFormat := SfntV.Metrics.rdI16 e 50 }, c.mem 1)    -- &Info{}

/-! ## os2.Read -/

/-- the part of `os2.Info` that `os2.Read` fills from `v0Data` (os2.go:91-151); `vend` = the vendor
string -/
def os2Base (v0 vend : Bytes) : SfntV.Metrics.Os2 :=
  let version := SfntV.Metrics.rdU16 v0 0
  let ty := SfntV.Metrics.rdU16 v0 8
  let permBits := if version < 3 then ty % 16 else ty
  let permUse : Int :=
    if SfntV.Metrics.bit permBits 3 then 1 else if SfntV.Metrics.bit permBits 2 then 2
    else if SfntV.Metrics.bit permBits 1 then 3 else 0
  let sel0 := SfntV.Metrics.rdU16 v0 62
  let sel := if version ≤ 3 then sel0 % 128 else sel0
  let last := SfntV.Metrics.rdU16 v0 66
  let ur := SfntV.Metrics.urBool57 [SfntV.Metrics.rdU32 v0 42, SfntV.Metrics.rdU32 v0 46,
    SfntV.Metrics.rdU32 v0 50, SfntV.Metrics.rdU32 v0 54] (last == 0xFFFF)
  { weightClass := SfntV.Metrics.rdU16 v0 4
    widthClass := SfntV.Metrics.rdU16 v0 6
    isBold := SfntV.Metrics.bit sel 5 && !SfntV.Metrics.bit sel 6
    isItalic := SfntV.Metrics.bit sel 0 && !SfntV.Metrics.bit sel 6
    isRegular := SfntV.Metrics.bit sel 6
    isOblique := SfntV.Metrics.bit sel 9
    firstCharIndex := SfntV.Metrics.rdU16 v0 64
    lastCharIndex := last
    ascent := 0, descent := 0, winAscent := 0, winDescent := 0, lineGap := 0
    capHeight := 0, xHeight := 0
    avgGlyphWidth := SfntV.Metrics.rdI16 v0 2
    sub := (List.range 10).map fun i => SfntV.Metrics.rdI16 v0 (10 + 2 * i)
    familyClass := SfntV.Metrics.rdI16 v0 30
    panose := (List.range 10).map fun i => SfntV.Metrics.rdU8 v0 (32 + i)
    vendor := vend
    unicodeRange := ur
    codePageRange := 0
    permUse := permUse
    permNoSubsetting := SfntV.Metrics.bit permBits 8
    permOnlyBitmap := SfntV.Metrics.bit permBits 9 }

/-- os2.go:160-164 -/
def os2Ms (info : SfntV.Metrics.Os2) (ms : Bytes) : SfntV.Metrics.Os2 :=
  { info with ascent := SfntV.Metrics.rdI16 ms 0, descent := SfntV.Metrics.rdI16 ms 2,
              lineGap := SfntV.Metrics.rdI16 ms 4, winAscent := SfntV.Metrics.rdI16 ms 6,
              winDescent := SfntV.Metrics.rdI16 ms 8 }

/-- os2.go:195-200 -/
def os2V2 (info : SfntV.Metrics.Os2) (v2 : Bytes) : SfntV.Metrics.Os2 :=
  let xh := SfntV.Metrics.rdI16 v2 0
  let ch := SfntV.Metrics.rdI16 v2 2
  { info with xHeight := if xh > 0 then xh else 0, capHeight := if ch > 0 then ch else 0 }

/-- os2.go:170-185: `var codePageRange [8]byte`, read and recombined (words swapped) -/
def os2Cpr (b : Bytes) : Outcome Nat := do
  let cpr0 ← rdStruct b 78 8
  let cpr ← slice "os2.go:171#codePageRange[:]" cpr0 0 8
  let c0 ← idx "os2.go:178#codePageRange[0]" cpr 0
  let c1 ← idx "os2.go:179#codePageRange[1]" cpr 1
  let c2 ← idx "os2.go:180#codePageRange[2]" cpr 2
  let c3 ← idx "os2.go:181#codePageRange[3]" cpr 3
  let c4 ← idx "os2.go:182#codePageRange[4]" cpr 4
  let c5 ← idx "os2.go:183#codePageRange[5]" cpr 5
  let c6 ← idx "os2.go:184#codePageRange[6]" cpr 6
  let c7 ← idx "os2.go:185#codePageRange[7]" cpr 7
  let lo := ((c0.toNat * 256 + c1.toNat) * 256 + c2.toNat) * 256 + c3.toNat
  let hi := ((c4.toNat * 256 + c5.toNat) * 256 + c6.toNat) * 256 + c7.toNat
  pure (lo + 4294967296 * hi)

/-- `os2.Read`.  Reads in order: `v0Data` (68 bytes), `v0MsData` (10 bytes; `io.EOF`, i.e. NO byte
left, is accepted and ends the table: the Apple form), for version ≥ 2 `codePageRange` (8 bytes) and
`v2Data` (10 bytes; any short read is an error there).  Cost: one step per read, one `Info` object
and the 4-byte vendor string. -/
def os2Read (b : Bytes) : Outcome (SfntV.Metrics.Os2 × Cost) := do
  let v0 ← rdStruct b 0 68                                -- binary.Read(r, BigEndian, v0)
  let c := Cost.zero.tick
  if SfntV.Metrics.rdU16 v0 0 > 5 then .err "unsupported" else
  -- string(v0.VendID[:]): full slice of the [4]byte array field
  let vend ← slice "os2.go:144#v0.VendID[:]" ((v0.drop 58).take 4) 0 4
  let c := c.mem 5                                       -- &Info{…} and the 4-byte vendor string
  let info := os2Base v0 vend
  -- binary.Read(r, BigEndian, v0ms): err == io.EOF (nothing left) → return info, nil
  if b.length = 68 then .ok (info, c.tick) else
  let ms ← rdStruct b 68 10
  let c := c.tick
  let info := os2Ms info ms
  if SfntV.Metrics.rdU16 v0 0 < 2 then .ok (info, c) else
  let cpr ← os2Cpr b                                     -- binary.Read(r, BigEndian, codePageRange[:])
  let c := c.tick
  let info := { info with codePageRange := cpr }
  let v2 ← rdStruct b 86 10                               -- binary.Read(r, BigEndian, v2)
  .ok (os2V2 info v2, c.tick)

/-! ## post.Read -/

/-- `post.Info` with the raw table fields: `angle` = the 32 bits of `post.ItalicAngle` (Go keeps
`float64(int32)/65536`, an exact conversion), `upos`/`uthick` = 16-bit patterns; `names = none` is
the nil slice -/
structure PostInfo where
  version : Nat
  angle : Nat
  upos : Nat
  uthick : Nat
  fixed : Bool
  names : Option (List Bytes)
deriving Repr, DecidableEq

/-- the loop of `p.ReadUint16Slice()` (parser.go:150-156): `n` reads of two bytes from `pos` -/
def readU16s (b : Bytes) : Nat → Nat → List Nat → Cost → Outcome ((List Nat × Nat) × Cost)
  | 0, pos, acc, c => .ok ((acc.reverse, pos), c)
  | n+1, pos, acc, c => do
    let w ← rdParser "parser.go:151#ReadUint16" b pos 2
    let v ← w16 "parser.go:125#buf[0],buf[1]" w 0
    readU16s b n (pos + 2) (v :: acc) c.tick

/-- post.go:82-92 `for len(names) <= idx { … }`: exactly `cnt = idx+1-len(names)` Pascal strings are
read (or the first failing read ends `Read`).  Per string two reads; `names = append(names,
string(buf))` allocates one slot and the `l` bytes of the string. -/
def postFill (b : Bytes) : Nat → List Bytes → Nat → Cost → Outcome ((List Bytes × Nat) × Cost)
  | 0, names, pos, c => .ok ((names, pos), c)
  | cnt+1, names, pos, c => do
    let lb ← rdParser "post.go:83#ReadUint8" b pos 1
    let l ← idx "parser.go:116#buf[0]" lb 0
    let buf ← rdParser "post.go:87#p.ReadBytes(int(l))" b (pos + 1) l.toNat
    postFill b cnt (names ++ [buf]) (pos + 1 + l.toNat) ((c.tick 2).mem (1 + l.toNat))

/-- checked slice-element assignment `xs[i] = v` -/
def setAt (site : String) (xs : List α) (i : Nat) (v : α) : Outcome (List α) :=
  if i < xs.length then .ok (xs.set i v) else .panic site

/-- post.go:76-95 `for i, idx := range glyphNameIndex`: `out` = `info.Names`, `names` = the Pascal
strings read so far, `pos` = parser position -/
def postNames (tbl : List Bytes) (b : Bytes) : List Nat → Nat → List Bytes → List Bytes → Nat → Cost →
    Outcome (List Bytes × Cost)
  | [], _, out, _, _, c => .ok (out, c)
  | gi :: rest, i, out, names, pos, c =>
    let c := c.tick
    if gi < tbl.length then do
      let nm ← idx "post.go:79#macRoman[idx]" tbl gi
      let out ← setAt "post.go:79#info.Names[i]" out i nm
      postNames tbl b rest (i + 1) out names pos c
    else do
      let j := gi - tbl.length
      let ((names, pos), c) ← postFill b (j + 1 - names.length) names pos c
      let nm ← idx "post.go:93#names[idx]" names j
      let out ← setAt "post.go:93#info.Names[i]" out i nm
      postNames tbl b rest (i + 1) out names pos c

/-- `post.Read`; `tbl` = the table `post.macRoman` (258 names) as byte strings -/
def postRead (tbl : List Bytes) (b : Bytes) : Outcome (PostInfo × Cost) := do
  -- binary.Read(p, BigEndian, post): io.ReadFull → Parser.Read → p.ReadBytes(32)
  let h ← rdParser "parser.go:100#ReadBytes(k)" b 0 32
  let c := (Cost.zero.tick).mem 1                        -- &Info{…}
  let version := SfntV.Metrics.rdU32 h 0
  let info : PostInfo := ⟨version, SfntV.Metrics.rdU32 h 4, SfntV.Metrics.rdU16 h 8,
    SfntV.Metrics.rdU16 h 10, SfntV.Metrics.rdU32 h 12 != 0, none⟩
  if version = 0x00010000 then .ok ({ info with names := some tbl }, c)
  else if version = 0x00020000 then do
    -- glyphNameIndex, err := p.ReadUint16Slice()
    let w ← rdParser "parser.go:145#ReadUint16" b 32 2
    let n ← w16 "parser.go:125#buf[0],buf[1]" w 0
    let c ← mkSlice "parser.go:149#make([]uint16, n)" n c.tick
    let ((idxs, pos), c) ← readU16s b n 34 [] c
    let c ← mkSlice "post.go:74#make([]string, numGlyphs)" idxs.length c
    let (out, c) ← postNames tbl b idxs 0 (List.replicate idxs.length []) [] pos c
    .ok ({ info with names := some out }, c)
  else if version = 0x00030000 ∨ version = 0x00040000 then .ok (info, c)
  else .err "unsupported"

end SfntV.Total.Metrics
