/-
C02 — checked-index model of `name.Decode` (name/name.go:44-143) and `name.utf16Decode`
(name/name.go:292-298) with cost counters.

* the Go maps `appleBCP` / `msBCP` are abstract parameters `apple ms : Nat → String`
  (language id ↦ BCP 47 tag, `""` when the key is absent — what a Go map read yields);
* `mac.Decode` is an abstract byte ↦ rune table `mac : UInt8 → Nat` (a 128-entry table indexed by
  `c-128` with `c ≥ 128`: no panic site in package `name`);
* `utf16.Decode` + `string(…)` are the value-level functions of C14 (`Names.utf16DecodeUnits`,
  `Names.fixRune`), imported read-only; strings are lists of runes, `""` is `[]`;
* the result is the list of `t.set(nameID, val)` calls, newest first, as `Names.Entry` (the same
  view of `*Info` as the value-level model `Names.nameDecodeWith` of C14).
Core-only.
-/
import SfntV.Model.TotalBase
import SfntV.Model.NamesTable

namespace SfntV.Total.NameCff
open SfntV SfntV.Total

/-- checked slice expression `xs[a:b]`: Go panics unless `a ≤ b ≤ len(xs)` (`cap = len` for the
slices met here) -/
def slice (site : String) (xs : List α) (a b : Nat) : Outcome (List α) :=
  if a ≤ b ∧ b ≤ xs.length then .ok ((xs.drop a).take (b - a)) else .panic site

def addCost (c d : Cost) : Cost := ⟨c.steps + d.steps, c.alloc + d.alloc⟩

/-- name.go:294-296 `for i := 0; i+1 < len(buf); i += 2 { nameWords = append(…buf[i]…buf[i+1]) }`:
`k` iterations still to run (`len(buf)/2` in all), next index `i` -/
def u16words (buf : Bytes) : Nat → Nat → Outcome (List Nat)
  | 0, _ => .ok []
  | k+1, i => do
    let hi ← idx "name.go:295#buf[i]" buf i
    let lo ← idx "name.go:295#buf[i+1]" buf (i + 1)
    let rest ← u16words buf k (i + 2)
    .ok (be hi lo :: rest)

/-- `name.utf16Decode`: the word loop runs `len(buf)/2` times (a trailing odd byte is ignored),
then `string(utf16.Decode(nameWords))`.  Cost: one step per word and per rune produced; the word
slice and the runes/string are allocated. -/
def utf16Decode (buf : Bytes) : Outcome (List Nat × Cost) := do
  let ws ← u16words buf (buf.length / 2) 0
  let rr := (Names.utf16DecodeUnits ws).map Names.fixRune
  .ok (rr, ⟨ws.length + rr.length, ws.length + rr.length⟩)

/-- `mac.Decode`: `make([]rune, len(cc))`, one table look-up per byte, `string(rr)` -/
def macDecode (mac : UInt8 → Nat) (cc : Bytes) : List Nat × Cost :=
  (cc.map mac, ⟨cc.length, 2 * cc.length⟩)

/-- the record loop name.go:79-135: `fuel` records still to visit, record index `i`; `acc` = the
`set` calls so far, newest first -/
def recLoop (apple ms : Nat → String) (mac : UInt8 → Nat) (data : Bytes) (so : Nat) :
    Nat → Nat → List Names.Entry → Cost → Outcome (List Names.Entry × Cost)
  | 0, _, acc, c => .ok (acc, c)
  | fuel+1, i, acc, c => do
    let pos := 6 + i * 12
    let platformID ← w16 "name.go:81#data[pos],data[pos+1]" data pos
    let encodingID ← w16 "name.go:82#data[pos+2],data[pos+3]" data (pos + 2)
    let languageID ← w16 "name.go:83#data[pos+4],data[pos+5]" data (pos + 4)
    let nameID ← w16 "name.go:84#data[pos+6],data[pos+7]" data (pos + 6)
    let nameLen ← w16 "name.go:85#data[pos+8],data[pos+9]" data (pos + 8)
    let nameOffset ← w16 "name.go:86#data[pos+10],data[pos+11]" data (pos + 10)
    let c := c.tick
    -- name.go:90-95: map reads cannot panic
    let key := if platformID = 1 then apple languageID else if platformID = 3 then ms languageID else ""
    if key = "" then recLoop apple ms mac data so fuel (i + 1) acc c else
    if so + nameOffset + nameLen > data.length then .err "malformed" else
    let nameBytes ← slice "name.go:103#data[storageOffset+nameOffset:storageOffset+nameOffset+nameLen]"
      data (so + nameOffset) (so + nameOffset + nameLen)
    let (val, c) ←
      (if platformID = 3 ∧ (encodingID = 1 ∨ encodingID = 10) then do
        let (v, d) ← utf16Decode nameBytes
        pure (v, addCost c d)
      else if platformID = 1 ∧ encodingID = 0 then
        let (v, d) := macDecode mac nameBytes
        pure (v, addCost c d)
      else pure ([], c) : Outcome (List Nat × Cost))
    if val = [] then recLoop apple ms mac data so fuel (i + 1) acc c else
    -- name.go:119-134: `&Table{}` if absent, `t.set` (possibly `Extra = map[ID]string{}` + entry),
    -- map write: at most 3 objects, charged flat
    recLoop apple ms mac data so fuel (i + 1) (⟨platformID, key, nameID, val⟩ :: acc) (c.mem 3)

/-- `name.Decode` -/
def decode (apple ms : Nat → String) (mac : UInt8 → Nat) (data : Bytes) :
    Outcome (List Names.Entry × Cost) := do
  if data.length < 6 then .err "malformed" else
  let version ← w16 "name.go:48#data[0],data[1]" data 0
  let numRec ← w16 "name.go:49#data[2],data[3]" data 2
  let storageOffset ← w16 "name.go:50#data[4],data[5]" data 4
  let c := Cost.zero.tick
  if version > 1 then .err "malformed" else
  let endOfHeader := 6 + 12 * numRec
  if endOfHeader > data.length then .err "malformed" else
  let (endOfHeader, c) ←
    (if version > 0 then
      if endOfHeader + 2 > data.length then .err "malformed" else do
        let numLang ← w16 "name.go:68#data[endOfHeader],data[endOfHeader+1]" data endOfHeader
        pure (endOfHeader + 2 + numLang * 4, c.tick)
    else pure (endOfHeader, c) : Outcome (Nat × Cost))
  if storageOffset < endOfHeader ∨ storageOffset > data.length then .err "malformed" else
  -- name.go:75-76: two empty maps
  let c := c.mem 2
  recLoop apple ms mac data storageOffset numRec 0 [] c

/-- The aliasing witness: `n` records (platform 3, encoding 1, language 0x409, name id 1), ALL with
offset 0 and length `L`, into one `L`-byte storage of bytes 0x41:
`00 00 | n | 6+12n | n × (00 03 00 01 04 09 00 01 L 00 00) | L × 41`,  `6 + 12n + L` bytes. -/
def advRec (L : Nat) : Bytes := [0, 3, 0, 1, 4, 9, 0, 1] ++ be16 L ++ [0, 0]
def advName (n L : Nat) : Bytes :=
  [0, 0] ++ be16 n ++ be16 (6 + 12 * n) ++ (List.replicate n (advRec L)).flatten ++ List.replicate L 0x41

end SfntV.Total.NameCff
