/-
Model of /repo/opentype/coverage (coverage.go, set.go): `Table.encInfo/EncodeLen/Encode`, `Read`,
`ReadSet`; and an executable specification of the OpenType "Coverage Table" (chapter 2).

A valid `coverage.Table` (indices 0..n-1, strictly monotonic) is the same thing as its strictly
increasing list of glyph ids `rev` (`rev[i]` = the glyph with coverage index `i`), which is what
`encInfo` computes first; the model functions take that list.  `revOf` models the computation of
`rev` from an arbitrary map, including the panics on malformed tables.
Core-only.
-/
import SfntV.Model.OtlBase

namespace SfntV.Otl.Cov
open SfntV SfntV.Otl

/-! ### encInfo -/

/-- one iteration of `for gid, i := range table { rev[i] = gid }` (an index outside `0..len-1`
is a Go index panic) -/
def revStep (acc : Outcome (List Nat)) (e : Nat × Int) : Outcome (List Nat) :=
  match acc with
  | .ok rev =>
    if e.2 < (0 : Int) ∨ e.2 ≥ Int.ofNat rev.length then .panic "index out of range"
    else .ok (rev.set e.2.toNat e.1)
  | o => o

/-- `rev := make([]glyph.ID, len(table)); for gid, i := range table { rev[i] = gid }`
(entries in iteration order). -/
def revOf (m : List (Nat × Int)) : Outcome (List Nat) :=
  m.foldl revStep (.ok (List.replicate m.length 0))

/-- `for i := 1; i < len(rev); i++ { if rev[i-1] >= rev[i] { panic } }` -/
def increasing : List Nat → Bool
  | a :: b :: r => a < b && increasing (b :: r)
  | _ => true

/-- the `rangeCount` loop of `encInfo` (`prev` starts at 0xFFFF) -/
def rangeCountFrom (prev : Nat) : List Nat → Nat
  | [] => 0
  | g :: gs => (if g = prev + 1 then 0 else 1) + rangeCountFrom g gs

def fmt1Len (rev : List Nat) : Nat := 4 + 2 * rev.length
def fmt2Len (rev : List Nat) : Nat := 4 + 6 * rangeCountFrom 0xFFFF rev

/-- `Table.EncodeLen` -/
def encodeLen (rev : List Nat) : Outcome Nat :=
  if !increasing rev then .panic "invalid coverage table"
  else .ok (if fmt1Len rev ≤ fmt2Len rev then fmt1Len rev else fmt2Len rev)

/-! ### Encode -/

/-- The format-2 loop of `Encode` after its first iteration: `s`/`sidx` are
`startGlyphID`/`startCoverageIndex` of the open range, `prev` the previous glyph, `i` the loop
index.  A record is `(startGlyphID, endGlyphID, startCoverageIndex)`. -/
def rangesLoop (s sidx prev i : Nat) : List Nat → List (Nat × Nat × Nat)
  | [] => [(s, prev, sidx)]
  | g :: gs =>
    if g = prev + 1 then rangesLoop s sidx g (i + 1) gs
    else (s, prev, sidx) :: rangesLoop g i g (i + 1) gs

/-- The records appended by the format-2 branch.  In the first iteration `int(gid) != prev+1`
always holds (`prev+1 = 0x10000`, `gid` is a `uint16`) and nothing is emitted (`i = 0`). -/
def ranges : List Nat → List (Nat × Nat × Nat)
  | [] => []
  | g :: gs => rangesLoop g 0 g 1 gs

def recWords (r : Nat × Nat × Nat) : List Nat := [w16 r.1, w16 r.2.1, w16 r.2.2]

/-- the words written by `Table.Encode` (after the `encInfo` check) -/
def encodeW (rev : List Nat) : List Nat :=
  if fmt1Len rev ≤ fmt2Len rev then
    1 :: w16 rev.length :: rev
  else
    2 :: w16 ((fmt2Len rev - 4) / 6) :: (ranges rev).flatMap recWords

/-- `Table.Encode` -/
def encode (rev : List Nat) : Outcome Bytes :=
  if !increasing rev then .panic "invalid coverage table"
  else .ok (wordsToBytes (encodeW rev))

/-! ### Read (coverage.Table) -/

/-- format-1 loop of `Read`; `prev` is `-1` at the start.  Entries are `(gid, index)`. -/
def read1 : (n : Nat) → (rest : List Nat) → (i : Nat) → (prev : Int) → Outcome (List (Nat × Nat))
  | 0, _, _, _ => .ok []
  | _ + 1, [], _, _ => .err eIO
  | n + 1, g :: rest, i, prev =>
    if (g : Int) ≤ prev then .err eInvalid
    else match read1 n rest (i + 1) g with
      | .ok r => .ok ((g, i) :: r)
      | o => o

/-- format-2 loop of `Read` -/
def read2 : (n : Nat) → (rest : List Nat) → (pos : Nat) → (prev : Int) → Outcome (List (Nat × Nat))
  | 0, _, _, _ => .ok []
  | n + 1, s :: e :: sci :: rest, pos, prev =>
    if sci ≠ pos ∨ (s : Int) ≤ prev ∨ e < s then .err eInvalid
    else match read2 n rest (pos + (e + 1 - s)) e with
      | .ok r => .ok ((List.range' s (e + 1 - s)).zipIdx pos ++ r)
      | o => o
  | _ + 1, _, _, _ => .err eIO

/-- `coverage.Read` on the words from the table position on -/
def readW : List Nat → Outcome (List (Nat × Nat))
  | 1 :: n :: rest => read1 n rest 0 (-1)
  | 2 :: n :: rest => read2 n rest 0 (-1)
  | 1 :: _ => .err eIO
  | 2 :: _ => .err eIO
  | [] => .err eIO
  | _ => .err eUnsupported

def read (b : Bytes) : Outcome (List (Nat × Nat)) := readW (bytesToWords b)

/-! ### ReadSet (coverage.Set): duplicates tolerated; result = glyphs in reading order -/

def readSet1 : (n : Nat) → (rest : List Nat) → Outcome (List Nat)
  | 0, _ => .ok []
  | _ + 1, [] => .err eIO
  | n + 1, g :: rest =>
    match readSet1 n rest with
    | .ok r => .ok (g :: r)
    | o => o

/-- an error further on wins over success, but the *first* failure in reading order is reported -/
def readSet2 : (n : Nat) → (rest : List Nat) → (pos : Nat) → (prev : Int) → Outcome (List Nat)
  | 0, _, _, _ => .ok []
  | n + 1, s :: e :: sci :: rest, pos, prev =>
    if sci ≠ pos ∨ (s : Int) < prev ∨ e < s then .err eInvalid
    else match readSet2 n rest (pos + (e + 1 - s)) e with
      | .ok r => .ok (List.range' s (e + 1 - s) ++ r)
      | o => o
  | _ + 1, _, _, _ => .err eIO

def readSetW : List Nat → Outcome (List Nat)
  | 1 :: n :: rest => readSet1 n rest
  | 2 :: n :: rest => readSet2 n rest 0 (-1)
  | 1 :: _ => .err eIO
  | 2 :: _ => .err eIO
  | [] => .err eIO
  | _ => .err eUnsupported

def readSet (b : Bytes) : Outcome (List Nat) := readSetW (bytesToWords b)

/-! ### Specification (OpenType, chapter 2, "Coverage Table") -/

/-- "Coverage Format 1: coverageFormat = 1, glyphCount, glyphArray[glyphCount] — array of glyph IDs
in numerical order" — the Coverage Index of a glyph is its position in the array.
"Coverage Format 2: coverageFormat = 2, rangeCount, rangeRecords[rangeCount]; RangeRecord:
startGlyphID, endGlyphID, startCoverageIndex — Coverage Index of first glyph ID in range" — the
glyph `g` of a range has index `startCoverageIndex + (g - startGlyphID)`.
`specEntries` lists every (glyph, coverage index) pair the table defines, in table order; `none` if
the arrays are not completely present or the format is not 1 or 2. -/
def specRecs : (n : Nat) → List Nat → Option (List (Nat × Nat))
  | 0, _ => some []
  | n + 1, s :: e :: sci :: rest =>
    (specRecs n rest).map fun r => (List.range' s (e + 1 - s)).map (fun g => (g, sci + (g - s))) ++ r
  | _ + 1, _ => none

def specEntries : List Nat → Option (List (Nat × Nat))
  | 1 :: n :: rest => if n ≤ rest.length then some ((rest.take n).zipIdx) else none
  | 2 :: n :: rest => specRecs n rest
  | _ => none

/-- number of maximal runs of consecutive glyph ids -/
def numRuns : List Nat → Nat
  | [] => 0
  | [_] => 1
  | a :: b :: r => (if b = a + 1 then 0 else 1) + numRuns (b :: r)

end SfntV.Otl.Cov
