/-
C19 — process model of the goroutine structure of `builder.Parse`.  Core-only.

Three processes and two unbuffered channels:
* `P` the lexer goroutine (`go l.run()`): internal steps, `l.items <- item` (send on `T`),
  finally `close(l.items)`;
* `C` the goroutine that called `Parse`: internal steps, `<-p.tokens` (receive on `T`),
  after a `fatal` the deferred `for range tokens {}` (drain `T`); in the code as it was
  before the repair of DESIGN §9 #23 also `decodeString(…)` (spawn `D`) and
  `for r := range c` (receive on `S`);
* `D` the string-decoder goroutine of the unrepaired code: `c <- r` (send on `S`), `close(c)`.

A send and a receive on an unbuffered channel happen together (rendezvous, attributed to the
sender); a receive on a closed channel succeeds at once; a send on a closed channel is not
enabled.  The scheduler is any function choosing an enabled actor: a schedule is a list of
actors, `run` applies it.
-/
namespace SfntV.Dsl.Proc

inductive PInstr where
  | tau | send | close
deriving Repr, DecidableEq

inductive CInstr where
  | tau | recvT | drainT | spawn | recvS
deriving Repr, DecidableEq

inductive DInstr where
  | tau | send | close
deriving Repr, DecidableEq

structure Sys where
  p : List PInstr
  c : List CInstr
  d : List DInstr
  dOn : Bool
  closedT : Bool
  closedS : Bool
deriving Repr, DecidableEq

inductive Actor where
  | P | C | D
deriving Repr, DecidableEq

def step : Actor → Sys → Option Sys
  | .P, s =>
    match s.p with
    | .tau :: p => some { s with p := p }
    | .send :: p =>
      if s.closedT then none
      else match s.c with
        | .recvT :: c => some { s with p := p, c := c }
        | .drainT :: _ => some { s with p := p }
        | _ => none
    | .close :: p => some { s with p := p, closedT := true }
    | [] => none
  | .C, s =>
    match s.c with
    | .tau :: c => some { s with c := c }
    | .recvT :: c => if s.closedT then some { s with c := c } else none
    | .drainT :: c => if s.closedT then some { s with c := c } else none
    | .spawn :: c => some { s with c := c, dOn := true }
    | .recvS :: c => if s.closedS then some { s with c := c } else none
    | [] => none
  | .D, s =>
    if !s.dOn then none
    else match s.d with
      | .tau :: d => some { s with d := d }
      | .send :: d =>
        if s.closedS then none
        else match s.c with
          | .recvS :: c => some { s with d := d, c := c }
          | _ => none
      | .close :: d => some { s with d := d, closedS := true }
      | [] => none

/-- apply a schedule; `none` if it picks an actor that cannot move -/
def run : List Actor → Sys → Option Sys
  | [], s => some s
  | a :: σ, s => (step a s).bind (run σ)

/-- nothing can move any more -/
def Final (s : Sys) : Prop := ∀ a, step a s = none

instance (s : Sys) : Decidable (Final s) :=
  if h : step .P s = none ∧ step .C s = none ∧ step .D s = none then
    isTrue (fun a => by cases a <;> simp [h.1, h.2.1, h.2.2])
  else isFalse (fun hf => h ⟨hf .P, hf .C, hf .D⟩)

def size (s : Sys) : Nat := s.p.length + s.c.length + s.d.length

/-- processes that still have something to do in `s` (in a final state: blocked for ever) -/
def blocked (s : Sys) : Nat :=
  (if s.p.isEmpty then 0 else 1) + (if s.c.isEmpty then 0 else 1) +
  (if s.dOn && !s.d.isEmpty then 1 else 0)

/-- the repaired `Parse` on a text whose lexer sends `n` items, the parser taking `k` items
before it either returns (`fatal = false`) or panics in `fatal` (`fatal = true`, followed by
the deferred drain); one internal step before every communication -/
def repaired (n k : Nat) (fatal : Bool) : Sys :=
  { p := (List.replicate n [PInstr.tau, .send]).flatten ++ [.close]
    c := (List.replicate k [CInstr.tau, .recvT]).flatten ++ (if fatal then [.drainT] else [])
    d := [], dOn := false, closedT := false, closedS := false }

/-- the unrepaired `Parse`: after `k` items the parser meets a string item of `m` runes,
starts the decoder, and `fatal` fires after it has received `j` of them -/
def original (n k m j : Nat) : Sys :=
  { p := (List.replicate n [PInstr.tau, .send]).flatten ++ [.close]
    c := (List.replicate k [CInstr.tau, .recvT]).flatten ++ [.spawn] ++
         List.replicate j .recvS ++ [.drainT]
    d := List.replicate m .send ++ [.close]
    dOn := false, closedT := false, closedS := false }

/-- a deterministic scheduler: the first actor of `prio` that can move, until none can -/
def runPrio (prio : List Actor) : Nat → Sys → Sys
  | 0, s => s
  | fuel + 1, s =>
    match prio.findSome? (fun a => step a s) with
    | some s' => runPrio prio fuel s'
    | none => s

end SfntV.Dsl.Proc
