/-
C02 (decoders are total on untrusted bytes): checked-index model of `decodeFormat4`
(/repo/cmap/format4.go:32-99, `code2rune = nil`, i.e. the identity code mapping) and of the lazy
accessors `Format4.Lookup` (format4.go:101) and `Format4.CodeRange` (format4.go:162).

Every Go index expression and slice expression of the function is a checked operation that yields
`panic "<file>.go:<line>#<expr>"`; the model also returns a step count (reads + loop iterations)
and an allocation count (words of the `words` array + map entries written).
Core-only: linked into the driver.
-/
import SfntV.Model.TotalBase

namespace SfntV.Total.Cmap4
open SfntV SfntV.Total

/-- a Go `map[uint16]glyph.ID` under construction: association list, NEWEST entry first -/
abbrev RMap := List (Nat × Nat)

/-- checked slice expression `xs[a:b]` (`cap(xs) = len(xs)` for every slice sliced here): Go panics
unless `a ≤ b ≤ len(xs)` -/
def slice (site : String) (xs : List α) (a b : Nat) : Outcome (List α) :=
  if a ≤ b ∧ b ≤ xs.length then .ok ((xs.drop a).take (b - a)) else .panic site

/-- `for i := 14; i < len(in); i += 2 { words = append(words, uint16(in[i])<<8|uint16(in[i+1])) }`;
`n` = number of iterations still to run, `acc` = words so far, newest first -/
def wordsLoop (b : Bytes) : Nat → Nat → List Nat → Cost → Outcome (List Nat × Cost)
  | 0, _, acc, c => .ok (acc.reverse, c)
  | n+1, i, acc, c => do
    let hi ← idx "format4.go:50#in[i]" b i
    let lo ← idx "format4.go:50#in[i+1]" b (i + 1)
    wordsLoop b n (i + 2) (be hi lo :: acc) c.tick

/-- format4.go:71-76: `for idx := start; idx < end; idx++ { c := uint16(idx)+delta; if c != 0 { cmap[uint16(idx)] = c } }`
(the map write cannot panic; it is charged one allocation) -/
def deltaLoop (delta : Nat) : Nat → Nat → RMap → Cost → RMap × Cost
  | 0, _, m, c => (m, c)
  | n+1, i, m, c =>
    let g := (i % 65536 + delta) % 65536
    if g ≠ 0 then deltaLoop delta n (i + 1) ((i % 65536, g) :: m) ((c.tick).mem 1)
    else deltaLoop delta n (i + 1) m c.tick

/-- format4.go:86-94: the loop over the glyph id array -/
def glyphLoop (ga idDelta : List Nat) (k d start : Nat) : Nat → Nat → RMap → Cost → Outcome (RMap × Cost)
  | 0, _, m, c => .ok (m, c)
  | n+1, i, m, c => do
    let v ← idx "format4.go:87#glyphIDArray[d+int(idx-start)]" ga (d + (i - start))
    let g ← (if v ≠ 0 then do
               let dl ← idx "format4.go:89#idDelta[k]" idDelta k
               pure ((v + dl) % 65536)
             else pure 0 : Outcome Nat)
    if g ≠ 0 then glyphLoop ga idDelta k d start n (i + 1) ((i % 65536, g) :: m) ((c.tick).mem 1)
    else glyphLoop ga idDelta k d start n (i + 1) m c.tick

/-- format4.go:61-96: `for k := 0; k < segCount; k++`; `n` = iterations still to run (so `k < segCount`
inside the body and `segCount - k` is the Go `int` difference) -/
def segLoop (segCount : Nat) (endCode startCode idDelta idRangeOffset ga : List Nat) :
    Nat → Nat → Nat → RMap → Cost → Outcome (RMap × Cost)
  | 0, _, _, m, c => .ok (m, c)
  | n+1, k, prevEnd, m, c => do
    let start ← idx "format4.go:62#startCode[k]" startCode k
    let e ← idx "format4.go:63#endCode[k]" endCode k
    let end_ := e + 1                                   -- uint32: no wrap (e < 65536)
    let c := c.tick
    if start < prevEnd ∨ end_ ≤ start then .err "malformed" else do
    let ro ← idx "format4.go:69#idRangeOffset[k]" idRangeOffset k
    if ro = 0 then do
      let delta ← idx "format4.go:70#idDelta[k]" idDelta k
      let r := deltaLoop delta (end_ - start) start m c
      segLoop segCount endCode startCode idDelta idRangeOffset ga n (k + 1) end_ r.1 r.2
    else do
      let ro2 ← idx "format4.go:78#idRangeOffset[k]" idRangeOffset k
      let d : Int := ((ro2 / 2 : Nat) : Int) - ((segCount - k : Nat) : Int)
      if d < 0 ∨ d + ((end_ - start : Nat) : Int) > (ga.length : Int) then
        if start = 0xFFFF then
          -- "some fonts seem to have invalid data for the last segment": continue
          segLoop segCount endCode startCode idDelta idRangeOffset ga n (k + 1) end_ m c
        else .err "malformed"
      else do
        let r ← glyphLoop ga idDelta k d.toNat start (end_ - start) start m c
        segLoop segCount endCode startCode idDelta idRangeOffset ga n (k + 1) end_ r.1 r.2

/-- `decodeFormat4(in, nil)`: the decoded map as association list in insertion order (a later entry
overrides an earlier one, as map writes do) and the cost.

`make([]uint16, 0, (len(in)-14)/2)` (format4.go:48): the capacity is below `len(in)/2` two-byte
elements, i.e. fewer bytes than the input slice that already exists, so it is within Go's
allocation limit and `make` cannot panic; it is charged `Cost.mem` when it happens. -/
def decodeFormat4 (b : Bytes) : Outcome (List (Nat × Nat) × Cost) :=
  if b.length % 2 ≠ 0 ∨ b.length < 16 then .err "malformed" else do
  let hi ← idx "format4.go:41#in[6]" b 6
  let lo ← idx "format4.go:41#in[7]" b 7
  let segCountX2 := be hi lo
  if segCountX2 % 2 ≠ 0 ∨ 4 * segCountX2 + 16 > b.length then .err "malformed" else do
  let segCount := segCountX2 / 2
  let c := (Cost.zero.tick).mem ((b.length - 14) / 2)
  let wc ← wordsLoop b ((b.length - 14 + 1) / 2) 14 [] c
  let words := wc.1
  let endCode ← slice "format4.go:52#words[:segCount]" words 0 segCount
  let startCode ← slice "format4.go:54#words[segCount+1 : 2*segCount+1]" words (segCount + 1) (2 * segCount + 1)
  let idDelta ← slice "format4.go:55#words[2*segCount+1 : 3*segCount+1]" words (2 * segCount + 1) (3 * segCount + 1)
  let idRangeOffset ← slice "format4.go:56#words[3*segCount+1 : 4*segCount+1]" words (3 * segCount + 1) (4 * segCount + 1)
  let ga ← slice "format4.go:57#words[4*segCount+1:]" words (4 * segCount + 1) words.length
  let r ← segLoop segCount endCode startCode idDelta idRangeOffset ga segCount 0 0 [] wc.2
  pure (r.1.reverse, r.2)

/-! ## the lazy accessors of the decoded value -/

/-- map read `cmap[key]` on the decoded association list (insertion order): the last write wins,
a missing key reads as 0; a map read cannot panic -/
def mapGet (m : List (Nat × Nat)) (key : Nat) : Nat :=
  match m.reverse.find? (·.1 == key) with
  | some p => p.2
  | none => 0

/-- `Format4.Lookup(r)` (format4.go:101): `r` is a Go `rune` (int32) -/
def lookup (m : List (Nat × Nat)) (r : Int) : Outcome Nat :=
  if r < 0 ∨ r > 0xFFFF then .ok 0 else .ok (mapGet m (r.toNat % 65536))   -- cmap[uint16(r)]

/-- `Format4.CodeRange()` (format4.go:162): `for k := range cmap`; the iteration order is the
order of the list (the result does not depend on it) -/
def codeRange (m : List (Nat × Nat)) : Outcome (Nat × Nat) :=
  if m.length = 0 then .ok (0, 0) else
  .ok (m.foldl (fun (lh : Nat × Nat) p =>
      (if p.1 < lh.1 then p.1 else lh.1, if p.1 > lh.2 then p.1 else lh.2)) (2147483647, 0))

end SfntV.Total.Cmap4
