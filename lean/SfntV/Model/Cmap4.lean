/-
Model of cmap/format4.go (segment proposals `AppendEdges`, assembly, byte packing, decoder)
and the OpenType specification of format 4 lookup (property C09).
Core-only: linked into the driver.
-/
import SfntV.Prelude.Bytes
import SfntV.Prelude.Outcome

namespace SfntV.Cmap4
open SfntV

/-- a character map: code ↦ glyph id (0 = unmapped); only values mod 65536 matter -/
abbrev M := Nat → Nat

structure Seg where
  first : Nat
  last  : Nat
  delta : Nat        -- mod 65536
  useValues : Bool
deriving Repr, DecidableEq

/-- `uint16(a) - uint16(b)` -/
def sub16 (a b : Nat) : Nat := (a % 65536 + 65536 - b % 65536) % 65536

/-! ## `makeSegments.AppendEdges` -/

/-- `for start < 0xFFFF && ms[start] == 0 { start++ }` -/
def skipNotdef (m : M) : Nat → Nat → Nat
  | 0, s => s
  | fuel+1, s => if s < 0xFFFF ∧ m s % 65536 = 0 then skipNotdef m fuel (s + 1) else s

/-- `for end < 0xFFFF && uint16(ms[end])-uint16(end) == delta { end++ }` -/
def deltaRun (m : M) (delta : Nat) : Nat → Nat → Nat
  | 0, e => e
  | fuel+1, e => if e < 0xFFFF ∧ sub16 (m e) e = delta then deltaRun m delta fuel (e + 1) else e

/-- the "store GID values explicitly" loop; returns `last` of the values segment -/
def valuesRun (m : M) (start : Nat) : Nat → Nat → Nat → Nat → Nat → Nat
  | 0, e, _, _, numNotdef => e - numNotdef - 1
  | fuel+1, e, prevDelta, numDelta, numNotdef =>
    if e < 0xFFFF then
      let thisGid := m e % 65536
      let thisDelta := sub16 thisGid e
      let numDelta' := if thisDelta = prevDelta then numDelta + 1 else 1 + numNotdef
      let numNotdef' := if thisGid = 0 then numNotdef + 1 else 0
      if numDelta' = 5 ∨ numNotdef' = 5 then e - 5
      else valuesRun m start fuel (e + 1) thisDelta numDelta' numNotdef'
    else e - numNotdef - 1

def appendEdges (m : M) (v : Nat) : List Seg :=
  if v > 0xFFFF then [] else
  let start := skipNotdef m 65536 v
  let delta := sub16 (m start) start
  if start = 0xFFFF then [⟨0xFFFF, 0xFFFF, delta, false⟩] else
  let e := deltaRun m delta 65536 (start + 1)
  let s1 : Seg := ⟨start, e - 1, delta, false⟩
  if e - start ≥ 4 ∨ start = 0xFFFE then [s1] else
  [s1, ⟨start, valuesRun m start 65536 (start + 1) delta 1 0, 0, true⟩]

/-! ## assembly of the arrays from a segment path (`Format4.Encode`) -/

structure Arrays where
  endCode : List Nat
  startCode : List Nat
  idDelta : List Nat
  idRangeOffset : List Nat
  glyphIdArray : List Nat
deriving Repr

def segValues (m : M) (s : Seg) : List Nat :=
  (List.range' s.first (s.last + 1 - s.first)).map fun c => m c % 65536

/-- Go's loop: `i` = index of the segment, `n` = number of segments, `ga` = glyph array so far -/
def assembleAux (m : M) (n : Nat) : Nat → List Seg → List Nat → Arrays
  | _, [], ga => ⟨[], [], [], [], ga⟩
  | i, s :: ss, ga =>
    let ro := if s.useValues then 2 * (n - i + ga.length) else 0
    let ga' := if s.useValues then ga ++ segValues m s else ga
    let r := assembleAux m n (i+1) ss ga'
    ⟨s.last :: r.endCode, s.first :: r.startCode, s.delta :: r.idDelta, ro :: r.idRangeOffset, r.glyphIdArray⟩

def assemble (m : M) (ss : List Seg) : Arrays := assembleAux m ss.length 0 ss []

def words (l : List Nat) : Bytes := l.flatMap be16

/-- `bits.Len(uint(n))` -/
def bitsLen (n : Nat) : Nat := if n = 0 then 0 else Nat.log2 n + 1

/-- the byte form; `none` models `panic("too many mappings for a format 4 subtable")` -/
def pack (lang : Nat) (a : Arrays) : Option Bytes :=
  if a.idRangeOffset.any (· > 65535) then none else
  let segCount := a.startCode.length
  let sel := bitsLen segCount
  let searchRange := 2 ^ sel % 65536
  let segCountX2 := 2 * segCount % 65536
  some (words [4, 2 * (8 + 4 * segCount + a.glyphIdArray.length), lang, segCountX2, searchRange, sel - 1,
               (segCountX2 + 65536 - searchRange) % 65536]
        ++ words a.endCode ++ be16 0 ++ words a.startCode ++ words a.idDelta ++ words a.idRangeOffset
        ++ words a.glyphIdArray)

def encode (m : M) (lang : Nat) (path : List Seg) : Option Bytes := pack lang (assemble m path)

/-! ## specification: OpenType "cmap" format 4 lookup -/

/-- Find the first segment whose endCode ≥ c; if its startCode ≤ c map it: with
idRangeOffset = 0 the glyph is (c + idDelta) mod 65536; otherwise the glyph array entry at
`idRangeOffset/2 + (c - startCode)` words after the idRangeOffset word itself, and, if that
entry is not 0, idDelta is added to it (mod 65536).  Anything else maps to glyph 0. -/
def specLookupAux (ga : List Nat) (segCount : Nat) (c : Nat) : Nat → List Nat → List Nat → List Nat → List Nat → Nat
  | i, e :: es, s :: ss, d :: ds, r :: rs =>
    if c ≤ e then
      if s ≤ c then
        if r = 0 then (c + d) % 65536
        else
          let idx := r / 2 + (c - s) - (segCount - i)
          if r / 2 + (c - s) < segCount - i then 0 else
          match ga[idx]? with
          | some v => if v = 0 then 0 else (v + d) % 65536
          | none => 0
      else 0
    else specLookupAux ga segCount c (i+1) es ss ds rs
  | _, _, _, _, _ => 0

def specLookup (a : Arrays) (c : Nat) : Nat :=
  specLookupAux a.glyphIdArray a.endCode.length c 0 a.endCode a.startCode a.idDelta a.idRangeOffset

def wordsOf : Bytes → List Nat
  | a :: b :: r => (a.toNat * 256 + b.toNat) :: wordsOf r
  | _ => []

/-- split a format 4 subtable into its arrays (segCount from the header; no validation) -/
def unpack (b : Bytes) : Option Arrays :=
  if b.length < 16 then none else
  let w := wordsOf (b.drop 14)
  let segCount := (wordsOf (b.drop 6)).headD 0 / 2
  if w.length < 4 * segCount + 1 then none else
  some ⟨w.take segCount, (w.drop (segCount + 1)).take segCount, (w.drop (2 * segCount + 1)).take segCount,
        (w.drop (3 * segCount + 1)).take segCount, w.drop (4 * segCount + 1)⟩

def specLookupBytes (b : Bytes) (c : Nat) : Nat :=
  match unpack b with
  | some a => specLookup a c
  | none => 0

/-! ## model of `decodeFormat4` (code2rune = identity), after repair 823b071 -/

/-- result: association list code ↦ gid in insertion order (later entries win, as map writes do) -/
def decodeSeg (ga : List Nat) (segCount k : Nat) (start end_ delta ro : Nat) : Option (List (Nat × Nat)) :=
  if ro = 0 then
    some ((List.range' start (end_ - start)).filterMap fun idx =>
      let c := (idx % 65536 + delta) % 65536
      if c ≠ 0 then some (idx % 65536, c) else none)
  else
    let d : Int := (ro / 2 : Nat) - ((segCount - k : Nat) : Int)
    if d < 0 ∨ d + (end_ - start : Nat) > ga.length then
      if start = 0xFFFF then some [] else none
    else
      some ((List.range' start (end_ - start)).filterMap fun idx =>
        let v := ga.getD (d.toNat + (idx - start)) 0
        let c := if v ≠ 0 then (v + delta) % 65536 else 0
        if c ≠ 0 then some (idx % 65536, c) else none)

def decodeLoop (a : Arrays) (segCount : Nat) : Nat → Nat → List Nat → List Nat → List Nat → List Nat →
    List (Nat × Nat) → Option (List (Nat × Nat))
  | k, prevEnd, e :: es, s :: ss, d :: ds, r :: rs, acc =>
    let end_ := e + 1
    if s < prevEnd ∨ end_ ≤ s then none else
    match decodeSeg a.glyphIdArray segCount k s end_ d r with
    | some l => decodeLoop a segCount (k+1) end_ es ss ds rs (acc ++ l)
    | none => none
  | _, _, _, _, _, _, acc => some acc

def decode (b : Bytes) : Option (List (Nat × Nat)) :=
  if b.length % 2 ≠ 0 ∨ b.length < 16 then none else
  let segCountX2 := (wordsOf (b.drop 6)).headD 0
  if segCountX2 % 2 ≠ 0 ∨ 4 * segCountX2 + 16 > b.length then none else
  match unpack b with
  | none => none
  | some a => decodeLoop a (segCountX2 / 2) 0 0 a.endCode a.startCode a.idDelta a.idRangeOffset []

/-- lookup in a decoded association list: the last write wins -/
def alistGet (l : List (Nat × Nat)) (c : Nat) : Nat :=
  match l.reverse.find? (·.1 == c) with
  | some p => p.2
  | none => 0

end SfntV.Cmap4
