/-
C12 — the caret slope path of hmtx/hmtx.go (`toAngle`, `fromAngle`,
`bestRationalApproximation`) in EXACT arithmetic.  Go evaluates these with float64
(`math.Atan2`, `Sin`, `Cos`, division); the model replaces the angle by the direction vector
`(s, c)` (proportional to `(sin φ, cos φ)` with a positive factor) and the slope `s/c` by the
rational `|s|/|c|`.  The float evaluation itself is not modelled (DESIGN §4, §7); the
correspondence compares the two only on integer slope pairs, where Go's rounding errors are many
orders of magnitude below the decision margins, and leaves out the one tie class
(`rise = 0 ∧ run < 0`, where the sign of a float `-0`/`sin π ≈ 1.2e-16` decides).
Core-only.
-/
namespace SfntV.Caret

def N : Nat := 32767

/-- best candidate so far: distance numerator, distance denominator, numerator, denominator -/
abbrev Best := Option (Nat × Nat × Nat × Nat)

/-- `math.Round(x * denom)` for `x = a / b ≥ 0` (half away from zero) -/
def roundMul (a b d : Nat) : Nat := (2 * a * d + b) / (2 * b)

/-- one iteration of the loop hmtx.go:327-340 for denominator `d` -/
def step (a b d : Nat) (best : Best) : Best :=
  let num := roundMul a b d
  if num > N then best
  else
    let dn := if a * d ≥ num * b then a * d - num * b else num * b - a * d
    let dd := b * d
    match best with
    | none => some (dn, dd, num, d)
    | some (bn, bd, _, _) => if dn * bd < bn * dd then some (dn, dd, num, d) else best

/-- denominators `d, d+1, …, d+fuel-1` -/
def loop (a b : Nat) : Nat → Nat → Best → Best
  | 0, _, best => best
  | fuel + 1, d, best => loop a b fuel (d + 1) (step a b d best)

/-- `bestRationalApproximation(x, 32767)` for `x = a / b ≥ 0` (`b > 0`), sign handled by the
caller.  Returns `(p, q)`; the early exit `return 0, sign` is `(0, 1)` here. -/
def bestRat (a b : Nat) : Nat × Nat :=
  if 2 * N * a < b then (0, 1)                       -- x < 0.5/N
  else if 2 * a > (2 * N - 1) * b then (N, 1)        -- x > N - 0.5
  else
    let maxDenom := if a > b then ((2 * N + 1) * b) / (2 * a) else N
    match loop a b maxDenom 1 none with
    | some (_, _, p, q) => (p, q)
    | none => (0, 0)

/-- `fromAngle` on the direction `(s, c) ∝ (sin φ, cos φ)`, `(s, c) ≠ (0, 0)` -/
def fromDir (s c : Int) : Int × Int :=
  if c * c * 65534 * 65534 ≤ s * s + c * c then          -- |cos φ| ≤ 0.5/32767
    if s ≥ 0 then (1, 0) else (-1, 0)
  else
    let neg := (s < 0 ∧ c > 0) ∨ (s > 0 ∧ c < 0)          -- x = s/c < 0
    let pq := bestRat s.natAbs c.natAbs
    let rise0 : Int := if neg then -(pq.1 : Int) else pq.1
    let run0 : Int := if neg ∧ pq.1 = 0 ∧ 2 * N * s.natAbs < c.natAbs then -1 else pq.2
    if s * rise0 < 0 then (-rise0, -run0) else (rise0, run0)

/-- `toAngle` as a direction: `-32768` is clamped, `atan2(0, 0) = 0` -/
def toDir (rise run : Int) : Int × Int :=
  let r := if rise = -32768 then -32767 else rise
  let u := if run = -32768 then -32767 else run
  if r = 0 ∧ u = 0 then (0, 1) else (r, u)

/-- `fromAngle (toAngle rise run)` in exact arithmetic -/
def norm (rise run : Int) : Int × Int :=
  let d := toDir rise run
  fromDir d.1 d.2

/-- the tie class left out of the correspondence -/
def isTie (rise run : Int) : Bool := (toDir rise run).1 == 0 && (toDir rise run).2 < 0

end SfntV.Caret
