/-
C15 — `standardLigatures` (ligatures.go) and the layout pipeline `Layouter.Layout` (layout.go).
Core-only.  The GSUB/GPOS application engine is NOT modelled here (C07 does that): the pipeline takes
the two `Context.Apply` functions as abstract parameters.
-/
import SfntV.Model.LayoutFind
import SfntV.Model.LayoutKern
import SfntV.Generated.Layout

namespace SfntV.Layout

/-! ## standardLigatures -/

/-- `gtab.Ligature`: components after the first, and the replacement glyph -/
structure Lig where
  rest : List Nat
  out : Nat
deriving Repr, DecidableEq

/-- one round of the `ligLoop`: map all characters of the entry, give up if one is unmapped
(`gid == 0`); `gg[0]` is the ligature glyph, `gg[1]` the first component, `gg[2:]` the others -/
def ligEntry (cmap : Nat → Nat) (lig : List Nat) : Option (Nat × Lig) :=
  let gg := lig.map cmap
  if gg.any (· == 0) then none
  else
    match gg with
    | out :: first :: rest => some (first, ⟨rest, out⟩)
    | _ => none

/-- all entries that survive, in the order of the source list `all` -/
def ligEntries (cmap : Nat → Nat) : List (Nat × Lig) := Gen.stdLigatures.filterMap (ligEntry cmap)

/-- the `Gsub4_1` subtable: coverage = first glyphs in ascending order (`slices.Sort(keys)`), and per
first glyph the ligatures in the order they were appended -/
def ligTable (cmap : Nat → Nat) : List (Nat × List Lig) :=
  let es := ligEntries cmap
  (toSet (es.map (·.1))).map fun k => (k, (es.filter (·.1 == k)).map (·.2))

/-- `standardLigatures`: nil when nothing survives -/
def standardLigatures (cmap : Nat → Nat) : Option (List (Nat × List Lig)) :=
  if (ligEntries cmap).isEmpty then none else some (ligTable cmap)

/-- the language system / feature list synthesised around the lookup (regenerated from source) -/
def ligaLangSys : LangSys := ⟨Gen.ligaRequired, Gen.ligaOptional⟩
def ligaFeatures : List Feature := [⟨"liga", [0]⟩]
/-- the same for the GPOS table made from `kern` (read.go) -/
def kernLangSys : LangSys := ⟨Gen.kernRequired, Gen.kernOptional⟩
def kernFeatures : List Feature := [⟨"kern", [0]⟩]

/-! ## glyph buffer and pipeline -/

/-- first ligature of a group whose remaining components are the next glyphs -/
def ligMatch (group : List Lig) (next : List Nat) : Option Lig :=
  group.find? fun l => l.rest.isPrefixOf next

/-! ### SPEC of the ligature clause (independent of ligatures.go and of the order of its table) -/

/-- The standard f-ligatures: Unicode "Alphabetic Presentation Forms" U+FB00 LATIN SMALL LIGATURE FF,
U+FB01 FI, U+FB02 FL, U+FB03 FFI, U+FB04 FFL, each with the letters it stands for. -/
def specLigs : List (Nat × List Nat) :=
  [(0xFB00, [102, 102]), (0xFB01, [102, 105]), (0xFB02, [102, 108]),
   (0xFB03, [102, 102, 105]), (0xFB04, [102, 102, 108])]

/-- the ligatures the font contains: ligature character and all letters mapped; as (component glyphs,
ligature glyph) -/
def specCands (cmap : Nat → Nat) : List (List Nat × Nat) :=
  specLigs.filterMap fun (c, ls) =>
    if cmap c != 0 && ls.all (fun l => cmap l != 0) then some (ls.map cmap, cmap c) else none

/-- the candidate with the most components among those matching at the head of `gids` (the earlier one
on equal length) -/
def specBest (cands : List (List Nat × Nat)) (gids : List Nat) : Option (List Nat × Nat) :=
  (cands.filter fun c => c.1.isPrefixOf gids).foldl
    (fun best c => match best with
      | none => some c
      | some b => if b.1.length < c.1.length then some c else some b) none

/-- "Gets the standard f-ligatures it contains": scanning left to right, the LONGEST ligature whose
components are the next glyphs replaces them (texts concatenated); otherwise the glyph stays. -/
def specLigApply (cands : List (List Nat × Nat)) : Nat → List Glyph → List Glyph
  | 0, l => l
  | _, [] => []
  | fuel + 1, g :: r =>
    match specBest cands ((g :: r).map (·.gid)) with
    | none => g :: specLigApply cands fuel r
    | some c =>
      let k := c.1.length - 1
      ⟨c.2, g.text ++ (r.take k).flatMap (·.text), g.adv⟩ :: specLigApply cands fuel (r.drop k)

/-- `Gsub4_1.apply` along a sequence when no glyph is ignored (lookup flags 0): at each position the
first matching ligature of the covered glyph's group replaces the matched glyphs (text concatenated);
matching continues after the replacement. Fuel = length of the sequence. -/
def applyLig (table : List (Nat × List Lig)) : Nat → List Glyph → List Glyph
  | 0, l => l
  | _, [] => []
  | fuel + 1, g :: r =>
    match table.find? (·.1 == g.gid) with
    | none => g :: applyLig table fuel r
    | some grp =>
      match ligMatch grp.2 (r.map (·.gid)) with
      | none => g :: applyLig table fuel r
      | some l =>
        let k := l.rest.length
        ⟨l.out, g.text ++ (r.take k).flatMap (·.text), g.adv⟩ :: applyLig table fuel (r.drop k)

/-- `funit.Int16(font.GlyphWidth(gid))` (font.go, after the repair of #34): glyph indices the font
does not have get width 0 instead of an index panic; `ng` = number of width entries, `w` = the table -/
def glyphWidth (ng : Nat) (w : Nat → Int) (gid : Nat) : Int := if gid < ng then w gid else 0

/-- the loop `for i := range seq { if !font.Gdef.IsMark(gid) { seq[i].Advance = … } }` -/
def assignWidths (isMark : Nat → Bool) (width : Nat → Int) (seq : List Glyph) : List Glyph :=
  seq.map fun g => if isMark g.gid then g else { g with adv := width g.gid }

/-- `Layouter.Layout`.  `cmap` is `l.cmap.Lookup`, `gsub`/`gpos` are `Context.Apply` of the two
contexts (none = nil context), `isMark` is `font.Gdef.IsMark`, `width gid` is
`funit.Int16(font.GlyphWidth(gid))`. -/
def layout (cmap : Nat → Nat) (gsub gpos : Option (List Glyph → List Glyph)) (isMark : Nat → Bool)
    (width : Nat → Int) (s : List Nat) : List Glyph :=
  let seq0 : List Glyph := s.map fun r => ⟨cmap r, [r], 0⟩
  let seq1 := match gsub with
    | some f => f seq0
    | none => seq0
  let seq2 := assignWidths isMark width seq1
  match gpos with
  | some f => f seq2
  | none => seq2

end SfntV.Layout
