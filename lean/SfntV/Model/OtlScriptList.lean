/-
Model of `ScriptListInfo.encode` and `readScriptList` (/repo/opentype/gtab/scriptlist.go, as repaired
for C08: script-table and LangSys offsets above 0xFFFF are refused with a panic).

A Go `ScriptListInfo` is a map from BCP 47 language tags to feature sets; the encoder converts every
key with `bcp47ToOtf` to an OpenType (script, language system) tag pair and the reader converts back
with `otfToBCP47`.  The model works on the OpenType side of that conversion: an entry carries its
script tag (4 bytes) and language-system tag (4 bytes, or empty for the default language system).
That the two conversion functions are mutually inverse on the tags of the library's tables is
property C14 (`C14_tag_roundtrip_partial`) and is an assumption here; which tags `otfToBCP47`
accepts is regenerated from the source (`Gen.scriptBcp47Keys`, `Gen.langBcp47Keys`).
Core-only.
-/
import SfntV.Model.OtlBase
import SfntV.Generated.Otl

namespace SfntV.Otl.SL
open SfntV SfntV.Otl

structure Entry where
  script : Bytes
  lang : Bytes
  required : Nat
  optional : List Nat
deriving DecidableEq, Repr

/-- Go string comparison `a < b` on tags -/
def tagLt : Bytes → Bytes → Bool
  | [], [] => false
  | [], _ :: _ => true
  | _ :: _, [] => false
  | a :: as, b :: bs => a < b || (a == b && tagLt as bs)

def tagLe (a b : Bytes) : Bool := !tagLt b a

def dedup (l : List Bytes) : List Bytes :=
  l.foldl (fun acc x => if acc.contains x then acc else acc ++ [x]) []

/-- the scripts in the order of `sort.Slice(scriptList, …script <…)` -/
def scriptsOf (es : List Entry) : List Bytes := (dedup (es.map (·.script))).mergeSort tagLe

def langSysBytes (e : Entry) : Bytes :=
  wordsToBytes (0 :: e.required :: w16 e.optional.length :: e.optional)

def langSysLen (e : Entry) : Nat := 6 + 2 * e.optional.length

def pad4 (t : Bytes) : Bytes := (t ++ [0, 0, 0, 0]).take 4

structure ScriptPlan where
  script : Bytes
  dflt : Option Entry
  langs : List Entry      -- sorted by language-system tag

def planOf (es : List Entry) (s : Bytes) : ScriptPlan :=
  let group := es.filter (·.script == s)
  ⟨s, group.find? (·.lang.isEmpty),
   (group.filter (!·.lang.isEmpty)).mergeSort fun a b => tagLe a.lang b.lang⟩

def dfltLen (p : ScriptPlan) : Nat :=
  match p.dflt with
  | some d => langSysLen d
  | none => 0

def dfltBytes (p : ScriptPlan) : Bytes :=
  match p.dflt with
  | some d => langSysBytes d
  | none => []

/-- `defaultRecord.offs = uint16(pos)` (0 without a default language system) -/
def dfltOff (p : ScriptPlan) : Nat :=
  match p.dflt with
  | some _ => w16 (4 + 6 * p.langs.length)
  | none => 0

def planSize (p : ScriptPlan) : Nat :=
  4 + 6 * p.langs.length + dfltLen p + (p.langs.map langSysLen).sum

/-- offsets of the LangSys tables of the named language systems (with the refusal of the repair) -/
def langOffsets : List Entry → Nat → Outcome (List Nat)
  | [], _ => .ok []
  | e :: es, pos =>
    if pos > 0xFFFF then .panic "scriptListInfo too large"
    else match langOffsets es (pos + langSysLen e) with
      | .ok r => .ok (pos :: r)
      | o => o

def scriptTableBytes (p : ScriptPlan) : Outcome Bytes :=
  if p.langs.any (fun e => e.lang.length != 4) then .panic "invalid language"
  else
    match langOffsets p.langs (4 + 6 * p.langs.length + dfltLen p) with
    | .ok offs =>
      .ok (wordsToBytes [dfltOff p, w16 p.langs.length] ++
        (p.langs.zip offs).flatMap (fun q => q.1.lang ++ be16 q.2) ++
        dfltBytes p ++
        p.langs.flatMap langSysBytes)
    | .err e => .err e
    | .panic s => .panic s

/-- offsets of the script tables (with the refusal of the repair) -/
def scriptOffsets : List ScriptPlan → Nat → Outcome (List Nat)
  | [], _ => .ok []
  | p :: ps, total =>
    if total > 0xFFFF then .panic "scriptListInfo too large"
    else match scriptOffsets ps (total + planSize p) with
      | .ok r => .ok (total :: r)
      | o => o

def allTables : List ScriptPlan → Outcome Bytes
  | [] => .ok []
  | p :: ps =>
    match scriptTableBytes p with
    | .ok b =>
      match allTables ps with
      | .ok r => .ok (b ++ r)
      | o => o
    | o => o

/-- the layout: header, script records, script tables in the order of `plans` -/
def encodePlans (plans : List ScriptPlan) : Outcome Bytes :=
  match scriptOffsets plans (2 + 6 * plans.length) with
  | .ok offs =>
    match allTables plans with
    | .ok tb =>
      .ok (be16 (w16 plans.length) ++ (plans.zip offs).flatMap (fun q => pad4 q.1.script ++ be16 q.2) ++ tb)
    | .err e => .err e
    | .panic s => .panic s
  | .err e => .err e
  | .panic s => .panic s

/-- the scripts sorted by tag, each with its default and its sorted named language systems -/
def plansOf (es : List Entry) : List ScriptPlan := (scriptsOf es).map (planOf es)

/-- `ScriptListInfo.encode` for a non-nil map (entries in any order, distinct tag pairs) -/
def encode (es : List Entry) : Outcome Bytes := encodePlans (plansOf es)

/-! ### readScriptList -/

def u16b (b : Bytes) (p : Nat) : Outcome Nat :=
  match b[p]?, b[p + 1]? with
  | some x, some y => .ok (x.toNat * 256 + y.toNat)
  | _, _ => .err eIO

/-- a 6-byte record (tag, offset) at `p` -/
def rec6 (b : Bytes) (p : Nat) : Outcome (Bytes × Nat) :=
  if p + 6 ≤ b.length then
    match u16b b (p + 4) with
    | .ok o => .ok ((b.drop p).take 4, o)
    | .err e => .err e
    | .panic s => .panic s
  else .err eIO

def recs6 (b : Bytes) (p : Nat) : (n : Nat) → Outcome (List (Bytes × Nat))
  | 0 => .ok []
  | n + 1 =>
    match rec6 b p with
    | .ok r =>
      match recs6 b (p + 6) n with
      | .ok rs => .ok (r :: rs)
      | o => o
    | .err e => .err e
    | .panic s => .panic s

def wordsAt (b : Bytes) (p : Nat) : (n : Nat) → Outcome (List Nat)
  | 0 => .ok []
  | n + 1 =>
    match u16b b p with
    | .ok v =>
      match wordsAt b (p + 2) n with
      | .ok r => .ok (v :: r)
      | o => o
    | .err e => .err e
    | .panic s => .panic s

/-- `readLangSysTable` -/
def readLangSys (b : Bytes) (p : Nat) : Outcome (Nat × List Nat) :=
  match wordsAt b p 3 with
  | .ok [lookupOrder, required, cnt] =>
    if lookupOrder != 0 then .err eUnsupported
    else match wordsAt b (p + 6) cnt with
      | .ok idx => .ok (required, idx.map fun i => if i == 0xFFFF then 0 else i)
      | .err e => .err e
      | .panic s => .panic s
  | .ok _ => .err eIO
  | .err e => .err e
  | .panic s => .panic s

/-- `otfToBCP47` succeeds -/
def known (script lang : Bytes) : Bool :=
  Gen.scriptBcp47Keys.any (fun k => k.toUTF8.toList == script) &&
  (lang.isEmpty || Gen.langBcp47Keys.any (fun k => k.toUTF8.toList == lang))

def readLangs (b : Bytes) (script : Bytes) (pos : Nat) : List (Bytes × Nat) → Outcome (List Entry)
  | [] => .ok []
  | (lang, off) :: recs =>
    match readLangSys b (pos + off) with
    | .ok (req, opt) =>
      match readLangs b script pos recs with
      | .ok r => .ok (if known script lang then ⟨script, lang, req, opt⟩ :: r else r)
      | o => o
    | .err e => .err e
    | .panic s => .panic s

/-- `readScriptTable`: entries in the order in which they are stored into the Go map -/
def readScriptTable (size : Nat) (b : Bytes) (script : Bytes) (pos : Nat) : Outcome (List Entry) :=
  match wordsAt b pos 2 with
  | .ok [dOff, cnt] =>
    if dOff > 0 && dOff < (4 + 6 * cnt) % 65536 then .err eInvalid
    else if 8 + cnt * 12 > size then .err eInvalid
    else match recs6 b (pos + 4) cnt with
      | .ok recs =>
        let all := (if dOff != 0 then [(([] : Bytes), dOff)] else []) ++ recs
        readLangs b script pos (all.mergeSort fun a c => a.2 ≤ c.2)
      | .err e => .err e
      | .panic s => .panic s
  | .ok _ => .err eIO
  | .err e => .err e
  | .panic s => .panic s

def readScripts (size : Nat) (b : Bytes) : List (Bytes × Nat) → Outcome (List Entry)
  | [] => .ok []
  | (script, off) :: recs =>
    match readScriptTable size b script off with
    | .ok es =>
      match readScripts size b recs with
      | .ok r => .ok (es ++ r)
      | o => o
    | .err e => .err e
    | .panic s => .panic s

/-- `readScriptList` on the bytes `b` from the list position on; `size` is `p.Size()`, the size of
the whole table the list is part of -/
def readSized (size : Nat) (b : Bytes) : Outcome (List Entry) :=
  match u16b b 0 with
  | .ok cnt =>
    if 6 * cnt > size then .err eInvalid
    else match recs6 b 2 cnt with
      | .ok recs =>
        let sorted := recs.mergeSort fun a c => a.2 ≤ c.2
        if sorted.any (fun r => r.2 < 2 + 6 * recs.length) then .err eInvalid
        else readScripts size b sorted
      | .err e => .err e
      | .panic s => .panic s
  | .err e => .err e
  | .panic s => .panic s

/-- `readScriptList` at position 0 of a buffer that holds nothing else -/
def read (b : Bytes) : Outcome (List Entry) := readSized b.length b

end SfntV.Otl.SL
