/-
C14 — Mac Roman codec (mac/encoding.go) and the UTF-16BE codec of the name table
(name/name.go utf16Encode/utf16Decode over unicode/utf16).  Core-only.

Go strings in the domain are valid UTF-8, i.e. sequences of Unicode scalar values; a string
is modelled as the list of its runes (`[]rune(s)`), `string(rr)` as the identity on scalar
values and U+FFFD for anything else.
-/
import SfntV.Prelude.Bytes
import SfntV.Generated.Names

namespace SfntV.Names

/-- a Unicode scalar value (what a rune of a valid Go string is) -/
def isScalar (r : Nat) : Bool := r < 0xD800 || (0xE000 ≤ r && r < 0x110000)

/-- Go `string([]rune)` on one rune: invalid runes become U+FFFD -/
def fixRune (r : Nat) : Nat := if isScalar r then r else 0xFFFD

/-! ### Mac Roman -/

/-- `mac.DecodeOne` -/
def macDecodeOne (tbl : List Nat) (c : Nat) : Nat :=
  if c < 128 then c else tbl.getD (c - 128) 0

/-- `mac.Decode`: bytes to runes (then `string(rr)`) -/
def macDecodeWith (tbl : List Nat) (cc : List Nat) : List Nat :=
  cc.map fun c => fixRune (macDecodeOne tbl c)

/-- lookup in a Go map literal -/
def assocGet (m : List (Nat × Nat)) (k : Nat) : Option Nat :=
  match m with
  | [] => none
  | (a, b) :: rest => if a = k then some b else assocGet rest k

/-- one rune of `mac.Encode` -/
def macEncodeOneWith (enc : List (Nat × Nat)) (repl : Nat) (r : Nat) : Nat :=
  if r < 128 then r else
    match assocGet enc r with
    | some c => c
    | none => repl

def macEncodeWith (enc : List (Nat × Nat)) (repl : Nat) (rr : List Nat) : List Nat :=
  rr.map (macEncodeOneWith enc repl)

def macDecodeByte (c : Nat) : Nat := macDecodeOne Gen.macDec c
def macDecode (cc : List Nat) : List Nat := macDecodeWith Gen.macDec cc
def macEncodeOne (r : Nat) : Nat := macEncodeOneWith Gen.macEnc Gen.macReplacement r
def macEncode (rr : List Nat) : List Nat := macEncodeWith Gen.macEnc Gen.macReplacement rr

/-- the Mac Roman repertoire: runes that `mac.Encode` does not replace -/
def macRepresentable (r : Nat) : Bool := r < 128 || (assocGet Gen.macEnc r).isSome

/-! ### UTF-16 (unicode/utf16 re-implemented; compared by correspondence) -/

/-- `utf16.Encode` on one rune -/
def utf16EncodeRune (r : Nat) : List Nat :=
  if r < 0xD800 || (0xE000 ≤ r && r < 0x10000) then [r]
  else if 0x10000 ≤ r && r ≤ 0x10FFFF then
    let v := r - 0x10000
    [0xD800 + v / 1024 % 1024, 0xDC00 + v % 1024]
  else [0xFFFD]

/-- `utf16.Encode` -/
def utf16Units (rr : List Nat) : List Nat := rr.flatMap utf16EncodeRune

/-- `name.utf16Encode`: big-endian bytes of the UTF-16 units -/
def utf16Encode (rr : List Nat) : List Nat :=
  (utf16Units rr).flatMap fun u => [u / 256 % 256, u % 256]

/-- `utf16.Decode` -/
def utf16DecodeUnits : List Nat → List Nat
  | [] => []
  | [u] => [if u < 0xD800 || 0xE000 ≤ u then u else 0xFFFD]
  | u :: v :: rest =>
    if u < 0xD800 || 0xE000 ≤ u then u :: utf16DecodeUnits (v :: rest)
    else if u < 0xDC00 && 0xDC00 ≤ v && v < 0xE000 then
      ((u - 0xD800) * 1024 + (v - 0xDC00) + 0x10000) :: utf16DecodeUnits rest
    else 0xFFFD :: utf16DecodeUnits (v :: rest)

/-- the word loop of `name.utf16Decode` (a trailing odd byte is ignored) -/
def wordsOfBytes : List Nat → List Nat
  | a :: b :: rest => (a * 256 + b) :: wordsOfBytes rest
  | _ => []

/-- `name.utf16Decode` -/
def utf16Decode (buf : List Nat) : List Nat :=
  (utf16DecodeUnits (wordsOfBytes buf)).map fixRune

end SfntV.Names
