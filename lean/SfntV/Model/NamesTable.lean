/-
C14 — the "name" table (name/name.go: `Info.Encode`, `Decode`, `nameBuilder`; name/table.go:
`keys`/`get`/`set`; name/locale.go: `appleBCP`, `msBCP`).  Core-only.

`name.Info` (two Go maps tag -> *Table) is modelled by its *view*: the flat list of entries
(platform, tag, name id, string) that `(*Table).keys`/`get` report (non-empty strings only; a nil
or empty table contributes nothing — `Encode` cannot tell them apart).  Go's iteration over the
maps `appleBCP` / `msBCP` is an explicit order parameter (a permutation of the regenerated table).
-/
import SfntV.Model.NamesCodec
import SfntV.Prelude.Outcome
import SfntV.Model.NamesPost

namespace SfntV.Names

structure Entry where
  plat : Nat        -- 1 = Macintosh, 3 = Windows
  tag : String      -- BCP 47 key of the `Tables` map
  id : Nat          -- name id
  val : List Nat    -- the string, as runes
  deriving DecidableEq, Repr, Inhabited

structure Rec where
  pid : Nat
  eid : Nat
  lang : Nat
  nid : Nat
  off : Nat
  len : Nat
  deriving DecidableEq, Repr, Inhabited

/-- `nameBuilder`: `data` and the Go map `idx` (content -> offset) -/
structure Builder where
  data : List Nat
  idx : List (List Nat × Nat)

def idxGet : List (List Nat × Nat) → List Nat → Option Nat
  | [], _ => none
  | (k, v) :: rest, s => if k = s then some v else idxGet rest s

/-- `(*nameBuilder).Add`: offset and length are truncated to 16 bits -/
def Builder.add (b : Builder) (s : List Nat) : Builder × Nat × Nat :=
  match idxGet b.idx s with
  | some i => (b, i, s.length % 65536)
  | none =>
    let i := b.data.length % 65536
    (⟨b.data ++ s, (s, i) :: b.idx⟩, i, s.length % 65536)

def insertById (e : Nat × List Nat) : List (Nat × List Nat) → List (Nat × List Nat)
  | [] => [e]
  | x :: rest => if e.1 ≤ x.1 then e :: x :: rest else x :: insertById e rest

/-- `(*Table).keys` with `get`: the non-empty strings of one table, ascending name id -/
def tableView (info : List Entry) (plat : Nat) (tag : String) : List (Nat × List Nat) :=
  ((info.filter fun e => e.plat = plat ∧ e.tag = tag ∧ e.val ≠ []).map fun e => (e.id, e.val)).foldr
    insertById []

/-- inner loop of `Encode`: the records of one table under one language id -/
def addTable (pid eid lang : Nat) (enc : List Nat → List Nat) :
    List (Nat × List Nat) → Builder → Builder × List Rec
  | [], b => (b, [])
  | (nid, val) :: rest, b =>
    let r := b.add (enc val)
    let r2 := addTable pid eid lang enc rest r.1
    (r2.1, ⟨pid, eid, lang, nid % 65536, r.2.1, r.2.2⟩ :: r2.2)

/-- outer loop of `Encode` over one language map, in the given iteration order -/
def addLangs (pid eid : Nat) (enc : List Nat → List Nat) (info : List Entry) :
    List (Nat × String) → Builder → Builder × List Rec
  | [], b => (b, [])
  | (lang, tag) :: rest, b =>
    let r := addTable pid eid lang enc (tableView info pid tag) b
    let r2 := addLangs pid eid enc info rest r.1
    (r2.1, r.2 ++ r2.2)

/-- the comparison of `sort.Slice` in `Encode` -/
def recLe (a b : Rec) : Bool :=
  if a.pid ≠ b.pid then a.pid < b.pid
  else if a.eid ≠ b.eid then a.eid < b.eid
  else if a.lang ≠ b.lang then a.lang < b.lang
  else a.nid ≤ b.nid

def recBytes (r : Rec) : List Nat :=
  u16 r.pid ++ (u16 r.eid ++ (u16 r.lang ++ (u16 r.nid ++ (u16 r.len ++ u16 r.off))))

/-- records and string storage built by `Encode` before sorting -/
def nameBuild (macOrder winOrder : List (Nat × String)) (info : List Entry) (winEid : Nat) :
    Builder × List Rec :=
  let r1 := addLangs 1 0 macEncode info macOrder ⟨[], []⟩
  let r2 := addLangs 3 winEid utf16Encode info winOrder r1.1
  (r2.1, r1.2 ++ r2.2)

/-- `(*Info).Encode(windowsEncodingID)` -/
def nameEncodeWith (macOrder winOrder : List (Nat × String)) (info : List Entry) (winEid : Nat) : List Nat :=
  let r := nameBuild macOrder winOrder info winEid
  let recs := r.2.mergeSort recLe
  let n := recs.length
  [0, 0] ++ (u16 n ++ (u16 (6 + 12 * n) ++ (recs.flatMap recBytes ++ r.1.data)))

def insertLang (e : Nat × String) : List (Nat × String) → List (Nat × String)
  | [] => [e]
  | x :: rest => if e.1 ≤ x.1 then e :: x :: rest else x :: insertLang e rest

/-- `sortedLanguageIDs` (repaired `Encode`): the language map in increasing order of the ids -/
def sortLangs (tbl : List (Nat × String)) : List (Nat × String) := tbl.foldr insertLang []

/-- `(*Info).Encode` after the repair: the language ids are visited in increasing order -/
def nameEncode (info : List Entry) (winEid : Nat) : List Nat :=
  nameEncodeWith (sortLangs Gen.appleBCP) (sortLangs Gen.msBCP) info winEid

/-- Go map lookup `appleBCP[languageID]` ("" when absent) -/
def langGet : List (Nat × String) → Nat → String
  | [], _ => ""
  | (k, v) :: rest, l => if k = l then v else langGet rest l

/-- the 12-byte records, `n` of them -/
def parseRecs : Nat → List Nat → List Rec
  | n + 1, p0 :: p1 :: e0 :: e1 :: l0 :: l1 :: n0 :: n1 :: g0 :: g1 :: o0 :: o1 :: rest =>
    ⟨p0 * 256 + p1, e0 * 256 + e1, l0 * 256 + l1, n0 * 256 + n1, o0 * 256 + o1, g0 * 256 + g1⟩ ::
      parseRecs n rest
  | _, _ => []

/-- one iteration of `recLoop` in `Decode`: `none` = `errMalformedNames`, `some none` = the
record is skipped (`continue`), `some (some e)` = `t.set(nameID, val)` under key `e.tag` -/
def decodeRec (apple ms : List (Nat × String)) (data : List Nat) (so : Nat) (r : Rec) :
    Option (Option Entry) :=
  let key := if r.pid = 1 then langGet apple r.lang else if r.pid = 3 then langGet ms r.lang else ""
  if key = "" then some none
  else if so + r.off + r.len > data.length then none
  else
    let bytes := (data.drop (so + r.off)).take r.len
    let val :=
      if r.pid = 3 ∧ (r.eid = 1 ∨ r.eid = 10) then utf16Decode bytes
      else if r.pid = 1 ∧ r.eid = 0 then macDecode bytes
      else []
    if val = [] then some none
    else some (some ⟨r.pid, key, r.nid, val⟩)

/-- the record loop; the accumulator holds the `set` calls so far, newest first -/
def decodeLoop (apple ms : List (Nat × String)) (data : List Nat) (so : Nat) :
    List Rec → List Entry → Option (List Entry)
  | [], acc => some acc
  | r :: rest, acc =>
    match decodeRec apple ms data so r with
    | none => none
    | some none => decodeLoop apple ms data so rest acc
    | some (some e) => decodeLoop apple ms data so rest (e :: acc)

/-- `name.Decode`; result = the `set` calls, newest first (a later record for the same
platform/tag/name id overrides an earlier one) -/
def nameDecodeWith (apple ms : List (Nat × String)) (data : List Nat) : Option (List Entry) :=
  if data.length < 6 then none else
  let version := data.getD 0 0 * 256 + data.getD 1 0
  let numRec := data.getD 2 0 * 256 + data.getD 3 0
  let so := data.getD 4 0 * 256 + data.getD 5 0
  if version > 1 then none else
  let eoh := 6 + 12 * numRec
  if eoh > data.length then none else
  if version > 0 ∧ eoh + 2 > data.length then none else
  let eoh' := if version > 0 then eoh + 2 + (data.getD eoh 0 * 256 + data.getD (eoh + 1) 0) * 4 else eoh
  if so < eoh' ∨ so > data.length then none else
  decodeLoop apple ms data so (parseRecs numRec (data.drop 6)) []

def nameDecode (data : List Nat) : Option (List Entry) := nameDecodeWith Gen.appleBCP Gen.msBCP data

/-- the view `get`: the string stored for (platform, tag, name id), `[]` if none -/
def getVal : List Entry → Nat → String → Nat → List Nat
  | [], _, _, _ => []
  | e :: rest, p, t, i => if e.plat = p ∧ e.tag = t ∧ e.id = i then e.val else getVal rest p t i

/-! ### the refusals of `Encode` (repairs ac2ee73, 3d806bb) -/

/-- `(*nameBuilder).Add` does not panic: a string already stored is reused; a new string must
start at an offset ≤ 0xFFFF and be at most 0xFFFF bytes long -/
def Builder.addOk (b : Builder) (s : List Nat) : Bool :=
  match idxGet b.idx s with
  | some _ => true
  | none => decide (b.data.length ≤ 65535) && decide (s.length ≤ 65535)

def addTableOk (enc : List Nat → List Nat) : List (Nat × List Nat) → Builder → Bool
  | [], _ => true
  | (_, val) :: rest, b => b.addOk (enc val) && addTableOk enc rest (b.add (enc val)).1

def addLangsOk (pid eid : Nat) (enc : List Nat → List Nat) (info : List Entry) :
    List (Nat × String) → Builder → Bool
  | [], _ => true
  | (lang, tag) :: rest, b =>
    addTableOk enc (tableView info pid tag) b &&
      addLangsOk pid eid enc info rest (addTable pid eid lang enc (tableView info pid tag) b).1

/-- no call of `Add` panics while the records are built -/
def nameBuildOk (macOrder winOrder : List (Nat × String)) (info : List Entry) (winEid : Nat) : Bool :=
  addLangsOk 1 0 macEncode info macOrder ⟨[], []⟩ &&
    addLangsOk 3 winEid utf16Encode info winOrder (addLangs 1 0 macEncode info macOrder ⟨[], []⟩).1

/-- the table's capacity: every `Add` succeeds and the storage offset `6 + 12·records` is 16-bit -/
def nameFits (macOrder winOrder : List (Nat × String)) (info : List Entry) (winEid : Nat) : Bool :=
  nameBuildOk macOrder winOrder info winEid &&
    decide (6 + 12 * (nameBuild macOrder winOrder info winEid).2.length ≤ 65535)

/-- `(*Info).Encode` with its panics ("string storage too large", "too many name records"):
the bytes of `nameEncodeWith`, or a loud refusal -/
def nameEncodeCheckedWith (macOrder winOrder : List (Nat × String)) (info : List Entry) (winEid : Nat) :
    Outcome (List Nat) :=
  if nameFits macOrder winOrder info winEid = true then .ok (nameEncodeWith macOrder winOrder info winEid)
  else .panic "name.Encode"

def nameEncodeChecked (info : List Entry) (winEid : Nat) : Outcome (List Nat) :=
  nameEncodeCheckedWith (sortLangs Gen.appleBCP) (sortLangs Gen.msBCP) info winEid

end SfntV.Names
