/-
Models of GPOS value records and of the subtable codecs `Gpos1_1`, `Gpos1_2`, `Gpos2_1`
(/repo/opentype/gtab/valuerecord.go, gpos.go, as repaired for C08: `Gpos1_2.encode` refuses a
coverage offset above 0xFFFF and `Gpos2_1.encode` a pair-set offset above 0xFFFF, with a panic).
A `*GposValueRecord` is `none` (nil) or its eight 16-bit fields in field order
(XPlacement, YPlacement, XAdvance, YAdvance, and the four device offsets); the signed fields are
represented by their 16-bit two's complement value, which is what is written and read.
Core-only.
-/
import SfntV.Model.OtlCoverage

namespace SfntV.Otl.Gpos
open SfntV SfntV.Otl

abbrev VR := Option (List Nat)

def bit (n k : Nat) : Bool := n / 2 ^ k % 2 == 1

def field (vr : VR) (k : Nat) : Nat :=
  match vr with
  | some fs => fs.getD k 0
  | none => 0

/-- `getFormat` -/
def getFormat (vr : VR) : Nat :=
  match vr with
  | none => 0
  | some _ =>
    let f := ((List.range 8).map fun k => if field vr k != 0 then 2 ^ k else 0).sum
    if f == 0 then 4 else f

def popcount16 (n : Nat) : Nat := ((List.range 16).filter (bit n)).length

/-- `encodeLen(format)`: `2 * bits.OnesCount16(format)` -/
def vrLen (fmt : Nat) : Nat := 2 * popcount16 fmt

/-- `encode(format)`: the fields selected by the low eight bits of `format`
(a nil record with a non-zero format is written as zeros) -/
def vrWords (vr : VR) (fmt : Nat) : List Nat :=
  (List.range 8).filterMap fun k => if bit fmt k then some (field vr k) else none

/-- `readValueRecord`: consumes one word per set bit among the low eight bits; `rest` is what
follows.  `none` result = nil record (format 0). -/
def vrReadFields (fmt : Nat) : (k : Nat) → (fuel : Nat) → List Nat → Outcome (List Nat × List Nat)
  | _, 0, ws => .ok ([], ws)
  | k, fuel + 1, ws =>
    if bit fmt k then
      match ws with
      | [] => .err eIO
      | w :: rest =>
        match vrReadFields fmt (k + 1) fuel rest with
        | .ok (fs, r) => .ok (w :: fs, r)
        | o => o
    else
      match vrReadFields fmt (k + 1) fuel ws with
      | .ok (fs, r) => .ok (0 :: fs, r)
      | o => o

def vrRead (fmt : Nat) (ws : List Nat) : Outcome (VR × List Nat) :=
  if fmt == 0 then .ok (none, ws)
  else match vrReadFields fmt 0 8 ws with
    | .ok (fs, r) => .ok (some fs, r)
    | .err e => .err e
    | .panic s => .panic s

/-! ### GPOS 1.1 — `Gpos1_1{Cov coverage.Table; Adjust *GposValueRecord}` -/

def encodeLen11 (rev : List Nat) (vr : VR) : Outcome Nat :=
  match Cov.encodeLen rev with
  | .ok n => .ok (6 + vrLen (getFormat vr) + n)
  | .err e => .err e
  | .panic s => .panic s

def encode11 (rev : List Nat) (vr : VR) : Outcome Bytes :=
  let fmt := getFormat vr
  match Cov.encode rev with
  | .ok c => .ok (wordsToBytes ([1, w16 (6 + vrLen fmt), fmt] ++ vrWords vr fmt) ++ c)
  | .err e => .err e
  | .panic s => .panic s

def read11 (b : Bytes) : Outcome (List (Nat × Nat) × VR) :=
  match bytesToWords b with
  | _ :: covOff :: fmt :: rest =>
    match vrRead fmt rest with
    | .ok (vr, _) =>
      match Cov.read (b.drop covOff) with
      | .ok cov => .ok (cov, vr)
      | .err e => .err e
      | .panic s => .panic s
    | .err e => .err e
    | .panic s => .panic s
  | _ => .err eIO

/-! ### GPOS 1.2 — `Gpos1_2{Cov coverage.Table; Adjust []*GposValueRecord}` -/

def orFormat (vrs : List VR) : Nat :=
  ((List.range 8).map fun k => if vrs.any (fun vr => bit (getFormat vr) k) then 2 ^ k else 0).sum

def encodeLen12 (rev : List Nat) (vrs : List VR) : Outcome Nat :=
  match Cov.encodeLen rev with
  | .ok n => .ok (8 + vrLen (orFormat vrs) * vrs.length + n)
  | .err e => .err e
  | .panic s => .panic s

def encode12 (rev : List Nat) (vrs : List VR) : Outcome Bytes :=
  let fmt := orFormat vrs
  let covOffs := 8 + vrLen fmt * vrs.length
  match Cov.encodeLen rev with          -- `total += l.Cov.EncodeLen()` comes first
  | .ok _ =>
    if covOffs > 0xFFFF then .panic "coverage offset overflow"
    else match Cov.encode rev with
      | .ok c => .ok (wordsToBytes ([2, w16 covOffs, fmt, w16 vrs.length] ++
          vrs.flatMap (fun vr => vrWords vr fmt)) ++ c)
      | .err e => .err e
      | .panic s => .panic s
  | .err e => .err e
  | .panic s => .panic s

def vrReadN (fmt : Nat) : (n : Nat) → List Nat → Outcome (List VR × List Nat)
  | 0, ws => .ok ([], ws)
  | n + 1, ws =>
    match vrRead fmt ws with
    | .ok (vr, rest) =>
      match vrReadN fmt n rest with
      | .ok (vrs, r) => .ok (vr :: vrs, r)
      | o => o
    | .err e => .err e
    | .panic s => .panic s

/-- `if len(xs) > len(cov) { xs = xs[:len(cov)] } else if len(xs) < len(cov) { cov.Prune(len(xs)) }` -/
def prune {α} (cov : List (Nat × Nat)) (xs : List α) : List (Nat × Nat) × List α :=
  if xs.length > cov.length then (cov, xs.take cov.length)
  else if xs.length < cov.length then (cov.filter (fun p => p.2 < xs.length), xs)
  else (cov, xs)

def read12 (b : Bytes) : Outcome (List (Nat × Nat) × List VR) :=
  match bytesToWords b with
  | _ :: covOff :: fmt :: n :: rest =>
    match vrReadN fmt n rest with
    | .ok (vrs, _) =>
      match Cov.read (b.drop covOff) with
      | .ok cov => .ok (prune cov vrs)
      | .err e => .err e
      | .panic s => .panic s
    | .err e => .err e
    | .panic s => .panic s
  | _ => .err eIO

/-! ### GPOS 2.1 — `Gpos2_1 map[glyph.Pair]*PairAdjust`, given in the order `CovAndAdjust` and the
sorting of the second glyphs establish: first glyphs increasing, per first glyph the second glyphs
increasing, each with its two value records. -/

abbrev PairSet := List (Nat × VR × VR)

def orFormat1 (sets : List PairSet) : Nat := orFormat (sets.flatMap fun s => s.map (·.2.1))
def orFormat2 (sets : List PairSet) : Nat := orFormat (sets.flatMap fun s => s.map (·.2.2))

def pairSetWords (f1 f2 : Nat) (s : PairSet) : List Nat :=
  w16 s.length :: s.flatMap fun p => p.1 :: (vrWords p.2.1 f1 ++ vrWords p.2.2 f2)

def pairSetLen (f1 f2 : Nat) (s : PairSet) : Nat := 2 + s.length * (2 + vrLen f1 + vrLen f2)

/-- offsets with the refusal added by the repair -/
def pairOffsets (f1 f2 : Nat) : List PairSet → Nat → Outcome (List Nat)
  | [], _ => .ok []
  | s :: ss, total =>
    if total > 0xFFFF then .panic "pair set offset overflow"
    else match pairOffsets f1 f2 ss (total + pairSetLen f1 f2 s) with
      | .ok r => .ok (total :: r)
      | o => o

def encodeLen21 (firsts : List Nat) (sets : List PairSet) : Outcome Nat :=
  match Cov.encodeLen firsts with
  | .ok n => .ok (10 + 2 * sets.length + n +
      (sets.map (pairSetLen (orFormat1 sets) (orFormat2 sets))).sum)
  | .err e => .err e
  | .panic s => .panic s

def encode21 (firsts : List Nat) (sets : List PairSet) : Outcome Bytes :=
  let f1 := orFormat1 sets
  let f2 := orFormat2 sets
  let covOffs := 10 + 2 * sets.length
  match Cov.encodeLen firsts, Cov.encode firsts with
  | .ok n, .ok c =>
    match pairOffsets f1 f2 sets (covOffs + n) with
    | .ok offs =>
      .ok (wordsToBytes ([1, w16 covOffs, f1, f2, w16 sets.length] ++ offs) ++ c ++
        wordsToBytes (sets.flatMap (pairSetWords f1 f2)))
    | .err e => .err e
    | .panic s => .panic s
  | _, _ => .panic "invalid coverage table"

/-- one PairSet: (second glyph, first record, second record) in reading order -/
def readPairs (f1 f2 : Nat) : (n : Nat) → List Nat → Outcome PairSet
  | 0, _ => .ok []
  | _ + 1, [] => .err eIO
  | n + 1, g :: ws =>
    match vrRead f1 ws with
    | .ok (v1, r1) =>
      match vrRead f2 r1 with
      | .ok (v2, r2) =>
        match readPairs f1 f2 n r2 with
        | .ok ps => .ok ((g, v1, v2) :: ps)
        | o => o
      | .err e => .err e
      | .panic s => .panic s
    | .err e => .err e
    | .panic s => .panic s

def readPairSets (b : Bytes) (f1 f2 : Nat) : List Nat → Outcome (List PairSet)
  | [] => .ok []
  | off :: offs =>
    match bytesToWords (b.drop off) with
    | [] => .err eIO
    | n :: ws =>
      match readPairs f1 f2 n ws with
      | .ok ps =>
        match readPairSets b f1 f2 offs with
        | .ok r => .ok (ps :: r)
        | o => o
      | .err e => .err e
      | .panic s => .panic s

/-- `readGpos2_1`: coverage entries and the pair sets in reading order (the Go code then merges
them into one map, later entries overwriting earlier ones) -/
def read21 (b : Bytes) : Outcome (List (Nat × Nat) × List PairSet) :=
  match bytesToWords b with
  | _ :: covOff :: f1 :: f2 :: n :: rest =>
    if rest.length < n then .err eIO
    else match Cov.read (b.drop covOff) with
      | .ok cov =>
        let offs := rest.take n
        let pr : List (Nat × Nat) × List Nat :=
          if offs.length > cov.length then (cov, offs.take cov.length)
          else if offs.length < cov.length then (cov.filter (fun p => p.2 < offs.length), offs)
          else (cov, offs)
        match readPairSets b f1 f2 pr.2 with
        | .ok sets => .ok (pr.1, sets)
        | .err e => .err e
        | .panic s => .panic s
      | .err e => .err e
      | .panic s => .panic s
  | _ => .err eIO

inductive Sub where
  | s11 (cov : List (Nat × Nat)) (vr : VR)
  | s12 (cov : List (Nat × Nat)) (vrs : List VR)
  | s21 (cov : List (Nat × Nat)) (sets : List PairSet)

/-- `readGposSubtable` for lookup types 1 and 2 (format 2.2 is not modelled: the harness does not
generate it) -/
def readSubtable (tp : Nat) (b : Bytes) : Outcome Sub :=
  match bytesToWords b with
  | [] => .err eIO
  | fmt :: _ =>
    if tp == 1 && fmt == 1 then
      match read11 b with
      | .ok r => .ok (.s11 r.1 r.2)
      | .err e => .err e
      | .panic s => .panic s
    else if tp == 1 && fmt == 2 then
      match read12 b with
      | .ok r => .ok (.s12 r.1 r.2)
      | .err e => .err e
      | .panic s => .panic s
    else if tp == 2 && fmt == 1 then
      match read21 b with
      | .ok r => .ok (.s21 r.1 r.2)
      | .err e => .err e
      | .panic s => .panic s
    else .err eInvalid

end SfntV.Otl.Gpos
