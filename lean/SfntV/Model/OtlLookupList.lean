/-
Model of `LookupList.encode` and `tryReorder` (/repo/opentype/gtab/lookup.go, as repaired for C08:
a subtable offset above 0xFFFF and an undeterminable extension lookup type are refused with a
panic), with subtables abstracted to opaque byte strings (`encodeLen = |encode|`, which is what the
per-subtable theorems `C08_st_len_X` state); and a specification reader for the OpenType
"Lookup List table" / "Lookup table" / extension subtables.
`uint32` wrap-around of sizes is not modelled (total size < 2^32 is part of the domain).
Core-only.
-/
import SfntV.Model.OtlBase
import SfntV.Generated.Otl

namespace SfntV.Otl.LL
open SfntV SfntV.Otl

/-- kind of a subtable, as seen by the type switch in `encode`: 0 = neither (contextual lookups,
usable in both tables), 1 = GSUB-only type, 2 = GPOS-only type -/
structure Sub where
  kind : Nat
  bytes : Bytes

structure Lookup where
  type : Nat
  flags : Nat
  mfs : Nat
  subs : List Sub

inductive Code where
  | header
  | table (i : Nat)
  | sub (i j : Nat)
  | ext (i j : Nat)
deriving DecidableEq, Repr

structure Chunk where
  code : Code
  size : Nat

/-- `LookupFlags&UseMarkFilteringSet != 0` (the flag is a single bit, regenerated from the source) -/
def useMFS (l : Lookup) : Bool := l.flags / Gen.UseMarkFilteringSet % 2 == 1

def hdrLen (l : Lookup) : Nat := 6 + 2 * l.subs.length + (if useMFS l then 2 else 0)

/-- `findTypeLoop` -/
def extLookupType (ll : List Lookup) : Nat :=
  match (ll.flatMap (·.subs)).find? (·.kind != 0) with
  | some s => if s.kind == 1 then Gen.gsubExtensionLookupType else Gen.gposExtensionLookupType
  | none => 0

def subChunks (i : Nat) : List Sub → Nat → List Chunk
  | [], _ => []
  | s :: ss, j => ⟨.sub i j, s.bytes.length⟩ :: subChunks i ss (j + 1)

/-- the chunks of lookup `i`: its header and its subtables -/
def lookupChunks (i : Nat) (l : Lookup) : List Chunk :=
  ⟨.table i, hdrLen l⟩ :: subChunks i l.subs 0

def tableChunks : List Lookup → Nat → List Chunk
  | [], _ => []
  | l :: ls, i => lookupChunks i l ++ tableChunks ls (i + 1)

def chunksOf (ll : List Lookup) : List Chunk :=
  ⟨.header, 2 + 2 * ll.length⟩ :: tableChunks ll 0

def Code.isTable : Code → Bool
  | .table _ => true
  | _ => false

/-- table index of a code (`code & chunkTableMask`; 0 for the header) -/
def Code.tIdx : Code → Nat
  | .header => 0
  | .table i => i
  | .sub i _ => i
  | .ext i _ => i

/-- the `isTooLarge` scan -/
def tooLarge : List Chunk → Nat → Bool
  | [], _ => false
  | c :: cs, total => if c.code.isTable && total > 0xFFFF then true else tooLarge cs (total + c.size)

def totalSize (cs : List Chunk) : Nat := (cs.map (·.size)).sum

/-- `lookupSize[tCode]` -/
def lookupSize (cs : List Chunk) (t : Nat) : Nat :=
  totalSize (cs.filter fun c => c.code != .header && c.code.tIdx == t)

/-- the replacement loop of `tryReorder`, walking the lookups from the second largest down -/
def replLoop (size newSize : Nat → Nat) : List Nat → Nat → List Nat → List Nat × Nat
  | [], lastPos, rep => (rep, lastPos)
  | t :: ts, lastPos, rep =>
    if lastPos > 0xFFFF then
      if newSize t < size t then replLoop size newSize ts (lastPos - (size t - newSize t)) (t :: rep)
      else replLoop size newSize ts lastPos rep
    else (rep, lastPos)

/-- the redistribution loop of `tryReorder`: (res, moved, ext).  (The header chunk is tested first
in the Go code, so its table index 0 is never compared with `biggestLookup`.) -/
def distribute (biggest : Nat) (rep : List Nat) :
    List Chunk → List Chunk × List Chunk × List Chunk
  | [] => ([], [], [])
  | c :: cs =>
    let r := distribute biggest rep cs
    match c.code with
    | .header => (c :: r.1, r.2.1, r.2.2)
    | .table i =>
      if i == biggest then (r.1, c :: r.2.1, r.2.2) else (c :: r.1, r.2.1, r.2.2)
    | .sub i j =>
      if i == biggest then (r.1, c :: r.2.1, r.2.2)
      else if rep.contains i then (⟨.ext i j, 8⟩ :: r.1, r.2.1, c :: r.2.2)
      else (c :: r.1, r.2.1, r.2.2)
    | .ext i _ =>
      if i == biggest then (r.1, c :: r.2.1, r.2.2) else (c :: r.1, r.2.1, r.2.2)

/-- `tryReorder` -/
def tryReorder (ll : List Lookup) (chunks : List Chunk) : Outcome (List Chunk) :=
  let total := totalSize chunks
  let sizes : List Nat := (List.range ll.length).map (lookupSize chunks)
  let size (t : Nat) : Nat := sizes.getD t 0
  let newSize (t : Nat) : Nat :=
    match ll[t]? with
    | some l => hdrLen l + 8 * l.subs.length
    | none => 0
  -- sort.SliceStable by lookupSize, ascending
  let sorted := (List.range ll.length).mergeSort (fun a b => size a ≤ size b)
  match sorted.reverse with
  | [] => .panic "index out of range"      -- unreachable: tooLarge implies a lookup exists
  | biggest :: others =>
    let r := replLoop size newSize others (total - size biggest) []
    if r.2 > 0xFFFF then .panic "too much data for lookup list table"
    else
      let d := distribute biggest r.1 chunks
      .ok (d.1 ++ d.2.1 ++ d.2.2)

/-- `chunkPos` -/
def layout : List Chunk → Nat → List (Code × Nat)
  | [], _ => []
  | c :: cs, total => (c.code, total) :: layout cs (total + c.size)

def pos? (lay : List (Code × Nat)) (c : Code) : Option Nat :=
  (lay.find? (·.1 == c)).map (·.2)

def pos (lay : List (Code × Nat)) (c : Code) : Nat := (pos? lay c).getD 0

/-- `subtablePos, replaced := chunkPos[chunkExtReplace|tCode|sCode]; if !replaced { … }` -/
def subPos (lay : List (Code × Nat)) (i j : Nat) : Nat :=
  match pos? lay (.ext i j) with
  | some p => p
  | none => pos lay (.sub i j)

/-- subtable offsets of lookup `i` (with the refusal added by the repair) -/
def subOffsets (lay : List (Code × Nat)) (i base : Nat) : (n : Nat) → (j : Nat) → Outcome (List Nat)
  | 0, _ => .ok []
  | n + 1, j =>
    if subPos lay i j - base > 0xFFFF then .panic "too much data for lookup list table"
    else match subOffsets lay i base n (j + 1) with
      | .ok r => .ok ((subPos lay i j - base) :: r)
      | o => o

/-- the bytes appended for one chunk -/
def render (ll : List Lookup) (ext : Nat) (lay : List (Code × Nat)) : Code → Outcome Bytes
  | .header =>
    .ok (wordsToBytes (w16 ll.length :: (List.range ll.length).map fun i => w16 (pos lay (.table i))))
  | .table i =>
    match ll[i]? with
    | none => .panic "index out of range"
    | some l =>
      let replaced := (pos? lay (.ext i 0)).isSome
      if replaced && ext == 0 then .panic "cannot determine the extension lookup type"
      else
        let tp := if replaced then ext else l.type
        match subOffsets lay i (pos lay (.table i)) l.subs.length 0 with
        | .ok offs =>
          .ok (wordsToBytes ([tp, l.flags, w16 l.subs.length] ++ offs ++
            (if useMFS l then [l.mfs] else [])))
        | .err e => .err e
        | .panic s => .panic s
  | .ext i j =>
    match ll[i]? with
    | none => .panic "index out of range"
    | some l =>
      let d := pos lay (.sub i j) - pos lay (.ext i j)
      .ok (wordsToBytes [1, l.type, w16 (d / 65536), w16 d])
  | .sub i j =>
    match ll[i]? with
    | none => .panic "index out of range"
    | some l =>
      match l.subs[j]? with
      | none => .panic "index out of range"
      | some s => .ok s.bytes

def renderAll (ll : List Lookup) (ext : Nat) (lay : List (Code × Nat)) : List Chunk → Outcome Bytes
  | [] => .ok []
  | c :: cs =>
    match render ll ext lay c.code with
    | .ok b =>
      match renderAll ll ext lay cs with
      | .ok r => .ok (b ++ r)
      | o => o
    | o => o

/-- `LookupList.encode` for a non-nil list -/
def encode (ll : List Lookup) : Outcome Bytes :=
  if ll.length ≥ 16384 then .panic "too many lookup tables"
  else if ll.any (fun l => l.subs.length ≥ 16384) then .panic "too many subtables"
  else
    let chunks := chunksOf ll
    let chunks' : Outcome (List Chunk) :=
      if tooLarge chunks 0 then tryReorder ll chunks else .ok chunks
    match chunks' with
    | .ok cs => renderAll ll (extLookupType ll) (layout cs 0) cs
    | .err e => .err e
    | .panic s => .panic s

/-! ### Specification reader

OpenType chapter 2: "LookupList table: lookupCount, lookupOffsets[lookupCount] — offsets to Lookup
tables, from beginning of LookupList."  "Lookup table: lookupType, lookupFlag, subTableCount,
subtableOffsets[subTableCount] — offsets to lookup subtables, from beginning of Lookup table;
markFilteringSet — index into GDEF mark glyph sets structure; this field is only present if the
USE_MARK_FILTERING_SET lookup flag (0x0010) is set."
GSUB type 7 / GPOS type 9: "Extension subtable format 1: format = 1, extensionLookupType,
extensionOffset (Offset32) — offset to the extension subtable, relative to the start of the
extension subtable record"; all subtables of an extension lookup have the same
extensionLookupType.

The reader returns, per lookup, the effective type, the flags, the mark filtering set (if
present) and the absolute start positions of the (extension-resolved) subtables. -/

def u16at (b : Bytes) (p : Nat) : Option Nat :=
  match b[p]?, b[p + 1]? with
  | some x, some y => some (x.toNat * 256 + y.toNat)
  | _, _ => none

structure SpecLookup where
  type : Nat
  flags : Nat
  mfs : Option Nat
  subPos : List Nat
deriving DecidableEq, Repr

/-- `n` consecutive 16-bit words starting at byte position `p` -/
def u16s (b : Bytes) (p n : Nat) : Option (List Nat) :=
  (List.range n).mapM fun j => u16at b (p + 2 * j)

/-- an extension record at `p`: (extensionLookupType, absolute position of the extension subtable) -/
def specExtRec (b : Bytes) (p : Nat) : Option (Nat × Nat) :=
  match u16at b p, u16at b (p + 2), u16at b (p + 4), u16at b (p + 6) with
  | some fmt, some et, some hi, some lo => if fmt == 1 then some (et, p + (hi * 65536 + lo)) else none
  | _, _, _, _ => none

/-- after the fixed fields of a Lookup table have been read: resolve extension records -/
def specFinish (b : Bytes) (extType lp tp flags : Nat) (mfs : Option Nat) (offs : List Nat) :
    Option SpecLookup :=
  if tp == extType then
    match offs.mapM (fun o => specExtRec b (lp + o)) with
    | some [] => some ⟨tp, flags, mfs, []⟩
    | some ((et, p) :: recs) =>
      if ((et, p) :: recs).all (·.1 == et) && et != extType then
        some ⟨et, flags, mfs, ((et, p) :: recs).map (·.2)⟩
      else none
    | none => none
  else some ⟨tp, flags, mfs, offs.map (lp + ·)⟩

def specLookup (b : Bytes) (extType : Nat) (lp : Nat) : Option SpecLookup :=
  match u16at b lp, u16at b (lp + 2), u16at b (lp + 4) with
  | some tp, some flags, some cnt =>
    match u16s b (lp + 6) cnt,
        (if flags / 16 % 2 == 1 /- 0x0010 -/ then (u16at b (lp + 6 + 2 * cnt)).map some else some none) with
    | some offs, some mfs => specFinish b extType lp tp flags mfs offs
    | _, _ => none
  | _, _, _ => none

def specRead (b : Bytes) (extType : Nat) : Option (List SpecLookup) :=
  match u16at b 0 with
  | some cnt =>
    match u16s b 2 cnt with
    | some offs => offs.mapM (specLookup b extType)
    | none => none
  | none => none

/-- what a lookup is expected to read back as -/
def expected (l : Lookup) : Nat × Nat × Option Nat := (l.type, l.flags, if useMFS l then some l.mfs else none)

/-- the direct predicate: the spec reader recovers every (type, flags, mark filtering set) and every
subtable blob, byte for byte, at the position the offsets lead to -/
def recovers (b : Bytes) (extType : Nat) (ll : List Lookup) : Bool :=
  match specRead b extType with
  | none => false
  | some sl =>
    sl.length == ll.length &&
    (List.range ll.length).all fun i =>
      match sl[i]?, ll[i]? with
      | some s, some l =>
        (s.type, s.flags, s.mfs) == expected l &&
        s.subPos.length == l.subs.length &&
        (List.range l.subs.length).all fun j =>
          match s.subPos[j]?, l.subs[j]? with
          | some p, some st => (b.drop p).take st.bytes.length == st.bytes
          | _, _ => false
      | _, _ => false

/-! ### Model of `readLookupList` (the Go reader), with the subtable reader of the verification hook:
an extension record (lookup type `extType`, format 1) is decoded by `readExtensionSubtable`, every
other subtable is represented by the position it would be read from.  Correspondence only
(stream `otl.ll.read`); the theorems use the specification reader above. -/

def rdAt (b : Bytes) (p : Nat) : Outcome Nat :=
  match u16at b p with
  | some v => .ok v
  | none => .err eIO

def rdAtN (b : Bytes) (p : Nat) : (n : Nat) → Outcome (List Nat)
  | 0 => .ok []
  | n + 1 =>
    match rdAt b p with
    | .ok v =>
      match rdAtN b (p + 2) n with
      | .ok r => .ok (v :: r)
      | o => o
    | .err e => .err e
    | .panic s => .panic s

/-- the subtable reader: `inl (type, offset)` for an extension record (lookup type `extType`,
format 1, `readExtensionSubtable`), otherwise `inr` of what `leaf type position` decodes there -/
def srWith {σ : Type} (leaf : Nat → Nat → Outcome σ) (b : Bytes) (extType tp p : Nat) :
    Outcome (Sum (Nat × Nat) σ) :=
  if tp == extType then
    match rdAt b p with
    | .ok fmt =>
      if fmt != 1 then .err eInvalid
      else match rdAtN b (p + 2) 3 with
        | .ok [et, hi, lo] => .ok (.inl (et, hi * 65536 + lo))
        | .ok _ => .err eIO
        | .err e => .err e
        | .panic s => .panic s
    | .err e => .err e
    | .panic s => .panic s
  else
    match leaf tp p with
    | .ok x => .ok (.inr x)
    | .err e => .err e
    | .panic s => .panic s

def srAll {σ : Type} (leaf : Nat → Nat → Outcome σ) (b : Bytes) (extType tp lp : Nat) :
    List Nat → Outcome (List (Sum (Nat × Nat) σ))
  | [] => .ok []
  | o :: os =>
    match srWith leaf b extType tp (lp + o) with
    | .ok x =>
      match srAll leaf b extType tp lp os with
      | .ok xs => .ok (x :: xs)
      | o' => o'
    | .err e => .err e
    | .panic s => .panic s

/-- the second pass over an extension lookup: every record must be an extension record of type
`tp`; its target is then decoded -/
def resolveExt {σ : Type} (leaf : Nat → Nat → Outcome σ) (lp tp : Nat) :
    List Nat → List (Sum (Nat × Nat) σ) → Outcome (List σ)
  | o :: os, .inl (et, eo) :: xs =>
    if et != tp then .err eInvalid
    else match leaf tp (lp + o + eo) with
      | .ok x =>
        match resolveExt leaf lp tp os xs with
        | .ok r => .ok (x :: r)
        | o' => o'
      | .err e => .err e
      | .panic s => .panic s
  | _ :: _, .inr _ :: _ => .err eInvalid
  | _, _ => .ok []

structure ReadLookup (σ : Type) where
  type : Nat
  flags : Nat
  mfs : Nat
  subs : List σ

/-- the decoded subtables of a lookup that is not resolved through extension records -/
def inrOnly {σ : Type} (subs : List (Sum (Nat × Nat) σ)) : List σ :=
  subs.filterMap fun x => match x with
    | .inr p => some p
    | .inl _ => none

/-- after the first pass over the subtables of a lookup: if the first one is an extension record, all
must be, with one extension lookup type different from the lookup's own type (second pass) -/
def finishLookup {σ : Type} (leaf : Nat → Nat → Outcome σ) (lp tp flags mfs : Nat) (offs : List Nat)
    (subs : List (Sum (Nat × Nat) σ)) : Outcome (ReadLookup σ) :=
  match subs with
  | .inl (et, _) :: _ =>
    if et == tp then .err eInvalid
    else match resolveExt leaf lp et offs subs with
      | .ok ps => .ok ⟨et, flags, mfs, ps⟩
      | .err e => .err e
      | .panic s => .panic s
  | _ => .ok ⟨tp, flags, mfs, inrOnly subs⟩

def readLookups {σ : Type} (leaf : Nat → Nat → Outcome σ) (b : Bytes) (extType : Nat) :
    List Nat → (numL numS : Nat) → Outcome (List (ReadLookup σ))
  | [], _, _ => .ok []
  | lp :: lps, numL, numS =>
    match rdAtN b lp 3 with
    | .ok [tp, flags, cnt] =>
      if numL + 1 + (numS + cnt) > 6000 then .err eInvalid
      else match rdAtN b (lp + 6) cnt with
        | .ok offs =>
          let mfsR : Outcome Nat := if flags / 16 % 2 == 1 then rdAt b (lp + 6 + 2 * cnt) else .ok 0
          match mfsR with
          | .ok mfs =>
            match srAll leaf b extType tp lp offs with
            | .ok subs =>
              match finishLookup leaf lp tp flags mfs offs subs with
              | .ok l =>
                match readLookups leaf b extType lps (numL + 1) (numS + cnt) with
                | .ok ls => .ok (l :: ls)
                | o => o
              | .err e => .err e
              | .panic s => .panic s
            | .err e => .err e
            | .panic s => .panic s
          | .err e => .err e
          | .panic s => .panic s
        | .err e => .err e
        | .panic s => .panic s
    | .ok _ => .err eIO
    | .err e => .err e
    | .panic s => .panic s

/-- `readLookupList` on the bytes from the list position on, with `leaf type position` as the
reader of non-extension subtables -/
def readLLWith {σ : Type} (leaf : Nat → Nat → Outcome σ) (b : Bytes) (extType : Nat) :
    Outcome (List (ReadLookup σ)) :=
  match rdAt b 0 with
  | .ok cnt =>
    match rdAtN b 2 cnt with
    | .ok lps => readLookups leaf b extType lps 0 0
    | .err e => .err e
    | .panic s => .panic s
  | .err e => .err e
  | .panic s => .panic s

/-- with the verification hook's subtable reader: a subtable is the position it would be read from -/
def readLL (b : Bytes) (extType : Nat) : Outcome (List (ReadLookup Nat)) :=
  readLLWith (fun _ p => .ok p) b extType

end SfntV.Otl.LL
