/-
Model of `FeatureListInfo.encode` and `readFeatureList` (/repo/opentype/gtab/featurelist.go) and a
specification reader for the OpenType "Feature List table".  A feature is its tag (a Go string,
here its bytes) and its list of lookup indices.  Core-only.
-/
import SfntV.Model.OtlBase

namespace SfntV.Otl.FL
open SfntV SfntV.Otl

structure Feature where
  tag : Bytes
  lookups : List Nat
deriving DecidableEq, Repr

/-- the offsets `offs[i]` (before the `uint16` conversion) -/
def offsets : List Feature → Nat → List Nat
  | [], _ => []
  | f :: fs, off => off :: offsets fs (off + 4 + 2 * f.lookups.length)

def tableWords (f : Feature) : List Nat := 0 :: w16 f.lookups.length :: f.lookups

/-- `FeatureListInfo.encode` for a non-nil list -/
def encode (fl : List Feature) : Outcome Bytes :=
  let offs := offsets fl (2 + 6 * fl.length)
  if offs.getLastD 0 > 0xFFFF then .panic "featureListInfo too large"
  else if fl.any (fun f => f.tag.length < 4) then .panic "index out of range"
  else .ok (be16 (w16 fl.length) ++
    (fl.zip offs).flatMap (fun p => p.1.tag.take 4 ++ be16 (w16 p.2)) ++
    fl.flatMap (fun f => wordsToBytes (tableWords f)))

/-- the feature records: `ReadBytes(6)` each -/
def readRecs : (n : Nat) → Bytes → Outcome (List (Bytes × Nat))
  | 0, _ => .ok []
  | n + 1, t0 :: t1 :: t2 :: t3 :: o0 :: o1 :: rest =>
    match readRecs n rest with
    | .ok r => .ok (([t0, t1, t2, t3], o0.toNat * 256 + o1.toNat) :: r)
    | o => o
  | _ + 1, _ => .err eIO

/-- the feature tables, with the running `totalSize` check -/
def readTables (b : Bytes) : List (Bytes × Nat) → Nat → Outcome (List Feature)
  | [], _ => .ok []
  | (tag, off) :: recs, total =>
    match bytesToWords (b.drop off) with
    | _ :: cnt :: rest =>
      if total > 0xFFFF then .err eInvalid
      else if rest.length < cnt then .err eIO
      else match readTables b recs (total + 4 + 2 * cnt) with
        | .ok r => .ok (⟨tag, rest.take cnt⟩ :: r)
        | o => o
    | _ => .err eIO

/-- `readFeatureList` on the bytes from the list position on -/
def read (b : Bytes) : Outcome (List Feature) :=
  match b with
  | c0 :: c1 :: rest =>
    let n := c0.toNat * 256 + c1.toNat
    match readRecs n rest with
    | .ok recs => readTables b recs (2 + 6 * n)
    | .err e => .err e
    | .panic s => .panic s
  | _ => .err eIO

/-! ### Specification reader (OpenType chapter 2, "Feature List table")

"FeatureList table: featureCount, featureRecords[featureCount]; FeatureRecord: featureTag (Tag),
featureOffset (Offset16) — offset to Feature table, from beginning of FeatureList."  "Feature table:
featureParamsOffset, lookupIndexCount, lookupListIndices[lookupIndexCount]."  Record `i` of the result
carries tag `i` of the bytes and the lookup indices of the table its own offset leads to; several records
may share a table. -/

def specU16 (b : Bytes) (p : Nat) : Option Nat :=
  match b[p]?, b[p + 1]? with
  | some x, some y => some (x.toNat * 256 + y.toNat)
  | _, _ => none

def specRecord (b : Bytes) (i : Nat) : Option Feature :=
  match b[2 + 6 * i]?, b[2 + 6 * i + 1]?, b[2 + 6 * i + 2]?, b[2 + 6 * i + 3]?, specU16 b (2 + 6 * i + 4) with
  | some t0, some t1, some t2, some t3, some off =>
    match specU16 b off, specU16 b (off + 2) with
    | some _, some cnt =>
      match (List.range cnt).mapM fun j => specU16 b (off + 4 + 2 * j) with
      | some idx => some ⟨[t0, t1, t2, t3], idx⟩
      | none => none
    | _, _ => none
  | _, _, _, _, _ => none

def specRead (b : Bytes) : Option (List Feature) :=
  match specU16 b 0 with
  | some n => (List.range n).mapM (specRecord b)
  | none => none

end SfntV.Otl.FL
