/-
C12 — model of os2/os2.go: `(*os2.Info).Encode` (always writes a version-4 table, 96 bytes) and
`os2.Read` (versions 0–5, including the short Apple form of 68 bytes).  Mirrors the Go code: bit
masks by version, the forced "Non-Plane 0" bit 57 of the Unicode range, the vendor fallback, the
`> 0` filter on xHeight/capHeight.  Core-only.
-/
import SfntV.Model.Metrics

namespace SfntV.Metrics

structure Os2 where
  weightClass : Nat
  widthClass : Nat
  isBold : Bool
  isItalic : Bool
  isRegular : Bool
  isOblique : Bool
  firstCharIndex : Nat
  lastCharIndex : Nat
  ascent : Int
  descent : Int
  winAscent : Int
  winDescent : Int
  lineGap : Int
  capHeight : Int
  xHeight : Int
  avgGlyphWidth : Int
  /-- SubscriptXSize, SubscriptYSize, SubscriptXOffset, SubscriptYOffset, SuperscriptXSize,
  SuperscriptYSize, SuperscriptXOffset, SuperscriptYOffset, StrikeoutSize, StrikeoutPosition -/
  sub : List Int
  familyClass : Int
  panose : List Nat          -- 10 bytes
  vendor : Bytes             -- the Go string's bytes (any length)
  unicodeRange : List Nat    -- 4 × uint32
  codePageRange : Nat        -- uint64
  permUse : Int              -- os2.Permissions: 0 install, 1 edit, 2 view, 3 restricted
  permNoSubsetting : Bool
  permOnlyBitmap : Bool
deriving Repr, DecidableEq

def setBit (n k : Nat) : Nat := if bit n k then n else n + 2 ^ k
def clearBit (n k : Nat) : Nat := if bit n k then n - 2 ^ k else n

/-- `ur.Bool(57, set)`: word 1, bit 25 -/
def urBool57 (ur : List Nat) (set : Bool) : List Nat :=
  match ur with
  | [a, b, c, d] => [a, if set then setBit b 25 else clearBit b 25, c, d]
  | l => l

def os2PermBits (o : Os2) : Nat :=
  (if o.permUse = 3 then 2 else if o.permUse = 2 then 4 else if o.permUse = 1 then 8 else 0) +
  (if o.permNoSubsetting then 0x0100 else 0) + (if o.permOnlyBitmap then 0x0200 else 0)

def os2Sel (o : Os2) : Nat :=
  (if o.isRegular then 0x0040 else (if o.isItalic then 0x0001 else 0) + (if o.isBold then 0x0020 else 0)) +
  (if o.isOblique then 0x0200 else 0) + 0x0080

def os2Vendor (o : Os2) : Bytes := if o.vendor.length = 4 then o.vendor else [32, 32, 32, 32]

/-- `(*os2.Info).Encode` -/
def encodeOs2 (o : Os2) : Bytes :=
  be16 4 ++ i16enc o.avgGlyphWidth ++ be16 o.weightClass ++ be16 o.widthClass ++ be16 (os2PermBits o) ++
  o.sub.flatMap i16enc ++ i16enc o.familyClass ++ o.panose.map UInt8.ofNat ++
  (urBool57 o.unicodeRange (o.lastCharIndex == 0xFFFF)).flatMap be32 ++ os2Vendor o ++
  be16 (os2Sel o) ++ be16 o.firstCharIndex ++ be16 o.lastCharIndex ++
  i16enc o.ascent ++ i16enc o.descent ++ i16enc o.lineGap ++ i16enc o.winAscent ++ i16enc o.winDescent ++
  be32 o.codePageRange ++ be32 (o.codePageRange / 4294967296) ++
  i16enc o.xHeight ++ i16enc o.capHeight ++ be16 0 ++ be16 0 ++ be16 0

/-- `os2.Read` -/
def decodeOs2 (b : Bytes) : Outcome Os2 :=
  if b.length < 68 then .err "short"
  else
    let version := rdU16 b 0
    if version > 5 then .err "unsupported"
    else
      let permBits := if version < 3 then rdU16 b 8 % 16 else rdU16 b 8
      let permUse : Int :=
        if bit permBits 3 then 1 else if bit permBits 2 then 2 else if bit permBits 1 then 3 else 0
      let sel := if version ≤ 3 then rdU16 b 62 % 128 else rdU16 b 62
      let last := rdU16 b 66
      let ur := urBool57 [rdU32 b 42, rdU32 b 46, rdU32 b 50, rdU32 b 54] (last == 0xFFFF)
      let info : Os2 := {
        weightClass := rdU16 b 4
        widthClass := rdU16 b 6
        isBold := bit sel 5 && !bit sel 6
        isItalic := bit sel 0 && !bit sel 6
        isRegular := bit sel 6
        isOblique := bit sel 9
        firstCharIndex := rdU16 b 64
        lastCharIndex := last
        ascent := 0, descent := 0, winAscent := 0, winDescent := 0, lineGap := 0
        capHeight := 0, xHeight := 0
        avgGlyphWidth := rdI16 b 2
        sub := (List.range 10).map fun i => rdI16 b (10 + 2 * i)
        familyClass := rdI16 b 30
        panose := (List.range 10).map fun i => rdU8 b (32 + i)
        vendor := [b.getD 58 0, b.getD 59 0, b.getD 60 0, b.getD 61 0]
        unicodeRange := ur
        codePageRange := 0
        permUse := permUse
        permNoSubsetting := bit permBits 8
        permOnlyBitmap := bit permBits 9 }
      if b.length = 68 then .ok info
      else if b.length < 78 then .err "short"
      else
        let info := { info with ascent := rdI16 b 68, descent := rdI16 b 70, lineGap := rdI16 b 72,
                                winAscent := rdI16 b 74, winDescent := rdI16 b 76 }
        if version < 2 then .ok info
        else if b.length < 86 then .err "short"
        else
          let info := { info with codePageRange := rdU32 b 78 + 4294967296 * rdU32 b 82 }
          if b.length < 96 then .err "short"
          else
            let xh := rdI16 b 86
            let ch := rdI16 b 88
            .ok { info with xHeight := if xh > 0 then xh else 0, capHeight := if ch > 0 then ch else 0 }

end SfntV.Metrics
