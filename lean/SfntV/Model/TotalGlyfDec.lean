/-
C02 (decoders are total): checked-index model of the glyf/loca decoders
`decodeLoca` (glyf/loca.go:25-79), `Decode` (glyf/glyf.go:109-128), `decodeGlyph`
(glyf/composite.go:109-149) and `SimpleGlyph.removePadding` (glyf/simple.go:175-236).
`decodeGlyphComposite` is an abstract parameter `comp : Bytes → Outcome (α × Cost)`.

Every Go index / slice / make is a checked operation that yields `panic "<file>.go:<line>#<expr>"`.
Conventions: Go `int` is 64 bits wide (the 32-bit big-endian word of loca format 1 is non-negative);
`int16` header words are carried as their 16-bit patterns (`numCont >= 0` ⇔ pattern `< 32768`).
Cost: `steps` = loop iterations (+1 per decoded glyph header), `alloc` = slice elements and objects.
Core-only: linked into the driver.
-/
import SfntV.Model.TotalBase

namespace SfntV.Total.GlyfDec
open SfntV SfntV.Total

def errInvalid : String := "invalid"
def errUnsupported : String := "unsupported"

/-- checked slice expression `xs[a:b]`: Go panics unless `0 ≤ a ≤ b ≤ len(xs)` (`cap = len` for the
slices met here: they are either whole tables or results of a two-index slice that are only read) -/
def slice (site : String) (xs : List α) (a b : Nat) : Outcome (List α) :=
  if a ≤ b ∧ b ≤ xs.length then .ok ((xs.drop a).take (b - a)) else .panic site

/-- `make([]T, n)` where `n` is derived from the length `avail` of a slice that exists in memory.
The run-time panics ("len out of range") only for negative sizes or sizes beyond the address space
(`mkSlice`: `n ≥ 2^47`), which `n ≤ avail` excludes; the checked form panics unless `n ≤ avail`. -/
def mkSliceLe (site : String) (n avail : Nat) (c : Cost) : Outcome Cost :=
  if n ≤ avail then .ok (c.mem n) else .panic site

def addCost (c d : Cost) : Cost := ⟨c.steps + d.steps, c.alloc + d.alloc⟩

/-! ## `decodeLoca` (loca.go) -/

/-- loca.go:38-49, `for i := range offs` of the short format; `total = len(offs)`, `n` iterations
remain, the current index is `i`. -/
def loca0 (loca : Bytes) (glyfLen total : Nat) : Nat → Nat → Nat → Outcome (List Nat × Cost)
  | 0, _, _ => .ok ([], Cost.zero)
  | n+1, i, prev => do
    let hi ← idx "loca.go:39#enc.LocaData[2*i]" loca (2 * i)
    let lo ← idx "loca.go:39#enc.LocaData[2*i+1]" loca (2 * i + 1)
    let pos := 2 * be hi lo
    if pos < prev ∨ pos > glyfLen then .err errInvalid else
    if total ≤ i then .panic "loca.go:47#offs[i]" else do
    let (rest, c) ← loca0 loca glyfLen total n (i + 1) pos
    pure (pos :: rest, c.tick)

/-- loca.go:60-71, the long format -/
def loca1 (loca : Bytes) (glyfLen total : Nat) : Nat → Nat → Nat → Outcome (List Nat × Cost)
  | 0, _, _ => .ok ([], Cost.zero)
  | n+1, i, prev => do
    let a ← idx "loca.go:61#enc.LocaData[4*i]" loca (4 * i)
    let b ← idx "loca.go:61#enc.LocaData[4*i+1]" loca (4 * i + 1)
    let c ← idx "loca.go:62#enc.LocaData[4*i+2]" loca (4 * i + 2)
    let d ← idx "loca.go:62#enc.LocaData[4*i+3]" loca (4 * i + 3)
    let pos := ((a.toNat * 256 + b.toNat) * 256 + c.toNat) * 256 + d.toNat
    if pos < prev ∨ pos > glyfLen then .err errInvalid else
    if total ≤ i then .panic "loca.go:69#offs[i]" else do
    let (rest, c) ← loca1 loca glyfLen total n (i + 1) pos
    pure (pos :: rest, c.tick)

/-- `decodeLoca(enc)`; `fmt` is the Go `int16` value `enc.LocaFormat`, `glyfLen = len(enc.GlyfData)` -/
def decodeLoca (fmt : Int) (loca : Bytes) (glyfLen : Nat) : Outcome (List Nat × Cost) :=
  if fmt = 0 then
    let n := loca.length
    if n < 4 ∨ n % 2 ≠ 0 then .err errInvalid else do
    let c ← mkSliceLe "loca.go:36#make([]int, n/2)" (n / 2) n Cost.zero
    let (offs, d) ← loca0 loca glyfLen (n / 2) (n / 2) 0 0
    pure (offs, addCost c d)
  else if fmt = 1 then
    let n := loca.length
    if n < 8 ∨ n % 4 ≠ 0 then .err errInvalid else do
    let c ← mkSliceLe "loca.go:58#make([]int, len(enc.LocaData)/4)" (n / 4) n Cost.zero
    let (offs, d) ← loca1 loca glyfLen (n / 4) (n / 4) 0 0
    pure (offs, addCost c d)
  else .err errUnsupported

/-! ## `SimpleGlyph.removePadding` (simple.go) -/

/-- `f & mask != 0` for a one-bit mask -/
def bit (f mask : Nat) : Bool := f / mask % 2 == 1

def flagXShortVec : Nat := 0x02
def flagYShortVec : Nat := 0x04
def flagRepeat : Nat := 0x08
def flagXSameOrPos : Nat := 0x10
def flagYSameOrPos : Nat := 0x20

def xBytes (f : Nat) : Nat :=
  if bit f flagXShortVec then 1 else if !bit f flagXSameOrPos then 2 else 0
def yBytes (f : Nat) : Nat :=
  if bit f flagYShortVec then 1 else if !bit f flagYSameOrPos then 2 else 0

/-- simple.go:194-225, the flag loop `for i < numPoints`; state `(pos, coordBytes, i)`.  Every
iteration increases `i`, so `numPoints` iterations suffice (`fuel`). -/
def rpLoop (buf : Bytes) (numPoints : Nat) :
    Nat → Nat → Nat → Nat → Cost → Outcome ((Nat × Nat × Nat) × Cost)
  | 0, pos, coord, i, c => .ok ((pos, coord, i), c)
  | fuel+1, pos, coord, i, c =>
    if i < numPoints then
      if buf.length ≤ pos then .err errInvalid else do
      let fl ← idx "simple.go:198#buf[pos]" buf pos
      let f := fl.toNat
      if bit f flagRepeat then
        if buf.length ≤ pos + 1 then .err errInvalid else do
        let r ← idx "simple.go:206#buf[pos]" buf (pos + 1)
        rpLoop buf numPoints fuel (pos + 2) (coord + (xBytes f + yBytes f) * (r.toNat + 1))
          (i + (r.toNat + 1)) c.tick
      else rpLoop buf numPoints fuel (pos + 1) (coord + (xBytes f + yBytes f)) (i + 1) c.tick
    else .ok ((pos, coord, i), c)

/-- `(*SimpleGlyph).removePadding()` for `NumContours = nc ≥ 0`, `Encoded = buf`; the result is the
new `Encoded`.  (The only caller, `decodeGlyph`, passes `numCont >= 0`.) -/
def removePadding (nc : Nat) (buf : Bytes) : Outcome (Bytes × Cost) :=
  if buf.length < 2 * nc + 2 then .err errInvalid else do
  let pos := 2 * nc
  let numPoints ←
    (if nc > 0 then do
      let hi ← idx "simple.go:186#buf[pos-2]" buf (pos - 2)
      let lo ← idx "simple.go:186#buf[pos-1]" buf (pos - 1)
      pure (be hi lo + 1)
    else pure 0 : Outcome Nat)
  let ihi ← idx "simple.go:188#buf[pos]" buf pos
  let ilo ← idx "simple.go:188#buf[pos+1]" buf (pos + 1)
  let pos := pos + 2 + be ihi ilo
  let ((pos, coord, i), c) ← rpLoop buf numPoints numPoints pos 0 0 Cost.zero
  let pos := pos + coord
  if i ≠ numPoints ∨ pos > buf.length then .err errInvalid else do
  let enc ← slice "simple.go:233#buf[:pos]" buf 0 pos
  pure (enc, c)

/-! ## `decodeGlyph` (composite.go) -/

inductive GData (α : Type) where
  /-- `SimpleGlyph{NumContours, Encoded}` -/
  | simple (nc : Nat) (enc : Bytes)
  /-- the value `decodeGlyphComposite` returned -/
  | composite (a : α)
deriving Repr, DecidableEq

structure Glyph (α : Type) where
  llx : Nat
  lly : Nat
  urx : Nat
  ury : Nat
  data : GData α
deriving Repr, DecidableEq

/-- `decodeGlyph(data)`; `none` = nil glyph.  Cost: one step for the header, two objects (the
`Glyph` and the boxed `Data`) plus what `removePadding` / `comp` spend. -/
def decodeGlyph (comp : Bytes → Outcome (α × Cost)) (data : Bytes) :
    Outcome (Option (Glyph α) × Cost) :=
  if data.length = 0 then .ok (none, Cost.zero)
  else if data.length < 10 then .err errInvalid
  else do
  let d0 ← idx "composite.go:120#data[0]" data 0
  let d1 ← idx "composite.go:120#data[1]" data 1
  let numCont := be d0 d1
  let (gd, c) ←
    (if numCont < 32768 then do
      let body ← slice "composite.go:124#data[10:]" data 10 data.length
      let (enc, c) ← removePadding numCont body
      pure (GData.simple numCont enc, c)
    else do
      let body ← slice "composite.go:132#data[10:]" data 10 data.length
      let (a, c) ← comp body
      pure (GData.composite a, c) : Outcome (GData α × Cost))
  let b2 ← idx "composite.go:141#data[2]" data 2
  let b3 ← idx "composite.go:141#data[3]" data 3
  let b4 ← idx "composite.go:142#data[4]" data 4
  let b5 ← idx "composite.go:142#data[5]" data 5
  let b6 ← idx "composite.go:143#data[6]" data 6
  let b7 ← idx "composite.go:143#data[7]" data 7
  let b8 ← idx "composite.go:144#data[8]" data 8
  let b9 ← idx "composite.go:144#data[9]" data 9
  pure (some ⟨be b2 b3, be b4 b5, be b6 b7, be b8 b9, gd⟩, (c.tick).mem 2)

/-! ## `Decode` (glyf.go) -/

/-- glyf.go:118-125, `for i := range gg`; `total = len(gg)`, `n` iterations remain -/
def decodeLoop (comp : Bytes → Outcome (α × Cost)) (glyf : Bytes) (offs : List Nat) (total : Nat) :
    Nat → Nat → Outcome (List (Option (Glyph α)) × Cost)
  | 0, _ => .ok ([], Cost.zero)
  | n+1, i => do
    let a ← idx "glyf.go:119#offs[i]" offs i
    let b ← idx "glyf.go:119#offs[i+1]" offs (i + 1)
    let data ← slice "glyf.go:119#enc.GlyfData[offs[i]:offs[i+1]]" glyf a b
    let (g, d) ← decodeGlyph comp data
    if total ≤ i then .panic "glyf.go:124#gg[i]" else do
    let (rest, c) ← decodeLoop comp glyf offs total n (i + 1)
    pure (g :: rest, addCost d.tick c)

/-- `glyf.Decode(enc)` -/
def decode (comp : Bytes → Outcome (α × Cost)) (fmt : Int) (loca glyf : Bytes) :
    Outcome (List (Option (Glyph α)) × Cost) := do
  let (offs, c) ← decodeLoca fmt loca glyf.length
  -- numGlyphs := len(offs) - 1 (negative for an empty `offs`: make panics)
  if offs.length < 1 then .panic "glyf.go:117#make(Glyphs, numGlyphs)" else do
  let numGlyphs := offs.length - 1
  let c ← mkSliceLe "glyf.go:117#make(Glyphs, numGlyphs)" numGlyphs offs.length c
  let (gg, d) ← decodeLoop comp glyf offs numGlyphs numGlyphs 0
  pure (gg, addCost c d)

end SfntV.Total.GlyfDec
