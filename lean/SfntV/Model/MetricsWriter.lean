/-
C12 — models of the writer-side derivations of go-sfnt: font.go `FontBBox` (+ funit.Rect16.Extend),
`IsFixedPitch`; write.go `makeOS2` (average width, first/last character index, win ascent/descent);
cmap `CodeRange` of formats 4 and 12 (the order in which the Go map is ranged over is the order of
the key list).  Widths are integers here (glyf fonts, and CFF fonts with integral widths).
Core-only.
-/
import SfntV.Model.Metrics

namespace SfntV.Metrics

/-- `(*funit.Rect16).Extend` -/
def Rect.extend (r o : Rect) : Rect :=
  if o.isZero then r
  else if r.isZero then o
  else ⟨if o.llx < r.llx then o.llx else r.llx, if o.lly < r.lly then o.lly else r.lly,
        if o.urx > r.urx then o.urx else r.urx, if o.ury > r.ury then o.ury else r.ury⟩

/-- font.go `FontBBox`: loop over the glyph boxes with the `first` flag -/
def fontBBoxLoop : List Rect → Bool → Rect → Rect
  | [], _, bbox => bbox
  | e :: es, first, bbox =>
    if e.isZero then fontBBoxLoop es first bbox
    else if first then fontBBoxLoop es false e
    else fontBBoxLoop es false (bbox.extend e)

def fontBBoxModel (es : List Rect) : Rect := fontBBoxLoop es true ⟨0, 0, 0, 0⟩

/-- font.go `IsFixedPitch` on integral widths (`math.Abs(width-w) >= 0.5` ⇔ `width ≠ w`) -/
def fixedLoop : List Int → Int → Bool
  | [], _ => true
  | w :: ws, width =>
    if w = 0 then fixedLoop ws width
    else if width = 0 then fixedLoop ws w
    else if width ≠ w then false
    else fixedLoop ws width

def isFixedPitchModel (ws : List Int) : Bool := if ws.length = 0 then false else fixedLoop ws 0

/-- write.go makeOS2: accumulate `avgGlyphWidth += int(w); count++` for `w > 0` -/
def avgAcc : List Int → Nat × Nat → Nat × Nat
  | [], acc => acc
  | w :: ws, (s, c) => if w > 0 then avgAcc ws (s + w.toNat, c + 1) else avgAcc ws (s, c)

/-- the `int` value before the conversion `funit.Int16(avgGlyphWidth)` -/
def avgWidthInt (ws : List Int) : Nat :=
  let (s, c) := avgAcc ws (0, 0)
  if c > 0 then (s + c / 2) / c else s

def avgWidthModel (ws : List Int) : Int := wrap16 (avgWidthInt ws)

/-- cmap.Format4.CodeRange: `low = 1<<31 - 1`, `high = 0`, then min / max over the keys -/
def codeRange4 (ks : List Int) : Int × Int :=
  if ks.length = 0 then (0, 0)
  else (ks.foldl (fun lo k => if k < lo then k else lo) 2147483647,
        ks.foldl (fun hi k => if k > hi then k else hi) 0)

/-- cmap.Format12.CodeRange: `first` flag -/
def codeRange12 : List Int → Bool → Int × Int → Int × Int
  | [], _, acc => acc
  | k :: ks, first, (lo, hi) =>
    codeRange12 ks false (if first || k < lo then k else lo, if first || k > hi then k else hi)

/-- write.go makeOS2: `uint16(low)`, replaced by 0xFFFF when `low > 0xFFFF`; same for `high` -/
def charIndexModel (c : Int) : Int := if c > 0xFFFF then 0xFFFF else c % 65536

/-- write.go makeOS2: `winAscent := bbox.URy`, `winDescent := -bbox.LLy` (int16) -/
def winMetricsModel (bbox : Rect) : Int × Int := (bbox.ury, wrap16 (-bbox.lly))

end SfntV.Metrics
