/-
Model of /repo/opentype/classdef/classdef.go: `getEncInfo`, `AppendLen`, `Append`, `Read`
(the code as repaired for C08: format 1 is not used when the glyph range has more than 0xFFFF
glyphs, and more than 0xFFFF format-2 ranges are refused with a panic).

A Go `classdef.Table` (map glyph → class, possibly holding explicit class-0 entries) enters the
encoder only through: `len(info) == 0`, the smallest and largest key, and the function
`g ↦ info[g]`.  The model functions take these (`f lo hi`); `ofTab` computes them from an
association list with distinct keys.  Core-only.
-/
import SfntV.Model.OtlBase

namespace SfntV.Otl.ClassDef
open SfntV SfntV.Otl

/-- `math.MaxInt` on the 64-bit platforms the library is built for -/
def maxInt : Nat := 9223372036854775807

/-- Go map as association list with distinct keys -/
abbrev Tab := List (Nat × Nat)

/-- `info[g]` (0 for a missing key) -/
def get (m : Tab) (g : Nat) : Nat :=
  match m.find? (·.1 == g) with
  | some p => p.2
  | none => 0

def minGid (m : Tab) : Nat := m.foldl (fun a p => min a p.1) 0xFFFF
def maxGid (m : Tab) : Nat := m.foldl (fun a p => max a p.1) 0

/-- `format1Size` of `getEncInfo` (`lo ≤ hi`) -/
def format1Size (lo hi : Nat) : Nat :=
  if hi - lo + 1 > 0xFFFF then maxInt else 6 + 2 * (hi - lo + 1)

/-- One iteration of the segment loop shared by `getEncInfo` and `Append`:
`st = some (segStart, segClass)` or `none` for `segStart == -1`.  Returns the segment closed in
this iteration (if any) and the new state. -/
def step (cls i : Nat) (st : Option (Nat × Nat)) : Option (Nat × Nat) × Option (Nat × Nat) :=
  match st with
  | some (s, c) =>
    if cls ≠ c then (some (s, c), if cls ≠ 0 then some (i, cls) else none) else (none, some (s, c))
  | none => (none, if cls ≠ 0 then some (i, cls) else none)

/-- the counting loop of `getEncInfo`, including its early exit
`4+6*segCount < format1Size`, and the final `if segStart >= 0 { segCount++ }` -/
def countLoop (f : Nat → Nat) (f1 : Nat) : List Nat → Nat → Option (Nat × Nat) → Nat
  | [], c, st => c + (if st.isSome then 1 else 0)
  | i :: is, c, st =>
    if 4 + 6 * c < f1 then
      let r := step (f i) i st
      countLoop f f1 is (c + (if r.1.isSome then 1 else 0)) r.2
    else c + (if st.isSome then 1 else 0)

def format2Size (f : Nat → Nat) (lo hi : Nat) : Nat :=
  4 + 6 * countLoop f (format1Size lo hi) (List.range' lo (hi - lo + 1)) 0 none

/-- `Table.AppendLen` -/
def appendLenF (empty : Bool) (f : Nat → Nat) (lo hi : Nat) : Nat :=
  if empty then 4
  else if format1Size lo hi < format2Size f lo hi then format1Size lo hi else format2Size f lo hi

/-- the segment loop of `Append` (format 2): records `(start, end, class)` -/
def emitLoop (f : Nat → Nat) (hi : Nat) : List Nat → Option (Nat × Nat) → List (Nat × Nat × Nat)
  | [], st =>
    match st with
    | some (s, c) => [(s, hi, c)]
    | none => []
  | i :: is, st =>
    let r := step (f i) i st
    (match r.1 with
     | some (s, c) => [(s, i - 1, c)]
     | none => []) ++ emitLoop f hi is r.2

def recWords (r : Nat × Nat × Nat) : List Nat := [w16 r.1, w16 r.2.1, w16 r.2.2]

/-- words written by `Table.Append` -/
def appendWF (empty : Bool) (f : Nat → Nat) (lo hi : Nat) : Outcome (List Nat) :=
  if empty then .ok [2, 0]
  else if format1Size lo hi ≤ format2Size f lo hi then
    let count := w16 (hi - lo + 1)   -- `count := maxGid - minGid + 1` is a uint16
    .ok (1 :: lo :: count :: (List.range count).map fun i => f (w16 (lo + i)))
  else
    let segCount := (format2Size f lo hi - 4) / 6
    if segCount > 0xFFFF then .panic "too many ranges in class definition table"
    else .ok (2 :: w16 segCount ::
      (emitLoop f hi (List.range' lo (hi - lo + 1)) none).flatMap recWords)

def appendF (empty : Bool) (f : Nat → Nat) (lo hi : Nat) : Outcome Bytes :=
  match appendWF empty f lo hi with
  | .ok ws => .ok (wordsToBytes ws)
  | .err e => .err e
  | .panic s => .panic s

/-- the map-level functions -/
def appendLen (m : Tab) : Nat := appendLenF m.isEmpty (get m) (minGid m) (maxGid m)
def append (m : Tab) : Outcome Bytes := appendF m.isEmpty (get m) (minGid m) (maxGid m)

/-! ### Read.  The result lists `(glyph, class)` entries, **newest first** (a later write to the Go
map overwrites an earlier one), so the class of a glyph is that of the first entry found. -/

def classOf (es : List (Nat × Nat)) (g : Nat) : Nat :=
  match es.find? (·.1 == g) with
  | some p => p.2
  | none => 0

/-- format-2 loop; `i` is the loop index, `prevEnd` the previous `endGlyphID` -/
def read2 : (n : Nat) → (rest : List Nat) → (i : Nat) → (prevEnd : Nat) → Outcome (List (Nat × Nat))
  | 0, _, _, _ => .ok []
  | n + 1, s :: e :: c :: rest, i, prevEnd =>
    if i > 0 ∧ s ≤ prevEnd then .err eInvalid       -- "overlapping ranges in class definition table"
    else if e < s then .err eInvalid                -- "invalid range in class definition table" (repair, §9 #36)
    else match read2 n rest (i + 1) e with
      | .ok r => .ok (r ++ (if c ≠ 0 then (List.range' s (e + 1 - s)).map (fun g => (g, c)) else []))
      | o => o
  | _ + 1, _, _, _ => .err eIO

def readW : List Nat → Outcome (List (Nat × Nat))
  | 1 :: start :: count :: vals =>
    if start + count > 0x10000 then .err eInvalid          -- int(start)+count-1 > 0xFFFF
    else if count ≤ vals.length then
      .ok (((vals.take count).zipIdx start).filter (fun p => p.1 != 0) |>.map (fun p => (p.2, p.1)))
    else .err eIO
  | 1 :: _ => .err eIO
  | 2 :: n :: rest => read2 n rest 0 0
  | 2 :: _ => .err eIO
  | [] => .err eIO
  | _ => .err eUnsupported

def read (b : Bytes) : Outcome (List (Nat × Nat)) := readW (bytesToWords b)

/-- the normal form of a class table: what `Read` makes of what `Append` writes for it (the non-zero
entries, in the order in which the reader stores them; as a map it is the table without its class-0
entries) -/
def nfTab (m : Tab) : List (Nat × Nat) :=
  match append m with
  | .ok cb =>
    match read cb with
    | .ok es => es
    | _ => []
  | _ => []

/-! ### Specification (OpenType chapter 2, "Class Definition Table")

"ClassDefFormat1: classFormat = 1, startGlyphID — first glyph ID of the classValueArray,
glyphCount, classValueArray[glyphCount] — array of Class Values, one per glyph ID."
"ClassDefFormat2: classFormat = 2, classRangeCount, classRangeRecords[classRangeCount];
ClassRangeRecord: startGlyphID, endGlyphID, class — applied to all glyphs in the range."
"Any glyph not included in the range of covered glyph IDs automatically belongs to Class 0." -/

def specRanges : (n : Nat) → List Nat → Nat → Option Nat
  | 0, _, _ => some 0
  | n + 1, s :: e :: c :: rest, g =>
    if s ≤ g ∧ g ≤ e then some c else specRanges n rest g
  | _ + 1, _, _ => none

/-- the class the table assigns to glyph `g` (`none`: table incomplete / unknown format) -/
def specClass (ws : List Nat) (g : Nat) : Option Nat :=
  match ws with
  | 1 :: start :: count :: vals =>
    if count ≤ vals.length then
      some (if start ≤ g ∧ g < start + count then vals.getD (g - start) 0 else 0)
    else none
  | 2 :: n :: rest => specRanges n rest g
  | _ => none

end SfntV.Otl.ClassDef
