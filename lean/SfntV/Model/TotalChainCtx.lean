/-
C02 (decoders are total): checked-index models of the three chained sequence context readers
`readChainedSeqContext1` (opentype/gtab/nested.go:682-795), `readChainedSeqContext2`
(nested.go:1014-1162) and `readChainedSeqContext3` (nested.go:1377-1437), with the helpers they
call: `p.ReadUint16Slice()` (parser/parser.go:144-158), `readGIDSlice` (gtab/gidslice.go:25-39),
`readNested` (nested.go:33-46), `coverage.Table.Prune`, `coverage.Table.EncodeLen` (with the two
panic sites of `encInfo`, coverage.go:155 `rev[i] = gid` and coverage.go:159 `panic`),
`classdef.Table.NumClasses` / `AppendLen`; and of the dispatch of `readGsubSubtable` (gsub.go:30-50)
for lookup type 6, through which the hook `gtab.VerifReadGsubSubtable` reaches them.

`coverage.Read`, `coverage.ReadSet`, `classdef.Read` are the checked models of
`SfntV.Total.Otl`.  The parser is a plain byte view (C17): the models take all bytes and the
absolute position `pos` of the subtable; seeks never fail; the position is explicit.

Go integer widths.  `inputGlyphCount-1` (nested.go:748, 1085) is computed in `uint16`; a count of 0
used to ask for 65535 entries (finding C02-zero-count) and is now refused by the zero check in
front of it (nested.go:742, 1079).  The subtraction is still modelled exactly,
`(n + 65535) % 65536`; `readCRuleOld` is the rule reader before the repair.
`10*meta.LookupType+format` (gsub.go:41) is a `uint16` sum: `(60 + format) % 65536`; before the
repair C02-dispatch-key a format word such as 11, 21 or 0xFFCF had the key of ANOTHER reader
(finding; `readChainedOld`); the repaired code (gsub.go:42) refuses every format word above 9.

Size caps.  Format 1 checks `total > 0xFFFF` after the rule-offset array of a set is read and
`ruleSetSize > 0xFFFF` after each rule is read (before the rule is added): the caps sit INSIDE the
loops.  Format 2 has the same two checks only in a separate pass AFTER everything is read and
allocated.  Format 3 has no cap.

Values: the shapes of the value-level model `SfntV.Otl.Ctx` (C08): `Rule`, `Sub`.
Cost: `steps` = parser reads + loop iterations (also of `Prune`, `encInfo`, `NumClasses`,
`getEncInfo`, and of the final size pass of format 2), `alloc` = slice elements + map entries +
one per rule object; `make` is charged when it happens.
Core-only: linked into the driver.
-/
import SfntV.Model.TotalOtl
import SfntV.Model.OtlContext

namespace SfntV.Total.ChainCtx
open SfntV SfntV.Total SfntV.Total.Otl

abbrev Rule := SfntV.Otl.Ctx.Rule
abbrev Action := Nat × Nat
abbrev Sub := SfntV.Otl.Ctx.Sub
abbrev Sets := List (Option (List Rule))

def Cost.add (a b : Cost) : Cost := ⟨a.steps + b.steps, a.alloc + b.alloc⟩

/-- `len(m)` of a Go map keyed by `glyph.ID` (uint16): at most 65536 entries.  The decoded entry
lists have distinct keys (coverage: `CovOk` in the proofs; class tables: ascending ranges), so
this is their length; the `min` only spares the cost theorems a length invariant. -/
def mapLen (l : List α) : Nat := min 65536 l.length

/-- checked slice expression `xs[:k]` -/
def sliceTo (site : String) (xs : List α) (k : Nat) : Outcome (List α) :=
  if k ≤ xs.length then .ok (xs.take k) else .panic site

/-- checked `xs[i] = …` where only the bound matters -/
def chkIdx (site : String) (i n : Nat) : Outcome Unit :=
  if i < n then .ok () else .panic site

/-- `for i := range res { val, err := p.ReadUint16(); …; res[i] = val }`: `n` words from `q` on
(`res[i]` ranges over `res` itself) -/
def wordsLoop (site : String) (b : Bytes) : Nat → Nat → List Nat → Cost → Outcome (List Nat × Cost)
  | 0, _, acc, c => .ok (acc.reverse, c)
  | n+1, q, acc, c => do
    let v ← readU16 site b q
    wordsLoop site b n (q + 2) (v :: acc) c.tick

/-- `p.ReadUint16Slice()` / `readGIDSlice(p)` at position `q`: the count, `make`, the loop.
Returns the values, the position after them and the cost. -/
def readSlice (tag : String) (b : Bytes) (q : Nat) (c : Cost) : Outcome (List Nat × Nat × Cost) := do
  let n ← readU16 (tag ++ "#ReadUint16(count)") b q
  let c ← mkSlice (tag ++ "#make(n)") n c.tick
  let (xs, c) ← wordsLoop (tag ++ "#ReadUint16") b n (q + 2) [] c
  pure (xs, q + 2 + 2 * n, c)

/-- nested.go:35-42 -/
def nestedLoop (b : Bytes) : Nat → Nat → List Action → Cost → Outcome (List Action × Cost)
  | 0, _, acc, c => .ok (acc.reverse, c)
  | n+1, q, acc, c => do
    let buf ← readBytes "nested.go:36#ReadBytes(4)" b q 4
    let s ← w16 "nested.go:40#buf[0],buf[1]" buf 0
    let l ← w16 "nested.go:41#buf[2],buf[3]" buf 2
    nestedLoop b n (q + 4) ((s, l) :: acc) c.tick

/-- `readNested(p, seqLookupCount)` at position `q` -/
def readNested (b : Bytes) (q n : Nat) (c : Cost) : Outcome (List Action × Cost) := do
  let c ← mkSlice "nested.go:34#make([]SeqLookup, seqLookupCount)" n c
  nestedLoop b n q [] c

/-- where a chained rule is read: format 1 (`readGIDSlice`, nested.go:734-761) or format 2
(`ReadUint16Slice`, nested.go:1062-1088) -/
structure RuleSites where
  back : String
  count : String
  mkIn : String
  input : String
  look : String
  nact : String

def sites1 : RuleSites :=
  ⟨"nested.go:734#readGIDSlice", "nested.go:738#ReadUint16", "nested.go:748#make([]glyph.ID, inputGlyphCount-1)",
   "nested.go:750#ReadUint16", "nested.go:756#readGIDSlice", "nested.go:760#ReadUint16"⟩
def sites2 : RuleSites :=
  ⟨"nested.go:1071#ReadUint16Slice", "nested.go:1075#ReadUint16", "nested.go:1085#make([]uint16, inputGlyphCount-1)",
   "nested.go:1087#ReadUint16", "nested.go:1092#ReadUint16Slice", "nested.go:1096#ReadUint16"⟩

/-- one ChainedSeqRule / ChainedClassSeqRule at position `q` (after the seek); one object is
charged for `&ChainedSeqRule{…}`.  `fixed = true` is the code as it is now (repair C02-zero-count,
nested.go:742 and 1079: `if inputGlyphCount == 0 { return invalid }`), `fixed = false` the code
before that repair, where `inputGlyphCount-1` wrapped in uint16 to 65535. -/
def readCRuleG (fixed : Bool) (S : RuleSites) (b : Bytes) (q : Nat) (c : Cost) : Outcome (Rule × Cost) := do
  let (back, q, c) ← readSlice S.back b q c
  let igc ← readU16 S.count b q
  if fixed = true ∧ igc = 0 then .err "invalid" else do
  let n := (igc + 65535) % 65536                       -- `inputGlyphCount-1` in uint16
  let c ← mkSlice S.mkIn n c.tick
  let (input, c) ← wordsLoop S.input b n (q + 2) [] c
  let (look, q, c) ← readSlice S.look b (q + 2 + 2 * n) c
  let slc ← readU16 S.nact b q
  let (acts, c) ← readNested b (q + 2) slc c.tick
  pure (⟨back, input, look, acts⟩, c.mem 1)

/-- the rule reader as it is in the working tree (zero count refused) -/
def readCRule (S : RuleSites) (b : Bytes) (q : Nat) (c : Cost) : Outcome (Rule × Cost) :=
  readCRuleG true S b q c

/-- the rule reader before the repair (kept only to state the finding) -/
def readCRuleOld (S : RuleSites) (b : Bytes) (q : Nat) (c : Cost) : Outcome (Rule × Cost) :=
  readCRuleG false S b q c

/-! ## format 1 -/

/-- nested.go:728-780: the rules of one set; `j` loop index, `n = len(rules[i])`, `size` the
running `ruleSetSize` (checked after a rule is read, before it is added) -/
def rulesLoop1 (b : Bytes) (base n : Nat) :
    List Nat → Nat → Nat → List Rule → Cost → Outcome (List Rule × Nat × Cost)
  | [], _, size, acc, c => .ok (acc.reverse, size, c)
  | o :: os, j, size, acc, c => do
    let (r, c) ← readCRule sites1 b (base + o) c.tick
    if size > 0xFFFF then .err "invalid" else do
    chkIdx "nested.go:780#rules[i][j]" j n
    rulesLoop1 b base n os (j + 1) (size + SfntV.Otl.Ctx.cruleLen r) (r :: acc) c

/-- nested.go:703-782: `i` loop index, `n = len(rules)`, `total` the running size.  Returns
also the final `total`. -/
def setsLoop1 (b : Bytes) (pos n : Nat) :
    List Nat → Nat → Nat → Sets → Cost → Outcome (Sets × Nat × Cost)
  | [], _, total, acc, c => .ok (acc.reverse, total, c)
  | o :: os, i, total, acc, c =>
    if o = 0 then setsLoop1 b pos n os (i + 1) total (none :: acc) c.tick else do
    let (offs, _, c) ← readSlice "nested.go:714#ReadUint16Slice" b (pos + o) c.tick
    if total > 0xFFFF then .err "invalid" else do
    let c ← mkSlice "nested.go:727#make([]*ChainedSeqRule, len(chainedSeqRuleOffsets))" offs.length c
    chkIdx "nested.go:727#rules[i]" i n
    let (rules, size, c) ← rulesLoop1 b (pos + o) offs.length offs 0 (2 + 2 * offs.length) [] c
    setsLoop1 b pos n os (i + 1) (total + size) (some rules :: acc) c

/-- `Table.EncodeLen()` → `encInfo()` of a decoded coverage table (coverage.go:152-187): the
checked index `rev[i] = gid` and the explicit `panic("invalid coverage table")` -/
def covEncodeLen (cov : List (Nat × Nat)) : Outcome Nat :=
  match SfntV.Otl.Cov.revOf (cov.map fun p => (p.1, (p.2 : Int))) with
  | .ok rev =>
    match SfntV.Otl.Cov.encodeLen rev with
    | .ok n => .ok n
    | .err e => .err e
    | .panic _ => .panic "coverage.go:159#panic(invalid coverage table)"
  | .err e => .err e
  | .panic _ => .panic "coverage.go:155#rev[i]"

/-- nested.go:693-697: `cov.Prune(len(offsets))` or `offsets[:len(cov)]`; `Prune` walks the map
and collects the removed keys -/
def prune1 (cov : List (Nat × Nat)) (offs : List Nat) (c : Cost) :
    Outcome (List (Nat × Nat) × List Nat × Cost) :=
  if cov.length > offs.length then
    let keep := cov.filter (fun p => p.2 < offs.length)
    .ok (keep, offs, (c.tick (mapLen cov)).mem (mapLen cov - keep.length))
  else do
    let o ← sliceTo "nested.go:696#chainedSeqRuleSetOffsets[:len(cov)]" offs cov.length
    pure (cov, o, c)

/-- `readChainedSeqContext1(p, pos)`; the parser stands behind the format word -/
def read1 (b : Bytes) (pos : Nat) : Outcome (Sub × Cost) := do
  let covOff ← readU16 "nested.go:679#ReadUint16" b (pos + 2)
  let (offs0, _, c) ← readSlice "nested.go:683#ReadUint16Slice" b (pos + 4) Cost.zero.tick
  let (cov0, cc) ← coverageRead b (pos + covOff)
  let (cov, offs, c) ← prune1 cov0 offs0 (Cost.add c cc)
  let n ← covEncodeLen cov
  let c := (c.tick (3 * mapLen cov)).mem (mapLen cov)        -- encInfo: `rev` and its three loops
  let total := 6 + 2 * offs.length + n
  let c ← mkSlice "nested.go:702#make([][]*ChainedSeqRule, len(chainedSeqRuleSetOffsets))" offs.length c
  let (sets, _, c) ← setsLoop1 b pos offs.length offs 0 total [] c
  pure (.c1 true cov sets, c)

/-! ## format 2 -/

/-- nested.go:1056-1096: the rules of one set (no size check here) -/
def rulesLoop2 (b : Bytes) (base n : Nat) :
    List Nat → Nat → List Rule → Cost → Outcome (List Rule × Cost)
  | [], _, acc, c => .ok (acc.reverse, c)
  | o :: os, j, acc, c => do
    let (r, c) ← readCRule sites2 b (base + o) c.tick
    chkIdx "nested.go:1105#rules[i][j]" j n
    rulesLoop2 b base n os (j + 1) (r :: acc) c

/-- nested.go:1039-1097 -/
def setsLoop2 (b : Bytes) (pos n : Nat) : List Nat → Nat → Sets → Cost → Outcome (Sets × Cost)
  | [], _, acc, c => .ok (acc.reverse, c)
  | o :: os, i, acc, c =>
    if o = 0 then setsLoop2 b pos n os (i + 1) (none :: acc) c.tick else do
    let (offs, _, c) ← readSlice "nested.go:1059#ReadUint16Slice" b (pos + o) c.tick
    let c ← mkSlice "nested.go:1064#make([]*ChainedClassSeqRule, len(chainedClassSeqRuleOffsets))" offs.length c
    chkIdx "nested.go:1064#rules[i]" i n
    let (rules, c) ← rulesLoop2 b (pos + o) offs.length offs 0 [] c
    setsLoop2 b pos n os (i + 1) (some rules :: acc) c

/-- iterations of `AppendLen` → `getEncInfo` (classdef.go:156-216): one per map entry and at most
one per glyph between the smallest and the largest key -/
def appendLenSteps (es : List (Nat × Nat)) : Nat :=
  if es.isEmpty then 0
  else mapLen es + min 65536 (SfntV.Otl.ClassDef.maxGid es - SfntV.Otl.ClassDef.minGid es + 1)

/-- number of rules in all sets (iterations of the size pass nested.go:1104-1128) -/
def rulesCount (sets : Sets) : Nat :=
  (sets.map fun s => match s with | some rs => rs.length | none => 0).sum

/-- nested.go:1034-1036: `if numClasses < len(offsets) { offsets = offsets[:numClasses] }` -/
def trunc2 (offs0 : List Nat) (numClasses : Nat) : Outcome (List Nat) :=
  if numClasses < offs0.length
  then sliceTo "nested.go:1044#chainedClassSeqRuleSetOffsets[:numClasses]" offs0 numClasses
  else .ok offs0

/-- `readChainedSeqContext2(p, pos)` -/
def read2 (b : Bytes) (pos : Nat) : Outcome (Sub × Cost) := do
  let buf ← readBytes "nested.go:1011#ReadBytes(8)" b (pos + 2) 8
  let covOff ← w16 "nested.go:1015#buf[0],buf[1]" buf 0
  let bOff ← w16 "nested.go:1016#buf[2],buf[3]" buf 2
  let iOff ← w16 "nested.go:1017#buf[4],buf[5]" buf 4
  let lOff ← w16 "nested.go:1018#buf[6],buf[7]" buf 6
  let (offs0, _, c) ← readSlice "nested.go:1020#ReadUint16Slice" b (pos + 10) Cost.zero.tick
  let (cov, c1) ← coverageRead b (pos + covOff)
  let (cb, c2) ← classdefRead b (pos + bOff)
  let (ci, c3) ← classdefRead b (pos + iOff)
  let (cl, c4) ← classdefRead b (pos + lOff)
  let c := Cost.add (Cost.add (Cost.add (Cost.add c c1) c2) c3) c4
  let numClasses := SfntV.Otl.Ctx.numClasses ci
  let c := c.tick (mapLen ci)                                 -- `NumClasses` walks the map
  let offs ← trunc2 offs0 numClasses
  let c ← mkSlice "nested.go:1047#make([][]*ChainedClassSeqRule, len(chainedClassSeqRuleSetOffsets))" offs.length c
  let (sets, c) ← setsLoop2 b pos offs.length offs 0 [] c
  let n ← covEncodeLen (cov)
  let c := (c.tick (3 * mapLen cov)).mem (mapLen cov)
  let c := c.tick (appendLenSteps cb + appendLenSteps ci + appendLenSteps cl)
  let total := 12 + 2 * sets.length + n + SfntV.Otl.Ctx.appendLenOf cb + SfntV.Otl.Ctx.appendLenOf ci +
    SfntV.Otl.Ctx.appendLenOf cl
  let c := c.tick (sets.length + rulesCount sets)
  if SfntV.Otl.Ctx.checkC2 sets total then pure (.c2 true cov [cb, ci, cl] sets, c)
  else .err "invalid"

/-! ## format 3 -/

/-- nested.go:1388-1393 (and 1396-1401, 1404-1409): one coverage set per offset -/
def covSetsLoop (site : String) (b : Bytes) (pos n : Nat) :
    List Nat → Nat → List (List Nat) → Cost → Outcome (List (List Nat) × Cost)
  | [], _, acc, c => .ok (acc.reverse, c)
  | o :: os, i, acc, c => do
    let (s, cs) ← readSet b (pos + o)
    chkIdx site i n
    covSetsLoop site b pos n os (i + 1) (s :: acc) (Cost.add c.tick cs)

/-- `readChainedSeqContext3(p, pos)` -/
def read3 (b : Bytes) (pos : Nat) : Outcome (Sub × Cost) := do
  let (bo, q, c) ← readSlice "nested.go:1374#ReadUint16Slice" b (pos + 2) Cost.zero
  let (io, q, c) ← readSlice "nested.go:1378#ReadUint16Slice" b q c
  let (lo, q, c) ← readSlice "nested.go:1382#ReadUint16Slice" b q c
  if io.length < 1 then .err "invalid" else do
  let slc ← readU16 "nested.go:1393#ReadUint16" b q
  let (acts, c) ← readNested b (q + 2) slc c.tick
  let c ← mkSlice "nested.go:1402#make([]coverage.Set, len(backtrackCoverageOffsets))" bo.length c
  let (cb, c) ← covSetsLoop "nested.go:1404#backtrackCov[i]" b pos bo.length bo 0 [] c
  let c ← mkSlice "nested.go:1410#make([]coverage.Set, len(inputCoverageOffsets))" io.length c
  let (ci, c) ← covSetsLoop "nested.go:1412#inputCov[i]" b pos io.length io 0 [] c
  let c ← mkSlice "nested.go:1418#make([]coverage.Set, len(lookaheadCoverageOffsets))" lo.length c
  let (cl, c) ← covSetsLoop "nested.go:1420#lookaheadCov[i]" b pos lo.length lo 0 [] c
  pure (.c3 cb ci cl acts true, c)

/-! ## the dispatch of `readGsubSubtable` for lookup type 6 -/

/-- the keys of `gsubReaders` (gsub.go:52-66) -/
def readerKeys : List Nat := [11, 12, 21, 31, 41, 51, 52, 53, 61, 62, 63, 71, 81]

/-- `readGsubSubtable(p, pos, &LookupMetaInfo{LookupType: 6})` (gsub.go:30-50).  `fixed = true` is
the code as it is now (repair C02-dispatch-key, gsub.go:42:
`if !ok || meta.LookupType > 9 || format > 9 { return invalid }`; the lookup type is 6 here);
`fixed = false` the code before it, where the `uint16` key `10*6+format` of a format word such as
11, 21 or 0xFFCF was the key of ANOTHER reader (7_1, 8_1, 1_1).  Those readers are not modelled
in this group: `.err "other-reader"` stands for them; it is unreachable in the repaired code
(`readChained_not_other`). -/
def readChainedG (fixed : Bool) (b : Bytes) (pos : Nat) : Outcome (Sub × Cost) := do
  let format ← readU16 "gsub.go:36#ReadUint16" b pos
  let key := (60 + format) % 65536                      -- `10*meta.LookupType+format` in uint16
  if ¬ readerKeys.contains key ∨ (fixed = true ∧ format > 9) then .err "invalid"
  else if key = 61 then read1 b pos
  else if key = 62 then read2 b pos
  else if key = 63 then read3 b pos
  else .err "other-reader"

/-- the dispatcher as it is now -/
def readChained (b : Bytes) (pos : Nat) : Outcome (Sub × Cost) := readChainedG true b pos

/-- the dispatcher before the repair (kept only to state the finding) -/
def readChainedOld (b : Bytes) (pos : Nat) : Outcome (Sub × Cost) := readChainedG false b pos

end SfntV.Total.ChainCtx
