/-
Model of cff/fdselect.go (`FDSelectFn.encode`, `readFDSelect`) and the TN5176 §19
specification of FDSelect (formats 0 and 3).  Property C13.  Core-only.

An `FDSelectFn` over `nGlyphs` glyphs is modelled by the list of its values on 0 … nGlyphs-1.
-/
import SfntV.Model.CffIndex

namespace SfntV.Cff
open SfntV

/-! ## `FDSelectFn.encode` -/

/-- the segments `(first glyph, fd)` opened by the loop: at glyph 0 and wherever the value
differs from `currendFD` -/
def fdSegs : Nat → Option Int → List Int → List (Nat × Int)
  | _, _, [] => []
  | i, cur, fd :: rest =>
    if cur = some fd then fdSegs (i + 1) cur rest
    else (i, fd) :: fdSegs (i + 1) (some fd) rest

/-- `byte(x)` of a Go int -/
def byteOfInt (x : Int) : UInt8 := UInt8.ofNat (x % 256).toNat

/-- `fdSelect.encode(nGlyphs)` with `fds` the values on `0 … nGlyphs-1`.  The test
`len(buf)+3+2 >= format0Length` is made when segment number `k` (0-based) is opened, with
`len(buf) = 3 + 3k`; it is monotone in `k`, so format 0 is used iff it fires for the last
segment. -/
def fdEncode (fds : List Int) : Bytes :=
  let n := fds.length
  let segs := fdSegs 0 none fds
  if segs.length > 0 ∧ 3 + 3 * (segs.length - 1) + 5 ≥ n + 1 then
    0 :: fds.map byteOfInt
  else
    [3, UInt8.ofNat (segs.length / 256 % 256), UInt8.ofNat (segs.length % 256)]
      ++ segs.flatMap (fun s => [UInt8.ofNat (s.1 / 256 % 256), UInt8.ofNat (s.1 % 256), byteOfInt s.2])
      ++ [UInt8.ofNat (n / 256 % 256), UInt8.ofNat (n % 256)]

/-! ## `readFDSelect` -/

/-- the range loop of format 3: `i` = index, `prev`; returns `(first, fd)` pairs -/
def readFdRanges (data : Bytes) (nPrivate : Nat) : Nat → Nat → Nat → Nat → Outcome (List (Nat × Nat))
  | 0, _, _, _ => .ok []
  | k+1, i, c, prev =>
    match rd data c 2 with
    | none => .err "eof"
    | some fb =>
      let first := beVal fb
      if (i > 0 ∧ first ≤ prev) ∨ (i = 0 ∧ first ≠ 0) then .err "invalid"
      else
        match rd data (c + 2) 1 with
        | none => .err "eof"
        | some db =>
          let fd := beVal db
          if fd ≥ nPrivate then .err "invalid"
          else
            match readFdRanges data nPrivate k (i + 1) (c + 3) first with
            | .ok l => .ok ((first, fd) :: l)
            | e => e

/-- `sort.Search(n, f)`: binary search (fuel = n + 1) -/
def searchLoop (f : Nat → Bool) : Nat → Nat → Nat → Nat
  | 0, i, _ => i
  | fuel+1, i, j =>
    if i < j then
      let h := (i + j) / 2
      if !f h then searchLoop f fuel (h + 1) j else searchLoop f fuel i h
    else i

def sortSearch (n : Nat) (f : Nat → Bool) : Nat := searchLoop f (n + 1) 0 n

/-- the function returned for format 3, evaluated at `gid`; panics if the search finds nothing -/
def fd3Lookup (ends fdIdx : List Nat) (gid : Nat) : Outcome Nat :=
  let idx := sortSearch fdIdx.length fun i => gid < ends.getD i 0
  idx' "fdIdx[idx]" fdIdx idx
where idx' (site : String) (xs : List Nat) (i : Nat) : Outcome Nat := SfntV.idx site xs i

def mapOutcome (f : Nat → Outcome Nat) : List Nat → Outcome (List Nat)
  | [] => .ok []
  | x :: xs =>
    match f x with
    | .ok v => (match mapOutcome f xs with
      | .ok l => .ok (v :: l)
      | e => e)
    | .err e => .err e
    | .panic s => .panic s

/-- `readFDSelect(p, nGlyphs, nPrivate)` with the parser at cursor `c`, followed by the
evaluation of the returned function on every glyph `0 … nGlyphs-1` -/
def readFDSelect (data : Bytes) (c nGlyphs nPrivate : Nat) : Outcome (List Nat) :=
  match rd data c 1 with
  | none => .err "eof"
  | some fb =>
    let format := beVal fb
    if format = 0 then
      match rd data (c + 1) nGlyphs with
      | none => .err "eof"
      | some buf =>
        if buf.any (fun b => b.toNat ≥ nPrivate) then .err "invalid"
        else .ok (buf.map (·.toNat))
    else if format = 3 then
      match rd data (c + 1) 2 with
      | none => .err "eof"
      | some nb =>
        let nRanges := beVal nb
        if nGlyphs > 0 ∧ nRanges = 0 then .err "invalid"
        else
          match readFdRanges data nPrivate nRanges 0 (c + 3) 0 with
          | .err e => .err e
          | .panic s => .panic s
          | .ok rs =>
            match rd data (c + 3 + 3 * nRanges) 2 with
            | none => .err "eof"
            | some sb =>
              if beVal sb ≠ nGlyphs then .err "invalid"
              else
                let ends := (rs.drop 1).map (·.1) ++ [nGlyphs]
                let fdIdx := rs.map (·.2)
                mapOutcome (fd3Lookup ends fdIdx) (List.range nGlyphs)
    else .err "unsupported"

/-! ## Specification (TN5176 §19 "FDSelect") -/

/-- "The FDSelect associates an FD (Font DICT) with a glyph by specifying an FD index for that
glyph. […] Format 0: Card8 format (=0); Card8 fds[nGlyphs] — FD selector array. […]
Format 3: Card8 format (=3); Card16 nRanges; struct Range3[nRanges] {Card16 first — first glyph
index in range; Card8 fd — FD index for all glyphs in range}; Card16 sentinel — sentinel GID.
Each Range3 describes a group of sequential GIDs that have the same FD index. Each range
includes GIDs from the 'first' GID up to, but not including, the 'first' GID of the next range
element. […] The first range must have a 'first' GID of 0. A sentinel GID follows the last
range element and serves to delimit the last range in the array. (The sentinel GID is set equal
to the number of glyphs in the font.)"

The FD index of glyph `gid`, by a linear walk. -/
def specFDSelectAt (data : Bytes) (c nGlyphs : Nat) (gid : Nat) : Option Nat := do
  let format ← specNum data c 1
  if format = 0 then
    if gid < nGlyphs then specNum data (c + 1 + gid) 1 else none
  else if format = 3 then
    let nRanges ← specNum data (c + 1) 2
    let sentinel ← specNum data (c + 3 + 3 * nRanges) 2
    if sentinel ≠ nGlyphs ∨ (← specNum data (c + 3) 2) ≠ 0 then none
    else
      let rec walk : Nat → Nat → Option Nat
        | 0, _ => none
        | fuel+1, k => do
          let first ← specNum data (c + 3 + 3 * k) 2
          let next ← specNum data (c + 3 + 3 * (k + 1)) 2     -- next range's first, or the sentinel
          let fd ← specNum data (c + 3 + 3 * k + 2) 1
          if first ≤ gid ∧ gid < next then pure fd else walk fuel (k + 1)
      walk nRanges 0
  else none

def specFDSelect (data : Bytes) (c nGlyphs : Nat) : Option (List Nat) :=
  (List.range nGlyphs).mapM (specFDSelectAt data c nGlyphs)

end SfntV.Cff
