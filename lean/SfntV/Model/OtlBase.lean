/-
Shared base of the OpenType-layout (`otl`) models (C08): every layout structure is a sequence of
big-endian 16-bit words.  Encoders are modelled as producers of *words* (`List Nat`, each
explicitly reduced `% 65536` exactly where the Go code truncates with `byte(x>>8), byte(x)`), the
emitted bytes are `wordsToBytes`.  Decoders are modelled on `bytesToWords` of the input: the Go
readers only ever read whole 16-bit words at even distances from the start position and every short
read is the same error (unexpected EOF), so an odd trailing byte is unobservable.
Core-only (linked into the driver).
-/
import SfntV.Prelude.Bytes
import SfntV.Prelude.Outcome

namespace SfntV.Otl
open SfntV

/-- 16-bit truncation `uint16(x)` / `byte(x>>8), byte(x)` -/
@[inline] def w16 (n : Nat) : Nat := n % 65536

def wordsToBytes (ws : List Nat) : Bytes := ws.flatMap be16

def bytesToWords : Bytes → List Nat
  | a :: b :: r => (a.toNat * 256 + b.toNat) :: bytesToWords r
  | _ => []

/-- error classes of the Go readers -/
def eIO : String := "io"
def eInvalid : String := "invalid"
def eUnsupported : String := "unsupported"

/-- `p.ReadUint16()` at word position `i` -/
def rd (ws : List Nat) (i : Nat) : Outcome Nat :=
  match ws[i]? with
  | some v => .ok v
  | none => .err eIO

/-- `n` consecutive words starting at word position `i` (`ReadBytes(2n)` / a counted array) -/
def rdN (ws : List Nat) (i n : Nat) : Outcome (List Nat) :=
  if i + n ≤ ws.length then .ok ((ws.drop i).take n) else .err eIO

end SfntV.Otl
