/-
C02 (decoders are total): checked-index models of the GSUB subtable readers of
/repo/opentype/gtab/gsub.go as they stand in the working tree: `readGsub1_1` (79-95),
`readGsub1_2` (140-166), `readGsub2_1` (222-261), `readGsub3_1` (355-402), `readGsub4_1`
(497-584), `readGsub8_1` (723-774) and the dispatcher `readGsubSubtable` (30-50).

All readers take `(p *parser.Parser, subtablePos int64)` and are entered with the parser standing
behind the format word, i.e. at `subtablePos + 2`.  The parser is a plain byte view (theorem
C17): the models take the whole byte string `b` and the absolute position `pos` of the subtable;
`p.SeekPos` never fails on an in-memory reader, a read of `n` bytes at `q` is `readBytes site b q n`.
`coverage.Read` / `coverage.ReadSet` are the checked models `SfntV.Total.Otl.coverageRead` /
`readSet` (no abstract sub-reader).

Checked sites (labels `gsub.go:<line>#<expr>`, the positions of Generated/sites.json): every
slice expression `xs[:len(cov)]` (`sliceTo`), every `make` (`mkSlice`), every read `offs[i]`
(`idx`), every write `repl[i] = …`, `alt[i][j] = …`, `repl[i][j].In = …` (`chkIdx`: the index
against the length the slice was made with), `p.ReadBytes(4)` and the constant indices into its
result.  `p.ReadUint16Slice()` (parser.go:144-160) and `readGIDSlice` (gidslice.go:25-39) are
`readCounted`: count word, `make` charged with the count WHEN IT HAPPENS (before the values are
read), then one read per element.

`len(cov)` of a `coverage.Table` (a Go map) is the number of entries of the model's entry list:
`coverage.Read` writes strictly increasing glyph ids, so all keys are distinct.
`cov.Prune(size)` (coverage.go:50-60) is `pruneCov`: it keeps the entries with index `< size`;
cost: one step per map entry visited, one step and one element (`gg = append(gg, gid)`) per
entry removed.

Offsets (sequence / alternate-set / ligature-set / ligature / coverage offsets) may ALIAS one
record: every visit is charged.  uint16 arithmetic: `componentCount-1` is `(n + 65535) % 65536`
(a count of 0 is now rejected first; before that repair it became 65535: `read41Old`); the dispatcher key `10*meta.LookupType+format` is taken modulo 65536 (and since the dispatcher repair lookup types and formats above 9 are rejected, so the wrap is unreachable: `readSubtableOld` is the code before).

Values are those of the value-level models of C08 (`SfntV.Otl.Gsub`, Model/OtlGsub.lean), to
which Proofs/TotalGsubSub.lean bridges.  Cost: `steps` = parser reads + loop iterations,
`alloc` = slice elements + map entries + 1 per result object.
Core-only: linked into the driver.
-/
import SfntV.Model.TotalOtl
import SfntV.Model.OtlGsub

namespace SfntV.Total.GsubSub
open SfntV SfntV.Total SfntV.Total.Otl
open SfntV.Otl.Gsub (Lig Rev81 Sub lig41Total)

/-- cost of a sub-reader (which starts at zero) added to the running cost -/
def cadd (a b : Cost) : Cost := ⟨a.steps + b.steps, a.alloc + b.alloc⟩

/-- checked slice expression `xs[:n]` (panics unless `n ≤ len(xs)`; `cap = len` for slices
that come out of `make([]T, n)`) -/
def sliceTo (site : String) (xs : List α) (n : Nat) : Outcome (List α) :=
  if n ≤ xs.length then .ok (xs.take n) else .panic site

/-- checked index of a write `xs[i] = v` into a slice of length `len` -/
def chkIdx (site : String) (len i : Nat) : Outcome Unit :=
  if i < len then .ok () else .panic site

/-- `for j := range res { v := p.ReadUint16(); <chk j>; res[j] = v }`: `n` elements left, `q`
position, `j` index -/
def wordsLoop (site : String) (chk : Nat → Outcome Unit) (b : Bytes) :
    Nat → Nat → Nat → List Nat → Cost → Outcome (List Nat × Cost)
  | 0, _, _, acc, c => .ok (acc.reverse, c)
  | n+1, q, j, acc, c => do
    let v ← readU16 site b q
    chk j
    wordsLoop site chk b n (q + 2) (j + 1) (v :: acc) c.tick

def noChk : Nat → Outcome Unit := fun _ => .ok ()

/-- `p.ReadUint16Slice()` (parser.go:144-160) / `readGIDSlice(p)` (gidslice.go:25-39) at
position `q`: count, `make`, elements.  The position afterwards is `q + 2 + 2·len`. -/
def readCounted (sN sMk sV : String) (b : Bytes) (q : Nat) (c : Cost) :
    Outcome (List Nat × Cost) := do
  let n ← readU16 sN b q
  let c ← mkSlice sMk n c.tick
  wordsLoop sV noChk b n (q + 2) 0 [] c

/-- `p.ReadUint16Slice()` -/
def readU16Slice (b : Bytes) (q : Nat) (c : Cost) : Outcome (List Nat × Cost) :=
  readCounted "parser.go:145#ReadUint16" "parser.go:149#make([]uint16, n)"
    "parser.go:151#ReadUint16" b q c

/-- `readGIDSlice(p)` -/
def readGIDSlice (b : Bytes) (q : Nat) (c : Cost) : Outcome (List Nat × Cost) :=
  readCounted "gidslice.go:26#ReadUint16" "gidslice.go:30#make([]glyph.ID, n)"
    "gidslice.go:32#ReadUint16" b q c

/-- `cov.Prune(size)` (coverage.go:50-60) -/
def pruneCov (cov : List (Nat × Nat)) (size : Nat) (c : Cost) : List (Nat × Nat) × Cost :=
  let gone := (cov.filter (fun p => !(decide (p.2 < size)))).length
  (cov.filter (fun p => p.2 < size), (c.tick (cov.length + gone)).mem gone)

/-- `if len(cov) > len(xs) { cov.Prune(len(xs)) } else { xs = xs[:len(cov)] }` -/
def pruneStep (site : String) (cov : List (Nat × Nat)) (xs : List α) (c : Cost) :
    Outcome ((List (Nat × Nat) × List α) × Cost) :=
  if cov.length > xs.length then
    let r := pruneCov cov xs.length c
    .ok ((r.1, xs), r.2)
  else do
    let ys ← sliceTo site xs cov.length
    pure ((cov, ys), c)

/-- `for i, off := range offs { … rd i (base + off) … }`: one record per offset, every visit
charged (offsets may alias) -/
def rangeLoop {β : Type} (rd : Nat → Nat → Cost → Outcome (β × Cost)) (base : Nat) :
    List Nat → Nat → List β → Cost → Outcome (List β × Cost)
  | [], _, acc, c => .ok (acc.reverse, c)
  | off :: offs, i, acc, c => do
    let r ← rd i (base + off) c.tick
    rangeLoop rd base offs (i + 1) (r.1 :: acc) r.2

/-- `for i := 0; i < count; i++ { … offs[i] … }` (the offset is a checked index expression) -/
def idxLoop {β : Type} (site : String) (rd : Nat → Nat → Cost → Outcome (β × Cost)) (base : Nat)
    (offs : List Nat) : Nat → Nat → List β → Cost → Outcome (List β × Cost)
  | 0, _, acc, c => .ok (acc.reverse, c)
  | n+1, i, acc, c => do
    let off ← idx site offs i
    let r ← rd i (base + off) c.tick
    idxLoop site rd base offs n (i + 1) (r.1 :: acc) r.2

/-! ## GSUB 1.1 -/

/-- `readGsub1_1` (gsub.go:79-95): (glyphs of the set in reading order, delta) -/
def read11 (b : Bytes) (pos : Nat) : Outcome ((List Nat × Nat) × Cost) := do
  let buf ← readBytes "gsub.go:80#ReadBytes(4)" b (pos + 2) 4
  let covOff ← w16 "gsub.go:84#buf[0],buf[1]" buf 0
  let delta ← w16 "gsub.go:85#buf[2],buf[3]" buf 2
  let s ← readSet b (pos + covOff)
  pure ((s.1, delta), (cadd Cost.zero.tick s.2).mem 1)

/-! ## GSUB 1.2 -/

/-- `readGsub1_2` (gsub.go:140-166): (coverage entries, substitutes) -/
def read12 (b : Bytes) (pos : Nat) : Outcome ((List (Nat × Nat) × List Nat) × Cost) := do
  let covOff ← readU16 "gsub.go:141#ReadUint16" b (pos + 2)
  let subs ← readGIDSlice b (pos + 4) Cost.zero.tick
  let cov ← coverageRead b (pos + covOff)
  let r ← pruneStep "gsub.go:158#substituteGlyphIDs[:len(cov)]" cov.1 subs.1 (cadd subs.2 cov.2)
  pure (r.1, r.2.mem 1)

/-! ## GSUB 2.1 and 3.1 -/

/-- body of the loop of `readGsub2_1` (gsub.go:246-253): `repl[i], err = readGIDSlice(p)` -/
def seqRead21 (b : Bytes) (count : Nat) (i q : Nat) (c : Cost) : Outcome (List Nat × Cost) := do
  let r ← readGIDSlice b q c
  chkIdx "gsub.go:250#repl[i]" count i
  pure r

/-- body of the loop of `readGsub3_1` (gsub.go:379-394) -/
def seqRead31 (b : Bytes) (count : Nat) (i q : Nat) (c : Cost) : Outcome (List Nat × Cost) := do
  let n ← readU16 "gsub.go:383#ReadUint16" b q
  let c ← mkSlice "gsub.go:387#make([]glyph.ID, glyphCount)" n c.tick
  chkIdx "gsub.go:387#alt[i]" count i
  wordsLoop "gsub.go:389#ReadUint16"
    (fun j => do
      chkIdx "gsub.go:393#alt[i]" count i
      chkIdx "gsub.go:393#alt[i][j]" n j) b n (q + 2) 0 [] c

/-- the common frame of `readGsub2_1` / `readGsub3_1`: coverage offset, offset array, coverage,
prune / truncate, `make`, the loop over the offsets -/
def readSeqG (sU16 sSlice sMake sIdx : String)
    (rd : Nat → Nat → Nat → Cost → Outcome (List Nat × Cost)) (b : Bytes) (pos : Nat) :
    Outcome ((List (Nat × Nat) × List (List Nat)) × Cost) := do
  let covOff ← readU16 sU16 b (pos + 2)
  let offs ← readU16Slice b (pos + 4) Cost.zero.tick
  let cov ← coverageRead b (pos + covOff)
  let pr ← pruneStep sSlice cov.1 offs.1 (cadd offs.2 cov.2)
  let count := pr.1.2.length
  let c ← mkSlice sMake count pr.2
  let seqs ← idxLoop sIdx (rd count) pos pr.1.2 count 0 [] c
  pure ((pr.1.1, seqs.1), seqs.2.mem 1)

/-- `readGsub2_1` (gsub.go:222-261) -/
def read21 (b : Bytes) (pos : Nat) : Outcome ((List (Nat × Nat) × List (List Nat)) × Cost) :=
  readSeqG "gsub.go:223#ReadUint16" "gsub.go:240#sequenceOffsets[:len(cov)]"
    "gsub.go:244#make([][]glyph.ID, sequenceCount)" "gsub.go:246#sequenceOffsets[i]"
    (seqRead21 b) b pos

/-- `readGsub3_1` (gsub.go:355-402) -/
def read31 (b : Bytes) (pos : Nat) : Outcome ((List (Nat × Nat) × List (List Nat)) × Cost) :=
  readSeqG "gsub.go:356#ReadUint16" "gsub.go:373#alternateSetOffsets[:len(cov)]"
    "gsub.go:377#make([][]glyph.ID, alternateSetCount)" "gsub.go:379#alternateSetOffsets[i]"
    (seqRead31 b) b pos

/-! ## GSUB 4.1 -/

/-- one ligature (gsub.go:532-560): ligature glyph, componentCount, `componentCount-1` component
glyphs; `nsets = len(repl)`, `nligs = len(repl[i])`.  `fixed = true` is the code as it is now
(gsub.go:544-549: `componentCount == 0` is rejected with an InvalidFontError BEFORE the `make`);
`fixed = false` is the code before that repair, where the uint16 difference `componentCount-1`
wrapped to 65535 for a count of 0.  With the guard `(cc + 65535) % 65536 = cc - 1`. -/
def ligReadG (fixed : Bool) (b : Bytes) (nsets nligs i j q : Nat) (c : Cost) :
    Outcome (Lig × Cost) := do
  let out ← readU16 "gsub.go:536#ReadUint16" b q
  let cc ← readU16 "gsub.go:540#ReadUint16" b (q + 2)
  if fixed = true ∧ cc = 0 then .err "invalid" else
  let n := (cc + 65535) % 65536
  let c ← mkSlice "gsub.go:550#make([]glyph.ID, componentCount-1)" n (c.tick 2)
  let r ← wordsLoop "gsub.go:552#ReadUint16"
    (fun k => chkIdx "gsub.go:556#componentGlyphIDs[k]" n k) b n (q + 4) 0 [] c
  chkIdx "gsub.go:559#repl[i]" nsets i
  chkIdx "gsub.go:559#repl[i][j]" nligs j
  chkIdx "gsub.go:560#repl[i]" nsets i
  chkIdx "gsub.go:560#repl[i][j]" nligs j
  pure (⟨r.1, out⟩, r.2)

/-- one ligature set (gsub.go:520-561): ligature offsets, `make`, the ligatures -/
def ligSetReadG (fixed : Bool) (b : Bytes) (nsets i q : Nat) (c : Cost) :
    Outcome (List Lig × Cost) := do
  let offs ← readU16Slice b q c
  let c ← mkSlice "gsub.go:530#make([]Ligature, len(ligatureOffsets))" offs.1.length offs.2
  chkIdx "gsub.go:530#repl[i]" nsets i
  rangeLoop (ligReadG fixed b nsets offs.1.length i) q offs.1 0 [] c

/-- `readGsub4_1` up to and including the size computation (gsub.go:497-570): everything that
happens BEFORE the cap `total > 0xFFFF` is tested -/
def read41PreG (fixed : Bool) (b : Bytes) (pos : Nat) :
    Outcome ((List (Nat × Nat) × List (List Lig)) × Cost) := do
  let covOff ← readU16 "gsub.go:498#ReadUint16" b (pos + 2)
  let offs ← readU16Slice b (pos + 4) Cost.zero.tick
  let cov ← coverageRead b (pos + covOff)
  let pr ← pruneStep "gsub.go:515#ligatureSetOffsets[:len(cov)]" cov.1 offs.1 (cadd offs.2 cov.2)
  let nsets := pr.1.2.length
  let c ← mkSlice "gsub.go:518#make([][]Ligature, len(ligatureSetOffsets))" nsets pr.2
  let repl ← rangeLoop (ligSetReadG fixed b nsets) pos pr.1.2 0 [] c
  -- gsub.go:564-570: the two loops that add up `total`
  pure ((pr.1.1, repl.1), repl.2.tick (repl.1.length + (repl.1.map List.length).sum))

/-- `readGsub4_1` (gsub.go:497-584): the cap comes AFTER all reads and allocations -/
def read41G (fixed : Bool) (b : Bytes) (pos : Nat) :
    Outcome ((List (Nat × Nat) × List (List Lig)) × Cost) := do
  let r ← read41PreG fixed b pos
  if lig41Total r.1.2 > 0xFFFF then .err "invalid" else pure (r.1, r.2.mem 1)

/-- `readGsub4_1` before the cap, as it is in the working tree (zero component count rejected) -/
def read41Pre (b : Bytes) (pos : Nat) :
    Outcome ((List (Nat × Nat) × List (List Lig)) × Cost) := read41PreG true b pos

/-- `readGsub4_1` as it is in the working tree -/
def read41 (b : Bytes) (pos : Nat) : Outcome ((List (Nat × Nat) × List (List Lig)) × Cost) :=
  read41G true b pos

/-- `readGsub4_1` BEFORE the zero-count repair (kept only to state what the old code did) -/
def read41PreOld (b : Bytes) (pos : Nat) :
    Outcome ((List (Nat × Nat) × List (List Lig)) × Cost) := read41PreG false b pos

/-- `readGsub4_1` BEFORE the zero-count repair -/
def read41Old (b : Bytes) (pos : Nat) : Outcome ((List (Nat × Nat) × List (List Lig)) × Cost) :=
  read41G false b pos

/-! ## GSUB 8.1 -/

/-- `backtrack[i], err = coverage.Read(p, subtablePos+int64(offs))` -/
def covRead81 (site : String) (b : Bytes) (count : Nat) (i q : Nat) (c : Cost) :
    Outcome (List (Nat × Nat) × Cost) := do
  let r ← coverageRead b q
  chkIdx site count i
  pure (r.1, cadd c r.2)

/-- `readGsub8_1` (gsub.go:723-774) -/
def read81 (b : Bytes) (pos : Nat) : Outcome (Rev81 × Cost) := do
  let covOff ← readU16 "gsub.go:724#ReadUint16" b (pos + 2)
  let bo ← readU16Slice b (pos + 4) Cost.zero.tick
  let q1 := pos + 4 + 2 + 2 * bo.1.length
  let lo ← readU16Slice b q1 bo.2
  let q2 := q1 + 2 + 2 * lo.1.length
  let subs ← readGIDSlice b q2 lo.2
  let input ← coverageRead b (pos + covOff)
  let c ← mkSlice "gsub.go:746#make([]coverage.Table, len(backtrackCoverageOffsets))" bo.1.length
    (cadd subs.2 input.2)
  let back ← rangeLoop (covRead81 "gsub.go:748#backtrack[i]" b bo.1.length) pos bo.1 0 [] c
  let c ← mkSlice "gsub.go:753#make([]coverage.Table, len(lookaheadCoverageOffsets))" lo.1.length
    back.2
  let look ← rangeLoop (covRead81 "gsub.go:755#lookahead[i]" b lo.1.length) pos lo.1 0 [] c
  let pr ← pruneStep "gsub.go:764#substituteGlyphIDs[:len(input)]" input.1 subs.1 look.2
  pure (⟨pr.1.1, back.1, look.1, pr.1.2⟩, pr.2.mem 1)

/-! ## the dispatcher -/

/-- the keys of `gsubReaders` that belong to other groups (contextual lookups, extension) -/
def foreignKeys : List Nat := [51, 52, 53, 61, 62, 63, 71]

def withSub {α : Type} (f : α → Sub) (x : Outcome (α × Cost)) : Outcome (Sub × Cost) :=
  match x with
  | .ok r => .ok (f r.1, r.2.tick)
  | .err e => .err e
  | .panic s => .panic s

/-- the readers of this group behind a dispatcher key; a key of another group's reader gives
`err "foreign"` (not modelled here), a key that is not in `gsubReaders` gives `err "invalid"` -/
def dispatchKey (key : Nat) (b : Bytes) (pos : Nat) : Outcome (Sub × Cost) :=
  if key = 11 then withSub (fun r => .s11 r.1 r.2) (read11 b pos)
  else if key = 12 then withSub (fun r => .s12 r.1 r.2) (read12 b pos)
  else if key = 21 then withSub (fun r => .seq 2 r.1 r.2) (read21 b pos)
  else if key = 31 then withSub (fun r => .seq 3 r.1 r.2) (read31 b pos)
  else if key = 41 then withSub (fun r => .s41 r.1 r.2) (read41 b pos)
  else if key = 81 then withSub (fun r => .s81 r) (read81 b pos)
  else if foreignKeys.contains key then .err "foreign"
  else .err "invalid"

/-- `readGsubSubtable` (gsub.go:30-50) as it is in the working tree: format word,
`reader, ok := gsubReaders[10*meta.LookupType+format]` (uint16 arithmetic; a map read cannot
panic), then `if !ok || meta.LookupType > 9 || format > 9 { return invalid }` (gsub.go:42): the
values whose key would collide with a valid one are rejected.  `tp` is the uint16 lookup type.
`err "foreign"` now only stands for the VALID keys of the other groups' readers (lookup types
5, 6, 7 with their formats). -/
def readSubtable (tp : Nat) (b : Bytes) (pos : Nat) : Outcome (Sub × Cost) := do
  let format ← readU16 "gsub.go:36#ReadUint16" b pos
  let key := (10 * tp + format) % 65536
  if tp > 9 ∨ format > 9 then .err "invalid"
  else dispatchKey key b pos

/-- `readGsubSubtable` BEFORE the repair of the dispatcher (no guard on type and format): the
uint16 key wrapped and collided, e.g. lookup type 1 with format word 11 was read by
`readGsub2_1`.  Kept only to state what the old code did. -/
def readSubtableOld (tp : Nat) (b : Bytes) (pos : Nat) : Outcome (Sub × Cost) := do
  let format ← readU16 "gsub.go:36#ReadUint16" b pos
  dispatchKey ((10 * tp + format) % 65536) b pos

end SfntV.Total.GsubSub
