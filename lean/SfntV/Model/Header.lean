/-
Model of header/write.go (`Write`), header/checksum.go and header/tables.go (`Read`),
and the independent specification of a well-formed sfnt container (property C03).
Core-only: linked into the driver.
-/
import SfntV.Prelude.Bytes
import SfntV.Prelude.Outcome
import SfntV.Generated.Header

namespace SfntV.Header
open SfntV

/-! ## checksum (header/checksum.go) -/

def w32 (a b c d : UInt8) : UInt32 :=
  UInt32.ofNat (((a.toNat * 256 + b.toNat) * 256 + c.toNat) * 256 + d.toNat)

/-- big-endian words summed mod 2^32, the last partial word zero-padded -/
def cksum : Bytes → UInt32
  | a :: b :: c :: d :: rest => w32 a b c d + cksum rest
  | [a, b, c] => w32 a b c 0
  | [a, b] => w32 a b 0 0
  | [a] => w32 a 0 0 0
  | [] => 0

def padLen (n : Nat) : Nat := (4 - n % 4) % 4
def pad4 (b : Bytes) : Bytes := b ++ List.replicate (padLen b.length) 0

/-! ## the writer -/

/-- one entry of the Go map `tables`: name (any byte string) and data (`none` = nil slice) -/
structure Entry where
  name : Bytes
  data : Option Bytes
deriving Repr

def strBytes (s : String) : Bytes := s.toList.map fun c => UInt8.ofNat c.toNat

def headTag : Bytes := strBytes "head"

/-- `ttTableOrder[name]` (0 when absent) -/
def prio (name : Bytes) : Nat :=
  match Gen.ttTableOrder.find? (fun e => strBytes e.1 == name) with
  | some e => e.2
  | none => 0

/-- bytewise lexicographic order on names (Go string `<`, `bytes.Compare`) -/
def nameLt : Bytes → Bytes → Bool
  | [], [] => false
  | [], _ :: _ => true
  | _ :: _, [] => false
  | a :: as, b :: bs => if a < b then true else if b < a then false else nameLt as bs

/-- the order in which table bodies are laid out: priority descending, then name ascending -/
def layoutLe (a b : Bytes × Bytes) : Bool :=
  if prio a.1 ≠ prio b.1 then prio a.1 > prio b.1 else !(nameLt b.1 a.1)

structure Rec where
  tag : Bytes      -- 4 bytes; `[0,0,0,0]` for the unfilled records
  sum : UInt32
  off : Nat
  len : Nat
deriving Repr

def Rec.zero : Rec := ⟨[0, 0, 0, 0], 0, 0, 0⟩

def recLe (a b : Rec) : Bool := !(nameLt b.tag a.tag)

def Rec.bytes (r : Rec) : Bytes := r.tag ++ be32 r.sum.toNat ++ be32 r.off ++ be32 r.len

/-- `clearChecksum`: zero bytes 8..11 -/
def clearAdj (d : Bytes) : Bytes := d.take 8 ++ [0, 0, 0, 0] ++ d.drop 12
/-- `patchChecksum` -/
def patchAdj (d : Bytes) (v : UInt32) : Bytes := d.take 8 ++ be32 v.toNat ++ d.drop 12

/-- `bits.Len(uint(n)) - 1` for `n ≥ 1` -/
def entrySelector (n : Nat) : Nat := Nat.log2 n

/-- the records in layout order, first offset `o` -/
def mkRecs (o : Nat) : List (Bytes × Bytes) → List Rec
  | [] => []
  | t :: r => ⟨t.1, cksum t.2, o, t.2.length⟩ :: mkRecs (o + 4 * ((t.2.length + 3) / 4)) r

def sumRecs (rs : List Rec) : UInt32 := rs.foldl (fun s r => s + r.sum) 0

structure Written where
  header : Bytes                    -- offset table + directory
  bodies : List (Bytes × Bytes)     -- (name, final data) in layout order

def Written.bytes (w : Written) : Bytes := w.header ++ w.bodies.flatMap (fun t => pad4 t.2)

/-- the tables that are written: non-nil data and a 4-byte name -/
def named (ts : List Entry) : List (Bytes × Bytes) :=
  ts.filterMap fun e =>
    match e.data with
    | some d => if e.name.length = 4 then some (e.name, d) else none
    | none => none

/-- apply `f` to the data of the `head` table -/
def mapHead (f : Bytes → Bytes) (l : List (Bytes × Bytes)) : List (Bytes × Bytes) :=
  l.map fun t => if t.1 == headTag then (t.1, f t.2) else t

def hdrBytes (scaler n : Nat) : Bytes :=
  let es := entrySelector n
  be32 scaler ++ be16 n ++ be16 (2 ^ (es + 4)) ++ be16 es ++ be16 (16 * (n - 2 ^ es))

/-- offset table and directory (records sorted by tag) for bodies in layout order -/
def headerOf (scaler : Nat) (order : List (Bytes × Bytes)) : Bytes :=
  let n := order.length
  hdrBytes scaler n ++ ((mkRecs (12 + 16 * n) order).mergeSort recLe).flatMap Rec.bytes

/-- `header.Write` (after the repairs bbc5cfd, bb91c5a, 251f595): all bytes it hands to a
writer that accepts everything. -/
def write (scaler : Nat) (ts : List Entry) : Outcome Written :=
  let order := (named ts).mergeSort layoutLe
  if order.length = 0 then .err "no tables" else
  match order.find? (fun t => t.1 == headTag) with
  | some (_, d) =>
    if d.length < 12 then .err "head too short" else
    let order0 := mapHead clearAdj order
    let headerBytes := headerOf scaler order0
    let total := sumRecs (mkRecs (12 + 16 * order0.length) order0) + cksum headerBytes
    let adj := UInt32.ofNat Gen.checksumMagic - total
    .ok ⟨headerBytes, mapHead (fun d => patchAdj d adj) order0⟩
  | none => .ok ⟨headerOf scaler order, order⟩

/-! ## the specification: a well-formed sfnt container (OpenType "Organization of an
OpenType Font": table directory, alignment, checksums, checksumAdjustment) -/

def rd16 (b : Bytes) (off : Nat) : Nat := beVal ((b.drop off).take 2)
def rd32 (b : Bytes) (off : Nat) : Nat := beVal ((b.drop off).take 4)

structure DirEnt where
  tag : Bytes
  sum : Nat
  off : Nat
  len : Nat
deriving Repr, DecidableEq

/-- directory entries as the bytes declare them -/
def specDir (f : Bytes) : List DirEnt :=
  (List.range (rd16 f 4)).map fun i =>
    let o := 12 + 16 * i
    ⟨(f.drop o).take 4, rd32 f (o + 4), rd32 f (o + 8), rd32 f (o + 12)⟩

def strictlySorted : List Bytes → Bool
  | a :: b :: r => nameLt a b && strictlySorted (b :: r)
  | _ => true

def disjointAll : List DirEnt → Bool
  | [] => true
  | e :: r => r.all (fun x => e.off + 4 * ((e.len + 3) / 4) ≤ x.off || x.off + 4 * ((x.len + 3) / 4) ≤ e.off)
              && disjointAll r

def tableBytes (f : Bytes) (e : DirEnt) : Bytes := (f.drop e.off).take e.len

/-- checksum a directory entry must carry: that of its table, for `head` with the
checksumAdjustment field taken as zero -/
def entrySum (f : Bytes) (e : DirEnt) : UInt32 :=
  let d := tableBytes f e
  if e.tag == headTag then cksum (clearAdj d) else cksum d

/-- The clauses of well-formedness, each returning the name of the first violated clause. -/
def wellFormedErr (f : Bytes) : Option String :=
  let n := rd16 f 4
  let dir := specDir f
  if f.length < 12 + 16 * n then some "directory-outside-file"
  else if n = 0 then some "no-tables"
  else if !(strictlySorted (dir.map (·.tag))) then some "directory-not-sorted"
  else if rd16 f 6 ≠ 16 * 2 ^ Nat.log2 n then some "searchRange"
  else if rd16 f 8 ≠ Nat.log2 n then some "entrySelector"
  else if rd16 f 10 ≠ 16 * n - 16 * 2 ^ Nat.log2 n then some "rangeShift"
  else if !(dir.all fun e => e.off % 4 == 0) then some "alignment"
  else if !(dir.all fun e => 12 + 16 * n ≤ e.off && e.off + e.len ≤ f.length) then some "table-outside-file"
  else if !(disjointAll dir) then some "overlap"
  else if !(dir.all fun e => (entrySum f e).toNat == e.sum) then some "table-checksum"
  else if dir.any (fun e => e.tag == headTag) && (cksum f).toNat ≠ Gen.checksumMagic then some "file-checksum"
  else none

def WellFormed (f : Bytes) : Prop := wellFormedErr f = none
instance (f : Bytes) : Decidable (WellFormed f) := by unfold WellFormed; infer_instance

/-- independent directory reader: scaler type and the tables by tag -/
def specParse (f : Bytes) : Option (Nat × List (Bytes × Bytes)) :=
  if f.length < 12 then none
  else
    let dir := specDir f
    if dir.all (fun e => e.off + e.len ≤ f.length) then
      some (rd32 f 0, dir.map fun e => (e.tag, tableBytes f e))
    else none

/-! ## model of `header.Read` (header/tables.go) on an in-memory file -/

def scalerOk (s : Nat) : Bool := s == 0x00010000 || s == 0x4F54544F || s == 0x74727565

def insertBy (le : α → α → Bool) (x : α) : List α → List α
  | [] => [x]
  | y :: ys => if le x y then x :: y :: ys else y :: insertBy le x ys

def overlapping : List (Nat × Nat) → Bool
  | a :: b :: r => a.2 > b.1 || overlapping (b :: r)
  | _ => false

/-- returns scaler type and (name, offset, length) records in directory order -/
def read (maxTables : Nat) (f : Bytes) : Outcome (Nat × List (Bytes × Nat × Nat)) :=
  if f.length < 6 then .err "io" else
  let scaler := rd32 f 0
  let n := rd16 f 4
  if !scalerOk scaler then .err "unsupported" else
  if n > maxTables then .err "invalid" else
  let rec go (i : Nat) (fuel : Nat) (acc : List (Bytes × Nat × Nat)) : Outcome (List (Bytes × Nat × Nat)) :=
    match fuel with
    | 0 => .ok acc.reverse
    | fuel+1 =>
      let o := 12 + 16 * i
      if f.length < o + 16 then .err "io" else
      let name := (f.drop o).take 4
      if name.any (fun b => b < 0x20 || b > 0x7e) then .err "invalid" else
      if acc.any (fun r => r.1 == name) then .err "invalid" else
      go (i + 1) fuel ((name, rd32 f (o + 8), rd32 f (o + 12)) :: acc)
  match go 0 n [] with
  | .ok recs =>
    if recs.isEmpty then .err "invalid" else
    let cov := (recs.map fun r => (r.2.1, (r.2.1 + r.2.2) % 4294967296)).mergeSort
      (fun a b => if a.1 ≠ b.1 then a.1 < b.1 else a.2 ≤ b.2)
    match cov.head?, cov.getLast? with
    | some first, some last =>
      if first.1 < 12 then .err "invalid"
      else if overlapping cov then .err "invalid"
      else if last.2 = 0 then .err "io"            -- ReadAt at offset -1
      else if last.2 - 1 ≥ f.length then .err "invalid"
      else .ok (scaler, recs)
    | _, _ => .err "invalid"
  | .err e => .err e
  | .panic s => .panic s

end SfntV.Header
