/-
Model of cff/charset.go (`encodeCharset`, `readCharset`) and the TN5176 §13 specification of
charsets (formats 0, 1, 2).  Property C13.  Core-only.
-/
import SfntV.Model.CffIndex

namespace SfntV.Cff
open SfntV

/-! ## `encodeCharset` -/

/-- maximal runs of consecutive names `(first, length)`:
`if names[i] != names[i-1]+1 { runs = append(runs, i) }` -/
def groupRuns : List Int → List (Int × Nat)
  | [] => []
  | x :: xs =>
    match groupRuns xs with
    | (f, n) :: rs => if f = x + 1 then (x, n + 1) :: rs else (x, 1) :: (f, n) :: rs
    | [] => [(x, 1)]

/-- number of format-1 ranges needed for a run of `d` names: one, plus one for every further
256 (`for d > 256 { length1 += 3; d -= 256 }`) -/
def chunksOf (d : Nat) : Nat := if d = 0 then 1 else (d + 255) / 256

/-- `byte(name >> 8), byte(name)` of an int32 -/
def nameBytes (name : Int) : Bytes :=
  [UInt8.ofNat ((name / 256) % 256).toNat, UInt8.ofNat (name % 256).toNat]

/-- format 1 ranges for one run: chunks of at most 256 names (fuel = length) -/
def fmt1Run : Nat → Int → Nat → Bytes
  | 0, _, _ => []
  | fuel+1, name, length =>
    if length > 0 then
      let chunk := if length > 256 then 256 else length
      nameBytes name ++ [UInt8.ofNat (chunk - 1)] ++ fmt1Run fuel (name + chunk) (length - chunk)
    else []

def fmt2Run (name : Int) (length : Nat) : Bytes :=
  let d := length - 1
  nameBytes name ++ [UInt8.ofNat (d / 256 % 256), UInt8.ofNat (d % 256)]

/-- `encodeCharset(names)`; an empty slice panics at `names[0]`.  For a font with the single
glyph .notdef the Go code sees one empty run (lengths 4 and 5 for formats 1 and 2), we see no
run (lengths 1 and 1); format 0 (length 1) is chosen either way. -/
def encodeCharset (names : List Int) : Outcome Bytes :=
  match names with
  | [] => .panic "index out of range"
  | n0 :: tl =>
    if n0 ≠ 0 then .err "other"
    else if tl.any (fun x => x < 0 ∨ x > 0xFFFF) then .err "other"   -- "invalid charset entry"
    else
      let runs := groupRuns tl
      let length0 := 1 + 2 * tl.length
      let length1 := 1 + 3 * (runs.map fun r => chunksOf r.2).sum
      let length2 := 1 + 4 * runs.length
      if length0 ≤ length1 ∧ length0 ≤ length2 then
        .ok (0 :: tl.flatMap nameBytes)
      else if length1 < length2 then
        .ok (1 :: runs.flatMap fun r => fmt1Run r.2 r.1 r.2)
      else
        .ok (2 :: runs.flatMap fun r => fmt2Run r.1 r.2)

/-! ## `readCharset` -/

def readU16s (data : Bytes) : Nat → Nat → Outcome (List Int)
  | 0, _ => .ok []
  | k+1, c =>
    match rd data c 2 with
    | none => .err "eof"
    | some b =>
      match readU16s data k (c + 2) with
      | .ok l => .ok ((beVal b : Int) :: l)
      | e => e

/-- names `first, first+1, …` (`n` of them) -/
def nameRange : Nat → Nat → List Int
  | _, 0 => []
  | first, n+1 => (first : Int) :: nameRange (first + 1) n

/-- the range loops of formats 1 and 2; `w` = width of the `nLeft` field, `need` = names still
missing; result: names and the cursor afterwards.  Fuel: every range adds at least one name. -/
def readRanges (data : Bytes) (w : Nat) : Nat → Nat → Nat → Outcome (List Int × Nat)
  | _, 0, c => .ok ([], c)
  | 0, _ + 1, _ => .err "fuel"
  | fuel+1, need+1, c =>
    match rd data c 2 with
    | none => .err "eof"
    | some fb =>
      match rd data (c + 2) w with
      | none => .err "eof"
      | some nb =>
        let first := beVal fb
        let nLeft := beVal nb
        -- `code > 0xFFFF` inside the append loop, or too many names in the end
        if first + nLeft > 0xFFFF ∨ nLeft + 1 > need + 1 then .err "other"
        else
          match readRanges data w fuel (need + 1 - (nLeft + 1)) (c + 2 + w) with
          | .ok (l, c') => .ok (nameRange first (nLeft + 1) ++ l, c')
          | e => e

/-- `readCharset(p, nGlyphs)` with the parser at cursor `c`: the names including the leading 0
and the cursor afterwards -/
def readCharset (data : Bytes) (c nGlyphs : Nat) : Outcome (List Int × Nat) :=
  if nGlyphs < 1 ∨ nGlyphs ≥ 0x10000 then .err "other"
  else
    match rd data c 1 with
    | none => .err "eof"
    | some fb =>
      let format := beVal fb
      if format = 0 then
        match readU16s data (nGlyphs - 1) (c + 1) with
        | .ok l => .ok (0 :: l, c + 1 + 2 * (nGlyphs - 1))
        | .err e => .err e
        | .panic s => .panic s
      else if format = 1 ∨ format = 2 then
        match readRanges data format (nGlyphs - 1) (nGlyphs - 1) (c + 1) with
        | .ok (l, c') => .ok (0 :: l, c')
        | .err e => .err e
        | .panic s => .panic s
      else .err "other"

/-! ## Specification (TN5176 §13 "Charsets") -/

/-- "Charset data is located via the offset operand to the charset operator in the Top DICT.
Each charset is described by a format-type identifier byte followed by format-specific data.
[…] Format 0: Card8 format (=0); SID glyph[nGlyphs-1] — Glyph name array. […] Format 1:
Card8 format (=1); struct Range1[<varies>]: SID first — first glyph in range; Card8 nLeft —
glyphs left in range (excluding first). […] Format 2: as format 1 with Card16 nLeft. […]
the .notdef glyph (GID 0) is omitted: by definition its SID/CID is 0. The number of ranges
is not given explicitly but is determined by the number of glyphs."

Written as a function of the glyph index: the SID/CID of glyph `gid` (`1 ≤ gid`). -/
def specCharsetAt (data : Bytes) (c : Nat) (gid : Nat) : Option Nat := do
  let format ← specNum data c 1
  if gid = 0 then pure 0
  else if format = 0 then specNum data (c + 1 + 2 * (gid - 1)) 2
  else if format = 1 ∨ format = 2 then
    -- walk the ranges until the one containing glyph `gid`
    let rec walk : Nat → Nat → Nat → Option Nat
      | 0, _, _ => none
      | fuel+1, pos, firstGid => do
        let first ← specNum data pos 2
        let nLeft ← specNum data (pos + 2) format
        if gid ≤ firstGid + nLeft then pure (first + (gid - firstGid))
        else walk fuel (pos + 2 + format) (firstGid + nLeft + 1)
    walk gid (c + 1) 1
  else none

def specCharset (data : Bytes) (c nGlyphs : Nat) : Option (List Nat) :=
  (List.range nGlyphs).mapM (specCharsetAt data c)

end SfntV.Cff
